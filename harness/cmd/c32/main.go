// C32 harness: geojson marshal / unmarshal through encoding/json and geojson.Unmarshal, and
// AddFeatures.FillFromGeoJSON + Apply on an empty world. Coordinates are E7 integers n, used as the
// float64 n/1e7 (an exactly representable decimal, so JSON number text round-trips); everything
// is compared at E7.
package main

import (
	"bytes"
	"encoding/json"
	"fmt"
	"math"
	"math/big"
	"sort"
	"strings"

	"diagonal.works/b6"
	"diagonal.works/b6/geojson"
	"diagonal.works/b6/ingest"
	"github.com/golang/geo/r3"
	"github.com/golang/geo/s2"
	"verifharness/hx"
)

// ---- generated geometry (E7 integers) ----------------------------------------------------------

type pos struct{ lat, lng int64 }

type geom struct {
	typ   string
	pt    pos
	line  []pos     // MultiPoint, LineString
	rings [][]pos   // MultiLineString, Polygon
	polys [][][]pos // MultiPolygon
}

func posTree(p pos) string { return fmt.Sprintf("[%d,%d]", p.lat, p.lng) }

func listTree[T any](xs []T, f func(T) string) string {
	ss := make([]string, len(xs))
	for i, x := range xs {
		ss[i] = f(x)
	}
	return "[" + strings.Join(ss, ",") + "]"
}

func lineTree(l []pos) string    { return listTree(l, posTree) }
func ringsTree(r [][]pos) string { return listTree(r, lineTree) }

func (g geom) tree() string {
	switch g.typ {
	case "Point":
		return posTree(g.pt)
	case "MultiPoint", "LineString":
		return lineTree(g.line)
	case "MultiLineString", "Polygon":
		return ringsTree(g.rings)
	default:
		return listTree(g.polys, ringsTree)
	}
}

func (g geom) String() string { return g.typ + ":" + g.tree() }

func deg(n int64) float64 { return float64(n) / 1e7 }

// atom <-> float64: E7 integers by default; the `bits` op switches both to IEEE bit patterns
var toFloat = deg
var fromFloat = e7

func coordinate(p pos) geojson.Coordinate {
	return geojson.Coordinate{Lat: toFloat(p.lat), Lng: toFloat(p.lng)}
}

func coordinates(l []pos) []geojson.Coordinate {
	cs := make([]geojson.Coordinate, len(l))
	for i, p := range l {
		cs[i] = coordinate(p)
	}
	return cs
}

func (g geom) goValue() geojson.Coordinates {
	switch g.typ {
	case "Point":
		return geojson.Point(coordinate(g.pt))
	case "MultiPoint":
		return geojson.MultiPoint(coordinates(g.line))
	case "LineString":
		return geojson.LineString(coordinates(g.line))
	case "MultiLineString", "Polygon":
		rs := make([][]geojson.Coordinate, len(g.rings))
		for i, r := range g.rings {
			rs[i] = coordinates(r)
		}
		if g.typ == "Polygon" {
			return geojson.Polygon(rs)
		}
		return geojson.MultiLineString(rs)
	default:
		ps := make([][][]geojson.Coordinate, len(g.polys))
		for i, p := range g.polys {
			ps[i] = make([][]geojson.Coordinate, len(p))
			for j, r := range p {
				ps[i][j] = coordinates(r)
			}
		}
		return geojson.MultiPolygon(ps)
	}
}

func e7(x float64) int64 { return int64(math.Round(x * 1e7)) }

func coordTree(c geojson.Coordinate) string {
	return fmt.Sprintf("[%d,%d]", fromFloat(c.Lat), fromFloat(c.Lng))
}

// renderGo renders a decoded geojson.Geometry in the model's form. The type name is that of the Go value
// held in Coordinates; a Type string that disagrees with it is appended.
func renderGo(g geojson.Geometry) string {
	cs := func(l []geojson.Coordinate) string { return listTree(l, coordTree) }
	css := func(l [][]geojson.Coordinate) string { return listTree(l, cs) }
	name, tree := "", ""
	switch c := g.Coordinates.(type) {
	case geojson.Point:
		name, tree = "Point", coordTree(geojson.Coordinate(c))
	case geojson.MultiPoint:
		name, tree = "MultiPoint", cs(c)
	case geojson.LineString:
		name, tree = "LineString", cs(c)
	case geojson.MultiLineString:
		name, tree = "MultiLineString", css(c)
	case geojson.Polygon:
		name, tree = "Polygon", css(c)
	case geojson.MultiPolygon:
		name, tree = "MultiPolygon", listTree(c, css)
	default:
		return "err"
	}
	if g.Type != name {
		return name + ":" + tree + "!type=" + g.Type
	}
	return name + ":" + tree
}

// decimal text of n/1e7
func dec(n int64) string {
	neg := n < 0
	if neg {
		n = -n
	}
	s := fmt.Sprintf("%d.%07d", n/10000000, n%10000000)
	s = strings.TrimRight(s, "0")
	s = strings.TrimSuffix(s, ".")
	if neg {
		s = "-" + s
	}
	return s
}

// jsonTree converts a decoded JSON value (UseNumber) into the tree form with E7 integers.
func jsonTree(v interface{}) string {
	switch x := v.(type) {
	case json.Number:
		r, ok := new(big.Rat).SetString(string(x))
		if !ok {
			return "x"
		}
		r.Mul(r, big.NewRat(10000000, 1))
		if !r.IsInt() {
			return "x"
		}
		return r.Num().String()
	case []interface{}:
		return listTree(x, jsonTree)
	case nil:
		return "null"
	}
	return "x"
}

// jsonForm renders the JSON text of a geometry as `Type:tree` (positions in JSON order).
func jsonForm(text []byte) string {
	d := json.NewDecoder(bytes.NewReader(text))
	d.UseNumber()
	var m map[string]interface{}
	if err := d.Decode(&m); err != nil {
		return "err"
	}
	t, _ := m["type"].(string)
	keys := hx.SortedKeys(m)
	if len(keys) != 2 || keys[0] != "coordinates" || keys[1] != "type" {
		return "err"
	}
	return t + ":" + jsonTree(m["coordinates"])
}

func decodeBoth(text []byte) string {
	a := hx.Recover(func() string {
		var g geojson.Geometry
		if err := json.Unmarshal(text, &g); err != nil {
			return "err"
		}
		return renderGo(g)
	})
	b := hx.Recover(func() string {
		g, err := geojson.Unmarshal(text)
		if err != nil {
			return "err"
		}
		if gg, ok := g.(*geojson.Geometry); ok {
			return renderGo(*gg)
		}
		return "err"
	})
	return a + " " + b
}

// ---- generators --------------------------------------------------------------------------------

func randPos(r *hx.Rand) pos {
	switch r.Intn(12) {
	case 0:
		return pos{[]int64{0, 1, -1, 800000000, -800000000}[r.Intn(5)], []int64{0, 1, -1, 1790000000, -1790000000}[r.Intn(5)]}
	case 1:
		return pos{int64(r.Intn(1600)-800) * 1000000, int64(r.Intn(3580)-1790) * 1000000} // whole tenths of a degree
	default:
		return pos{int64(r.Uint64()%1600000001) - 800000000, int64(r.Uint64()%3580000001) - 1790000000}
	}
}

func randLine(r *hx.Rand, n int) []pos {
	l := make([]pos, n)
	p := randPos(r)
	if p.lat > 700000000 {
		p.lat = 700000000
	}
	for i := range l {
		l[i] = p
		p = pos{p.lat + int64(r.Intn(200001)) - 100000, p.lng + int64(r.Intn(200001)) - 100000}
	}
	return l
}

// star-shaped ring around (lat0,lng0); nearly regular so that a disc of radius 0.55*radius lies inside
func ring(r *hx.Rand, lat0, lng0 int64, radius float64, n int) []pos {
	for {
		ps := ringOnce(r, lat0, lng0, radius, n)
		if wellSeparated(ps) {
			return ps
		}
		radius *= 1.5 // resample, larger: E7 rounding must not merge vertices or flatten the ring
	}
}

// wellSeparated: the E7 positions of the ring (closing position aside) are pairwise at least 8 units apart and
// the ring spans at least 20 units in both directions.
func wellSeparated(ps []pos) bool {
	n := len(ps)
	if n > 1 && ps[0] == ps[n-1] {
		n--
	}
	minLat, maxLat, minLng, maxLng := ps[0].lat, ps[0].lat, ps[0].lng, ps[0].lng
	for i := 0; i < n; i++ {
		for j := i + 1; j < n; j++ {
			dl, dg := ps[i].lat-ps[j].lat, ps[i].lng-ps[j].lng
			if dl*dl+dg*dg < 64 {
				return false
			}
		}
		minLat, maxLat = min(minLat, ps[i].lat), max(maxLat, ps[i].lat)
		minLng, maxLng = min(minLng, ps[i].lng), max(maxLng, ps[i].lng)
	}
	return maxLat-minLat >= 20 && maxLng-minLng >= 20
}

func ringOnce(r *hx.Rand, lat0, lng0 int64, radius float64, n int) []pos {
	ps := make([]pos, n)
	phase := float64(r.Intn(360)) * math.Pi / 180
	for i := range ps {
		step := 2 * math.Pi / float64(n)
		a := phase + step*(float64(i)+0.1*(float64(r.Intn(200))/100-1))
		rad := radius * (0.8 + 0.2*float64(r.Intn(1000))/1000)
		ps[i] = pos{lat0 + int64(rad*math.Sin(a)), lng0 + int64(rad*math.Cos(a))}
	}
	if r.Bool() { // GeoJSON does not promise an orientation
		for i, j := 0, len(ps)-1; i < j; i, j = i+1, j-1 {
			ps[i], ps[j] = ps[j], ps[i]
		}
	}
	if r.Chance(3, 4) { // RFC 7946 rings repeat the first position; b6's own tests leave it out
		ps = append(ps, ps[0])
	}
	return ps
}

// bigRing: a nearly regular star-shaped ring of angular radius theta (degrees, 0.9..1.0 of it per vertex) around
// (lat0,lng0), laid out on the sphere (great-circle destination formula), positions rounded to E7. theta < 90:
// the ring bounds a cap-like region around the centre; theta > 90: around the antipode (the ring "wound
// backwards" around the centre covers more than half the sphere).
func bigRing(r *hx.Rand, lat0, lng0 int64, theta float64, n int) []pos {
	ps := make([]pos, n)
	phi1, lam1 := deg(lat0)*math.Pi/180, deg(lng0)*math.Pi/180
	phase := float64(r.Intn(360)) * math.Pi / 180
	for i := range ps {
		beta := phase + 2*math.Pi/float64(n)*(float64(i)+0.1*(float64(r.Intn(200))/100-1))
		delta := theta * (0.9 + 0.1*float64(r.Intn(1000))/1000) * math.Pi / 180
		var lat, lng float64
		for {
			sinLat := math.Sin(phi1)*math.Cos(delta) + math.Cos(phi1)*math.Sin(delta)*math.Cos(beta)
			lat = math.Asin(sinLat)
			lng = lam1 + math.Atan2(math.Sin(beta)*math.Sin(delta)*math.Cos(phi1), math.Cos(delta)-math.Sin(phi1)*sinLat)
			if math.Abs(lat) < 88*math.Pi/180 {
				break
			}
			beta += 0.05 // keep clear of the poles
		}
		lngDeg := math.Mod(lng*180/math.Pi+540, 360) - 180
		if lngDeg > 179.9 {
			lngDeg = 179.9
		} else if lngDeg < -179.9 {
			lngDeg = -179.9
		}
		ps[i] = pos{e7(lat * 180 / math.Pi), e7(lngDeg)}
	}
	if r.Bool() {
		for i, j := 0, len(ps)-1; i < j; i, j = i+1, j-1 {
			ps[i], ps[j] = ps[j], ps[i]
		}
	}
	if r.Chance(3, 4) {
		ps = append(ps, ps[0])
	}
	return ps
}

// sizedPolygon: polygons from a few metres to more than half the sphere. The small classes (planar star rings,
// possibly with holes) take their centre as given; the spherical ones sit near the equator.
func sizedPolygon(c *hx.Ctx, lat0, lng0 int64, allowBig bool) [][]pos {
	r := c.Rand
	k := r.Intn(10)
	if !allowBig && k >= 6 {
		k = r.Intn(6)
	}
	switch {
	case k == 0:
		c.Note("polygon-size:tiny(metres)")
		return [][]pos{ring(r, lat0, lng0, float64(60+r.Intn(600)), 3+r.Intn(5))}
	case k <= 3:
		c.Note("polygon-size:city")
		return randPolygon(c, lat0, lng0, float64(10000+r.Intn(2000000)))
	case k <= 5:
		c.Note("polygon-size:country")
		return randPolygon(c, lat0/2, lng0*8/10, float64(10000000+r.Intn(60000000)))
	}
	clat, clng := int64(r.Intn(400000001))-200000000, lng0
	switch k {
	case 6:
		c.Note("polygon-size:continent")
		return [][]pos{bigRing(r, clat, clng, 15+float64(r.Intn(30)), 6+r.Intn(6))}
	case 7, 8:
		c.Note("polygon-size:near-hemisphere(area in (pi,2pi))")
		return [][]pos{bigRing(r, clat, clng, 72+float64(r.Intn(17)), 8+r.Intn(6))}
	default:
		c.Note("polygon-size:more-than-hemisphere-as-drawn")
		return [][]pos{bigRing(r, clat, clng, 101+float64(r.Intn(30)), 8+r.Intn(6))}
	}
}

func randPolygon(c *hx.Ctx, lat0, lng0 int64, radius float64) [][]pos {
	r := c.Rand
	nh := 0
	if r.Chance(1, 2) && radius >= 3000 { // a hole is 3-10 % of the radius: below ~90 E7 units it degenerates
		nh = 1 + r.Intn(3)
	}
	n := 3 + r.Intn(7)
	if nh > 0 && n < 6 {
		n = 6
	}
	rs := [][]pos{ring(r, lat0, lng0, radius, n)}
	for h := 0; h < nh; h++ {
		a := float64(h)*2*math.Pi/3 + 0.4
		rs = append(rs, ring(r, lat0+int64(0.3*radius*math.Sin(a)), lng0+int64(0.3*radius*math.Cos(a)), radius*(0.03+0.07*float64(r.Intn(100))/100), 3+r.Intn(5)))
	}
	c.Note(fmt.Sprintf("polygon:holes=%d", nh))
	return rs
}

func randGeom(c *hx.Ctx, weird bool) geom {
	r := c.Rand
	types := []string{"Point", "MultiPoint", "LineString", "MultiLineString", "Polygon", "MultiPolygon"}
	g := geom{typ: types[r.Intn(6)]}
	if weird && (g.typ == "MultiPoint" || g.typ == "MultiLineString") && r.Chance(2, 3) {
		g.typ = []string{"Point", "LineString", "Polygon", "MultiPolygon"}[r.Intn(4)] // imports: fewer of the dropped kinds
	}
	switch g.typ {
	case "Point":
		g.pt = randPos(r)
	case "MultiPoint":
		g.line = randLine(r, r.Intn(5))
	case "LineString":
		n := 2 + r.Intn(6)
		if weird && r.Chance(1, 12) {
			n = r.Intn(2)
			c.Note("degenerate:linestring<2")
		}
		g.line = randLine(r, n)
		if r.Chance(1, 6) && n >= 3 {
			g.line[n-1] = g.line[0] // a closed line string
		}
	case "MultiLineString":
		g.rings = make([][]pos, r.Intn(4))
		for i := range g.rings {
			g.rings[i] = randLine(r, 2+r.Intn(4))
		}
	case "Polygon":
		p := randPos(r)
		if p.lat > 600000000 || p.lat < -600000000 {
			p.lat /= 2
		}
		g.rings = sizedPolygon(c, p.lat, p.lng, true)
		if weird && r.Chance(1, 25) {
			g.rings = append(g.rings, []pos{})
			c.Note("degenerate:empty-ring")
		}
	default:
		p := randPos(r)
		if p.lat > 600000000 || p.lat < -600000000 {
			p.lat /= 2
		}
		if p.lng > 1700000000 {
			p.lng -= 100000000
		}
		radius := float64(10000 + r.Intn(1000000))
		switch r.Intn(5) {
		case 0:
			radius = float64(60 + r.Intn(600)) // metres
		case 1:
			radius = float64(10000000 + r.Intn(40000000)) // countries
			p.lat /= 2
			p.lng /= 4
		}
		g.polys = make([][][]pos, r.Intn(4))
		for i := range g.polys {
			g.polys[i] = randPolygon(c, p.lat, p.lng+int64(float64(i)*3*radius), radius)
		}
	}
	c.Note("geometry:" + g.typ)
	return g
}

var propKeys = []string{"name", "a", "b", "highway", "building"}
var propVals = []string{"x", "yes", "Ruby_Violet", "12", "b", "point"}

func randProps(c *hx.Ctx, reserved bool) map[string]string {
	r := c.Rand
	m := map[string]string{}
	n := r.Intn(4)
	p := r.Perm(len(propKeys))
	for i := 0; i < n; i++ {
		m[propKeys[p[i]]] = r.Pick(propVals)
	}
	if reserved && r.Chance(1, 12) {
		m[[]string{"point", "path"}[r.Intn(2)]] = r.Pick(propVals)
		c.Note("props:reserved-key")
	}
	return m
}

func propsText(m map[string]string) string {
	if len(m) == 0 {
		return "-"
	}
	ks := hx.SortedKeys(m)
	xs := make([]string, len(ks))
	for i, k := range ks {
		xs[i] = k + "=" + m[k]
	}
	return strings.Join(xs, ",")
}

type feature struct {
	g     geom
	props map[string]string
}

func (f feature) String() string { return f.g.String() + "|" + propsText(f.props) }

// ---- ops ----------------------------------------------------------------------------------------

func geomOp(c *hx.Ctx, g geom) {
	ans := hx.Recover(func() string {
		text, err := json.Marshal(geojson.GeometryFromCoordinates(g.goValue()))
		if err != nil {
			return "marshal-err"
		}
		return jsonForm(text) + " " + decodeBoth(text)
	})
	c.Op("geom "+g.String(), ans)
}

// ---- full-precision coordinates ------------------------------------------------------------------
//
// `bits <geometry>`: the atoms are IEEE-754 bit patterns (printed as int64) of arbitrary finite float64
// coordinates; the geometry goes through json.Marshal and both decoders and must come back bit for bit
// (Go's shortest float formatting round-trips every finite float64).

var fixedFloats = []float64{0.1 + 0.2, 1e-9, -1e-9, 51.123456789012, -0.123456789012345, 51.535360200000004, 4.9e-8, 5.1e-8,
	1e-7 / 3, 5e-324, 2.2250738585072014e-308, 1e-300, math.Copysign(0, -1), 0, 1.0000000000000002, 89.99999999999999,
	-179.99999999999997, 1e21, 1e300, math.MaxFloat64, 0.30000000000000004, 123456.7, 1.5e-7}

func randFloat(c *hx.Ctx) float64 {
	r := c.Rand
	switch r.Intn(6) {
	case 0:
		c.Note("bits:fixed-value")
		return fixedFloats[r.Intn(len(fixedFloats))]
	case 1: // any finite bit pattern
		for {
			x := math.Float64frombits(r.Uint64())
			if !math.IsNaN(x) && !math.IsInf(x, 0) {
				c.Note("bits:any-finite-pattern")
				return x
			}
		}
	case 2: // tiny magnitudes
		c.Note("bits:tiny")
		return (float64(r.Uint64()>>11) / (1 << 53)) * math.Pow(10, -float64(5+r.Intn(12))) * float64(1-2*r.Intn(2))
	case 3: // an E7 value plus noise in the last places
		c.Note("bits:e7-plus-noise")
		return math.Nextafter(float64(int64(r.Uint64()%1800000000)-900000000)/1e7, float64(2*r.Intn(2)-1)*1000)
	default: // full 53-bit mantissa inside the lat/lng range
		c.Note("bits:random-mantissa-degrees")
		return (float64(r.Uint64()>>11)/(1<<53))*360 - 180
	}
}

func bitsPos(c *hx.Ctx) pos {
	return pos{int64(math.Float64bits(randFloat(c))), int64(math.Float64bits(randFloat(c)))}
}

func bitsLine(c *hx.Ctx, n int) []pos {
	l := make([]pos, n)
	for i := range l {
		l[i] = bitsPos(c)
	}
	return l
}

func bitsOp(c *hx.Ctx) {
	r := c.Rand
	types := []string{"Point", "MultiPoint", "LineString", "MultiLineString", "Polygon", "MultiPolygon"}
	g := geom{typ: types[r.Intn(6)]}
	rings := func() [][]pos {
		rs := make([][]pos, 1+r.Intn(3))
		for i := range rs {
			rs[i] = bitsLine(c, 1+r.Intn(4))
		}
		return rs
	}
	switch g.typ {
	case "Point":
		g.pt = bitsPos(c)
	case "MultiPoint", "LineString":
		g.line = bitsLine(c, 1+r.Intn(5))
	case "MultiLineString", "Polygon":
		g.rings = rings()
	default:
		g.polys = make([][][]pos, 1+r.Intn(2))
		for i := range g.polys {
			g.polys[i] = rings()
		}
	}
	runBits(c, g)
}

func fbits(x float64) int64 { return int64(math.Float64bits(x)) }

func runBits(c *hx.Ctx, g geom) {
	toFloat = func(n int64) float64 { return math.Float64frombits(uint64(n)) }
	fromFloat = func(x float64) int64 { return int64(math.Float64bits(x)) }
	defer func() { toFloat, fromFloat = deg, e7 }()
	ans := hx.Recover(func() string {
		text, err := json.Marshal(geojson.GeometryFromCoordinates(g.goValue()))
		if err != nil {
			return "marshal-err"
		}
		return decodeBoth(text)
	})
	c.Op("bits "+g.String(), ans)
	c.Note("bits:" + g.typ)
}

// writeJSON renders a tree of E7 integers as JSON with decimal numbers
func treeJSON(t string) string {
	var sb strings.Builder
	i := 0
	for i < len(t) {
		ch := t[i]
		if ch == '[' || ch == ']' || ch == ',' {
			sb.WriteByte(ch)
			i++
			continue
		}
		j := i
		for j < len(t) && t[j] != ',' && t[j] != ']' {
			j++
		}
		var n int64
		fmt.Sscanf(t[i:j], "%d", &n)
		sb.WriteString(dec(n))
		i = j
	}
	return sb.String()
}

func jsonPos(p pos) string { return fmt.Sprintf("[%d,%d]", p.lng, p.lat) }

// jsonTreeOf renders the geometry's coordinates in JSON order, optionally perturbed
func jsonTreeOf(c *hx.Ctx, g geom, perturb bool) string {
	r := c.Rand
	bad := func(p pos) string {
		if perturb && r.Chance(1, 6) {
			c.Note("parse:bad-position")
			switch r.Intn(4) {
			case 0:
				return fmt.Sprintf("[%d]", p.lng)
			case 1:
				return fmt.Sprintf("[%d,%d,%d]", p.lng, p.lat, r.Intn(1000))
			case 2:
				return "[]"
			default:
				return fmt.Sprintf("%d", p.lng)
			}
		}
		return jsonPos(p)
	}
	line := func(l []pos) string { return listTree(l, bad) }
	rings := func(rs [][]pos) string { return listTree(rs, line) }
	switch g.typ {
	case "Point":
		return bad(g.pt)
	case "MultiPoint", "LineString":
		return line(g.line)
	case "MultiLineString", "Polygon":
		return rings(g.rings)
	default:
		return listTree(g.polys, rings)
	}
}

func parseOp(c *hx.Ctx) {
	r := c.Rand
	g := randGeom(c, false)
	tree := jsonTreeOf(c, g, r.Chance(1, 2))
	typ := g.typ
	switch r.Intn(8) {
	case 0: // the coordinates of one type under the name of another
		typ = []string{"Point", "MultiPoint", "LineString", "MultiLineString", "Polygon", "MultiPolygon"}[r.Intn(6)]
		c.Note("parse:type-swapped")
	case 1:
		typ = []string{"GeometryCollection", "Foo", "point", "Feature"}[r.Intn(4)]
		c.Note("parse:type-unknown")
	case 2:
		tree = "[" + tree + "]"
		c.Note("parse:extra-nesting")
	}
	text := fmt.Sprintf(`{"type":%q,"coordinates":%s}`, typ, treeJSON(tree))
	c.Op("parse "+typ+":"+tree, decodeBoth([]byte(text)))
}

func collOp(c *hx.Ctx, fs []feature) {
	op := "coll"
	col := geojson.NewFeatureCollection()
	for _, f := range fs {
		op += " " + f.String()
		gf := geojson.NewFeatureWithGeometry(geojson.GeometryFromCoordinates(f.g.goValue()))
		for k, v := range f.props {
			gf.Properties[k] = v
		}
		col.AddFeature(gf)
	}
	ans := hx.Recover(func() string {
		text, err := json.Marshal(col)
		if err != nil {
			return "err"
		}
		back, err := geojson.Unmarshal(text)
		if err != nil {
			return "err"
		}
		bc, ok := back.(*geojson.FeatureCollection)
		if !ok {
			return "err"
		}
		out := "coll"
		for _, f := range bc.Features {
			out += " " + renderGo(f.Geometry) + "|" + propsText(f.Properties)
		}
		return out
	})
	c.Op(op, ans)
}

func latlng(p s2.Point) string {
	ll := s2.LatLngFromPoint(p)
	return fmt.Sprintf("[%d,%d]", e7(ll.Lat.Degrees()), e7(ll.Lng.Degrees()))
}

func tagValue(t b6.Tag) string {
	switch v := t.Value.AnyExpression.(type) {
	case b6.StringExpression:
		return "s:" + string(v)
	case b6.PointExpression:
		return "P:" + latlng(s2.PointFromLatLng(s2.LatLng(v)))
	case b6.Expressions:
		xs := make([]string, len(v))
		for i, e := range v {
			if p, ok := e.(b6.PointExpression); ok {
				xs[i] = latlng(s2.PointFromLatLng(s2.LatLng(p)))
			} else {
				xs[i] = "x"
			}
		}
		return "L:[" + strings.Join(xs, ",") + "]"
	}
	return "x"
}

func found(f b6.Feature) string {
	kind := f.FeatureID().Type.String()
	obs := "?"
	switch f.FeatureID().Type {
	case b6.FeatureTypePoint:
		if p, ok := f.(b6.PhysicalFeature); ok && p.GeometryType() == b6.GeometryTypePoint {
			if _, isPoint := f.Get(b6.PointTag).Value.AnyExpression.(b6.PointExpression); isPoint {
				obs = "P:" + latlng(p.Point())
			}
		}
	case b6.FeatureTypePath:
		if p, ok := f.(b6.PhysicalFeature); ok && p.GeometryType() == b6.GeometryTypePath {
			xs := make([]string, p.GeometryLen())
			for i := range xs {
				xs[i] = latlng(p.PointAt(i))
			}
			obs = "L:[" + strings.Join(xs, ",") + "]"
		}
	case b6.FeatureTypeArea:
		if a, ok := f.(b6.AreaFeature); ok {
			ps := make([]string, a.Len())
			for i := range ps {
				var ls []string
				// which side of its rings the polygon is: the normalised vertex sum of the first outer loop lies
				// inside the smaller of the two regions a (nearly regular) ring bounds; a polygon that does not
				// hold it is the complement of what was drawn - that loop is then flagged 2 instead of 0
				wrongSide := false
				for _, l := range a.Polygon(i).Loops() {
					if !l.IsHole() {
						var sum r3.Vector
						for j := 0; j < l.NumVertices(); j++ {
							sum = sum.Add(l.Vertex(j).Vector)
						}
						// only for a loop that is not degenerate at E7 (distinct, well separated vertices); a degenerate
						// one keeps the vertex-cycle comparison only
						e7s := make([]pos, l.NumVertices())
						for j := range e7s {
							ll := s2.LatLngFromPoint(l.Vertex(j))
							e7s[j] = pos{e7(ll.Lat.Degrees()), e7(ll.Lng.Degrees())}
						}
						if sum.Norm() > 1e-9 && len(e7s) >= 3 && wellSeparated(e7s) {
							wrongSide = !l.ContainsPoint(s2.Point{Vector: sum.Normalize()}) // the loop's own interior: holes do not matter
						}
						break
					}
				}
				for li, l := range a.Polygon(i).Loops() {
					vs := make([]string, l.NumVertices())
					for j := range vs {
						vs[j] = latlng(l.Vertex(j))
					}
					h := 0
					if l.IsHole() {
						h = 1
					} else if wrongSide && li == 0 {
						h = 2
					}
					ls = append(ls, fmt.Sprintf("[%d,[%s]]", h, strings.Join(vs, ",")))
				}
				ps[i] = "[" + strings.Join(ls, ",") + "]"
			}
			obs = "A:[" + strings.Join(ps, ",") + "]"
		}
	}
	tags := f.AllTags()
	xs := make([]string, len(tags))
	for i, t := range tags {
		xs[i] = t.Key + "=" + tagValue(t)
	}
	return kind + " " + obs + " " + hx.List(xs)
}

func importOp(c *hx.Ctx, fs []feature) {
	const ns = b6.Namespace("diagonal.works/verif")
	op := "import"
	var parts []string
	for _, f := range fs {
		op += " " + f.String()
		props, _ := json.Marshal(f.props)
		parts = append(parts, fmt.Sprintf(`{"type":"Feature","geometry":{"type":%q,"coordinates":%s},"properties":%s}`,
			f.g.typ, treeJSON(jsonTreeOf(c, f.g, false)), props))
	}
	text := `{"type":"FeatureCollection","features":[` + strings.Join(parts, ",") + `]}`
	var col geojson.FeatureCollection
	if err := json.Unmarshal([]byte(text), &col); err != nil {
		c.Op(op, "unmarshal-err")
		return
	}
	add := &ingest.AddFeatures{}
	w := ingest.NewBasicMutableWorld()
	filled := hx.Recover(func() string { add.FillFromGeoJSON(&col, ns); return fmt.Sprintf("%d", len(*add)) })
	apply := "-"
	if filled != "panic" {
		apply = hx.Recover(func() string {
			if _, err := add.Apply(w); err != nil {
				return "err"
			}
			return "ok"
		})
	}
	// features reachable by ID under the indices of the collection and two beyond (points that carry only
	// their geometry tag are deliberately left out of the search index, so a query would not count them)
	count := 0
	for i := 0; i < len(fs)+2; i++ {
		for _, t := range []b6.FeatureType{b6.FeatureTypePoint, b6.FeatureTypePath, b6.FeatureTypeArea} {
			if w.FindFeatureByID(b6.FeatureID{Type: t, Namespace: ns, Value: uint64(i)}) != nil {
				count++
			}
		}
	}
	c.Op(op, fmt.Sprintf("filled=%s apply=%s world=%d", filled, apply, count))
	for i := range fs {
		var xs []string
		for _, t := range []b6.FeatureType{b6.FeatureTypePoint, b6.FeatureTypePath, b6.FeatureTypeArea} {
			if f := w.FindFeatureByID(b6.FeatureID{Type: t, Namespace: ns, Value: uint64(i)}); f != nil {
				xs = append(xs, hx.Recover(func() string { return found(f) }))
			}
		}
		ans := "none"
		if len(xs) > 0 {
			ans = strings.Join(xs, " + ")
		}
		c.Op(fmt.Sprintf("feat %d", i), ans)
	}
}

func corpus(c *hx.Ctx) {
	p1, p2, p3 := pos{515000000, 5000000}, pos{512500000, 2500000}, pos{510000000, 1250000}
	// DESIGN §7: a MultiPoint and a Point -> 1 feature of 2 (finding multi-geometry-dropped)
	importOp(c, []feature{
		{geom{typ: "MultiPoint", line: []pos{p1, p2}}, map[string]string{"a": "b"}},
		{geom{typ: "Point", pt: p1}, map[string]string{"a": "b"}},
		{geom{typ: "MultiLineString", rings: [][]pos{{p1, p2}}}, map[string]string{}},
	})
	// seeded C32-5: rings that cover between a quarter and a half of the sphere (area in (pi, 2pi)), either
	// winding, and one that covers more than half as drawn: the imported polygon is the smaller side
	importOp(c, []feature{{geom{typ: "Polygon", rings: [][]pos{{{-500000000, -800000000}, {-500000000, 800000000}, {500000000, 800000000}, {500000000, -800000000}, {-500000000, -800000000}}}}, nil}})
	importOp(c, []feature{{geom{typ: "Polygon", rings: [][]pos{{{500000000, -800000000}, {500000000, 800000000}, {-500000000, 800000000}, {-500000000, -800000000}}}}, nil}})
	importOp(c, []feature{{geom{typ: "Polygon", rings: [][]pos{bigRing(c.Rand, 100000000, 200000000, 80, 10)}}, nil},
		{geom{typ: "Polygon", rings: [][]pos{bigRing(c.Rand, -50000000, -300000000, 110, 12)}}, nil},
		{geom{typ: "MultiPolygon", polys: [][][]pos{{bigRing(c.Rand, 0, 0, 80, 9)}}}, nil}})
	// fixed (fixes/C32-reserved-property-keys.patch; was finding reserved-property-key): a property named point on a
	// LineString aborted the import, on a Point it was shadowed by the geometry tag
	importOp(c, []feature{{geom{typ: "LineString", line: []pos{p1, p2}}, map[string]string{"point": "zz"}}})
	importOp(c, []feature{{geom{typ: "Point", pt: p1}, map[string]string{"point": "zz"}}})
	// fixed: closed rings kept their closing position as a loop vertex
	sq := []pos{{510000000, 0}, {510000000, 10000000}, {520000000, 10000000}, {520000000, 0}, {510000000, 0}}
	hole := []pos{{512500000, 2500000}, {517500000, 2500000}, {517500000, 7500000}, {512500000, 7500000}, {512500000, 2500000}}
	importOp(c, []feature{
		{geom{typ: "Polygon", rings: [][]pos{sq, hole}}, map[string]string{"building": "yes"}},
		{geom{typ: "MultiPolygon", polys: [][][]pos{{sq[:4]}, {{{530000000, 0}, {530000000, 10000000}, {540000000, 10000000}, {530000000, 0}}}}}, map[string]string{}},
	})
	// fixed: geojson.Unmarshal rejected a bare MultiLineString
	geomOp(c, geom{typ: "MultiLineString", rings: [][]pos{{p1, p2}, {p2, p3, p1}}})
	geomOp(c, geom{typ: "Point", pt: pos{1, -1}})
	// seeded change C32-2: coordinates that are not multiples of 1e-7 degrees must survive the round trip
	runBits(c, geom{typ: "LineString", line: []pos{{fbits(51.123456789012), fbits(0.1 + 0.2)}, {fbits(1e-9), fbits(-4.9e-8)}, {fbits(math.Copysign(0, -1)), fbits(5e-324)}}})
	runBits(c, geom{typ: "MultiPolygon", polys: [][][]pos{{{{fbits(51.535360200000004), fbits(-0.12345678901)}, {fbits(1e-7 / 3), fbits(179.99999999999997)}}}}})
	c.NonTrivial()
}

func main() {
	_ = sort.Strings
	hx.Main(hx.Family{
		Name:     "c32",
		Rule:     "per case: 3 geom ops (marshal + both decoders) on random geometries of the six types, 2 bits ops (full-precision float64 coordinates - random mantissas, any finite bit pattern, tiny values, E7 values plus last-place noise, 0.1+0.2, -0, subnormals - compared by math.Float64bits after the JSON round trip), 2 parse ops on harness-written JSON (wrong arity, depth, type), one feature-collection round trip and one import of 1-6 features (star-shaped polygons with 0-3 holes from a few metres to countries, single spherical rings of continent size, of area in (pi,2pi) and of more than half the sphere as drawn, random orientation, rings closed 3/4 of the time; the side of the rings the imported polygon lies on is probed; 1/12 of the features carry a reserved property key; rare degenerate line strings / empty rings) into an empty world, every index read back. Coordinates are E7 integers. Non-trivial = the import holds a polygon with a hole and at least 3 features; distinct = by hash of the op text",
		Quick:    2500,
		Thorough: 40000,
		Corpus:   corpus,
		Case: func(c *hx.Ctx) {
			r := c.Rand
			for i := 0; i < 3; i++ {
				geomOp(c, randGeom(c, false))
			}
			parseOp(c)
			parseOp(c)
			bitsOp(c)
			bitsOp(c)
			mk := func(n int, weird bool) []feature {
				fs := make([]feature, n)
				for i := range fs {
					fs[i] = feature{randGeom(c, weird), randProps(c, weird)}
				}
				return fs
			}
			collOp(c, mk(r.Intn(4), false))
			fs := mk(1+r.Intn(6), true)
			holes := false
			for _, f := range fs {
				if (f.g.typ == "Polygon" && len(f.g.rings) > 1) || (f.g.typ == "MultiPolygon" && len(f.g.polys) > 0 && len(f.g.polys[0]) > 1) {
					holes = true
				}
			}
			importOp(c, fs)
			c.Note(fmt.Sprintf("import:features=%d", len(fs)))
			if holes && len(fs) >= 3 {
				c.NonTrivial()
			}
		},
	})
}
