package main

// Compact worlds: compact.Build allocates several 79 MB buffers per build, so every compact case is
// generated, built and queried in a child process (collector off) which prints the transcript of the case;
// the parent replays it into the ops file. Children are started a few compact cases ahead.

import (
	"fmt"
	"io"
	"log"
	"os"
	"os/exec"
	"strings"
	"sync"
	"time"

	"diagonal.works/b6"
	"diagonal.works/b6/ingest"
	"diagonal.works/b6/ingest/compact"
	"verifharness/hx"
)

// cx is what the generators write to: the real hx.Ctx in the parent, a transcript recorder in a child.
type cx struct {
	Rand       *hx.Rand
	note       func(string)
	op         func(string, string)
	nonTrivial func()
}

func (c *cx) Note(k string)     { c.note(k) }
func (c *cx) Op(op, ans string) { c.op(op, ans) }
func (c *cx) NonTrivial()       { c.nonTrivial() }

func fromCtx(c *hx.Ctx) *cx {
	return &cx{Rand: c.Rand, note: c.Note, op: c.Op, nonTrivial: c.NonTrivial}
}

func isCompactCase(no int, tier string) bool {
	if tier == "thorough" {
		return no%400 == 399
	}
	return no%100 == 99
}

func buildCompact(fs []ingest.Feature) (b6.World, error) {
	log.SetOutput(io.Discard)
	clones := make([]ingest.Feature, len(fs))
	for i, f := range fs {
		clones[i] = f.Clone() // the compact builder may invert paths in place in its source
	}
	o := compact.Options{Goroutines: 1, PointsScratchOutputType: compact.OutputTypeMemory}
	data, err := compact.BuildInMemory(ingest.MemoryFeatureSource(clones), &o)
	if err != nil {
		return nil, err
	}
	return compact.NewWorldFromData(data)
}

// caseRand derives the per-case PRNG exactly as hx.Main does.
func caseRand(seed uint64, no int) *hx.Rand {
	return hx.NewRand(seed*0x9e3779b97f4a7c15 ^ uint64(no)*0xd1342543de82ef95 ^ 0x5851f42d4c957f2d)
}

// compactChild: arg "seed caseNo" -> transcript lines "O\t<op>\t<answer>", "N\t<bucket>", "T".
func compactChild(arg string) string {
	var seed uint64
	var no int
	if _, err := fmt.Sscanf(arg, "%d %d", &seed, &no); err != nil {
		return "bad-arg"
	}
	var sb strings.Builder
	c := &cx{
		Rand:       caseRand(seed, no),
		note:       func(k string) { sb.WriteString("N\t" + k + "\n") },
		op:         func(op, ans string) { sb.WriteString("O\t" + op + "\t" + ans + "\n") },
		nonTrivial: func() { sb.WriteString("T\n") },
	}
	worldCase(c, true)
	return sb.String()
}

func spawn(name, arg string, timeout time.Duration) string {
	self, _ := os.Executable()
	cmd := exec.Command(self)
	cmd.Env = append(os.Environ(), "HX_CHILD="+name, "GOGC=off", "GOMAXPROCS=2")
	cmd.Stdin = strings.NewReader(arg)
	var sb strings.Builder
	cmd.Stdout = &sb
	if err := cmd.Start(); err != nil {
		return "crash"
	}
	done := make(chan error, 1)
	go func() { done <- cmd.Wait() }()
	select {
	case <-done:
	case <-time.After(timeout):
		cmd.Process.Kill()
		<-done
		return "hang"
	}
	s := sb.String()
	if i := strings.LastIndex(s, "HXRESULT "); i >= 0 {
		return s[i+len("HXRESULT "):]
	}
	return "crash"
}

var (
	pendingMu sync.Mutex
	pending   = map[int]chan string{}
	workers   = make(chan struct{}, 4)
)

func startCompact(seed uint64, no int) chan string {
	pendingMu.Lock()
	defer pendingMu.Unlock()
	if ch, ok := pending[no]; ok {
		return ch
	}
	ch := make(chan string, 1)
	pending[no] = ch
	go func() {
		workers <- struct{}{}
		defer func() { <-workers }()
		ch <- spawn("c04compact", fmt.Sprintf("%d %d", seed, no), 120*time.Second)
	}()
	return ch
}

// runCount is the number of generated cases of this run (as hx.Main computes it), so that the look-ahead
// does not start children for cases that will never be asked for.
func runCount(tier string) int {
	n := 2400
	if tier == "thorough" {
		n = 60000
	}
	for i, a := range os.Args {
		for _, f := range []string{"-n", "--n"} {
			if a == f && i+1 < len(os.Args) {
				fmt.Sscanf(os.Args[i+1], "%d", &n)
			} else if strings.HasPrefix(a, f+"=") {
				fmt.Sscanf(a[len(f)+1:], "%d", &n)
			}
		}
		if a == "-only-case" || a == "--only-case" || strings.HasPrefix(a, "-only-case=") || strings.HasPrefix(a, "--only-case=") {
			return 0
		}
	}
	return n
}

// prefetch starts the children of the next few compact cases after case `no`.
func prefetch(c *hx.Ctx) {
	step, n := 100, runCount(c.Tier)
	if c.Tier == "thorough" {
		step = 400
	}
	first := (c.CaseNo/step)*step + step - 1
	for k := 0; k < 6; k++ {
		if no := first + k*step; no > c.CaseNo && no < n {
			startCompact(c.Seed, no)
		}
	}
}

func compactCase(c *hx.Ctx) {
	ch := startCompact(c.Seed, c.CaseNo)
	prefetch(c)
	res := <-ch
	pendingMu.Lock()
	delete(pending, c.CaseNo)
	pendingMu.Unlock()
	if res == "crash" || res == "hang" || res == "panic" || res == "bad-arg" {
		c.Note("compact:" + res)
		c.Op("find compact-build W=compact Q=- F=-", res)
		return
	}
	for _, line := range strings.Split(res, "\n") {
		parts := strings.Split(line, "\t")
		switch {
		case len(parts) == 3 && parts[0] == "O":
			c.Op(parts[1], parts[2])
		case len(parts) == 2 && parts[0] == "N":
			c.Note(parts[1])
		case len(parts) == 1 && parts[0] == "T":
			c.NonTrivial()
		}
	}
}
