// C04 harness: (1) the token functions search.TokensForCovering / search.RewriteSpatialQuery on random and
// adversarial cell unions, (2) end-to-end: FindFeatures on generated worlds against the query's own
// Matches on every feature of the world (the failing-input search).
package main

import (
	"fmt"
	"math"
	"sort"
	"strconv"
	"strings"

	"diagonal.works/b6"
	"diagonal.works/b6/geometry"
	"diagonal.works/b6/ingest"
	"diagonal.works/b6/search"
	"github.com/golang/geo/r3"
	"github.com/golang/geo/s1"
	"github.com/golang/geo/s2"
	"verifharness/hx"
)

// ---- cells and tokens as text ---------------------------------------------------------------

func cellText(id s2.CellID) string {
	var sb strings.Builder
	sb.WriteString(strconv.Itoa(id.Face()))
	sb.WriteByte('/')
	for l := 1; l <= id.Level(); l++ {
		sb.WriteByte(byte('0' + id.ChildPosition(l)))
	}
	return sb.String()
}

func cellFrom(face int, path []int) s2.CellID {
	id := s2.CellIDFromFace(face)
	for _, p := range path {
		id = id.Children()[p]
	}
	return id
}

func cellsText(u []s2.CellID) string {
	if len(u) == 0 {
		return "-"
	}
	xs := make([]string, len(u))
	for i, c := range u {
		xs[i] = cellText(c)
	}
	return strings.Join(xs, ",")
}

func safeWord(s string) string {
	var sb strings.Builder
	for _, r := range s {
		if (r >= 'a' && r <= 'z') || (r >= 'A' && r <= 'Z') || (r >= '0' && r <= '9') || r == ':' || r == '*' || r == '=' {
			sb.WriteRune(r)
		} else {
			sb.WriteByte('_')
		}
	}
	return sb.String()
}

func tokenText(tok string) string {
	try := func(prefix, out string) (string, bool) {
		if strings.HasPrefix(tok, prefix) {
			rest := tok[len(prefix):]
			id := s2.CellIDFromToken(rest)
			if id.IsValid() && id.ToToken() == rest {
				return out + cellText(id), true
			}
		}
		return "", false
	}
	if s, ok := try("s2:", "s:"); ok {
		return s
	}
	if s, ok := try("a2:", "a:"); ok {
		return s
	}
	return "x:" + safeWord(tok)
}

func sortedSet(xs []string) string {
	if len(xs) == 0 {
		return "-"
	}
	ys := append([]string{}, xs...)
	sort.Strings(ys)
	out := ys[:0]
	for i, y := range ys {
		if i == 0 || y != ys[i-1] {
			out = append(out, y)
		}
	}
	return strings.Join(out, ",")
}

func tokensOf(u s2.CellUnion) string {
	toks := search.TokensForCovering(u, nil)
	xs := make([]string, len(toks))
	for i, t := range toks {
		xs[i] = tokenText(t)
	}
	return sortedSet(xs)
}

func rewriteOf(u s2.CellUnion) string {
	q := search.RewriteSpatialQuery(search.Spatial(u))
	un, ok := q.(search.Union)
	if !ok {
		return "x:not-a-union"
	}
	xs := make([]string, len(un))
	for i, e := range un {
		if a, ok := e.(search.All); ok {
			xs[i] = tokenText(a.Token)
		} else {
			xs[i] = "x:not-all"
		}
	}
	return sortedSet(xs)
}

func pairOp(c *cx, F, Q s2.CellUnion) {
	ans := hx.Recover(func() string { return "T=" + tokensOf(F) + " R=" + rewriteOf(Q) })
	c.Op("pair F="+cellsText(F)+" Q="+cellsText(Q), ans)
}

// ---- generators for cell unions ----------------------------------------------------------------

func randLevel(r *hx.Rand) int {
	switch r.Intn(8) {
	case 0:
		return 0
	case 1:
		return 1
	case 2:
		return 30
	case 3:
		return 16
	case 4:
		return 15 + r.Intn(3)
	default:
		return r.Intn(31)
	}
}

func randCell(r *hx.Rand) s2.CellID {
	path := make([]int, randLevel(r))
	for i := range path {
		path[i] = r.Intn(4)
	}
	return cellFrom(r.Intn(6), path)
}

// relative returns a cell related to c: itself, an ancestor, a descendant, a sibling, a neighbour.
func relative(r *hx.Rand, c s2.CellID) s2.CellID {
	switch r.Intn(7) {
	case 0:
		return c
	case 1: // ancestor (possibly the face)
		if c.Level() == 0 {
			return c
		}
		return c.Parent(r.Intn(c.Level()))
	case 2: // the face cell
		return c.Parent(0)
	case 3: // descendant
		d := c
		for n := 1 + r.Intn(4); n > 0 && d.Level() < 30; n-- {
			d = d.Children()[r.Intn(4)]
		}
		return d
	case 4: // sibling or cousin: change one digit
		if c.Level() == 0 {
			return s2.CellIDFromFace((c.Face() + 1 + r.Intn(5)) % 6)
		}
		l := 1 + r.Intn(c.Level())
		p := c.Parent(l - 1)
		d := p.Children()[(c.ChildPosition(l)+1+r.Intn(3))%4]
		for d.Level() < c.Level() {
			d = d.Children()[c.ChildPosition(d.Level()+1)]
		}
		return d
	case 5: // edge neighbour at the same level
		n := c.EdgeNeighbors()
		return n[r.Intn(4)]
	default: // leaf descendant
		return c.ChildBeginAtLevel(30)
	}
}

func tokenCase(c *cx) {
	r := c.Rand
	nF, nQ := r.Intn(6), r.Intn(6)
	if r.Chance(1, 10) {
		nF = 0
	}
	var F, Q s2.CellUnion
	for i := 0; i < nF; i++ {
		if len(F) > 0 && r.Bool() {
			F = append(F, relative(r, F[r.Intn(len(F))]))
		} else {
			F = append(F, randCell(r))
		}
	}
	for i := 0; i < nQ; i++ {
		switch {
		case len(F) > 0 && r.Chance(3, 5):
			Q = append(Q, relative(r, F[r.Intn(len(F))]))
		case len(Q) > 0 && r.Chance(1, 3):
			Q = append(Q, relative(r, Q[r.Intn(len(Q))]))
		default:
			Q = append(Q, randCell(r))
		}
	}
	meets := false
	face := false
	for _, f := range F {
		if f.Level() == 0 {
			face = true
		}
		for _, q := range Q {
			if f.Intersects(q) {
				meets = true
			}
		}
	}
	c.Note(fmt.Sprintf("pair:meets=%v", meets))
	if meets {
		c.NonTrivial()
	}
	if face {
		c.Note("pair:F-has-face-cell")
	}
	c.Note(fmt.Sprintf("pair:|F|=%d", len(F)))
	pairOp(c, F, Q)
}

// ---- geometry on the sphere ----------------------------------------------------------------------

type site struct {
	c    s2.Point
	u, v r3.Vector
}

func newSite(c s2.Point) site {
	u := c.Ortho()
	v := c.Cross(u).Normalize()
	return site{c: c, u: u, v: v}
}

// at is the point at angular distance d (radians) from the centre in direction theta.
func (s site) at(d, theta float64) s2.Point {
	dir := s.u.Mul(math.Cos(theta)).Add(s.v.Mul(math.Sin(theta)))
	return s2.Point{Vector: s.c.Mul(math.Cos(d)).Add(dir.Mul(math.Sin(d))).Normalize()}
}

func logUniform(r *hx.Rand, lo, hi float64) float64 {
	t := float64(r.Intn(1<<20)) / float64(1<<20)
	return math.Exp(math.Log(lo) + t*(math.Log(hi)-math.Log(lo)))
}

func unit(r *hx.Rand) float64 { return float64(r.Intn(1<<24)) / float64(1<<24) }

func randomPoint(r *hx.Rand) s2.Point {
	z := 2*unit(r) - 1
	phi := 2 * math.Pi * unit(r)
	s := math.Sqrt(1 - z*z)
	return s2.Point{Vector: r3.Vector{X: s * math.Cos(phi), Y: s * math.Sin(phi), Z: z}}
}

// starLoop is a star-shaped (generally non-convex) counter-clockwise loop of n vertices around s.c.
func starLoop(r *hx.Rand, s site, n int, rmin, rmax float64) *s2.Loop {
	pts := make([]s2.Point, n)
	phase := 2 * math.Pi * unit(r)
	for i := range pts {
		theta := phase + 2*math.Pi*(float64(i)+0.6*unit(r))/float64(n)
		d := rmin + (rmax-rmin)*unit(r)
		pts[i] = s.at(d, theta)
	}
	return s2.LoopFromPoints(pts)
}

var vertexCounts = []int{3, 4, 4, 5, 6, 8, 12, 16, 17, 18, 24, 40}

// noHoles is set in the child that builds a compact world (see buildWorld)
var noHoles = false

func starPolygon(r *hx.Rand, centre s2.Point, size float64) *s2.Polygon {
	s := newSite(centre)
	n := vertexCounts[r.Intn(len(vertexCounts))]
	loops := []*s2.Loop{starLoop(r, s, n, 0.5*size, size)}
	if r.Chance(1, 3) && !noHoles {
		loops = append(loops, starLoop(r, s, vertexCounts[r.Intn(6)], 0.1*size, 0.4*size))
	}
	return s2.PolygonFromLoops(loops)
}

// ---- worlds ------------------------------------------------------------------------------------

type feat struct {
	id   b6.FeatureID
	kind byte // p l a r
	f    ingest.Feature
	unix bool // not indexed by rule: a point whose only tag is its location
	over bool // lives in the overlay layer of an overlay world
	pts  []s2.Point
}

const ns = b6.Namespace("verif")

func tagged(r *hx.Rand, f ingest.Feature) {
	f.AddTag(b6.Tag{Key: "#k", Value: b6.NewStringExpression("v" + strconv.Itoa(r.Intn(2)))})
}

func newPoint(r *hx.Rand, n uint64, p s2.Point, index bool) feat {
	f := &ingest.GenericFeature{ID: b6.FeatureID{Type: b6.FeatureTypePoint, Namespace: ns, Value: n}}
	f.ModifyOrAddTag(b6.Tag{Key: b6.PointTag, Value: b6.NewPointExpressionFromLatLng(s2.LatLngFromPoint(p))})
	if index {
		tagged(r, f)
	}
	return feat{id: f.FeatureID(), kind: 'p', f: f, unix: !index, pts: []s2.Point{p}}
}

func newPath(r *hx.Rand, n uint64, pts []s2.Point) feat {
	f := &ingest.GenericFeature{ID: b6.FeatureID{Type: b6.FeatureTypePath, Namespace: ns, Value: n}}
	es := make([]b6.AnyExpression, len(pts))
	for i, p := range pts {
		es[i] = b6.PointExpression(s2.LatLngFromPoint(p))
	}
	f.ModifyOrAddTag(b6.Tag{Key: b6.PathTag, Value: b6.NewExpressions(es)})
	tagged(r, f)
	return feat{id: f.FeatureID(), kind: 'l', f: f, pts: pts}
}

func newArea(r *hx.Rand, n uint64, ps []*s2.Polygon) feat {
	a := ingest.NewAreaFeature(len(ps))
	a.AreaID = b6.AreaID{Namespace: ns, Value: n}
	var pts []s2.Point
	for i, p := range ps {
		a.SetPolygon(i, p)
		for _, l := range p.Loops() {
			pts = append(pts, l.Vertices()...)
		}
	}
	tagged(r, a)
	return feat{id: a.FeatureID(), kind: 'a', f: a, pts: pts}
}

func newRelation(r *hx.Rand, n uint64, member b6.FeatureID) feat {
	rel := ingest.NewRelationFeature(1)
	rel.RelationID = b6.RelationID{Namespace: ns, Value: n}
	rel.Members[0] = b6.RelationMember{ID: member}
	tagged(r, rel)
	return feat{id: rel.FeatureID(), kind: 'r', f: rel}
}

type world struct {
	w     b6.World
	feats []feat
	s     site
	R     float64 // angular radius of the site
	scale int
	kind  string
}

// siteCentre picks where the world lives: anywhere, or on/near a cell vertex or edge (level 0 = cube face
// boundaries), near a pole or the antimeridian.
func siteCentre(r *hx.Rand, R float64) (s2.Point, string) {
	switch r.Intn(8) {
	case 0, 1:
		return randomPoint(r), "anywhere"
	case 2:
		return s2.PointFromLatLng(s2.LatLngFromDegrees(51.5+unit(r)*0.1, -0.12+unit(r)*0.1)), "london"
	case 3:
		lat := 89.0 + unit(r)
		if r.Bool() {
			lat = -lat
		}
		return s2.PointFromLatLng(s2.LatLngFromDegrees(lat, 360*unit(r)-180)), "pole"
	case 4:
		return s2.PointFromLatLng(s2.LatLngFromDegrees(160*unit(r)-80, 180-1e-4*unit(r))), "antimeridian"
	default:
		levels := []int{0, 0, 1, 5, 10, 15, 16, 16, 16, 17}
		l := levels[r.Intn(len(levels))]
		cell := s2.CellFromCellID(cellIDFromPoint(randomPoint(r)).Parent(l))
		var p s2.Point
		if r.Bool() {
			p = cell.Vertex(r.Intn(4))
		} else {
			k := r.Intn(4)
			t := unit(r)
			p = s2.Point{Vector: cell.Vertex(k).Mul(1 - t).Add(cell.Vertex((k + 1) % 4).Mul(t)).Normalize()}
		}
		// stay within a fraction of the site radius of the boundary
		s := newSite(p)
		return s.at(R*unit(r)*0.5, 2*math.Pi*unit(r)), "cell-boundary-l" + strconv.Itoa(l)
	}
}

var scaleBounds = [][2]float64{{2e-9, 1e-5}, {1e-5, 1e-3}, {1e-3, 0.05}, {0.05, 1.3}}
var scaleNames = []string{"tiny", "small", "medium", "huge"}

func buildWorld(c *cx, forceCompact bool) *world {
	r := c.Rand
	scale := r.Intn(4)
	minSize := 0.0
	if forceCompact {
		// the compact encoding stores locations as E7 integers (about 1 cm): geometry below that collapses
		// (areas lose their polygons), so compact worlds get features of at least ~6 m in sites of >= 64 m
		scale = 1 + r.Intn(3)
		minSize = 1e-6
		// Areas given as polygons (not as closed paths) do not survive the compact encoding: loops are dropped or
		// an area comes back with Len() == 0 (observed; that is the compact codec's business, C01/C11). The search
		// index is the subject here, so compact worlds get one-loop areas that refer to a closed path, as OSM's do.
		noHoles = true
	}
	R := logUniform(r, scaleBounds[scale][0], scaleBounds[scale][1])
	centre, where := siteCentre(r, R)
	s := newSite(centre)
	c.Note("site:" + where)
	c.Note("scale:" + scaleNames[scale])
	var feats []feat
	n := 2 + r.Intn(8)
	next := uint64(1)
	place := func() s2.Point { return s.at(R*unit(r), 2*math.Pi*unit(r)) }
	for i := 0; i < n; i++ {
		switch r.Intn(10) {
		case 0, 1:
			feats = append(feats, newPoint(r, next, place(), true))
		case 2:
			if r.Chance(1, 3) {
				feats = append(feats, newPoint(r, next, place(), false))
			} else if len(feats) > 0 {
				feats = append(feats, newRelation(r, next, feats[r.Intn(len(feats))].id))
			}
		case 3, 4, 5:
			k := 2 + r.Intn(6)
			fs := newSite(place())
			size := R * unit(r)
			if size < 1e-9 {
				size = 1e-9
			}
			size = math.Max(size, minSize)
			pts := make([]s2.Point, k)
			theta := 2 * math.Pi * unit(r)
			for j := range pts {
				// a wandering line through the feature's own site
				pts[j] = fs.at(size*(float64(j)/float64(k-1)-0.5)*2*(0.5+0.5*unit(r)), theta+0.5*(unit(r)-0.5))
			}
			feats = append(feats, newPath(r, next, pts))
		default:
			np := 1
			if r.Chance(1, 3) && !forceCompact {
				np = 2 + r.Intn(2)
			}
			ps := make([]*s2.Polygon, np)
			for j := range ps {
				size := R * (0.05 + 0.95*unit(r))
				if r.Chance(1, 4) {
					size = R * unit(r) * 0.01
				}
				if size < 2e-9 {
					size = 2e-9
				}
				size = math.Max(size, minSize)
				ps[j] = starPolygon(r, place(), size)
			}
			if forceCompact {
				// as OSM does: the area refers to a closed path (anti-clockwise, first vertex repeated)
				vs := ps[0].Loop(0).Vertices()
				ring := append(append([]s2.Point{}, vs...), vs[0])
				pf := newPath(r, next+1000, ring)
				pf.f.RemoveTag("#k")
				a := ingest.NewAreaFeature(1)
				a.AreaID = b6.AreaID{Namespace: ns, Value: next}
				a.SetPathIDs(0, []b6.FeatureID{pf.id})
				tagged(r, a)
				feats = append(feats, pf, feat{id: a.FeatureID(), kind: 'a', f: a, pts: vs})
			} else {
				feats = append(feats, newArea(r, next, ps))
			}
		}
		next++
	}
	if len(feats) == 0 {
		feats = append(feats, newPoint(r, next, place(), true))
	}
	w := &world{feats: feats, s: s, R: R, scale: scale}
	fs := make([]ingest.Feature, len(feats))
	for i, f := range feats {
		fs[i] = f.f
	}
	kindNo := r.Intn(4)
	if forceCompact {
		kindNo = 4
	}
	switch kindNo {
	case 4:
		// compact index; only ever built inside a child process (see compact.go)
		cw, err := buildCompact(fs)
		if err != nil {
			panic("compact: " + err.Error())
		}
		w.w, w.kind = cw, "compact"
	case 3:
		// the generic two-world overlay: both layers are read-only basic worlds
		k := r.Intn(len(fs) + 1)
		base, err := ingest.NewWorldFromSource(ingest.MemoryFeatureSource(fs[:k]), &ingest.BuildOptions{Cores: 1, FailInvalidFeatures: true})
		if err != nil {
			panic("build: " + err.Error())
		}
		over, err := ingest.NewWorldFromSource(ingest.MemoryFeatureSource(fs[k:]), &ingest.BuildOptions{Cores: 1, FailInvalidFeatures: true})
		if err != nil {
			panic("build: " + err.Error())
		}
		for i := k; i < len(feats); i++ {
			feats[i].over = true
		}
		w.w, w.kind = ingest.NewOverlayWorld(over, base), "overlay2"
	case 0:
		m := ingest.NewBasicMutableWorld()
		for _, f := range fs {
			if err := m.AddFeature(f); err != nil {
				panic("add: " + err.Error())
			}
		}
		w.w, w.kind = m, "mutable"
	case 1:
		b, err := ingest.NewWorldFromSource(ingest.MemoryFeatureSource(fs), &ingest.BuildOptions{Cores: 1, FailInvalidFeatures: true})
		if err != nil {
			panic("build: " + err.Error())
		}
		w.w, w.kind = b, "basic"
	default:
		k := r.Intn(len(fs) + 1)
		// relations refer to earlier features, which stay in the base when the split is by position
		b, err := ingest.NewWorldFromSource(ingest.MemoryFeatureSource(fs[:k]), &ingest.BuildOptions{Cores: 1, FailInvalidFeatures: true})
		if err != nil {
			panic("build: " + err.Error())
		}
		o := ingest.NewMutableOverlayWorld(b)
		for i, f := range fs[k:] {
			if err := o.AddFeature(f.Clone()); err != nil {
				panic("add: " + err.Error())
			}
			feats[k+i].over = true
		}
		w.w, w.kind = o, "overlay"
	}
	c.Note("world:" + w.kind)
	return w
}

// ---- queries ---------------------------------------------------------------------------------------

type query struct {
	kind string
	q    b6.Query
	cov  s2.CellUnion
}

func (w *world) anchor(r *hx.Rand) s2.Point {
	var all []s2.Point
	for _, f := range w.feats {
		all = append(all, f.pts...)
	}
	if len(all) > 0 && r.Chance(2, 3) {
		return all[r.Intn(len(all))]
	}
	return w.s.at(w.R*1.2*unit(r), 2*math.Pi*unit(r))
}

// worldPoint returns the location the world reports for a point feature (it went through a lat/lng tag).
func (w *world) worldGeometry(f feat) b6.Geometry {
	if g, ok := w.w.FindFeatureByID(f.id).(b6.Geometry); ok {
		return g
	}
	return nil
}

var offsetsMM = []float64{0, 0, 0.3, 0.9, 1.1, 3}

func (w *world) nearPath(r *hx.Rand) (s2.Point, bool) {
	for _, i := range r.Perm(len(w.feats)) {
		f := w.feats[i]
		if f.kind == 'l' {
			g := w.worldGeometry(f)
			k := r.Intn(g.GeometryLen() - 1)
			a, b := g.PointAt(k), g.PointAt(k+1)
			t := unit(r)
			if r.Chance(1, 4) {
				t = 0
			}
			p := s2.Point{Vector: a.Mul(1 - t).Add(b.Mul(t)).Normalize()}
			n := s2.Point{Vector: a.PointCross(b).Vector}
			off := float64(b6.MetersToAngle(offsetsMM[r.Intn(len(offsetsMM))] / 1000))
			if r.Bool() {
				off = -off
			}
			return s2.Point{Vector: p.Add(n.Mul(off)).Normalize()}, true
		}
	}
	return s2.Point{}, false
}

func (w *world) makeQuery(c *cx) query {
	r := c.Rand
	if r.Chance(1, 14) {
		// MightIntersect: Matches is constantly true, the result is the candidate set of the region's covering
		var region s2.Region
		if r.Bool() {
			region = s2.CapFromCenterAngle(w.anchor(r), s1.Angle(w.R*unit(r)))
		} else {
			region = w.anchor(r)
		}
		return query{"might", b6.MightIntersect{Region: region}, search.NewSpatialFromRegion(region).Covering()}
	}
	switch r.Intn(12) {
	case 0, 1:
		var rad float64
		switch r.Intn(5) {
		case 0:
			rad = logUniform(r, 1e-11, 1e-8)
		case 1:
			rad = w.R * unit(r)
		case 2:
			rad = w.R * 0.1 * unit(r)
		case 3:
			rad = logUniform(r, 1e-9, 3)
		default:
			rad = w.R * (1 + unit(r))
		}
		cap := s2.CapFromCenterAngle(w.anchor(r), s1.Angle(rad))
		return query{"cap", b6.NewIntersectsCap(cap), search.NewSpatialFromRegion(cap).Covering()}
	case 2, 3:
		n := 1 + r.Intn(4)
		cells := make([]s2.Cell, n)
		union := make(s2.CellUnion, n)
		for i := range cells {
			id := cellIDFromPoint(w.anchor(r)).Parent(randLevel(r))
			if r.Chance(1, 3) {
				id = id.EdgeNeighbors()[r.Intn(4)]
			}
			cells[i] = s2.CellFromCellID(id)
			union[i] = id
		}
		union.Normalize()
		return query{"cells", b6.IntersectsCells{Cells: cells}, search.NewSpatialFromRegion(&union).Covering()}
	case 4, 5:
		var p s2.Point
		found := false
		switch r.Intn(3) {
		case 0:
			for _, i := range r.Perm(len(w.feats)) {
				if w.feats[i].kind == 'p' {
					p, found = w.worldGeometry(w.feats[i]).Point(), true
					break
				}
			}
		case 1:
			p, found = w.nearPath(r)
		}
		if !found {
			p = w.anchor(r)
		}
		return query{"point", b6.IntersectsPoint{Point: p}, search.NewSpatialFromRegion(p).Covering()}
	case 6, 7:
		n := 2 + r.Intn(4)
		pl := make(s2.Polyline, n)
		for i := range pl {
			pl[i] = w.anchor(r)
			if i > 0 && pl[i] == pl[i-1] {
				pl[i] = w.s.at(w.R*unit(r), 2*math.Pi*unit(r))
			}
		}
		if r.Chance(1, 4) { // end exactly at, or within a millimetre of, a point feature
			for _, i := range r.Perm(len(w.feats)) {
				if w.feats[i].kind == 'p' && !w.feats[i].unix {
					p := w.worldGeometry(w.feats[i]).Point()
					ps := newSite(p)
					pl[n-1] = ps.at(float64(b6.MetersToAngle(offsetsMM[r.Intn(len(offsetsMM))]/1000)), 2*math.Pi*unit(r))
					break
				}
			}
		}
		return query{"polyline", b6.IntersectsPolyline{Polyline: &pl}, search.NewSpatialFromRegion(&pl).Covering()}
	case 8, 9:
		n := 1 + r.Intn(3)
		mp := make(geometry.MultiPolygon, n)
		coverer := search.MakeCoverer()
		var cov s2.CellUnion
		for i := range mp {
			size := w.R * (0.02 + unit(r))
			if size < 2e-9 {
				size = 2e-9
			}
			mp[i] = starPolygon(r, w.anchor(r), size)
			cov = s2.CellUnionFromUnion(cov, coverer.Covering(mp[i]))
		}
		return query{"multipolygon", b6.IntersectsMultiPolygon{MultiPolygon: mp}, cov}
	default:
		f := w.feats[r.Intn(len(w.feats))]
		q := b6.IntersectsFeature{ID: f.id}
		g := w.worldGeometry(f)
		coverer := search.MakeCoverer()
		switch {
		case g != nil && g.GeometryType() == b6.GeometryTypePoint:
			return query{"feature-point", q, search.NewSpatialFromRegion(g.Point()).Covering()}
		case g != nil && g.GeometryType() == b6.GeometryTypePath:
			return query{"feature-path", q, search.NewSpatialFromRegion(g.Polyline()).Covering()}
		case g != nil && g.GeometryType() == b6.GeometryTypeArea:
			var cov s2.CellUnion
			for _, p := range g.(b6.AreaFeature).MultiPolygon() {
				cov = s2.CellUnionFromUnion(cov, coverer.Covering(p))
			}
			return query{"feature-area", q, cov}
		}
		return query{"feature-none", q, nil}
	}
}

func idWord(id b6.FeatureID) string {
	return string(id.Type.String()[0:2]) + strconv.FormatUint(id.Value, 10)
}

var indexCoverer = s2.RegionCoverer{MaxLevel: 16, MaxCells: 5}

func (w *world) findOp(c *cx, q query) {
	r := c.Rand
	full := q.q
	wrap := "plain"
	switch r.Intn(6) {
	case 0:
		full, wrap = b6.Intersection{b6.Tagged{Key: "#k", Value: b6.NewStringExpression("v1")}, q.q}, "tag-and-q"
	case 1:
		full, wrap = b6.Intersection{q.q, b6.Tagged{Key: "#k", Value: b6.NewStringExpression("v0")}}, "q-and-tag"
	case 2:
		t := []b6.FeatureType{b6.FeatureTypePoint, b6.FeatureTypePath, b6.FeatureTypeArea}[r.Intn(3)]
		full, wrap = b6.Typed{Type: t, Query: q.q}, "typed"
	}
	c.Note("q:" + q.kind)
	c.Note("wrap:" + wrap)
	var sb strings.Builder
	matched, unmatched, face := 0, 0, false
	ans := hx.Recover(func() string {
		for i, f := range w.feats {
			wf := w.w.FindFeatureByID(f.id)
			flags := string(f.kind)
			matches := full.Matches(wf, w.w)
			if t, ok := full.(b6.Typed); ok {
				// Typed.Matches looks at the type only (that is C03's subject); the spatial test is the inner query's
				matches = matches && t.Query.Matches(wf, w.w)
			}
			if matches {
				flags += "m"
				if !f.unix {
					matched++
				}
			} else if !f.unix {
				unmatched++
			}
			if f.unix {
				flags += "u"
			}
			if f.over {
				flags += "o"
			}
			if iq, ok := q.q.(b6.IntersectsFeature); ok && iq.ID == f.id {
				flags += "s"
			}
			var cov s2.CellUnion
			if p, ok := wf.(b6.PhysicalFeature); ok {
				cov = b6.Covering(p, indexCoverer)
			}
			for _, cell := range cov {
				if cell.Level() == 0 {
					face = true
				}
			}
			if i > 0 {
				sb.WriteByte(';')
			}
			sb.WriteString(idWord(f.id) + ":" + flags + ":" + cellsText(cov))
		}
		var got []string
		it := w.w.FindFeatures(full)
		for it.Next() {
			got = append(got, idWord(it.FeatureID()))
		}
		if len(got) == 0 {
			return "-"
		}
		return strings.Join(got, ",")
	})
	if ans == "panic" {
		c.Note("find:panic")
		c.Op("find "+q.kind+" Q=- F=-", "panic")
		return
	}
	if matched > 0 && unmatched > 0 {
		c.NonTrivial()
	}
	switch {
	case matched == 0:
		c.Note("matched:0")
	case matched == 1:
		c.Note("matched:1")
	default:
		c.Note("matched:2+")
	}
	if face {
		c.Note("find:feature-covering-has-face-cell")
	}
	for _, cell := range q.cov {
		if cell.Level() == 0 {
			c.Note("find:query-covering-has-face-cell")
			break
		}
	}
	c.Op("find "+q.kind+" W="+w.kind+" wrap="+wrap+" Q="+cellsText(q.cov)+" F="+sb.String(), ans)
}

func worldCase(c *cx, forceCompact bool) {
	w := buildWorld(c, forceCompact)
	n := 4 + c.Rand.Intn(6)
	for i := 0; i < n; i++ {
		w.findOp(c, w.makeQuery(c))
	}
}

// ---- corpus -------------------------------------------------------------------------------------

func ll(lat, lng float64) s2.Point { return s2.PointFromLatLng(s2.LatLngFromDegrees(lat, lng)) }

func corpus(c *cx) {
	r := c.Rand
	// fixed (fixes/C04-index-level0-cells.patch): a face cell in the feature covering
	pairOp(c, s2.CellUnion{cellFrom(2, nil)}, s2.CellUnion{cellFrom(2, []int{1, 3})})
	pairOp(c, s2.CellUnion{cellFrom(2, nil)}, s2.CellUnion{cellFrom(2, nil)})
	pairOp(c, s2.CellUnion{cellFrom(0, nil), cellFrom(5, []int{0})}, s2.CellUnion{cellFrom(0, []int{3, 3, 3})})
	{
		big := s2.PolygonFromLoops([]*s2.Loop{s2.LoopFromPoints([]s2.Point{ll(-50, -50), ll(-50, 50), ll(50, 50), ll(50, -50)})})
		if big.Area() > 2*math.Pi {
			big.Invert()
		}
		var pts []s2.Point
		for lng := -170.0; lng <= 170; lng += 20 {
			pts = append(pts, ll(0.5, lng))
		}
		feats := []feat{newArea(r, 1, []*s2.Polygon{big}), newPath(r, 2, pts)}
		m := ingest.NewBasicMutableWorld()
		for _, f := range feats {
			if err := m.AddFeature(f.f); err != nil {
				panic(err)
			}
		}
		w := &world{w: m, feats: feats, s: newSite(ll(0, 0)), R: 1, kind: "mutable"}
		p := ll(1, 1)
		w.findOp(c, query{"point", b6.IntersectsPoint{Point: p}, search.NewSpatialFromRegion(p).Covering()})
		cap := s2.CapFromCenterAngle(p, b6.MetersToAngle(100))
		w.findOp(c, query{"cap", b6.NewIntersectsCap(cap), search.NewSpatialFromRegion(cap).Covering()})
		for _, lng := range []float64{-170, -90, 50, 130} {
			p := w.worldGeometry(feats[1]).PointAt(int((lng + 170) / 20))
			w.findOp(c, query{"point", b6.IntersectsPoint{Point: p}, search.NewSpatialFromRegion(p).Covering()})
		}
	}
	// finding tolerance-outside-covering: a path 0.6 mm from the query point, on the other side of a level-16 cell edge
	{
		base := s2.CellIDFromLatLng(s2.LatLngFromDegrees(51.5, -0.1)).Parent(16)
		cell := s2.CellFromCellID(base)
		v0, v1, centre := cell.Vertex(0), cell.Vertex(1), cell.Center()
		mid := s2.Point{Vector: v0.Add(v1.Vector).Normalize()}
		step := centre.Sub(mid.Vector).Mul(5e-11 / float64(mid.Distance(centre)))
		in := s2.Point{Vector: mid.Add(step).Normalize()}
		out := s2.Point{Vector: mid.Sub(step).Normalize()}
		a1 := s2.Point{Vector: in.Add(v0.Sub(v1.Vector).Mul(0.2)).Normalize()}
		a2 := s2.Point{Vector: in.Add(v1.Sub(v0.Vector).Mul(0.2)).Normalize()}
		feats := []feat{newPath(r, 9, []s2.Point{a1, a2}), newPoint(r, 10, out, true)}
		m := ingest.NewBasicMutableWorld()
		for _, f := range feats {
			if err := m.AddFeature(f.f); err != nil {
				panic(err)
			}
		}
		w := &world{w: m, feats: feats, s: newSite(mid), R: 1e-6, kind: "mutable"}
		w.findOp(c, query{"point", b6.IntersectsPoint{Point: out}, search.NewSpatialFromRegion(out).Covering()})
		pl := s2.Polyline{a1, a2}
		w.findOp(c, query{"polyline", b6.IntersectsPolyline{Polyline: &pl}, search.NewSpatialFromRegion(&pl).Covering()})
	}
	// finding self-without-geometry: intersects-feature naming a relation
	{
		p := newPoint(r, 6, ll(51.005, 0.025), true)
		rel := newRelation(r, 7, p.id)
		feats := []feat{p, rel}
		m := ingest.NewBasicMutableWorld()
		for _, f := range feats {
			if err := m.AddFeature(f.f); err != nil {
				panic(err)
			}
		}
		w := &world{w: m, feats: feats, s: newSite(ll(51, 0)), R: 1e-3, kind: "mutable"}
		w.findOp(c, query{"feature-none", b6.IntersectsFeature{ID: rel.id}, nil})
		w.findOp(c, query{"feature-point", b6.IntersectsFeature{ID: p.id}, search.NewSpatialFromRegion(w.worldGeometry(p).Point()).Covering()})
	}
	c.NonTrivial()
}

func main() {
	hx.RegisterChild("c04compact", compactChild)
	hx.Main(hx.Family{
		Name:     "c04",
		Rule:     "even cases: three `pair` ops on random/adversarial cell unions (relatives of each other: ancestors, faces, descendants, siblings, neighbours, levels 0..30); odd cases: a generated world (mutable / basic / MutableOverlayWorld over basic / OverlayWorld of two basic worlds; every 100th case (400th in the thorough tier) a compact world built in a child process; 2-9 features: points, paths, star-shaped areas with holes and several polygons, relations, unindexed points; extent 1 cm .. 8000 km; sited anywhere, on cell or cube-face boundaries, near a pole, at the antimeridian) queried 4-9 times (cap, cells, point, polyline, multipolygon, intersects-feature, might-intersect; plain or wrapped in Intersection/Typed). non-trivial = a find op where the query's own Matches accepts some indexed features and rejects others, or a pair op whose unions intersect; distinct = by hash of the op text",
		Quick:    2400, // keep in step with runCount in compact.go
		Thorough: 60000,
		Corpus:   func(c *hx.Ctx) { corpus(fromCtx(c)) },
		Case: func(c *hx.Ctx) {
			if c.CaseNo%50 == 0 {
				prefetch(c)
			}
			if c.CaseNo%2 == 0 {
				for i := 0; i < 3; i++ {
					tokenCase(fromCtx(c))
				}
			} else if isCompactCase(c.CaseNo, c.Tier) {
				compactCase(c)
			} else {
				worldCase(fromCtx(c), false)
			}
		},
	})
}

func cellIDFromPoint(p s2.Point) s2.CellID { return s2.CellFromPoint(p).ID() }
