// C06 harness: random posting lists in a real search.ArrayIndex / search.TreeIndex, random query trees
// compiled with the real Query.Compile, random interleavings of Next / Advance(k); the transcript
// (call, bool, value) is written for the Lean driver, which compares it with the spec cursor.
package main

import (
	"fmt"
	"math/big"
	"sort"
	"strconv"
	"strings"
	"time"

	"diagonal.works/b6"
	"diagonal.works/b6/encoding"
	"diagonal.works/b6/ingest/compact"
	"diagonal.works/b6/search"
	"verifharness/hx"
)

// ---- compact indices: values are b6.FeatureIDs ---------------------------------------------------
//
// The generator works on uint64 "slots". For a compact index a slot u < 12*2^56 stands for the feature ID
// {types[g/3], names[g%3], v} with g = u >> 56, v = u & (2^56-1) (an order embedding: FeatureID.Less compares
// type, namespace, value), and is written to the driver as the natural TypeAndNamespace*2^64 + v, the key of
// B6.Model.Posting.keyNat.

var cTypes = []b6.FeatureType{b6.FeatureTypePoint, b6.FeatureTypePath, b6.FeatureTypeArea, b6.FeatureTypeRelation}
var cNames = []b6.Namespace{"nsa", "nsb", "nsc"}

const cGroups = 12
const cValueBits = 56

func cNorm(u uint64) uint64 { return u % (cGroups << cValueBits) }

func cID(u uint64) b6.FeatureID {
	g := u >> cValueBits
	return b6.FeatureID{Type: cTypes[g/3], Namespace: cNames[g%3], Value: u & (1<<cValueBits - 1)}
}

func cNat(id b6.FeatureID, nt *compact.NamespaceTable) string {
	tn := compact.CombineTypeAndNamespace(id.Type, nt.Encode(id.Namespace))
	n := new(big.Int).Lsh(big.NewInt(int64(tn)), 64)
	n.Add(n, new(big.Int).SetUint64(id.Value))
	return n.String()
}

type memFile struct{ b []byte }

func (m *memFile) WriteAt(p []byte, off int64) (int, error) {
	if need := int(off) + len(p); need > len(m.b) {
		m.b = append(m.b, make([]byte, need-len(m.b))...)
	}
	copy(m.b[off:], p)
	return len(p), nil
}

type idIter struct {
	ids []compact.FeatureID
	i   int
}

func (s *idIter) Next() bool                   { s.i++; return s.i <= len(s.ids) }
func (s *idIter) FeatureID() compact.FeatureID { return s.ids[s.i-1] }

// a real compact.Index (token map + posting lists) laid out as ingest/compact/build.go's buildIndex does
func buildCompact(w *world) search.Index {
	var tokens []string
	for _, t := range w.tokens {
		if len(w.lists[t]) > 0 {
			tokens = append(tokens, t)
		}
	}
	te := compact.NewTokenMapEncoder()
	for i, t := range tokens {
		te.Add(t, i)
	}
	te.FinishAdds()
	lb := encoding.NewByteArraysBuilder(len(tokens))
	m := &memFile{}
	var pl compact.PostingList
	buffer := make([]byte, compact.PostingListHeaderMaxLength+4096)
	for stage := 0; stage < 2; stage++ {
		if stage == 1 {
			lb.FinishReservation()
			off, err := te.Write(m, 0)
			if err == nil {
				_, err = lb.WriteHeader(m, off)
			}
			if err != nil {
				panic(err)
			}
		}
		for j, t := range tokens {
			enc := make([]compact.FeatureID, len(w.lists[t]))
			for i, u := range w.lists[t] {
				enc[i] = w.nt.EncodeID(cID(u))
			}
			pl.Fill(t, &idIter{ids: enc})
			n := pl.Header.Marshal(buffer)
			if stage == 0 {
				lb.Reserve(j, n)
				lb.Reserve(j, len(pl.IDs))
			} else if err := lb.WriteItem(m, j, buffer[0:n], pl.IDs); err != nil {
				panic(err)
			}
		}
	}
	ix, err := compact.NewIndex(m.b, w.nt, nil)
	if err != nil {
		panic(err)
	}
	return ix
}

type u64Values struct{}

func cmp(a, b uint64) search.Comparison {
	if a < b {
		return search.ComparisonLess
	} else if a > b {
		return search.ComparisonGreater
	}
	return search.ComparisonEqual
}

func (u64Values) Compare(a, b search.Value) search.Comparison { return cmp(a.(uint64), b.(uint64)) }
func (u64Values) CompareKey(v search.Value, k search.Key) search.Comparison {
	return cmp(v.(uint64), k.(uint64))
}
func (u64Values) Key(v search.Value) search.Key { return v.(uint64) }

// Token BYTES are a generated dimension: ASCII, non-ASCII UTF-8, the bytes 0x7e/0x7f/0x80/0xff right after a stem, a token
// equal to a prefix, stems that are prefixes of other stems, and tokens of 256+ bytes. Tokens travel hex-encoded.
var longStem = strings.Repeat("L", 300)

var tokenPool = []string{"", "*", "a", "a=", "a=1", "a=10", "a=2", "ab", "ab=1", "b", "b=1", "b=2", "c=x", "s2:1", "s2:12", "z",
	"a=\x7e", "a=\x7f", "a=\x80", "a=\xff", "a=\xc3\x89ire", "a=\xe6\x9d\xb1\xe4\xba\xac", "a=\xf0\x9f\x98\x80", "a\xff", "a\x7f=1",
	"name=", "name=\xc3\x89ire", "water", "water=1", "water=\xe6\xb0\xb4", "waterway", "waterway=1", "waterway=\xff\xff",
	"\x7f", "\x80", "\xff", "\xff\xff", longStem, longStem + "=1", longStem + "=\xc3\xa9", longStem + "\x80"}

func tokWord(t string) string { return "'" + fmt.Sprintf("%x", t) }

// ---- query trees ----

type node struct {
	kind     byte // e a p u i r
	tok      string
	b, e     uint64
	w        *world // for rendering / converting b and e
	children []*node
}

func (n *node) String() string {
	switch n.kind {
	case 'e':
		return "( e )"
	case 'a':
		return "( a " + tokWord(n.tok) + " )"
	case 'p':
		return "( p " + tokWord(n.tok) + " )"
	case 'r':
		return fmt.Sprintf("( r %s %s %s )", n.w.show(n.b), n.w.show(n.e), n.children[0])
	}
	parts := []string{"(", string(n.kind)}
	for _, c := range n.children {
		parts = append(parts, c.String())
	}
	parts = append(parts, ")")
	return strings.Join(parts, " ")
}

func (n *node) query() search.Query {
	switch n.kind {
	case 'e':
		return search.Empty{}
	case 'a':
		return search.All{Token: n.tok}
	case 'p':
		return search.TokenPrefix{Prefix: n.tok}
	case 'r':
		return search.KeyRange{Begin: n.w.key(n.b), End: n.w.key(n.e), Query: n.children[0].query()}
	case 'u':
		u := make(search.Union, len(n.children))
		for i, c := range n.children {
			u[i] = c.query()
		}
		return u
	default:
		in := make(search.Intersection, len(n.children))
		for i, c := range n.children {
			in[i] = c.query()
		}
		return in
	}
}

func (n *node) wide() bool { // a union / intersection with at least two children somewhere
	if (n.kind == 'u' || n.kind == 'i') && len(n.children) >= 2 {
		return true
	}
	for _, c := range n.children {
		if c.wide() {
			return true
		}
	}
	return false
}

func (n *node) depth() int {
	d := 0
	for _, c := range n.children {
		if cd := c.depth() + 1; cd > d {
			d = cd
		}
	}
	return d
}

type world struct {
	tokens   []string            // tokens in the index, sorted
	lists    map[string][]uint64 // sorted, deduplicated
	universe []uint64            // sorted values used anywhere
	compact  bool
	nt       *compact.NamespaceTable
}

func (w *world) norm(u uint64) uint64 {
	if w != nil && w.compact {
		return cNorm(u)
	}
	return u
}

func (w *world) show(u uint64) string {
	if w != nil && w.compact {
		return cNat(cID(u), w.nt)
	}
	return strconv.FormatUint(u, 10)
}

func (w *world) key(u uint64) search.Key {
	if w != nil && w.compact {
		return cID(u)
	}
	return u
}

func key(r *hx.Rand, w *world, c *hx.Ctx) uint64 { return w.norm(rawKey(r, w, c)) }

func rawKey(r *hx.Rand, w *world, c *hx.Ctx) uint64 {
	n := len(w.universe)
	switch x := r.Intn(10); {
	case x < 5 && n > 0:
		c.Note("key:present")
		return w.universe[r.Intn(n)]
	case x < 8 && n > 0:
		c.Note("key:neighbour")
		v := w.universe[r.Intn(n)]
		if r.Bool() {
			return v + 1 // wraps at max on purpose
		}
		return v - 1
	case x == 8:
		c.Note("key:extreme")
		if r.Bool() {
			return 0
		}
		return ^uint64(0)
	default:
		c.Note("key:random")
		return r.Uint64Edge()
	}
}

func genQuery(r *hx.Rand, w *world, c *hx.Ctx, depth int, root bool) *node {
	leaf := depth <= 0 || (!root && r.Chance(1, 4))
	if leaf {
		switch x := r.Intn(12); {
		case x == 0:
			return &node{kind: 'e'}
		case x < 7:
			if len(w.tokens) > 0 && !r.Chance(1, 8) {
				return &node{kind: 'a', tok: w.tokens[r.Intn(len(w.tokens))]}
			}
			return &node{kind: 'a', tok: r.Pick(tokenPool)} // maybe absent
		default:
			var p string
			if len(w.tokens) > 0 && !r.Chance(1, 6) {
				t := w.tokens[r.Intn(len(w.tokens))]
				p = t[:r.Intn(len(t)+1)]
			} else {
				p = r.Pick(tokenPool)
				switch r.Intn(8) {
				case 0:
					p += "~" // greater than every ASCII continuation of that stem
				case 1:
					p += "\x7f"
				case 2:
					p += "\xff"
				}
			}
			return &node{kind: 'p', tok: p}
		}
	}
	switch x := r.Intn(10); {
	case x < 4:
		n := &node{kind: 'u'}
		k := r.Intn(5)
		for i := 0; i < k; i++ {
			n.children = append(n.children, genQuery(r, w, c, depth-1, false))
		}
		return n
	case x < 8:
		n := &node{kind: 'i'}
		k := 1 + r.Intn(4)
		if root && r.Chance(1, 40) {
			// in.iterators[0] panics: outside the property, compared with the model only. Only at the root:
			// nested, the parent's sort by EstimateLength already panics inside Compile.
			k = 0
		}
		for i := 0; i < k; i++ {
			n.children = append(n.children, genQuery(r, w, c, depth-1, false))
		}
		return n
	default:
		b, e := key(r, w, c), key(r, w, c)
		if b > e && !r.Chance(1, 5) {
			b, e = e, b
		}
		return &node{kind: 'r', b: b, e: e, w: w, children: []*node{genQuery(r, w, c, depth-1, false)}}
	}
}

func genWorld(r *hx.Rand, c *hx.Ctx, compactMode bool) *world {
	w := &world{lists: map[string][]uint64{}, compact: compactMode}
	var groups []int
	if compactMode {
		w.nt = &compact.NamespaceTable{}
		names := append([]b6.Namespace{}, cNames...)
		if r.Bool() {
			names = append(names, "nsz", "aaa") // namespaces of the table that no id uses
		}
		w.nt.FillFromNamespaces(names)
		for _, g := range r.Perm(cGroups)[:1+r.Intn(4)] {
			groups = append(groups, g)
		}
	}
	// universe
	nu := 3 + r.Intn(12)
	if r.Chance(1, 15) {
		nu = r.Intn(3)
	}
	if c.Thorough() && r.Chance(1, 10) {
		nu = 10 + r.Intn(60)
	}
	if compactMode && r.Chance(1, 6) {
		nu = 40 + r.Intn(120) // posting lists longer than one 64-byte block
	}
	small := r.Chance(2, 3)
	seen := map[uint64]bool{}
	for i := 0; i < nu; i++ {
		var v uint64
		if small {
			v = uint64(r.Intn(24))
		} else if r.Chance(1, 3) {
			v = r.Uint64Edge()
		} else {
			v = uint64(r.Intn(1000))
		}
		if compactMode {
			v = uint64(groups[r.Intn(len(groups))])<<cValueBits | v&(1<<cValueBits-1)
		}
		if !seen[v] {
			seen[v] = true
			w.universe = append(w.universe, v)
		}
	}
	sort.Slice(w.universe, func(i, j int) bool { return w.universe[i] < w.universe[j] })
	nt := 1 + r.Intn(7)
	if r.Chance(1, 15) {
		nt = 0
	}
	p := r.Perm(len(tokenPool))
	for i := 0; i < nt; i++ {
		t := tokenPool[p[i]]
		var l []uint64
		dens := 1 + r.Intn(4)
		for _, v := range w.universe {
			if r.Chance(dens, 4) {
				l = append(l, v)
			}
		}
		w.tokens = append(w.tokens, t)
		w.lists[t] = l
	}
	sort.Strings(w.tokens)
	return w
}

// build the real index; returns the index and the token list it really holds
func build(r *hx.Rand, c *hx.Ctx, w *world, tree bool) (search.Index, []string) {
	byValue := map[uint64][]string{}
	for _, t := range w.tokens {
		for _, v := range w.lists[t] {
			byValue[v] = append(byValue[v], t)
		}
	}
	if tree {
		ix := search.NewTreeIndex(u64Values{})
		order := r.Perm(len(w.universe))
		for _, i := range order {
			v := w.universe[i]
			if ts := byValue[v]; len(ts) > 0 {
				ix.Add(v, ts)
			}
			if r.Chance(1, 3) && len(w.tokens) > 0 { // add something that is removed again later
				extra := v + 1000003
				ts := []string{w.tokens[r.Intn(len(w.tokens))]}
				if !contains(w.lists[ts[0]], extra) {
					ix.Add(extra, ts)
					defer ix.Remove(extra, ts)
					c.Note("tree:add-remove")
				}
			}
			if r.Chance(1, 5) { // duplicate insert
				if ts := byValue[v]; len(ts) > 0 {
					ix.Add(v, ts[:1])
				}
			}
		}
		// tokens whose list is empty still exist in a tree index only if something was ever added
		var present []string
		for _, t := range w.tokens {
			if len(w.lists[t]) == 0 {
				// make the token exist with an empty list: add and remove one value
				ix.Add(uint64(7), []string{t})
				ix.Remove(uint64(7), []string{t})
				c.Note("tree:empty-list-token")
			}
			present = append(present, t)
		}
		return ix, present
	}
	ix := search.NewArrayIndex(u64Values{})
	order := r.Perm(len(w.universe))
	for _, i := range order {
		v := w.universe[i]
		if ts := byValue[v]; len(ts) > 0 {
			ix.Add(v, ts)
			if r.Chance(1, 4) {
				ix.Add(v, ts[:1+r.Intn(len(ts))]) // duplicates, removed by Finish
			}
		}
	}
	ix.Finish(1 + r.Intn(3))
	var present []string
	for _, t := range w.tokens {
		if len(w.lists[t]) > 0 {
			present = append(present, t)
		}
	}
	return ix, present
}

func contains(l []uint64, v uint64) bool {
	for _, x := range l {
		if x == v {
			return true
		}
	}
	return false
}

func renderIndex(kind string, tokens []string, w *world) string {
	parts := []string{"index", kind}
	if w.compact { // the namespace table, in table order
		for _, ns := range w.nt.FromEncoded {
			parts = append(parts, "'"+string(ns))
		}
		parts = append(parts, "|")
	}
	for _, t := range tokens {
		parts = append(parts, tokWord(t), "(")
		for _, v := range w.lists[t] {
			parts = append(parts, w.show(v))
		}
		parts = append(parts, ")")
	}
	return strings.Join(parts, " ")
}

func answer(ok bool, it search.Iterator, w *world) string {
	if !ok {
		return "false"
	}
	switch v := it.Value().(type) {
	case uint64:
		return "true " + strconv.FormatUint(v, 10)
	case b6.FeatureID:
		return "true " + cNat(v, w.nt)
	}
	return "true ?"
}

// A call on a (possibly broken) iterator can loop forever: run it on its own goroutine and give up after
// two seconds (answer `hang`; the spinning goroutine is abandoned). After a few hangs the run stops early.
var hangs = 0

func guarded(f func() string) string {
	done := make(chan string, 1)
	go func() { done <- hx.Recover(f) }()
	select {
	case a := <-done:
		return a
	case <-time.After(2 * time.Second):
		hangs++
		return "hang"
	}
}

// one (query, call sequence) block; returns the number of calls answered true
func runCalls(c *hx.Ctx, ix search.Index, w *world, q *node, drain bool, maxCalls int) (trues int, usedNext, usedAdv bool) {
	r := c.Rand
	var it search.Iterator
	ans := guarded(func() string { it = q.query().Compile(ix); return "ok" })
	c.Op("query "+q.String(), ans)
	if ans != "ok" {
		return
	}
	for i := 0; i < maxCalls; i++ {
		var op string
		var a string
		if drain || r.Bool() {
			op = "next"
			usedNext = true
			a = guarded(func() string { return answer(it.Next(), it, w) })
			c.Note("call:next")
		} else {
			k := key(r, w, c)
			op = "adv " + w.show(k)
			usedAdv = true
			a = guarded(func() string { return answer(it.Advance(w.key(k)), it, w) })
			c.Note("call:advance")
		}
		c.Op(op, a)
		if strings.HasPrefix(a, "true") {
			trues++
			c.Note("answer:true")
		} else {
			c.Note("answer:" + a)
			return
		}
	}
	return
}

func oneCase(c *hx.Ctx) {
	if hangs >= 5 {
		c.Comment("skipped: the implementation hung 5 times already")
		return
	}
	r := c.Rand
	kindNo := r.Intn(3)
	w := genWorld(r, c, kindNo == 2)
	kind := []string{"array", "tree", "compact"}[kindNo]
	var ix search.Index
	var present []string
	if kindNo == 2 {
		ix = buildCompact(w)
		for _, t := range w.tokens {
			if len(w.lists[t]) > 0 {
				present = append(present, t)
			}
		}
	} else {
		ix, present = build(r, c, w, kindNo == 1)
	}
	// the model index holds exactly the tokens the real index holds
	w2 := &world{tokens: present, lists: w.lists, universe: w.universe, compact: w.compact, nt: w.nt}
	c.Op(renderIndex(kind, present, w2), "ok")
	c.Note("index:" + kind)
	c.Note(fmt.Sprintf("tokens:%d", len(present)))
	maxDepth := 4
	if c.Thorough() {
		maxDepth = 5
	}
	nq := 1 + r.Intn(3)
	for i := 0; i < nq; i++ {
		qd := 1 + r.Intn(maxDepth)
		if r.Chance(1, 6) {
			qd = 0
		}
		q := genQuery(r, w2, c, qd, true)
		c.Note(fmt.Sprintf("depth:%d", q.depth()))
		c.Note("root:" + string(q.kind))
		seqs := 1 + r.Intn(3)
		for s := 0; s < seqs; s++ {
			drain := r.Chance(1, 5)
			maxCalls := 2 + r.Intn(12)
			if drain {
				maxCalls = 80
			}
			trues, n, a := runCalls(c, ix, w2, q, drain, maxCalls)
			if q.wide() && trues >= 3 && n && a {
				c.NonTrivial()
			}
		}
	}
}

// ---- corpus: fixed shapes ----

func corpus(c *hx.Ctx) {
	w := &world{tokens: []string{"a=1", "a=2", "b"}, lists: map[string][]uint64{
		"a=1": {1, 4, 7, 9}, "a=2": {2, 4, 9, 12}, "b": {4, 5, 9, 20}}, universe: []uint64{1, 2, 4, 5, 7, 9, 12, 20}}
	for _, tree := range []bool{false, true} {
		var ix search.Index
		kind := "array"
		if tree {
			t := search.NewTreeIndex(u64Values{})
			for _, tok := range w.tokens {
				for _, v := range w.lists[tok] {
					t.Add(v, []string{tok})
				}
			}
			ix, kind = t, "tree"
		} else {
			a := search.NewArrayIndex(u64Values{})
			for _, tok := range w.tokens {
				for _, v := range w.lists[tok] {
					a.Add(v, []string{tok})
				}
			}
			a.Finish(1)
			ix = a
		}
		c.Op(renderIndex(kind, w.tokens, w), "ok")
		all := func(t string) *node { return &node{kind: 'a', tok: t} }
		qs := []*node{
			{kind: 'i', children: []*node{{kind: 'u', children: []*node{all("a=1"), all("a=2")}}, {kind: 'r', b: 3, e: 15, w: w, children: []*node{{kind: 'p', tok: "b"}}}, {kind: 'p', tok: "a="}}},
			{kind: 'i', children: []*node{all("a=1"), {kind: 'e'}}},              // intersection with an empty child
			{kind: 'u'},                                                           // empty union
			{kind: 'r', b: 9, e: 4, w: w, children: []*node{all("b")}},                  // begin > end
			{kind: 'r', b: 0, e: ^uint64(0), w: w, children: []*node{{kind: 'p', tok: ""}}}, // everything
			{kind: 'i'}, // no children: Go panics; model panics
			{kind: 'u', children: []*node{all("a=1"), all("a=1"), all("zz")}}, // duplicate children, absent token
		}
		for _, q := range qs {
			var it search.Iterator
			c.Op("query "+q.String(), guarded(func() string { it = q.query().Compile(ix); return "ok" }))
			for _, k := range []int64{-1, 4, 4, -1, 10, -1, 1 << 40, -1} {
				var a, op string
				if k < 0 {
					op = "next"
					a = guarded(func() string { return answer(it.Next(), it, w) })
				} else {
					op = fmt.Sprintf("adv %d", k)
					a = guarded(func() string { return answer(it.Advance(uint64(k)), it, w) })
				}
				c.Op(op, a)
				if !strings.HasPrefix(a, "true") {
					break
				}
			}
		}
	}
	// fixed by C08 (Advance to a namespace absent from the list did not consume the value): {a/1, c/5, c/9}
	cw := &world{tokens: []string{"t", "u"}, lists: map[string][]uint64{
		"t": {0<<cValueBits | 1, 2<<cValueBits | 5, 2<<cValueBits | 9},
		"u": {2<<cValueBits | 5, 2<<cValueBits | 7, 5<<cValueBits | 0}}, compact: true, nt: &compact.NamespaceTable{}}
	cw.nt.FillFromNamespaces(cNames)
	cix := buildCompact(cw)
	c.Op(renderIndex("compact", cw.tokens, cw), "ok")
	for _, q := range []*node{{kind: 'a', tok: "t"}, {kind: 'u', children: []*node{{kind: 'a', tok: "t"}, {kind: 'a', tok: "u"}}},
		{kind: 'i', children: []*node{{kind: 'p', tok: ""}, {kind: 'a', tok: "u"}}}} {
		var it search.Iterator
		c.Op("query "+q.String(), guarded(func() string { it = q.query().Compile(cix); return "ok" }))
		for _, k := range []int64{1<<cValueBits | 3, -1, -1, -1} {
			var a, op string
			if k < 0 {
				op = "next"
				a = guarded(func() string { return answer(it.Next(), it, cw) })
			} else {
				op = "adv " + cw.show(uint64(k))
				a = guarded(func() string { return answer(it.Advance(cw.key(uint64(k))), it, cw) })
			}
			c.Op(op, a)
			if !strings.HasPrefix(a, "true") {
				break
			}
		}
	}
	c.NonTrivial()
}

func main() {
	hx.Main(hx.Family{
		Name: "c06",
		Rule: "random posting lists (0-7 tokens from a pool with shared prefixes, 0-13 values, small/edge/large) in a real ArrayIndex, TreeIndex or compact.Index (compact: token map + posting lists laid out as buildIndex does, feature-ID values in 1-4 of 12 (type, namespace) groups, 1 in 6 with 40-160 values so that lists span several 64-byte blocks, advance keys always inside the namespace table; tree: random insertion order, duplicates, add-then-remove, tokens with emptied lists); 1-3 random query trees of depth <= 4 (thorough 5) over empty/all/union/intersection/key-range/token-prefix; per query 1-3 fresh compilations each driven by a random interleaving of Next/Advance(k) (keys: present values, +-1, 0/max, random) or a full Next drain, stopped at the first false; non-trivial = the tree has a union/intersection with >= 2 children, the sequence uses both Next and Advance and at least 3 calls return true",
		Quick:    2500,
		Thorough: 120000,
		Corpus:   corpus,
		Case:     oneCase,
	})
}
