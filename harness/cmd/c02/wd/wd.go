// Package wd holds what the C02 and C36 harnesses share: the generator of OSM-shaped inputs, the
// conversion of such an input to ingest features through the real pbfSource, the builders of the two
// worlds (in-memory "basic" and compact) and the canonical observation dump of a b6.World.
package wd

import (
	"context"
	"fmt"
	"io"
	"log"
	"math"
	"os"
	"os/exec"
	"sort"
	"strconv"
	"strings"
	"sync"
	"time"

	"diagonal.works/b6"
	"diagonal.works/b6/ingest"
	"diagonal.works/b6/ingest/compact"
	"diagonal.works/b6/osm"
	"github.com/golang/geo/s1"
	"github.com/golang/geo/s2"
	"verifharness/hx"
)

func init() { log.SetOutput(io.Discard) }

// ---- ids ----------------------------------------------------------------------------------------

// ID renders a feature id as one word: n<v> point osm/node, w<v> path osm/way, aw<v>/ar<v> area from a
// way / a relation, r<v> relation.
func ID(id b6.FeatureID) string {
	switch {
	case id.Type == b6.FeatureTypePoint && id.Namespace == b6.NamespaceOSMNode:
		return fmt.Sprintf("n%d", id.Value)
	case id.Type == b6.FeatureTypePath && id.Namespace == b6.NamespaceOSMWay:
		return fmt.Sprintf("w%d", id.Value)
	case id.Type == b6.FeatureTypeArea && id.Namespace == b6.NamespaceOSMWay:
		return fmt.Sprintf("aw%d", id.Value)
	case id.Type == b6.FeatureTypeArea && id.Namespace == b6.NamespaceOSMRelation:
		return fmt.Sprintf("ar%d", id.Value)
	case id.Type == b6.FeatureTypeRelation && id.Namespace == b6.NamespaceOSMRelation:
		return fmt.Sprintf("r%d", id.Value)
	case !id.IsValid():
		return "invalid"
	}
	return fmt.Sprintf("x%d:%s:%d", int(id.Type), strings.ReplaceAll(string(id.Namespace), " ", "_"), id.Value)
}

func sortedIDs(ids []b6.FeatureID) []string {
	sort.Slice(ids, func(i, j int) bool { return ids[i].Less(ids[j]) })
	out := make([]string, len(ids))
	for i, id := range ids {
		out[i] = ID(id)
	}
	return out
}

func e7(ll s2.LatLng) string {
	return fmt.Sprintf("%d,%d", int64(math.Round(ll.Lat.Degrees()*1e7)), int64(math.Round(ll.Lng.Degrees()*1e7)))
}

func e7p(p s2.Point) string { return e7(s2.LatLngFromPoint(p)) }

// ---- the generated input ------------------------------------------------------------------------

type Input struct {
	Nodes     []osm.Node
	Ways      []osm.Way
	Relations []osm.Relation
	Shape     []string // histogram buckets
}

var nodeTags = [][]osm.Tag{nil, nil, nil, nil, {{Key: "barrier", Value: "gate"}}, {{Key: "name", Value: "x"}}, {{Key: "amenity", Value: "cafe"}, {Key: "name", Value: "y"}}}
var wayTags = [][]osm.Tag{nil, {{Key: "highway", Value: "path"}}, {{Key: "highway", Value: "primary"}, {Key: "name", Value: "a_road"}}, {{Key: "building", Value: "yes"}}, {{Key: "name", Value: "z"}}, {{Key: "landuse", Value: "grass"}}}
var relTags = [][]osm.Tag{{{Key: "type", Value: "route"}, {Key: "route", Value: "bicycle"}}, {{Key: "type", Value: "route"}}, {{Key: "name", Value: "rel"}}, nil}
var roles = []string{"", "outer", "inner", "stop", "forward"}

func cloneTags(t []osm.Tag) []osm.Tag { return append([]osm.Tag(nil), t...) }

// boundary lengths of a varint length prefix (1 byte up to 127, 2 bytes up to 16383) and of a single byte
var edgeLengths = []int{0, 1, 2, 126, 127, 128, 129, 254, 255, 256, 257, 16383, 16384}

// LongString is a deterministic string of exactly n bytes drawn from r.
func LongString(r *hx.Rand, n int) string {
	b := make([]byte, n)
	seed := r.Uint64()
	for i := range b {
		b[i] = byte('a' + (seed+uint64(i)*7+uint64(i/26))%26)
	}
	return string(b)
}

var searchableKeys = []string{"amenity", "highway", "building", "landuse", "wikidata"}

// stretch gives, at a low rate, a tag a key, a value or a `key=value` token whose length sits on a boundary of a
// length prefix (strings are length-prefixed in the string table, the token map and the posting-list headers).
func stretch(r *hx.Rand, tags []osm.Tag, shape *[]string) []osm.Tag {
	if !r.Chance(1, 14) {
		return tags
	}
	n := edgeLengths[r.Intn(len(edgeLengths))]
	switch r.Intn(4) {
	case 0, 1: // searchable key, value of length n
		*shape = append(*shape, fmt.Sprintf("len:value:%d", n))
		return append(tags, osm.Tag{Key: "shop", Value: LongString(r, n)})
	case 2: // the token `key=value` (without the #) has length n
		k := searchableKeys[r.Intn(len(searchableKeys))]
		if n > len(k)+1 {
			*shape = append(*shape, fmt.Sprintf("len:token:%d", n))
			for _, t := range tags {
				if t.Key == k {
					return tags
				}
			}
			return append(tags, osm.Tag{Key: k, Value: LongString(r, n-len(k)-1)})
		}
		return tags
	default: // searchable key of length n, and an unsearchable one
		if n >= 2 {
			*shape = append(*shape, fmt.Sprintf("len:key:%d", n))
			return append(tags, osm.Tag{Key: "#" + LongString(r, n-1), Value: "yes"}, osm.Tag{Key: LongString(r, n), Value: LongString(r, n%300)})
		}
		return tags
	}
}

// nodeLoc places node i of n on a circle (ascending ids run counter-clockwise) with a small deterministic wobble.
func nodeLoc(i int, n int, r *hx.Rand) osm.LatLng {
	theta := 2 * math.Pi * (float64(i) + 0.3*float64(r.Intn(100))/100.0) / float64(n)
	rad := 0.002 + 0.0005*float64(r.Intn(5))
	lat := 51.5 + rad*math.Sin(theta)
	lng := -0.12 + rad*math.Cos(theta)/math.Cos(51.5*math.Pi/180)
	return osm.LatLng{Lat: math.Round(lat*1e7) / 1e7, Lng: math.Round(lng*1e7) / 1e7}
}

// Generate draws one OSM-shaped input. Node ids 1..n exist (minus a few deliberately missing ones),
// ways are 10.., relations 50..
func Generate(r *hx.Rand, big bool) *Input {
	in := &Input{}
	n := 3 + r.Intn(8)
	if big {
		n = 8 + r.Intn(30)
	}
	missing := map[int]bool{}
	if r.Chance(1, 3) {
		missing[1+r.Intn(n)] = true
		in.Shape = append(in.Shape, "gen:missing-node")
	}
	for i := 1; i <= n; i++ {
		if missing[i] {
			continue
		}
		in.Nodes = append(in.Nodes, osm.Node{ID: osm.NodeID(i), Location: nodeLoc(i, n, r), Tags: stretch(r, cloneTags(nodeTags[r.Intn(len(nodeTags))]), &in.Shape)})
	}
	pick := func() osm.NodeID { return osm.NodeID(1 + r.Intn(n)) }
	distinct := func(k int) []osm.NodeID {
		if k > n {
			k = n
		}
		p := r.Perm(n)
		out := make([]osm.NodeID, k)
		for i := 0; i < k; i++ {
			out[i] = osm.NodeID(p[i] + 1)
		}
		return out
	}
	nw := 1 + r.Intn(5)
	if big {
		nw = 4 + r.Intn(12)
	}
	var closedWays, openWays, allWays []osm.WayID
	for k := 0; k < nw; k++ {
		id := osm.WayID(10 + k)
		var nodes []osm.NodeID
		kind := r.Intn(12)
		switch {
		case kind <= 3: // open, distinct nodes
			nodes = distinct(2 + r.Intn(4))
			in.Shape = append(in.Shape, "way:open")
		case kind == 4: // open with a node visited twice
			d := distinct(3 + r.Intn(3))
			j := r.Intn(len(d) - 1)
			nodes = append(append(append([]osm.NodeID{}, d[:len(d)-1]...), d[j]), d[len(d)-1])
			in.Shape = append(in.Shape, "way:open-revisit")
		case kind <= 7: // closed convex, ccw or cw
			d := distinct(3 + r.Intn(3))
			sort.Slice(d, func(i, j int) bool { return d[i] < d[j] })
			if r.Bool() {
				for i, j := 0, len(d)-1; i < j; i, j = i+1, j-1 {
					d[i], d[j] = d[j], d[i]
				}
				in.Shape = append(in.Shape, "way:closed-cw")
			} else {
				in.Shape = append(in.Shape, "way:closed-ccw")
			}
			// rotate the start so that the closing node is not always the smallest id
			rot := r.Intn(len(d))
			d = append(d[rot:], d[:rot]...)
			nodes = append(d, d[0])
		case kind == 8: // closed but self-crossing or degenerate
			switch r.Intn(3) {
			case 0:
				d := distinct(2)
				nodes = []osm.NodeID{d[0], d[1], d[0]}
			case 1:
				d := distinct(4)
				sort.Slice(d, func(i, j int) bool { return d[i] < d[j] })
				if len(d) == 4 {
					d[1], d[2] = d[2], d[1]
				}
				nodes = append(d, d[0])
			default:
				a := pick()
				nodes = []osm.NodeID{a, a}
			}
			in.Shape = append(in.Shape, "way:closed-bad")
		case kind == 9: // closed with a spur-like revisit: a b c b a  (closed, revisits b)
			d := distinct(3)
			if len(d) == 3 {
				nodes = []osm.NodeID{d[0], d[1], d[2], d[1], d[0]}
			} else {
				nodes = distinct(2)
			}
			in.Shape = append(in.Shape, "way:closed-revisit")
		case kind == 10: // one node only
			nodes = []osm.NodeID{pick()}
			in.Shape = append(in.Shape, "way:single")
		default: // open, long, shares nodes heavily
			l := 2 + r.Intn(6)
			for i := 0; i < l; i++ {
				nodes = append(nodes, pick())
			}
			in.Shape = append(in.Shape, "way:random")
		}
		if r.Chance(1, 10) { // a node id that no node has
			nodes[r.Intn(len(nodes))] = osm.NodeID(n + 1 + r.Intn(2))
			in.Shape = append(in.Shape, "way:absent-node")
		}
		w := osm.Way{ID: id, Nodes: nodes, Tags: stretch(r, cloneTags(wayTags[r.Intn(len(wayTags))]), &in.Shape)}
		in.Ways = append(in.Ways, w)
		allWays = append(allWays, id)
		if nodes[0] == nodes[len(nodes)-1] {
			closedWays = append(closedWays, id)
		} else {
			openWays = append(openWays, id)
		}
	}
	nr := r.Intn(4)
	if big {
		nr = r.Intn(8)
	}
	for k := 0; k < nr; k++ {
		id := osm.RelationID(50 + k)
		rel := osm.Relation{ID: id}
		if r.Chance(2, 5) && len(closedWays) > 0 { // multipolygon
			rel.Tags = []osm.Tag{{Key: "type", Value: "multipolygon"}}
			if r.Bool() {
				rel.Tags = append(rel.Tags, osm.Tag{Key: "building", Value: "yes"})
			}
			m := 1 + r.Intn(3)
			for i := 0; i < m; i++ {
				var wid osm.WayID
				switch {
				case r.Chance(1, 8) && len(openWays) > 0:
					wid = openWays[r.Intn(len(openWays))]
					in.Shape = append(in.Shape, "mp:open-member")
				case r.Chance(1, 12):
					wid = osm.WayID(40 + r.Intn(2)) // absent way
					in.Shape = append(in.Shape, "mp:absent-member")
				default:
					wid = closedWays[r.Intn(len(closedWays))]
				}
				role := "outer"
				if i > 0 && r.Bool() {
					role = "inner"
				}
				rel.Members = append(rel.Members, osm.Member{Type: osm.ElementTypeWay, ID: osm.AnyID(wid), Role: role})
			}
			if r.Chance(1, 6) {
				rel.Members = append(rel.Members, osm.Member{Type: osm.ElementTypeNode, ID: osm.AnyID(pick()), Role: "label"})
			}
			in.Shape = append(in.Shape, "rel:multipolygon")
		} else {
			rel.Tags = cloneTags(relTags[r.Intn(len(relTags))])
			m := r.Intn(5)
			for i := 0; i < m; i++ {
				role := roles[r.Intn(len(roles))]
				switch r.Intn(6) {
				case 0, 1:
					rel.Members = append(rel.Members, osm.Member{Type: osm.ElementTypeNode, ID: osm.AnyID(1 + r.Intn(n+1)), Role: role})
				case 2, 3, 4:
					wid := osm.WayID(10 + r.Intn(nw+1))
					rel.Members = append(rel.Members, osm.Member{Type: osm.ElementTypeWay, ID: osm.AnyID(wid), Role: role})
				default:
					if k > 0 { // only earlier relations: membership stays acyclic (cycles are C15's finding)
						rel.Members = append(rel.Members, osm.Member{Type: osm.ElementTypeRelation, ID: osm.AnyID(50 + r.Intn(k)), Role: role})
					} else {
						rel.Members = append(rel.Members, osm.Member{Type: osm.ElementTypeRelation, ID: osm.AnyID(70), Role: role})
					}
				}
			}
			in.Shape = append(in.Shape, "rel:plain")
		}
		rel.Tags = stretch(r, rel.Tags, &in.Shape)
		if len(rel.Members) > 0 && r.Chance(1, 30) {
			n := edgeLengths[r.Intn(len(edgeLengths))]
			rel.Members[r.Intn(len(rel.Members))].Role = LongString(r, n)
			in.Shape = append(in.Shape, fmt.Sprintf("len:role:%d", n))
		}
		in.Relations = append(in.Relations, rel)
	}
	_ = allWays
	return in
}

// ---- OSM -> features (through the real pbfSource) -----------------------------------------------

// Features runs the real OSM→feature source once, serially, and returns clones in emission order.
func (in *Input) Features() ([]ingest.Feature, error) {
	src := ingest.MemoryOSMSource{Nodes: in.Nodes, Ways: in.Ways, Relations: in.Relations}
	fs, err := ingest.NewFeatureSourceFromPBF(&src, &ingest.BuildOptions{Cores: 1}, context.Background())
	if err != nil {
		return nil, err
	}
	var out []ingest.Feature
	emit := func(f ingest.Feature, g int) error {
		out = append(out, f.Clone())
		return nil
	}
	if err := fs.Read(ingest.ReadOptions{Goroutines: 1}, emit, context.Background()); err != nil {
		return nil, err
	}
	return out, nil
}

func CloneFeatures(fs []ingest.Feature) []ingest.Feature {
	out := make([]ingest.Feature, len(fs))
	for i, f := range fs {
		out[i] = f.Clone()
	}
	return out
}

// ---- source description lines (input of the Lean model) ----------------------------------------

// tagWord renders a string as one word. Strings longer than 48 bytes are abbreviated to
// `L<length>:<fnv64>:<first 8 bytes>` (the same on the source lines and in every dump, so the model sees them
// as opaque values).
func tagWord(s string) string {
	if s == "" {
		return "~"
	}
	if len(s) > 48 {
		h := uint64(0xcbf29ce484222325)
		for i := 0; i < len(s); i++ {
			h ^= uint64(s[i])
			h *= 0x00000100000001b3
		}
		return fmt.Sprintf("L%d:%016x:%s", len(s), h, tagWord(s[:8]))
	}
	var b strings.Builder
	for _, c := range s {
		switch {
		case c == ' ' || c == '[' || c == ']' || c == '=' || c == '|':
			b.WriteByte('_')
		default:
			b.WriteRune(c)
		}
	}
	return b.String()
}

func valueWord(v b6.Expression) string {
	switch e := v.AnyExpression.(type) {
	case b6.Expressions:
		xs := make([]string, len(e))
		for i, x := range e {
			switch y := x.(type) {
			case b6.FeatureIDExpression:
				xs[i] = ID(b6.FeatureID(y))
			case b6.PointExpression:
				xs[i] = e7(s2.LatLng(y))
			default:
				xs[i] = fmt.Sprintf("?%T", x)
			}
		}
		return "(" + strings.Join(xs, ";") + ")"
	case b6.PointExpression:
		return e7(s2.LatLng(e))
	case *b6.PointExpression:
		return e7(s2.LatLng(*e))
	}
	return tagWord(v.String())
}

// Tags renders a tag list in order, `[k=v k=v]`.
func Tags(t b6.Tags) string {
	xs := make([]string, len(t))
	for i, tag := range t {
		xs[i] = tagWord(tag.Key) + "=" + valueWord(tag.Value)
	}
	return hx.List(xs)
}

// LoopOracle evaluates the S2 part of path validation directly on the source geometry: for a closed
// path (first reference = last reference, valid) whose points all resolve, whether s2 accepts the loop
// and whether it is clockwise. S2 is outside the model (DESIGN §3), so its verdicts are model inputs.
func LoopOracle(f ingest.Feature, locs map[b6.FeatureID]s2.LatLng) (loop string, cw bool) {
	p, ok := f.(b6.PhysicalFeature)
	if !ok || !f.AllTags().ClosedPath() || p.GeometryLen() < 2 {
		return "na", false
	}
	pts := make([]s2.Point, p.GeometryLen())
	for i := range pts {
		ll, ok := locs[p.Reference(i).Source()]
		if !ok {
			return "na", false
		}
		pts[i] = s2.PointFromLatLng(ll)
	}
	l := s2.LoopFromPoints(pts[:len(pts)-1])
	if l.Validate() != nil {
		return "bad", false
	}
	return "ok", l.Area() > 2*math.Pi
}

// SrcLines describes the features for the model, one line each:
//
//	point n1 <lat,lng> [tags]
//	path w10 [n1 n2 n3] loop=ok|bad|na cw=0|1 [tags]
//	area aw10 [[w10] [w11 w12]] [tags]
//	relation r50 [n1:role w10:role] [tags]
func SrcLines(fs []ingest.Feature) []string {
	locs := map[b6.FeatureID]s2.LatLng{}
	for _, f := range fs {
		if f.FeatureID().Type == b6.FeatureTypePoint {
			if p, ok := f.(b6.PhysicalFeature); ok {
				locs[f.FeatureID()] = s2.LatLngFromPoint(p.Point())
			}
		}
	}
	var out []string
	for _, f := range fs {
		id := ID(f.FeatureID())
		switch f.FeatureID().Type {
		case b6.FeatureTypePoint:
			out = append(out, fmt.Sprintf("point %s %s %s", id, e7(locs[f.FeatureID()]), Tags(f.AllTags())))
		case b6.FeatureTypePath:
			p := f.(b6.PhysicalFeature)
			refs := make([]string, p.GeometryLen())
			for i := range refs {
				refs[i] = ID(p.Reference(i).Source())
			}
			loop, cw := LoopOracle(f, locs)
			c := 0
			if cw {
				c = 1
			}
			out = append(out, fmt.Sprintf("path %s %s loop=%s cw=%d %s", id, hx.List(refs), loop, c, Tags(f.AllTags())))
		case b6.FeatureTypeArea:
			a := f.(*ingest.AreaFeature)
			polys := make([]string, a.Len())
			for i := 0; i < a.Len(); i++ {
				ids, _ := a.PathIDs(i)
				xs := make([]string, len(ids))
				for j, pid := range ids {
					xs[j] = ID(pid)
				}
				polys[i] = "(" + strings.Join(xs, ";") + ")"
			}
			out = append(out, fmt.Sprintf("area %s %s %s", id, hx.List(polys), Tags(f.AllTags())))
		case b6.FeatureTypeRelation:
			rf := f.(*ingest.RelationFeature)
			ms := make([]string, len(rf.Members))
			for i, m := range rf.Members {
				ms[i] = ID(m.ID) + ":" + tagWord(m.Role)
			}
			out = append(out, fmt.Sprintf("relation %s %s %s", id, hx.List(ms), Tags(f.AllTags())))
		}
	}
	return out
}

// ---- builders -----------------------------------------------------------------------------------

func BuildBasicFromOSM(in *Input, cores int) (b6.World, error) {
	return ingest.BuildWorldFromOSM(in.Nodes, in.Ways, in.Relations, &ingest.BuildOptions{Cores: cores})
}

func BuildCompactFromOSM(in *Input, cores int) (b6.World, error) {
	src := ingest.MemoryOSMSource{Nodes: in.Nodes, Ways: in.Ways, Relations: in.Relations}
	fs, err := ingest.NewFeatureSourceFromPBF(&src, &ingest.BuildOptions{Cores: cores}, context.Background())
	if err != nil {
		return nil, err
	}
	return BuildCompactFromSource(fs, cores)
}

func BuildCompactFromSource(fs ingest.FeatureSource, cores int) (b6.World, error) {
	o := compact.Options{Goroutines: cores, PointsScratchOutputType: compact.OutputTypeMemory}
	data, err := compact.BuildInMemory(fs, &o)
	if err != nil {
		return nil, err
	}
	return compact.NewWorldFromData(data)
}

func BuildBasicFromFeatures(fs []ingest.Feature, cores int) (b6.World, error) {
	return ingest.NewWorldFromSource(ingest.MemoryFeatureSource(CloneFeatures(fs)), &ingest.BuildOptions{Cores: cores})
}

func BuildCompactFromFeatures(fs []ingest.Feature, cores int) (b6.World, error) {
	// the compact builder inverts clockwise paths in place in its source, so it gets its own clones
	return BuildCompactFromSource(ingest.MemoryFeatureSource(CloneFeatures(fs)), cores)
}

// ---- observation dump ---------------------------------------------------------------------------

type Obs struct{ Key, Val string }

func guard(f func() string) (ans string) {
	defer func() {
		if r := recover(); r != nil {
			ans = "panic"
		}
	}()
	return f()
}

func geom(f b6.Feature) string {
	switch x := f.(type) {
	case b6.AreaFeature:
		ps := make([]string, x.Len())
		for i := 0; i < x.Len(); i++ {
			ps[i] = guard(func() string {
				paths := x.Feature(i)
				ids := make([]string, len(paths))
				for j, p := range paths {
					if p == nil {
						ids[j] = "nil"
					} else {
						ids[j] = ID(p.FeatureID())
					}
				}
				return "(" + strings.Join(ids, ";") + ")"
			})
		}
		return "area:" + strings.Join(ps, "|")
	case b6.RelationFeature:
		ms := make([]string, x.Len())
		for i := range ms {
			m := x.Member(i)
			ms[i] = ID(m.ID) + ":" + tagWord(m.Role)
		}
		return "rel:" + strings.Join(ms, ";")
	case b6.PhysicalFeature:
		switch x.GeometryType() {
		case b6.GeometryTypePoint:
			return "pt:" + e7p(x.Point())
		case b6.GeometryTypePath:
			n := x.GeometryLen()
			xs := make([]string, n)
			for i := 0; i < n; i++ {
				xs[i] = guard(func() string { return ID(x.Reference(i).Source()) + "@" + e7p(x.PointAt(i)) })
			}
			return "path:" + strings.Join(xs, ";")
		}
		return "geom-invalid"
	}
	return fmt.Sprintf("?%T", f)
}

// polyWord renders the loops of every polygon of an area (vertex order as s2 has it).
func polyWord(f b6.Feature) string {
	x, ok := f.(b6.AreaFeature)
	if !ok {
		return "-"
	}
	ps := make([]string, x.Len())
	for i := 0; i < x.Len(); i++ {
		ps[i] = guard(func() string {
			poly := x.Polygon(i)
			ls := make([]string, poly.NumLoops())
			for j := range ls {
				l := poly.Loop(j)
				vs := make([]string, l.NumVertices())
				for k := range vs {
					vs[k] = e7p(l.Vertex(k))
				}
				ls[j] = strings.Join(vs, "/")
			}
			return strings.Join(ls, "+")
		})
	}
	return strings.Join(ps, "|")
}

func featureWord(f b6.Feature) string {
	if f == nil {
		return "nil"
	}
	return guard(func() string { return ID(f.FeatureID()) + " " + Tags(f.AllTags()) + " " + geom(f) })
}

// Probes: every id the features mention (own ids, path points, area paths, relation members) plus ids absent everywhere.
func Probes(fs []ingest.Feature) []b6.FeatureID {
	seen := map[b6.FeatureID]bool{}
	add := func(id b6.FeatureID) {
		if id.IsValid() {
			seen[id] = true
		}
	}
	for _, f := range fs {
		add(f.FeatureID())
		switch x := f.(type) {
		case *ingest.AreaFeature:
			for i := 0; i < x.Len(); i++ {
				ids, _ := x.PathIDs(i)
				for _, id := range ids {
					add(id)
				}
			}
		case *ingest.RelationFeature:
			for _, m := range x.Members {
				add(m.ID)
			}
		default:
			if p, ok := f.(b6.PhysicalFeature); ok && f.FeatureID().Type == b6.FeatureTypePath {
				for i := 0; i < p.GeometryLen(); i++ {
					add(p.Reference(i).Source())
				}
			}
		}
	}
	add(b6.FeatureID{Type: b6.FeatureTypePoint, Namespace: b6.NamespaceOSMNode, Value: 999})
	add(b6.FeatureID{Type: b6.FeatureTypePath, Namespace: b6.NamespaceOSMWay, Value: 999})
	add(b6.FeatureID{Type: b6.FeatureTypeArea, Namespace: b6.NamespaceOSMWay, Value: 999})
	add(b6.FeatureID{Type: b6.FeatureTypeRelation, Namespace: b6.NamespaceOSMRelation, Value: 999})
	ids := make([]b6.FeatureID, 0, len(seen))
	for id := range seen {
		ids = append(ids, id)
	}
	sort.Slice(ids, func(i, j int) bool { return ids[i].Less(ids[j]) })
	return ids
}

type namedQuery struct {
	name string
	q    b6.Query
}

// NamedQuery is a search that is asked of a world in addition to the fixed ones.
type NamedQuery = namedQuery

// TagQueries returns a `Tagged` (for # keys) and a `Keyed` search for the searchable tags of the features: every
// tag whose key or value is longer than 48 bytes, and up to four of the others.
func TagQueries(fs []ingest.Feature) []NamedQuery {
	var out []NamedQuery
	seen := map[string]bool{}
	short := 0
	for _, f := range fs {
		for _, t := range f.AllTags() {
			if !strings.HasPrefix(t.Key, "#") && !strings.HasPrefix(t.Key, "@") {
				continue
			}
			v := t.Value.String()
			long := len(t.Key) > 48 || len(v) > 48
			if !long {
				if short >= 4 {
					continue
				}
				short++
			}
			if strings.HasPrefix(t.Key, "#") {
				if name := "t:" + tagWord(t.Key) + "=" + tagWord(v); !seen[name] {
					seen[name] = true
					out = append(out, NamedQuery{name, b6.Tagged{Key: t.Key, Value: b6.NewStringExpression(v)}})
				}
			}
			if name := "k:" + tagWord(t.Key); !seen[name] {
				seen[name] = true
				out = append(out, NamedQuery{name, b6.Keyed{Key: t.Key}})
			}
		}
	}
	return out
}

func queries() []namedQuery {
	centre := s2.PointFromLatLng(s2.LatLngFromDegrees(51.5, -0.12))
	return []namedQuery{
		{"all", b6.All{}},
		{"k:#highway", b6.Keyed{Key: "#highway"}},
		{"t:#highway=path", b6.Tagged{Key: "#highway", Value: b6.NewStringExpression("path")}},
		{"k:#building", b6.Keyed{Key: "#building"}},
		{"k:#barrier", b6.Keyed{Key: "#barrier"}},
		{"t:#amenity=cafe", b6.Tagged{Key: "#amenity", Value: b6.NewStringExpression("cafe")}},
		{"k:name", b6.Keyed{Key: "name"}},
		{"k:#landuse", b6.Keyed{Key: "#landuse"}},
		{"area+building", b6.Typed{Type: b6.FeatureTypeArea, Query: b6.Keyed{Key: "#building"}}},
		{"path+highway", b6.Typed{Type: b6.FeatureTypePath, Query: b6.Keyed{Key: "#highway"}}},
		{"route|barrier", b6.Union{b6.Keyed{Key: "#route"}, b6.Keyed{Key: "#barrier"}}},
		{"cap200", b6.NewIntersectsCap(s2.CapFromCenterAngle(centre, b6.MetersToAngle(200)))},
		{"cap200&highway", b6.Intersection{b6.Keyed{Key: "#highway"}, b6.NewIntersectsCap(s2.CapFromCenterAngle(centre, b6.MetersToAngle(200)))}},
		{"cell16", b6.NewIntersectsCellID(s2.CellIDFromLatLng(s2.LatLngFromDegrees(51.502, -0.12)).Parent(16))},
		{"cell13", b6.NewIntersectsCellID(s2.CellIDFromLatLng(s2.LatLngFromDegrees(51.5, -0.12)).Parent(13))},
	}
}

var _ = s1.Angle(0)

// Dump is the full observation dump of a world over the probe ids: feature lookup, existence,
// location, EachFeature ids, references (all / paths), relations, areas by point, traversal,
// searches (in result order) and tokens. Everything that comes out in an unspecified order is sorted.
func Dump(w b6.World, probes []b6.FeatureID, searches bool, extra ...NamedQuery) []Obs {
	var out []Obs
	add := func(k, v string) { out = append(out, Obs{k, v}) }
	add("ids", guard(func() string {
		var ids []b6.FeatureID
		err := w.EachFeature(func(f b6.Feature, g int) error {
			ids = append(ids, f.FeatureID())
			return nil
		}, &b6.EachFeatureOptions{Goroutines: 1})
		if err != nil {
			return "err"
		}
		return hx.List(sortedIDs(ids))
	}))
	for _, id := range probes {
		s := ID(id)
		add("find "+s, guard(func() string { return featureWord(w.FindFeatureByID(id)) }))
		add("has "+s, guard(func() string { return fmt.Sprint(w.HasFeatureWithID(id)) }))
		if id.Type == b6.FeatureTypeArea {
			add("poly "+s, guard(func() string {
				f := w.FindFeatureByID(id)
				if f == nil {
					return "nil"
				}
				return polyWord(f)
			}))
		}
		if id.Type == b6.FeatureTypePoint {
			add("loc "+s, guard(func() string {
				ll, err := w.FindLocationByID(id)
				if err != nil {
					return "err"
				}
				return e7(ll)
			}))
		}
		feats := func(fs b6.Features) string {
			var ids []b6.FeatureID
			for fs.Next() {
				ids = append(ids, fs.FeatureID())
			}
			return hx.List(sortedIDs(ids))
		}
		add("refs "+s, guard(func() string { return feats(w.FindReferences(id)) }))
		add("refsp "+s, guard(func() string { return feats(w.FindReferences(id, b6.FeatureTypePath)) }))
		add("rels "+s, guard(func() string {
			rs := w.FindRelationsByFeature(id)
			var ids []b6.FeatureID
			for rs.Next() {
				ids = append(ids, rs.FeatureID())
			}
			return hx.List(sortedIDs(ids))
		}))
		if id.Type == b6.FeatureTypePoint {
			add("areas "+s, guard(func() string {
				as := w.FindAreasByPoint(id)
				var ids []b6.FeatureID
				for as.Next() {
					ids = append(ids, as.FeatureID())
				}
				return hx.List(sortedIDs(ids))
			}))
			add("trav "+s, guard(func() string {
				ss := b6.AllSegments(w.Traverse(id))
				keys := make([]b6.SegmentKey, len(ss))
				for i, sg := range ss {
					keys[i] = sg.ToKey()
				}
				sort.Slice(keys, func(i, j int) bool { return keys[i].Less(keys[j]) })
				xs := make([]string, len(keys))
				for i, k := range keys {
					xs[i] = fmt.Sprintf("%s:%d>%d", ID(k.ID), k.First, k.Last)
				}
				return hx.List(xs)
			}))
		}
	}
	if searches {
		for _, nq := range append(queries(), extra...) {
			add("search "+nq.name, guard(func() string {
				fs := w.FindFeatures(nq.q)
				var xs []string
				for fs.Next() {
					xs = append(xs, ID(fs.FeatureID()))
				}
				return hx.List(xs)
			}))
		}
		add("tokens", guard(func() string {
			ts := append([]string(nil), w.Tokens()...)
			sort.Strings(ts)
			for i := range ts {
				ts[i] = tagWord(ts[i])
			}
			return hx.List(ts)
		}))
	}
	return out
}

// Hash is FNV-1a 64 over "key => val\n" of every observation (the Lean driver recomputes it).
func Hash(obs []Obs) uint64 {
	h := uint64(0xcbf29ce484222325)
	for _, o := range obs {
		for _, s := range []string{o.Key, " => ", o.Val, "\n"} {
			for i := 0; i < len(s); i++ {
				h ^= uint64(s[i])
				h *= 0x00000100000001b3
			}
		}
	}
	return h
}

// SrcLinesOSM prints the raw OSM input (debugging aid / replay comment).
func SrcLinesOSM(in *Input) []string {
	var out []string
	for _, n := range in.Nodes {
		out = append(out, fmt.Sprintf("node %d %v %v", n.ID, n.Location, n.Tags))
	}
	for _, w := range in.Ways {
		out = append(out, fmt.Sprintf("way %d %v %v", w.ID, w.Nodes, w.Tags))
	}
	for _, r := range in.Relations {
		out = append(out, fmt.Sprintf("relation %d %v %v", r.ID, r.Members, r.Tags))
	}
	return out
}

// ---- child processes and a look-ahead pipeline ---------------------------------------------------
//
// compact.Build allocates 2..4 buffers of 79 MB per goroutine and per pass; in a long-lived process
// the garbage collector recycles them and every build spends seconds clearing memory. Each case is
// therefore built in a fresh child process with the collector off (fresh pages are never touched),
// which also contains fatal goroutine panics and hangs of the builders. hx.RunChild cannot be used
// because it sets GOMEMLIMIT (counted against mapped, not touched, memory).

// Spawn re-invokes this binary as hx child `name` (see hx.RegisterChild) and returns its answer,
// "hang" on timeout or "crash".
func Spawn(name, arg string, timeout time.Duration, procs int) string {
	self, _ := os.Executable()
	cmd := exec.Command(self)
	cmd.Env = append(os.Environ(), "HX_CHILD="+name, "GOGC=off", fmt.Sprintf("GOMAXPROCS=%d", procs))
	cmd.Stdin = strings.NewReader(arg)
	var sb strings.Builder
	cmd.Stdout = &sb
	if err := cmd.Start(); err != nil {
		return "crash"
	}
	done := make(chan error, 1)
	go func() { done <- cmd.Wait() }()
	select {
	case <-done:
	case <-time.After(timeout):
		cmd.Process.Kill()
		<-done
		return "hang"
	}
	s := sb.String()
	if i := strings.LastIndex(s, "HXRESULT "); i >= 0 {
		return s[i+len("HXRESULT "):]
	}
	return "crash"
}

// CaseRand is the per-case PRNG exactly as hx.Main derives it, so that a child (and the look-ahead)
// can regenerate case `no` from the seed alone.
func CaseRand(seed uint64, no int) *hx.Rand {
	return hx.NewRand(seed*0x9e3779b97f4a7c15 ^ uint64(no)*0xd1342543de82ef95 ^ 0x5851f42d4c957f2d)
}

// Blocks runs the cases of a family in child processes, `size` consecutive case numbers per child and
// `workers` children at a time, looking `ahead` blocks beyond the one being asked for. The child `name`
// gets "seed tier first count" and answers with one transcript per case, each introduced by a line
// "CASE\t<no>". The corpus case (no >= 1000000) is a block of its own.
type Blocks struct {
	Name     string
	Size     int
	Workers  int
	Ahead    int
	Procs    int
	Timeout  time.Duration
	// Run, when set, replaces the default (one Spawn of child Name per block)
	Run      func(seed uint64, tier string, first, count int) string
	mu       sync.Mutex
	pending  map[int]chan map[int]string
	sem      chan struct{}
	seed     uint64
	tier     string
	lastDone map[int]string
	lastBlk  int
}

func (b *Blocks) runBlock(blk int) map[int]string {
	first, count := blk*b.Size, b.Size
	if blk < 0 {
		first, count = 1000000, 1
	}
	var res string
	if b.Run != nil {
		res = b.Run(b.seed, b.tier, first, count)
	} else {
		res = Spawn(b.Name, fmt.Sprintf("%d %s %d %d", b.seed, b.tier, first, count), b.Timeout, b.Procs)
	}
	out := map[int]string{}
	if res == "crash" || res == "hang" {
		// find the culprit by running the block's cases one per child
		if count > 1 {
			for no := first; no < first+count; no++ {
				r1 := Spawn(b.Name, fmt.Sprintf("%d %s %d %d", b.seed, b.tier, no, 1), b.Timeout, b.Procs)
				if r1 == "crash" || r1 == "hang" {
					out[no] = r1
				} else {
					for k, v := range splitCases(r1) {
						out[k] = v
					}
				}
			}
			return out
		}
		out[first] = res
		return out
	}
	return splitCases(res)
}

func splitCases(res string) map[int]string {
	out := map[int]string{}
	for _, part := range strings.Split(res, "CASE\t") {
		nl := strings.IndexByte(part, '\n')
		if nl < 0 {
			continue
		}
		no, err := strconv.Atoi(part[:nl])
		if err != nil {
			continue
		}
		out[no] = part[nl+1:]
	}
	return out
}

func (b *Blocks) start(blk int) chan map[int]string {
	if ch, ok := b.pending[blk]; ok {
		return ch
	}
	ch := make(chan map[int]string, 1)
	b.pending[blk] = ch
	go func() {
		b.sem <- struct{}{}
		defer func() { <-b.sem }()
		ch <- b.runBlock(blk)
	}()
	return ch
}

// Get returns the transcript of case `no` ("crash"/"hang" when its child died), scheduling later blocks.
func (b *Blocks) Get(seed uint64, tier string, no int) string {
	b.mu.Lock()
	if b.pending == nil {
		b.pending = map[int]chan map[int]string{}
		b.sem = make(chan struct{}, b.Workers)
		b.lastBlk = -2
	}
	b.seed, b.tier = seed, tier
	blk := no / b.Size
	if no >= 1000000 {
		blk = -1
	}
	if blk == b.lastBlk {
		r := b.lastDone[no]
		b.mu.Unlock()
		return r
	}
	ch := b.start(blk)
	if blk >= 0 {
		for k := blk + 1; k <= blk+b.Ahead; k++ {
			b.start(k)
		}
	} else {
		for k := 0; k < b.Ahead; k++ {
			b.start(k)
		}
	}
	b.mu.Unlock()
	m := <-ch
	b.mu.Lock()
	delete(b.pending, blk)
	b.lastBlk, b.lastDone = blk, m
	b.mu.Unlock()
	if r, ok := m[no]; ok {
		return r
	}
	return "crash"
}

// Relay replays a child's transcript into the op stream: lines "O\t<op>\t<answer>", "N\t<bucket>", "T".
func Relay(c *hx.Ctx, transcript string) {
	for _, l := range strings.Split(transcript, "\n") {
		switch {
		case strings.HasPrefix(l, "O\t"):
			parts := strings.SplitN(l, "\t", 3)
			if len(parts) == 3 {
				c.Op(parts[1], parts[2])
			}
		case strings.HasPrefix(l, "N\t"):
			c.Note(l[2:])
		case l == "T":
			c.NonTrivial()
		case strings.HasPrefix(l, "#\t"):
			c.Comment(l[2:])
		}
	}
}

// Transcript accumulates a child's answer.
type Transcript struct{ sb strings.Builder }

func (t *Transcript) Op(op, ans string) { fmt.Fprintf(&t.sb, "O\t%s\t%s\n", op, ans) }
func (t *Transcript) Note(b string)     { fmt.Fprintf(&t.sb, "N\t%s\n", b) }
func (t *Transcript) NonTrivial()       { t.sb.WriteString("T\n") }
func (t *Transcript) Comment(s string)  { fmt.Fprintf(&t.sb, "#\t%s\n", strings.ReplaceAll(s, "\n", " ")) }
func (t *Transcript) String() string    { return t.sb.String() }

// ---- PBF-file sources (C36) ----------------------------------------------------------------------

// WritePBF writes the input with the repo's own osm.Writer, flushing a block every `every` elements so
// that a parallel reader has several blobs whose arrival order can vary. It returns the file name.
func WritePBF(in *Input, every int) (string, error) {
	fh, err := os.CreateTemp("", "c36-*.osm.pbf")
	if err != nil {
		return "", err
	}
	defer fh.Close()
	w, err := osm.NewWriter(fh)
	if err != nil {
		return fh.Name(), err
	}
	n := 0
	tick := func() error {
		n++
		if every > 0 && n%every == 0 {
			return w.Flush()
		}
		return nil
	}
	for i := range in.Nodes {
		if err := w.WriteNode(&in.Nodes[i]); err != nil {
			return fh.Name(), err
		}
		if err := tick(); err != nil {
			return fh.Name(), err
		}
	}
	for i := range in.Ways {
		if err := w.WriteWay(&in.Ways[i]); err != nil {
			return fh.Name(), err
		}
		if err := tick(); err != nil {
			return fh.Name(), err
		}
	}
	for i := range in.Relations {
		if err := w.WriteRelation(&in.Relations[i]); err != nil {
			return fh.Name(), err
		}
		if err := tick(); err != nil {
			return fh.Name(), err
		}
	}
	return fh.Name(), w.Flush()
}

// ReadBackPBF reads the file with the repo's reader and returns it as an Input in id order (the source
// description given to the model is what the file holds, e.g. locations at the file's granularity).
func ReadBackPBF(filename string) (*Input, error) {
	nodes, ways, relations, err := osm.ReadWholePBF(filename)
	if err != nil {
		return nil, err
	}
	sort.Slice(nodes, func(i, j int) bool { return nodes[i].ID < nodes[j].ID })
	sort.Slice(ways, func(i, j int) bool { return ways[i].ID < ways[j].ID })
	sort.Slice(relations, func(i, j int) bool { return relations[i].ID < relations[j].ID })
	return &Input{Nodes: nodes, Ways: ways, Relations: relations}, nil
}

func BuildBasicFromPBF(filename string, cores int) (b6.World, error) {
	return ingest.NewWorldFromPBFFile(filename, &ingest.BuildOptions{Cores: cores})
}

func BuildCompactFromPBF(filename string, cores int) (b6.World, error) {
	src := ingest.PBFFilesOSMSource{Glob: filename, FailWhenNoFiles: true}
	fs, err := ingest.NewFeatureSourceFromPBF(&src, &ingest.BuildOptions{Cores: cores}, context.Background())
	if err != nil {
		return nil, err
	}
	return BuildCompactFromSource(fs, cores)
}

// ---- a feature source that reuses its values (C36) ----------------------------------------------------

// ReusingSource is an ingest.FeatureSource that follows the pattern of the repo's own OSM source
// (ingest/osm.go, pbfSource.Read: `points[g]`, `paths[g]`, `areas[g]`, `relations[g]` are filled and emitted
// again for every element): it owns ONE value per feature kind per goroutine, refills it for each feature and
// hands a pointer to it to emit. A builder that keeps such a pointer instead of a copy sees it change.
// The features are split over the goroutines in contiguous chunks or interleaved, and each goroutine emits
// its share in list order — areas and relations may come before their paths and members.
type ReusingSource struct {
	Features    []ingest.Feature
	Interleaved bool
}

func refillTags(dst *b6.Tags, src b6.Tags) {
	*dst = (*dst)[0:0]
	for _, t := range src {
		if es, ok := t.Value.AnyExpression.(b6.Expressions); ok { // a fresh path expression per emission, as osm.go makes
			t.Value = b6.Expression{AnyExpression: append(b6.Expressions(nil), es...)}
		}
		*dst = append(*dst, t)
	}
}

func (s *ReusingSource) Read(options ingest.ReadOptions, emit ingest.Emit, ctx context.Context) error {
	g := options.Goroutines
	if g < 1 {
		g = 1
	}
	points := make([]ingest.GenericFeature, g)
	paths := make([]ingest.GenericFeature, g)
	areas := make([]ingest.AreaFeature, g)
	relations := make([]ingest.RelationFeature, g)
	errs := make([]error, g)
	var wg sync.WaitGroup
	n := len(s.Features)
	for k := 0; k < g; k++ {
		wg.Add(1)
		go func(k int) {
			defer wg.Done()
			mine := func(i int) bool {
				if s.Interleaved {
					return i%g == k
				}
				return i >= k*n/g && i < (k+1)*n/g
			}
			for i, f := range s.Features {
				if !mine(i) || ctx.Err() != nil {
					continue
				}
				var err error
				switch x := f.(type) {
				case *ingest.AreaFeature:
					if options.SkipAreas {
						continue
					}
					areas[k].AreaID = x.AreaID
					refillTags(&areas[k].Tags, x.Tags)
					areas[k].AreaMembers = x.AreaMembers.Clone()
					err = emit(&areas[k], k)
				case *ingest.RelationFeature:
					if options.SkipRelations {
						continue
					}
					relations[k].RelationID = x.RelationID
					refillTags(&relations[k].Tags, x.Tags)
					relations[k].Members = append(relations[k].Members[0:0], x.Members...)
					err = emit(&relations[k], k)
				case *ingest.GenericFeature:
					v := &points[k]
					if f.FeatureID().Type == b6.FeatureTypePath {
						if options.SkipPaths {
							continue
						}
						v = &paths[k]
					} else if options.SkipPoints {
						continue
					}
					v.ID = x.ID
					refillTags(&v.Tags, x.Tags)
					err = emit(v, k)
				}
				if err != nil {
					errs[k] = err
					return
				}
			}
		}(k)
	}
	wg.Wait()
	for _, err := range errs {
		if err != nil {
			return err
		}
	}
	return ctx.Err()
}

func BuildBasicFromReusing(fs []ingest.Feature, interleaved bool, cores int) (b6.World, error) {
	return ingest.NewWorldFromSource(&ReusingSource{Features: CloneFeatures(fs), Interleaved: interleaved}, &ingest.BuildOptions{Cores: cores})
}

func BuildCompactFromReusing(fs []ingest.Feature, interleaved bool, cores int) (b6.World, error) {
	return BuildCompactFromSource(&ReusingSource{Features: CloneFeatures(fs), Interleaved: interleaved}, cores)
}
