// C02 harness: the same generated OSM input built as the in-memory ("basic") world and as a compact
// index, every read query asked of both over every id the input mentions. One op line per query carries
// both answers, `<basic> ## <compact>`; the Lean driver recomputes both with its model of the two read
// paths and evaluates the property (the two Go answers agree).
package main

import (
	"fmt"
	"strconv"
	"strings"
	"time"

	"diagonal.works/b6/osm"
	"verifharness/cmd/c02/wd"
	"verifharness/hx"
)

func node(id int, lat, lng float64, tags ...osm.Tag) osm.Node {
	return osm.Node{ID: osm.NodeID(id), Location: osm.LatLng{Lat: lat, Lng: lng}, Tags: tags}
}

func way(id int, nodes []int, tags ...osm.Tag) osm.Way {
	ns := make([]osm.NodeID, len(nodes))
	for i, n := range nodes {
		ns[i] = osm.NodeID(n)
	}
	return osm.Way{ID: osm.WayID(id), Nodes: ns, Tags: tags}
}

// corpus: fixed witnesses (DESIGN §7 and the defects found by this check), run first.
func corpus(k int) *wd.Input {
	sq := []osm.Node{node(1, 51.500, -0.120), node(2, 51.500, -0.118), node(3, 51.502, -0.118), node(4, 51.502, -0.120),
		node(5, 51.498, -0.122), node(6, 51.504, -0.116), node(7, 51.505, -0.115)}
	switch k {
	case 0: // closed way [1,2,3,1] with spurs at 1 and 3 (DESIGN §7 C02)
		return &wd.Input{Nodes: sq, Ways: []osm.Way{way(10, []int{1, 2, 3, 1}), way(11, []int{5, 1}), way(12, []int{3, 6})}}
	case 1: // untagged intermediate points must not stop a traversal (isGraphNode counted the point tag)
		return &wd.Input{Nodes: sq, Ways: []osm.Way{way(10, []int{1, 2, 3, 4}, osm.Tag{Key: "highway", Value: "path"})}}
	case 2: // a way that visits a node twice
		return &wd.Input{Nodes: sq, Ways: []osm.Way{way(10, []int{5, 1, 2, 3, 1, 6})}}
	case 3: // a node shared with a way that is dropped (missing node 9)
		return &wd.Input{Nodes: sq, Ways: []osm.Way{way(10, []int{1, 2, 3}), way(11, []int{2, 9})}}
	case 4: // relations of ways, areas and relations
		return &wd.Input{Nodes: sq, Ways: []osm.Way{way(10, []int{1, 2, 3, 4, 1}, osm.Tag{Key: "building", Value: "yes"}), way(11, []int{5, 1})},
			Relations: []osm.Relation{
				{ID: 50, Members: []osm.Member{{Type: osm.ElementTypeWay, ID: 11, Role: "forward"}, {Type: osm.ElementTypeNode, ID: 5}}, Tags: []osm.Tag{{Key: "type", Value: "route"}}},
				{ID: 51, Members: []osm.Member{{Type: osm.ElementTypeRelation, ID: 50}}, Tags: []osm.Tag{{Key: "type", Value: "route"}}},
				{ID: 52, Members: []osm.Member{{Type: osm.ElementTypeWay, ID: 10, Role: "outer"}}, Tags: []osm.Tag{{Key: "type", Value: "multipolygon"}}},
			}}
	case 6: // referrers through several steps, and of ids without a feature (way 14, node 9, relation 70 are absent)
		return &wd.Input{Nodes: sq, Ways: []osm.Way{way(10, []int{1, 2, 3, 4, 1}), way(11, []int{5, 1})},
			Relations: []osm.Relation{
				{ID: 50, Members: []osm.Member{{Type: osm.ElementTypeWay, ID: 11}, {Type: osm.ElementTypeWay, ID: 14}, {Type: osm.ElementTypeNode, ID: 9}}, Tags: []osm.Tag{{Key: "type", Value: "route"}}},
				{ID: 51, Members: []osm.Member{{Type: osm.ElementTypeRelation, ID: 50}, {Type: osm.ElementTypeRelation, ID: 70}, {Type: osm.ElementTypeWay, ID: 10}}, Tags: []osm.Tag{{Key: "type", Value: "route"}}},
			}}
	case 7: // strings on the boundaries of a length prefix: tokens of 127/128/255/256 bytes and a 16 KB value
		long := func(n int) string { return wd.LongString(hx.NewRand(uint64(n)), n) }
		nodes := append([]osm.Node(nil), sq...)
		nodes[0].Tags = []osm.Tag{{Key: "amenity", Value: long(16384)}}
		nodes[1].Tags = []osm.Tag{{Key: "amenity", Value: long(127 - 8)}, {Key: "shop", Value: long(128 - 5)}}
		nodes[2].Tags = []osm.Tag{{Key: "amenity", Value: long(255 - 8)}, {Key: "shop", Value: long(256 - 5)}, {Key: "#" + long(300), Value: "yes"}}
		return &wd.Input{Nodes: nodes, Ways: []osm.Way{way(10, []int{1, 2, 3}, osm.Tag{Key: "highway", Value: long(1000)}, osm.Tag{Key: long(256), Value: ""})}}
	case 5: // closed way whose first node is missing (crashed the in-memory builder before C37's fix)
		return &wd.Input{Nodes: sq[1:], Ways: []osm.Way{way(10, []int{1, 2, 3, 1})}}
	}
	return nil
}

const nCorpus = 8

func caseChild(arg string) string {
	f := strings.Fields(arg)
	seed, _ := strconv.ParseUint(f[0], 10, 64)
	thorough := f[1] == "thorough"
	first, _ := strconv.Atoi(f[2])
	count, _ := strconv.Atoi(f[3])
	var sb strings.Builder
	for no := first; no < first+count; no++ {
		var t wd.Transcript
		if no >= 1000000 {
			for k := 0; k < nCorpus; k++ {
				runInput(&t, corpus(k), 2)
				t.Op("reset", "-")
			}
			t.NonTrivial()
		} else {
			r := wd.CaseRand(seed, no)
			big := thorough && r.Chance(1, 10)
			in := wd.Generate(r, big)
			cores := 1 + r.Intn(4)
			runInput(&t, in, cores)
		}
		fmt.Fprintf(&sb, "CASE\t%d\n%s", no, t.String())
	}
	return sb.String()
}

func runInput(t *wd.Transcript, in *wd.Input, cores int) {
	for _, s := range in.Shape {
		t.Note(s)
	}
	fs, err := in.Features()
	if err != nil {
		t.Op("build", "features-err")
		return
	}
	for _, l := range wd.SrcLinesOSM(in) {
		t.Comment(l)
	}
	for _, l := range wd.SrcLines(fs) {
		t.Op("src "+l, "-")
	}
	bw, err1 := wd.BuildBasicFromOSM(in, cores)
	cw, err2 := wd.BuildCompactFromOSM(in, cores)
	st := func(e error) string {
		if e != nil {
			return "err"
		}
		return "ok"
	}
	t.Op("build", st(err1)+" ## "+st(err2))
	if err1 != nil || err2 != nil {
		return
	}
	probes := wd.Probes(fs)
	tq := wd.TagQueries(fs)
	bd := wd.Dump(bw, probes, true, tq...)
	cd := wd.Dump(cw, probes, true, tq...)
	types := map[byte]bool{}
	xref := false
	for _, f := range fs {
		types[wd.ID(f.FeatureID())[0]] = true
	}
	for i := range bd {
		t.Op("q "+bd[i].Key, bd[i].Val+" ## "+cd[i].Val)
		if strings.HasPrefix(bd[i].Key, "refs ") && bd[i].Val != "[]" {
			xref = true
		}
	}
	t.Note(fmt.Sprintf("features:%d", len(fs)/5*5))
	t.Note(fmt.Sprintf("cores:%d", cores))
	if len(types) >= 2 && xref {
		t.NonTrivial()
	}
}

func main() {
	hx.RegisterChild("c02case", caseChild)
	blocks := &wd.Blocks{Name: "c02case", Size: 1, Workers: 8, Ahead: 16, Procs: 4, Timeout: 300 * time.Second}
	run := func(c *hx.Ctx) {
		res := blocks.Get(c.Seed, c.Tier, c.CaseNo)
		if res == "crash" || res == "hang" {
			c.Op("build", res)
			c.Note("child:" + res)
			return
		}
		wd.Relay(c, res)
	}
	hx.Main(hx.Family{
		Name:     "c02",
		Rule:     "OSM-shaped inputs (3-10 nodes on a circle, 1-5 ways: open / revisiting / closed cw+ccw / self-crossing / single-node / with absent nodes, 0-3 relations: multipolygon and plain with node, way, relation and absent members; thorough also 8-37 nodes) built basic and compact with 1-4 cores; every id mentioned is probed. non-trivial = at least two feature types and one non-empty reference answer",
		Quick:    400,
		Thorough: 3000,
		Corpus:   run,
		Case:     run,
	})
}
