// C11 harness: every compact record kind through its exported Marshal/Unmarshal pair.
//
// One case = one record kind (chosen by case number so every kind gets the same share) and a handful of
// values of that kind.  For every value the real code marshals it, the marshalled bytes are followed by
// `rest` (random trailing bytes, often starting like another record) and unmarshalled again, into a fresh
// receiver or — op kind with a trailing `!` — into a receiver that already holds other data.
//
//	op     : <kind>[!] <params…> | <value tokens> | <rest hex>
//	answer : <marshalled hex> <bytes Unmarshal reported> | <decoded value tokens>
//	         | `panic` (Marshal panicked) | `<hex> panic` (Unmarshal panicked) | `hang` / `<hex> hang` (no return within 10 s:
//	           the rest of the run is skipped)
//
// Values are written in a flat prefix notation (counts first, see render* below); the Lean driver parses the
// value, marshals it with the model (bytes must be equal), unmarshals the *Go* bytes ++ rest with the model
// (value and consumed count must be equal) and checks the property on the Go answer: decoded = encoded
// (the sorted lists for Path/PointReferences/FullPoint) and consumed = len(marshalled).
package main

import (
	"encoding/hex"
	"fmt"
	"math"
	"sort"
	"strconv"
	"strings"
	"time"

	"diagonal.works/b6"
	"diagonal.works/b6/encoding"
	"diagonal.works/b6/ingest/compact"
	"verifharness/hx"
)

type TN = compact.TypeAndNamespace

// ---------------------------------------------------------------------------------------------
// rendering (must match lean/B6/Driver/C11.lean)

func u(v uint64) string { return strconv.FormatUint(v, 10) }
func i(v int) string     { return strconv.Itoa(v) }

func rRef(r compact.Reference) string { return u(uint64(r.TypeAndNamespace)) + ":" + u(r.Value) }
func rLL(l compact.LatLng) string     { return fmt.Sprintf("%d,%d", l.LatE7, l.LngE7) }

func rRefs(rs compact.References) string {
	xs := []string{i(len(rs))}
	for _, r := range rs {
		xs = append(xs, rRef(r))
	}
	return strings.Join(xs, " ")
}

func rLLs(ls compact.LatLngs) string {
	xs := []string{i(len(ls))}
	for _, l := range ls {
		xs = append(xs, rLL(l))
	}
	return strings.Join(xs, " ")
}

func rMixed(g compact.ReferencesAndLatLngs) string {
	xs := []string{i(len(g))}
	for _, x := range g {
		xs = append(xs, rRef(x.Reference)+"/"+rLL(x.LatLng))
	}
	return strings.Join(xs, " ")
}

func rBits(b compact.Bits) string {
	if len(b) == 0 {
		return "-"
	}
	var sb strings.Builder
	for _, v := range b {
		if v {
			sb.WriteByte('1')
		} else {
			sb.WriteByte('0')
		}
	}
	return sb.String()
}

func rInts(vs []int) string {
	xs := []string{i(len(vs))}
	for _, v := range vs {
		xs = append(xs, i(v))
	}
	return strings.Join(xs, " ")
}

func rValue(v compact.Value) string {
	switch v := v.(type) {
	case *compact.Int:
		return "i " + i(int(*v))
	case *compact.LatLng:
		return "p " + rLL(*v)
	case *compact.LatLngs:
		return "L " + rLLs(*v)
	case *compact.References:
		return "R " + rRefs(*v)
	case *compact.ReferencesAndLatLngs:
		return "M " + rMixed(*v)
	}
	return "?"
}

func rTag(t compact.Tag) string { return i(t.Key) + " " + rValue(t.Value) }

func rTags(ts compact.Tags) string {
	xs := []string{i(len(ts))}
	for _, t := range ts {
		xs = append(xs, rTag(t))
	}
	return strings.Join(xs, " ")
}

func rMembers(ms compact.Members) string {
	xs := []string{i(len(ms))}
	for _, m := range ms {
		xs = append(xs, i(int(m.Type)), i(m.Role), rRef(m.ID))
	}
	return strings.Join(xs, " ")
}

func rPLL(p compact.PolygonGeometryLatLngs) string { return rInts(p.Loops) + " " + rLLs(p.Points) }
func rAGR(a *compact.AreaGeometryReferences) string { return rInts(a.Polygons) + " " + rRefs(a.Paths) }
func rAGL(a *compact.AreaGeometryLatLngs) string {
	xs := []string{i(len(a.Polygons))}
	for _, p := range a.Polygons {
		xs = append(xs, rPLL(p))
	}
	return strings.Join(xs, " ")
}
func rAGM(a *compact.AreaGeometryMixed) string {
	xs := []string{i(len(a.Polygons))}
	for _, p := range a.Polygons {
		xs = append(xs, rRefs(p.References.Paths), rPLL(p.LatLngs))
	}
	return strings.Join(xs, " ")
}
func rGeom(g compact.AreaGeometry) string {
	switch g := g.(type) {
	case *compact.AreaGeometryReferences:
		return "GR " + rAGR(g)
	case *compact.AreaGeometryLatLngs:
		return "GL " + rAGL(g)
	case *compact.AreaGeometryMixed:
		return "GM " + rAGM(g)
	}
	return "?"
}
func rNss(n *compact.Namespaces) string {
	return fmt.Sprintf("%d,%d,%d,%d", n[0], n[1], n[2], n[3])
}
func rNSI(n compact.NamespaceIndex) string { return u(uint64(n.TypeAndNamespace)) + ":" + i(n.Index) }
func rNSIs(ns compact.NamespaceIndicies) string {
	xs := []string{i(len(ns))}
	for _, n := range ns {
		xs = append(xs, rNSI(n))
	}
	return strings.Join(xs, " ")
}
func rPLH(p *compact.PostingListHeader) string {
	return hx.Hex([]byte(p.Token)) + " " + i(p.Features) + " " + rNSIs(p.Namespaces)
}

// ---------------------------------------------------------------------------------------------
// generators

var nsPool = []compact.Namespace{0, 1, 2, 3, 7, 100, 8191, 8192, 40000, 65535}

func genNs(r *hx.Rand) compact.Namespace {
	if r.Chance(1, 8) {
		return compact.Namespace(r.Uint64())
	}
	return nsPool[r.Intn(len(nsPool))]
}

func genTN(r *hx.Rand) TN {
	switch r.Intn(10) {
	case 0:
		return compact.TypeAndNamespaceInvalid
	case 1:
		return TN(r.Uint64())
	default:
		return compact.CombineTypeAndNamespace(b6.FeatureType(r.Intn(4)), nsPool[r.Intn(5)])
	}
}

func genNss(r *hx.Rand) *compact.Namespaces {
	var n compact.Namespaces
	for t := range n {
		if r.Chance(2, 3) {
			n[t] = nsPool[r.Intn(5)]
		} else {
			n[t] = genNs(r)
		}
	}
	return &n
}

// genRefValue: edge values, values near `near` (small deltas), or anything.
func genRefValue(r *hx.Rand, near uint64) uint64 {
	switch r.Intn(6) {
	case 0, 1:
		return near + uint64(r.Intn(2000)) - 1000
	case 2:
		return uint64(r.Intn(1 << 20))
	default:
		return r.Uint64Edge()
	}
}

// genRef draws a reference whose namespace is the primary p (3 in 5), another pool namespace, or the invalid one.
func genRef(r *hx.Rand, p TN, near uint64) compact.Reference {
	tn := p
	if !r.Chance(3, 5) {
		tn = genTN(r)
	}
	return compact.Reference{TypeAndNamespace: tn, Value: genRefValue(r, near)}
}

func genLen(r *hx.Rand) int {
	switch r.Intn(10) {
	case 0:
		return 0
	case 1:
		return 1
	case 2:
		return 7 + r.Intn(4) // around the Bits byte boundary
	case 3:
		return 15 + r.Intn(20)
	default:
		return 2 + r.Intn(6)
	}
}

func genRefs(r *hx.Rand, p TN) compact.References {
	n := genLen(r)
	rs := make(compact.References, 0, n)
	near := r.Uint64Edge()
	for j := 0; j < n; j++ {
		ref := genRef(r, p, near)
		if ref.TypeAndNamespace == p {
			near = ref.Value
		}
		rs = append(rs, ref)
	}
	return rs
}

var i32Edges = []int32{0, 1, -1, 63, 64, -64, -65, 8191, 8192, -8192, -8193, 515000000, -1800000000, 1800000000, 900000000, -900000000,
	math.MaxInt32, math.MinInt32, math.MaxInt32 - 1, math.MinInt32 + 1, 1 << 30, -(1 << 30)}

func genI32(r *hx.Rand, near int32) int32 {
	switch r.Intn(4) {
	case 0:
		return i32Edges[r.Intn(len(i32Edges))]
	case 1:
		return near + int32(r.Intn(20000)) - 10000
	case 2:
		return int32(r.Uint64())
	default:
		return int32(r.Intn(1800000000)) - 900000000
	}
}

func genLatLng(r *hx.Rand, near compact.LatLng) compact.LatLng {
	return compact.LatLng{LatE7: genI32(r, near.LatE7), LngE7: genI32(r, near.LngE7)}
}

func genLLs(r *hx.Rand) compact.LatLngs {
	n := genLen(r)
	ls := make(compact.LatLngs, 0, n)
	last := compact.LatLng{}
	for j := 0; j < n; j++ {
		last = genLatLng(r, last)
		ls = append(ls, last)
	}
	return ls
}

// genMixed: canonical elements (a reference, or the invalid reference with a lat/lng); when
// nonCanonical, one element carries both halves (outside the property's domain: the lat/lng is not written).
func genMixed(r *hx.Rand, p TN, nonCanonical bool) compact.ReferencesAndLatLngs {
	n := genLen(r)
	g := make(compact.ReferencesAndLatLngs, 0, n)
	near := r.Uint64Edge()
	last := compact.LatLng{}
	for j := 0; j < n; j++ {
		if r.Bool() {
			ref := genRef(r, p, near)
			if ref.TypeAndNamespace == p {
				near = ref.Value
			}
			g = append(g, compact.ReferenceAndLatLng{Reference: ref})
		} else {
			last = genLatLng(r, last)
			g = append(g, compact.ReferenceAndLatLng{Reference: compact.ReferenceInvald, LatLng: last})
		}
	}
	if nonCanonical && n > 0 {
		k := r.Intn(n)
		g[k].Reference = compact.Reference{TypeAndNamespace: p, Value: 5}
		g[k].LatLng = compact.LatLng{LatE7: 1, LngE7: 2}
	}
	return g
}

func genBits(r *hx.Rand) compact.Bits {
	var n int
	switch r.Intn(6) {
	case 0:
		n = r.Intn(3)
	case 1:
		n = 8 * r.Intn(5)
	case 2:
		n = 8*r.Intn(5) + 7
	case 3:
		n = 120 + r.Intn(20) // two-byte length varint
	default:
		n = r.Intn(40)
	}
	b := make(compact.Bits, n)
	mode := r.Intn(4)
	for j := range b {
		switch mode {
		case 0:
			b[j] = true
		case 1:
			b[j] = false
		default:
			b[j] = r.Bool()
		}
	}
	return b
}

func genIntEdge(r *hx.Rand) int {
	switch r.Intn(8) {
	case 0:
		return int(r.Uint64Edge()) // any int, negative ones included
	case 1:
		return 1<<62 - 1 - r.Intn(2) // largest values EncodeValueType accepts
	case 2:
		return 1<<62 + r.Intn(2) // smallest it rejects
	case 3:
		return 1<<61 - 1 + r.Intn(3) // around the Members role limit
	default:
		return r.Intn(100000)
	}
}

func genValue(r *hx.Rand, p TN) compact.Value {
	switch r.Intn(7) {
	case 0, 1:
		v := compact.Int(r.Intn(100000))
		if r.Chance(1, 8) {
			v = compact.Int(genIntEdge(r))
		}
		return &v
	case 2:
		l := genLatLng(r, compact.LatLng{})
		return &l
	case 3:
		l := genLLs(r)
		return &l
	case 4, 5:
		l := genRefs(r, p)
		return &l
	default:
		l := genMixed(r, p, false)
		return &l
	}
}

func genKey(r *hx.Rand) int {
	if r.Chance(1, 6) {
		return int(r.Uint64Edge())
	}
	return r.Intn(5000)
}

func genTags(r *hx.Rand, p TN) compact.Tags {
	n := r.Intn(5)
	if r.Chance(1, 10) {
		n = 10 + r.Intn(10)
	}
	ts := make(compact.Tags, 0, n)
	for j := 0; j < n; j++ {
		ts = append(ts, compact.Tag{Key: genKey(r), Value: genValue(r, p)})
	}
	return ts
}

func genMembers(r *hx.Rand, p TN, wideTypes bool) compact.Members {
	n := genLen(r)
	ms := make(compact.Members, 0, n)
	for j := 0; j < n; j++ {
		t := b6.FeatureType(r.Intn(4))
		if wideTypes && r.Chance(1, 3) {
			t = b6.FeatureType(4 + r.Intn(3)) // invalid / collection / expression: do not fit FeatureTypeBits
		}
		role := r.Intn(3000)
		if r.Chance(1, 10) {
			role = genIntEdge(r)
		}
		ms = append(ms, compact.Member{Type: t, Role: role, ID: genRef(r, p, r.Uint64Edge())})
	}
	return ms
}

func genInts(r *hx.Rand, n int) []int {
	vs := make([]int, 0, n)
	last := 0
	for j := 0; j < n; j++ {
		switch r.Intn(5) {
		case 0:
			last = int(r.Uint64Edge())
		default:
			last += r.Intn(50)
		}
		vs = append(vs, last)
	}
	return vs
}

func genPLL(r *hx.Rand) compact.PolygonGeometryLatLngs {
	return compact.PolygonGeometryLatLngs{Loops: genInts(r, r.Intn(4)), Points: genLLs(r)}
}

func genAGR(r *hx.Rand, p TN) *compact.AreaGeometryReferences {
	n := r.Intn(5)
	if r.Chance(1, 8) {
		n = 60 + r.Intn(10) // polygon count whose header varint is 2 bytes
	}
	return &compact.AreaGeometryReferences{Polygons: genInts(r, n), Paths: genRefs(r, p)}
}

func genAGL(r *hx.Rand) *compact.AreaGeometryLatLngs {
	n := r.Intn(5)
	if r.Chance(1, 8) {
		n = 30 + r.Intn(10)
	}
	a := &compact.AreaGeometryLatLngs{}
	for j := 0; j < n; j++ {
		a.Polygons = append(a.Polygons, genPLL(r))
	}
	return a
}

func genAGM(r *hx.Rand, p TN) *compact.AreaGeometryMixed {
	n := genLen(r) % 12
	a := &compact.AreaGeometryMixed{}
	for j := 0; j < n; j++ {
		var q compact.PolygonGeometryMixed
		if r.Bool() {
			q.References.Paths = genRefs(r, p)
			for len(q.References.Paths) == 0 {
				q.References.Paths = genRefs(r, p)
			}
		} else {
			q.LatLngs = genPLL(r)
		}
		a.Polygons = append(a.Polygons, q)
	}
	return a
}

func genGeom(r *hx.Rand, p TN) compact.AreaGeometry {
	switch r.Intn(3) {
	case 0:
		return genAGR(r, p)
	case 1:
		return genAGL(r)
	default:
		return genAGM(r, p)
	}
}

func genToken(r *hx.Rand) string {
	n := r.Intn(12)
	if r.Chance(1, 10) {
		n = 120 + r.Intn(20)
	}
	b := make([]byte, n)
	for j := range b {
		if r.Chance(1, 5) {
			b[j] = byte(r.Uint64())
		} else {
			b[j] = "abcdefgh:=_0123"[r.Intn(15)]
		}
	}
	return string(b)
}

func genNSIs(r *hx.Rand) compact.NamespaceIndicies {
	n := r.Intn(5)
	ns := make(compact.NamespaceIndicies, 0, n)
	for j := 0; j < n; j++ {
		ix := r.Intn(1 << 16)
		if r.Chance(1, 5) {
			ix = int(r.Uint64Edge())
		}
		ns = append(ns, compact.NamespaceIndex{TypeAndNamespace: genTN(r), Index: ix})
	}
	return ns
}

// genRest: trailing bytes after the record: nothing, bytes that look like the start of another record, or noise.
func genRest(r *hx.Rand) []byte {
	switch r.Intn(4) {
	case 0:
		return nil
	case 1:
		return []byte{0x00}
	case 2:
		return []byte{0x80, 0x80, 0x80, 0x80, 0x80, 0x80, 0x80, 0x80, 0x80, 0x80, 0x80, 0x01}
	default:
		b := make([]byte, 1+r.Intn(12))
		for j := range b {
			b[j] = byte(r.Uint64())
		}
		return b
	}
}

// ---------------------------------------------------------------------------------------------
// running one value through the real code

const bufLen = 1 << 16

func newBuf() []byte {
	b := make([]byte, bufLen)
	for j := range b {
		b[j] = 0xa5
	}
	return b
}

// aborted is set when an operation of the real code did not return within opDeadline (possible only on a
// broken tree: a decoder following a garbage length). The answer of that op is `hang`, every later case is
// skipped so that the process ends at once (the stuck goroutine cannot be stopped any other way).
var aborted bool

const opDeadline = 10 * time.Second

// guarded runs f (real b6 code) on its own goroutine; "hang" when it does not return in time.
func guarded(f func() string) string {
	done := make(chan string, 1)
	go func() { done <- hx.Recover(f) }()
	select {
	case a := <-done:
		return a
	case <-time.After(opDeadline):
		aborted = true
		return "hang"
	}
}

// roundTrip: marshal (may panic) then unmarshal from marshalled ++ rest (may panic).
func roundTrip(c *hx.Ctx, kind string, params string, value string, rest []byte,
	marshal func(buf []byte) int, unmarshal func(buf []byte) (int, string), extra ...string) string {
	op := kind
	if params != "" {
		op += " " + params
	}
	op += " | " + value + " | " + hx.Hex(rest)
	for _, e := range extra { // e.g. the previous contents of the receiver
		op += " | " + e
	}
	if aborted {
		return ""
	}
	var bytes []byte
	ans := guarded(func() string {
		buf := newBuf()
		n := marshal(buf)
		bytes = append([]byte(nil), buf[:n]...)
		return ""
	})
	switch ans {
	case "panic":
		c.Note(kind + ":marshal-panic")
	case "hang":
		c.Note(kind + ":marshal-hang")
	default:
		c.Note(kind + ":bytes=" + bucket(len(bytes)))
		full := append(append([]byte(nil), bytes...), rest...)
		dec := guarded(func() string {
			n, v := unmarshal(full)
			return fmt.Sprintf("%d | %s", n, v)
		})
		ans = hx.Hex(bytes) + " " + dec
		if dec == "panic" || dec == "hang" {
			c.Note(kind + ":unmarshal-" + dec)
		}
	}
	c.Op(op, ans)
	return ans
}

func bucket(n int) string {
	switch {
	case n <= 1:
		return "0-1"
	case n <= 8:
		return "2-8"
	case n <= 64:
		return "9-64"
	case n <= 512:
		return "65-512"
	default:
		return ">512"
	}
}

func tnStr(p TN) string { return u(uint64(p)) }

// dirtyRefs etc.: receivers that already hold data (longer and shorter than what will be decoded).
func dirtyRefs(r *hx.Rand) compact.References {
	n := r.Intn(12)
	rs := make(compact.References, n)
	for j := range rs {
		rs[j] = compact.Reference{TypeAndNamespace: TN(r.Uint64()), Value: r.Uint64()}
	}
	return rs
}

func dirtyLLs(r *hx.Rand) compact.LatLngs {
	n := r.Intn(12)
	ls := make(compact.LatLngs, n)
	for j := range ls {
		ls[j] = compact.LatLng{LatE7: int32(r.Uint64()), LngE7: int32(r.Uint64())}
	}
	return ls
}

func dirtyTags(r *hx.Rand) compact.Tags {
	n := r.Intn(6)
	ts := make(compact.Tags, n)
	for j := range ts {
		rs := dirtyRefs(r)
		ts[j] = compact.Tag{Key: r.Intn(100), Value: &rs}
	}
	return ts
}

func noteRefs(c *hx.Ctx, kind string, rs compact.References, p TN) {
	prim, hi, big := 0, 0, 0
	last := uint64(0)
	for _, r := range rs {
		if r.TypeAndNamespace == p {
			prim++
			d := int64(r.Value) - int64(last)
			if d >= 1<<62 || d < -(1<<62) {
				big++
			}
			last = r.Value
		}
		if r.Value&(1<<63) != 0 {
			hi++
		}
	}
	switch {
	case len(rs) == 0:
		c.Note(kind + ":refs=empty")
	case prim == len(rs):
		c.Note(kind + ":refs=all-primary")
	case prim == 0:
		c.Note(kind + ":refs=none-primary")
	default:
		c.Note(kind + ":refs=mixed-namespaces")
	}
	if hi > 0 {
		c.Note(kind + ":refs-with-bit63")
	}
	if big > 0 {
		c.Note(kind + ":delta>=2^62")
	}
}

var kinds = []string{"ref", "refs", "ll", "lls", "mixed", "bits", "int", "tags", "members", "ints", "agr", "agl", "agm", "pll", "geom",
	"area", "path", "cpoint", "fpoint", "prefs", "relation", "nss", "str", "nsi", "nsis", "plh", "tokenmap", "mtags", "trunc"}

func runKind(c *hx.Ctx, kind string) {
	r := c.Rand
	p := genTN(r)
	rest := genRest(r)
	dirty := r.Chance(1, 3)
	bang := func(k string) string {
		if dirty {
			c.Note(k + ":dirty-receiver")
			return k + "!"
		}
		return k
	}
	switch kind {
	case "ref":
		v := genRef(r, p, r.Uint64Edge())
		if v.TypeAndNamespace == p {
			c.Note("ref:primary")
		} else {
			c.Note("ref:explicit-ns")
		}
		if v.Value&(1<<63) != 0 {
			c.Note("ref:bit63")
		}
		roundTrip(c, bang("ref"), tnStr(p), rRef(v), rest,
			func(b []byte) int { return v.Marshal(p, b) },
			func(b []byte) (int, string) {
				var d compact.Reference
				if dirty {
					d = compact.Reference{TypeAndNamespace: TN(r.Uint64()), Value: r.Uint64()}
				}
				n := d.Unmarshal(p, b)
				return n, rRef(d)
			})
	case "refs":
		v := genRefs(r, p)
		noteRefs(c, "refs", v, p)
		if len(v) >= 2 {
			c.NonTrivial()
		}
		roundTrip(c, bang("refs"), tnStr(p), rRefs(v), rest,
			func(b []byte) int { return v.Marshal(p, b) },
			func(b []byte) (int, string) {
				var d compact.References
				if dirty {
					d = dirtyRefs(r)
				}
				n := d.Unmarshal(p, b)
				return n, rRefs(d)
			})
	case "ll":
		v := genLatLng(r, compact.LatLng{})
		roundTrip(c, "ll", "", rLL(v), rest,
			func(b []byte) int { return v.Marshal(p, b) },
			func(b []byte) (int, string) {
				d := compact.LatLng{LatE7: int32(r.Uint64()), LngE7: int32(r.Uint64())}
				n := d.Unmarshal(p, b)
				return n, rLL(d)
			})
	case "lls":
		v := genLLs(r)
		if len(v) >= 2 {
			c.NonTrivial()
		}
		c.Note(fmt.Sprintf("lls:len=%s", bucket(len(v))))
		roundTrip(c, bang("lls"), "", rLLs(v), rest,
			func(b []byte) int { return v.Marshal(p, b) },
			func(b []byte) (int, string) {
				var d compact.LatLngs
				if dirty {
					d = dirtyLLs(r)
				}
				n := d.Unmarshal(p, b)
				return n, rLLs(d)
			})
	case "mixed":
		nonCanon := r.Chance(1, 8)
		v := genMixed(r, p, nonCanon)
		if nonCanon {
			c.Note("mixed:non-canonical(out-of-domain)")
		}
		if len(v) >= 2 {
			c.NonTrivial()
		}
		if !nonCanon && r.Chance(1, 3) {
			// a receiver that already holds data: same reference / lat-lng pattern (reuse is invisible), another
			// canonical value, or anything
			var old compact.ReferencesAndLatLngs
			switch r.Intn(3) {
			case 0:
				old = genMixed(r, p, false)
				for j := range old {
					if j < len(v) {
						if v[j].Reference != compact.ReferenceInvald {
							old[j] = compact.ReferenceAndLatLng{Reference: genRef(r, p, 5)}
							if old[j].Reference == compact.ReferenceInvald {
								old[j].Reference.Value = 1
							}
						} else {
							old[j] = compact.ReferenceAndLatLng{Reference: compact.ReferenceInvald, LatLng: genLatLng(r, compact.LatLng{})}
						}
					}
				}
				c.Note("mixed!:old=same-shape")
			case 1:
				old = genMixed(r, p, false)
				c.Note("mixed!:old=canonical")
			default:
				old = genMixed(r, p, true)
				c.Note("mixed!:old=arbitrary")
			}
			oldS := rMixed(old)
			roundTrip(c, "mixed!", tnStr(p), rMixed(v), rest,
				func(b []byte) int { return v.Marshal(p, b) },
				func(b []byte) (int, string) {
					d := append(compact.ReferencesAndLatLngs(nil), old...)
					n := d.Unmarshal(p, b)
					return n, rMixed(d)
				}, oldS)
			break
		}
		roundTrip(c, "mixed", tnStr(p), rMixed(v), rest,
			func(b []byte) int { return v.Marshal(p, b) },
			func(b []byte) (int, string) {
				var d compact.ReferencesAndLatLngs
				n := d.Unmarshal(p, b)
				return n, rMixed(d)
			})
	case "bits":
		v := genBits(r)
		c.Note(fmt.Sprintf("bits:len%%8=%d", len(v)%8))
		if len(v) > 8 {
			c.NonTrivial()
		}
		roundTrip(c, bang("bits"), "", rBits(v), rest,
			func(b []byte) int { return v.Marshal(b) },
			func(b []byte) (int, string) {
				var d compact.Bits
				if dirty {
					d = make(compact.Bits, r.Intn(30))
					for j := range d {
						d[j] = true
					}
				}
				n := d.Unmarshal(b)
				return n, rBits(d)
			})
	case "int":
		v := compact.Int(genIntEdge(r))
		roundTrip(c, "int", "", i(int(v)), rest,
			func(b []byte) int { return v.Marshal(p, b) },
			func(b []byte) (int, string) {
				d := compact.Int(r.Intn(100))
				n := d.Unmarshal(p, b)
				return n, i(int(d))
			})
	case "tags":
		v := genTags(r, p)
		if len(v) >= 2 {
			c.NonTrivial()
		}
		for _, t := range v {
			c.Note("tags:value=" + strings.Fields(rValue(t.Value))[0])
		}
		roundTrip(c, bang("tags"), tnStr(p), rTags(v), rest,
			func(b []byte) int { return v.Marshal(p, b) },
			func(b []byte) (int, string) {
				var d compact.Tags
				if dirty {
					d = dirtyTags(r)
				}
				n := d.Unmarshal(p, b)
				return n, rTags(d)
			})
	case "mtags":
		// MarshalledTags.AllTags: the decode path the world uses (Tags.Unmarshal through inferValueType);
		// string values only, so that the result is comparable without a namespace table.
		n := r.Intn(5)
		var v compact.Tags
		strs := make(simpleStrings, 40)
		for j := range strs {
			strs[j] = fmt.Sprintf("s%d", j)
		}
		for j := 0; j < n; j++ {
			x := compact.Int(r.Intn(len(strs)))
			v = append(v, compact.Tag{Key: r.Intn(len(strs)), Value: &x})
		}
		roundTrip(c, "mtags", tnStr(p), rTags(v), rest,
			func(b []byte) int { return v.Marshal(p, b) },
			func(b []byte) (int, string) {
				m := compact.MarshalledTags{Tags: b, Strings: strs, Tns: p}
				var back compact.Tags
				for _, t := range m.AllTags() {
					k, _ := strconv.Atoi(t.Key[1:])
					x, _ := strconv.Atoi(t.Value.String()[1:])
					xi := compact.Int(x)
					back = append(back, compact.Tag{Key: k, Value: &xi})
				}
				var d compact.Tags
				return d.Unmarshal(p, b), rTags(back)
			})
	case "members":
		wide := r.Chance(1, 8)
		v := genMembers(r, p, wide)
		if wide {
			c.Note("members:type>=4(marshal-panics)")
		}
		if len(v) >= 2 {
			c.NonTrivial()
		}
		roundTrip(c, bang("members"), tnStr(p), rMembers(v), rest,
			func(b []byte) int { return v.Marshal(p, b) },
			func(b []byte) (int, string) {
				var d compact.Members
				if dirty {
					d = make(compact.Members, r.Intn(5))
				}
				n := d.Unmarshal(p, b)
				return n, rMembers(d)
			})
	case "ints":
		v := genInts(r, genLen(r))
		roundTrip(c, "ints", "", rInts(v), rest,
			func(b []byte) int { return encoding.MarshalDeltaCodedInts(v, b) },
			func(b []byte) (int, string) {
				d, n := encoding.UnmarshalDeltaCodedInts(make([]int, r.Intn(4)), len(v), b)
				return n, rInts(d)
			})
	case "agr":
		v := genAGR(r, p)
		c.Note(fmt.Sprintf("agr:polygons=%s", bucket(len(v.Polygons))))
		noteRefs(c, "agr", v.Paths, p)
		c.NonTrivial()
		roundTrip(c, bang("agr"), tnStr(p), rAGR(v), rest,
			func(b []byte) int { return v.Marshal(p, b) },
			func(b []byte) (int, string) {
				var d compact.AreaGeometryReferences
				if dirty {
					d.Polygons = genInts(r, r.Intn(5))
					d.Paths = dirtyRefs(r)
				}
				n := d.Unmarshal(p, b)
				return n, rAGR(&d)
			})
	case "agl":
		v := genAGL(r)
		c.Note(fmt.Sprintf("agl:polygons=%s", bucket(len(v.Polygons))))
		c.NonTrivial()
		roundTrip(c, bang("agl"), "", rAGL(v), rest,
			func(b []byte) int { return v.Marshal(p, b) },
			func(b []byte) (int, string) {
				var d compact.AreaGeometryLatLngs
				if dirty {
					d = *genAGL(r)
				}
				n := d.Unmarshal(p, b)
				return n, rAGL(&d)
			})
	case "agm":
		v := genAGM(r, p)
		c.Note(fmt.Sprintf("agm:polygons=%s", bucket(len(v.Polygons))))
		c.NonTrivial()
		if r.Chance(1, 3) {
			old := genAGM(r, p)
			if r.Bool() { // same shape as v on the overlap
				for j := range old.Polygons {
					if j < len(v.Polygons) {
						var q compact.PolygonGeometryMixed
						if len(v.Polygons[j].References.Paths) > 0 {
							q.References.Paths = compact.References{{TypeAndNamespace: p, Value: 9}}
						} else {
							q.LatLngs = genPLL(r)
						}
						old.Polygons[j] = q
					}
				}
				c.Note("agm!:old=same-shape")
			} else {
				c.Note("agm!:old=canonical")
			}
			oldS := rAGM(old)
			roundTrip(c, "agm!", tnStr(p), rAGM(v), rest,
				func(b []byte) int { return v.Marshal(p, b) },
				func(b []byte) (int, string) {
					n := old.Unmarshal(p, b)
					return n, rAGM(old)
				}, oldS)
			break
		}
		roundTrip(c, "agm", tnStr(p), rAGM(v), rest,
			func(b []byte) int { return v.Marshal(p, b) },
			func(b []byte) (int, string) {
				var d compact.AreaGeometryMixed
				n := d.Unmarshal(p, b)
				return n, rAGM(&d)
			})
	case "pll":
		v := genPLL(r)
		roundTrip(c, bang("pll"), "", rPLL(v), rest,
			func(b []byte) int { return v.Marshal(b) },
			func(b []byte) (int, string) {
				var d compact.PolygonGeometryLatLngs
				if dirty {
					d = genPLL(r)
				}
				n := d.Unmarshal(b)
				return n, rPLL(d)
			})
	case "geom":
		v := genGeom(r, p)
		c.Note("geom:" + strings.Fields(rGeom(v))[0])
		c.NonTrivial()
		roundTrip(c, "geom", tnStr(p), rGeom(v), rest,
			func(b []byte) int { return v.Marshal(p, b) },
			func(b []byte) (int, string) {
				d, n := compact.UnmarshalAreaGeometry(p, b)
				return n, rGeom(d)
			})
	case "area":
		nss := genNss(r)
		pp := compact.CombineTypeAndNamespace(b6.FeatureTypePath, nss.ForType(b6.FeatureTypePath))
		pr := compact.CombineTypeAndNamespace(b6.FeatureTypeRelation, nss.ForType(b6.FeatureTypeRelation))
		v := compact.Area{Tags: genTags(r, compact.TypeAndNamespaceInvalid), Polygons: genGeom(r, pp), Relations: genRefs(r, pr)}
		c.Note("area:" + strings.Fields(rGeom(v.Polygons))[0])
		noteRefs(c, "area:relations", v.Relations, pr)
		if pp != pr {
			c.Note("area:path-primary!=relation-primary")
		}
		c.NonTrivial()
		roundTrip(c, "area", rNss(nss), rTags(v.Tags)+" "+rGeom(v.Polygons)+" "+rRefs(v.Relations), rest,
			func(b []byte) int { return v.Marshal(nss, b) },
			func(b []byte) (int, string) {
				var d compact.Area
				if dirty {
					d.Tags = dirtyTags(r)
					d.Relations = dirtyRefs(r)
				}
				n := d.Unmarshal(nss, b)
				return n, rTags(d.Tags) + " " + rGeom(d.Polygons) + " " + rRefs(d.Relations)
			})
	case "path":
		nss := genNss(r)
		pa := compact.CombineTypeAndNamespace(b6.FeatureTypeArea, nss[b6.FeatureTypeArea])
		pr := compact.CombineTypeAndNamespace(b6.FeatureTypeRelation, nss[b6.FeatureTypeRelation])
		pt := compact.CombineTypeAndNamespace(b6.FeatureTypePoint, nss[b6.FeatureTypePoint])
		v := compact.Path{Tags: genTags(r, pt), Areas: genRefs(r, pa), Relations: genRefs(r, pr)}
		noteSorted(c, "path:areas", v.Areas)
		c.NonTrivial()
		// the op text is the value *before* Marshal sorts Areas in place
		value := rTags(v.Tags) + " " + rRefs(v.Areas) + " " + rRefs(v.Relations)
		roundTrip(c, bang("path"), rNss(nss), value, rest,
			func(b []byte) int { return v.Marshal(nss, b) },
			func(b []byte) (int, string) {
				var d compact.Path
				if dirty {
					d.Tags = dirtyTags(r)
					d.Areas = dirtyRefs(r)
					d.Relations = dirtyRefs(r)
				}
				n := d.Unmarshal(nss, b)
				return n, rTags(d.Tags) + " " + rRefs(d.Areas) + " " + rRefs(d.Relations)
			})
	case "cpoint":
		nss := genNss(r)
		pp := compact.CombineTypeAndNamespace(b6.FeatureTypePath, nss.ForType(b6.FeatureTypePath))
		v := compact.CommonPoint{Tags: genTags(r, compact.TypeAndNamespaceInvalid), Path: genRef(r, pp, r.Uint64Edge())}
		c.NonTrivial()
		roundTrip(c, bang("cpoint"), rNss(nss), rTags(v.Tags)+" "+rRef(v.Path), rest,
			func(b []byte) int { return v.Marshal(nss, b) },
			func(b []byte) (int, string) {
				var d compact.CommonPoint
				if dirty {
					d.Tags = dirtyTags(r)
					d.Path = compact.Reference{TypeAndNamespace: 77, Value: 77}
				}
				n := d.Unmarshal(nss, b)
				return n, rTags(d.Tags) + " " + rRef(d.Path)
			})
	case "fpoint", "prefs":
		nss := genNss(r)
		pp := compact.CombineTypeAndNamespace(b6.FeatureTypePath, nss.ForType(b6.FeatureTypePath))
		pr := compact.CombineTypeAndNamespace(b6.FeatureTypeRelation, nss.ForType(b6.FeatureTypeRelation))
		refs := compact.PointReferences{Paths: genRefs(r, pp), Relations: genRefs(r, pr)}
		noteSorted(c, kind+":paths", refs.Paths)
		c.NonTrivial()
		if kind == "prefs" {
			value := rRefs(refs.Paths) + " " + rRefs(refs.Relations)
			roundTrip(c, bang("prefs"), rNss(nss), value, rest,
				func(b []byte) int { return refs.Marshal(nss, b) },
				func(b []byte) (int, string) {
					var d compact.PointReferences
					if dirty {
						d.Paths = dirtyRefs(r)
						d.Relations = dirtyRefs(r)
					}
					n := d.Unmarshal(nss, b)
					return n, rRefs(d.Paths) + " " + rRefs(d.Relations)
				})
		} else {
			v := compact.FullPoint{Tags: genTags(r, compact.TypeAndNamespaceInvalid), PointReferences: refs}
			value := rTags(v.Tags) + " " + rRefs(refs.Paths) + " " + rRefs(refs.Relations)
			roundTrip(c, bang("fpoint"), rNss(nss), value, rest,
				func(b []byte) int { return v.Marshal(nss, b) },
				func(b []byte) (int, string) {
					var d compact.FullPoint
					if dirty {
						d.Tags = dirtyTags(r)
						d.Paths = dirtyRefs(r)
						d.Relations = dirtyRefs(r)
					}
					n := d.Unmarshal(nss, b)
					return n, rTags(d.Tags) + " " + rRefs(d.Paths) + " " + rRefs(d.Relations)
				})
		}
	case "relation":
		nss := genNss(r)
		pt := b6.FeatureType(r.Intn(4))
		if r.Chance(1, 20) {
			pt = b6.FeatureType(4 + r.Intn(3)) // nss.ForType panics
		}
		c.Note(fmt.Sprintf("relation:primary-type=%d", int(pt)))
		var mp TN
		if pt < 4 {
			mp = compact.CombineTypeAndNamespace(pt, nss.ForType(pt))
		}
		pr := compact.CombineTypeAndNamespace(b6.FeatureTypeRelation, nss.ForType(b6.FeatureTypeRelation))
		v := compact.Relation{Tags: genTags(r, compact.TypeAndNamespaceInvalid), Members: genMembers(r, mp, false), Relations: genRefs(r, pr)}
		c.NonTrivial()
		roundTrip(c, bang("relation"), i(int(pt))+" "+rNss(nss), rTags(v.Tags)+" "+rMembers(v.Members)+" "+rRefs(v.Relations), rest,
			func(b []byte) int { return v.Marshal(pt, nss, b) },
			func(b []byte) (int, string) {
				var d compact.Relation
				if dirty {
					d.Tags = dirtyTags(r)
					d.Members = make(compact.Members, 3)
					d.Relations = dirtyRefs(r)
				}
				n := d.Unmarshal(pt, nss, b)
				return n, rTags(d.Tags) + " " + rMembers(d.Members) + " " + rRefs(d.Relations)
			})
	case "nss":
		v := genNss(r)
		roundTrip(c, "nss", "", rNss(v), rest,
			func(b []byte) int { return v.Marshal(b) },
			func(b []byte) (int, string) {
				d := compact.Namespaces{9, 9, 9, 9}
				n := d.Unmarshal(b)
				return n, rNss(&d)
			})
	case "str":
		v := genToken(r)
		roundTrip(c, "str", "", hx.Hex([]byte(v)), rest,
			func(b []byte) int { return compact.MarshalString(v, b) },
			func(b []byte) (int, string) {
				d, n := compact.UnmarshalString(b)
				// MarshalledStringEquals against the string itself, a proper prefix, an extension and a one-byte change
				probes := []string{v, v + "x", v + "x", "\x01"}
				if len(v) > 0 {
					probes[1] = v[:len(v)-1]
					probes[3] = string([]byte{v[0] ^ 1}) + v[1:]
				}
				flags := ""
				for _, q := range probes {
					if compact.MarshalledStringEquals(b, q) {
						flags += "1"
					} else {
						flags += "0"
					}
				}
				return n, hx.Hex([]byte(d)) + " " + flags
			})
	case "nsi":
		v := compact.NamespaceIndex{TypeAndNamespace: genTN(r), Index: int(r.Uint64Edge())}
		roundTrip(c, "nsi", "", rNSI(v), rest,
			func(b []byte) int { return v.Marshal(b) },
			func(b []byte) (int, string) {
				d := compact.NamespaceIndex{TypeAndNamespace: 5, Index: 5}
				n := d.Unmarshal(b)
				return n, rNSI(d)
			})
	case "nsis":
		v := genNSIs(r)
		roundTrip(c, bang("nsis"), "", rNSIs(v), rest,
			func(b []byte) int { return v.Marshal(b) },
			func(b []byte) (int, string) {
				var d compact.NamespaceIndicies
				if dirty {
					d = genNSIs(r)
				}
				n := d.Unmarshal(b)
				return n, rNSIs(d)
			})
	case "plh":
		v := compact.PostingListHeader{Token: genToken(r), Features: int(r.Uint64Edge() >> 1), Namespaces: genNSIs(r)}
		c.NonTrivial()
		roundTrip(c, bang("plh"), "", rPLH(&v), rest,
			func(b []byte) int { return v.Marshal(b) },
			func(b []byte) (int, string) {
				var d compact.PostingListHeader
				if dirty {
					d = compact.PostingListHeader{Token: "stale", Features: 9, Namespaces: genNSIs(r)}
				}
				n := d.Unmarshal(b)
				if compact.PostingListHeaderToken(b) != d.Token || !compact.PostingListHeaderTokenEquals(b, v.Token) {
					return n, "token-accessors-disagree"
				}
				return n, rPLH(&d)
			})
	case "tokenmap":
		runTokenMap(c, rest)
	case "trunc":
		runTrunc(c, p)
	}
}

// truncated: marshal, then Unmarshal (fresh receiver) every proper prefix, each copied into a slice of exactly
// that length (Go checks slice expressions against the capacity).
//
//	op     : trunc <kind> <params> | <value>
//	answer : <hex> | r0 r1 … with rk = `panic` or `<returned>/<value>` for the prefix of length k;  `panic` if Marshal panics
func truncated(c *hx.Ctx, kind, params, value string, marshal func(buf []byte) int, unmarshal func(buf []byte) (int, string)) {
	if aborted {
		return
	}
	ans := guarded(func() string {
		buf := newBuf()
		n := marshal(buf)
		var rs []string
		for k := 0; k < n; k++ {
			pre := make([]byte, k)
			copy(pre, buf[:k])
			rs = append(rs, hx.Recover(func() string {
				m, v := unmarshal(pre)
				return fmt.Sprintf("%d/%s", m, v)
			}))
		}
		for _, x := range rs {
			if x == "panic" {
				c.Note("trunc:" + kind + ":prefix-panics")
			} else {
				c.Note("trunc:" + kind + ":prefix-decodes")
			}
		}
		return hx.Hex(buf[:n]) + " | " + strings.Join(rs, " ")
	})
	op := "trunc " + kind
	if params != "" {
		op += " " + params
	}
	c.Op(op+" | "+value, ans)
}

func runTrunc(c *hx.Ctx, p TN) {
	r := c.Rand
	switch r.Intn(7) {
	case 0:
		v := genRef(r, p, r.Uint64Edge())
		truncated(c, "ref", tnStr(p), rRef(v), func(b []byte) int { return v.Marshal(p, b) },
			func(b []byte) (int, string) {
				var d compact.Reference
				n := d.Unmarshal(p, b)
				return n, rRef(d)
			})
	case 1:
		v := compact.Int(genIntEdge(r))
		truncated(c, "int", "", i(int(v)), func(b []byte) int { return v.Marshal(p, b) },
			func(b []byte) (int, string) {
				var d compact.Int
				n := d.Unmarshal(p, b)
				return n, i(int(d))
			})
	case 2:
		v := genLatLng(r, compact.LatLng{})
		truncated(c, "ll", "", rLL(v), func(b []byte) int { return v.Marshal(p, b) },
			func(b []byte) (int, string) {
				var d compact.LatLng
				n := d.Unmarshal(p, b)
				return n, rLL(d)
			})
	case 3:
		v := genToken(r)
		truncated(c, "str", "", hx.Hex([]byte(v)), func(b []byte) int { return compact.MarshalString(v, b) },
			func(b []byte) (int, string) {
				d, n := compact.UnmarshalString(b)
				return n, hx.Hex([]byte(d))
			})
	case 4:
		v := compact.NamespaceIndex{TypeAndNamespace: genTN(r), Index: int(r.Uint64Edge())}
		truncated(c, "nsi", "", rNSI(v), func(b []byte) int { return v.Marshal(b) },
			func(b []byte) (int, string) {
				var d compact.NamespaceIndex
				n := d.Unmarshal(b)
				return n, rNSI(d)
			})
	case 5:
		v := genNss(r)
		truncated(c, "nss", "", rNss(v), func(b []byte) int { return v.Marshal(b) },
			func(b []byte) (int, string) {
				var d compact.Namespaces
				n := d.Unmarshal(b)
				return n, rNss(&d)
			})
	default:
		v := genBits(r)
		truncated(c, "bits", "", rBits(v), func(b []byte) int { return v.Marshal(b) },
			func(b []byte) (int, string) {
				var d compact.Bits
				n := d.Unmarshal(b)
				return n, rBits(d)
			})
	}
}

func noteSorted(c *hx.Ctx, kind string, rs compact.References) {
	if sort.IsSorted(rs) {
		c.Note(kind + "=already-sorted")
	} else {
		c.Note(kind + "=unsorted")
	}
}

type simpleStrings []string

func (s simpleStrings) Lookup(i int) string        { return s[i] }
func (s simpleStrings) Equal(i int, t string) bool { return s[i] == t }

// ---------------------------------------------------------------------------------------------
// TokenMap
//
//	op     : tokenmap | <n> <tokenhex>:<index>… | <q> <tokenhex>… | <rest hex>
//	answer : <encoded hex> <Length()> <Unmarshal result> | i,i,… (or -) per query token (FindPossibleIndices, in order)
func runTokenMap(c *hx.Ctx, rest []byte) {
	r := c.Rand
	n := r.Intn(12)
	switch r.Intn(6) {
	case 0:
		n = 0
	case 1:
		n = 40 + r.Intn(60)
	}
	type add struct {
		tok string
		ix  int
	}
	var adds []add
	for j := 0; j < n; j++ {
		tok := genToken(r)
		if len(adds) > 0 && r.Chance(1, 6) {
			tok = adds[r.Intn(len(adds))].tok // the same token twice
		}
		ix := j
		if r.Chance(1, 4) {
			ix = int(r.Uint64Edge() >> 1)
		}
		adds = append(adds, add{tok, ix})
	}
	var queries []string
	for _, a := range adds {
		queries = append(queries, a.tok)
	}
	for j := 0; j < 3; j++ {
		queries = append(queries, genToken(r))
	}
	c.Note("tokenmap:adds=" + bucket(n))
	if n >= 2 {
		c.NonTrivial()
	}
	xs := []string{i(len(adds))}
	for _, a := range adds {
		xs = append(xs, hx.Hex([]byte(a.tok))+":"+i(a.ix))
	}
	qs := []string{i(len(queries))}
	for _, q := range queries {
		qs = append(qs, hx.Hex([]byte(q)))
	}
	if aborted {
		return
	}
	ans := guarded(func() string {
		e := compact.NewTokenMapEncoder()
		for _, a := range adds {
			e.Add(a.tok, a.ix)
		}
		var out encoding.Buffer
		const start = 5
		if _, err := e.Write(&out, start); err != nil {
			return "err"
		}
		l := e.Length()
		bytes := out.Bytes()[start:]
		for len(bytes) < l { // trailing empty items are never written
			bytes = append(bytes, 0)
		}
		full := append(append([]byte(nil), bytes...), rest...)
		var m compact.TokenMap
		got := m.Unmarshal(full)
		res := []string{}
		for _, q := range queries {
			it := m.FindPossibleIndices(q)
			var is []string
			for {
				ix, ok := it.Next()
				if !ok {
					break
				}
				is = append(is, i(ix))
			}
			if len(is) == 0 {
				res = append(res, "-")
			} else {
				res = append(res, strings.Join(is, ","))
			}
		}
		return fmt.Sprintf("%s %d %d | %s", hx.Hex(bytes), l, got, strings.Join(res, " "))
	})
	c.Op("tokenmap | "+strings.Join(xs, " ")+" | "+strings.Join(qs, " ")+" | "+hx.Hex(rest), ans)
}

// ---------------------------------------------------------------------------------------------

func corpus(c *hx.Ctx) {
	pathTN := compact.CombineTypeAndNamespace(b6.FeatureTypePath, 1)
	// fixed (fixes/C11-area-geometry-consumed.patch): Unmarshal returned the polygon count + body instead of header bytes + body
	agr := &compact.AreaGeometryReferences{Polygons: []int{}, Paths: compact.References{{TypeAndNamespace: pathTN, Value: 42}}}
	roundTrip(c, "agr", tnStr(pathTN), rAGR(agr), nil,
		func(b []byte) int { return agr.Marshal(pathTN, b) },
		func(b []byte) (int, string) {
			var d compact.AreaGeometryReferences
			n := d.Unmarshal(pathTN, b)
			return n, rAGR(&d)
		})
	agr2 := &compact.AreaGeometryReferences{Polygons: []int{1, 2, 3}, Paths: compact.References{{pathTN, 10}, {pathTN, 11}, {pathTN, 12}, {pathTN, 13}}}
	roundTrip(c, "agr", tnStr(pathTN), rAGR(agr2), []byte{1, 2, 3},
		func(b []byte) int { return agr2.Marshal(pathTN, b) },
		func(b []byte) (int, string) {
			var d compact.AreaGeometryReferences
			n := d.Unmarshal(pathTN, b)
			return n, rAGR(&d)
		})
	agl := &compact.AreaGeometryLatLngs{Polygons: make([]compact.PolygonGeometryLatLngs, 3)}
	roundTrip(c, "agl", "", rAGL(agl), nil,
		func(b []byte) int { return agl.Marshal(pathTN, b) },
		func(b []byte) (int, string) {
			var d compact.AreaGeometryLatLngs
			n := d.Unmarshal(pathTN, b)
			return n, rAGL(&d)
		})
	// fixed (fixes/C02-area-relations-primary.patch): Area.Marshal wrote relations against the path namespace
	nss := &compact.Namespaces{1, 2, 2, 3}
	relTN := compact.CombineTypeAndNamespace(b6.FeatureTypeRelation, 3)
	area := compact.Area{Tags: compact.Tags{}, Polygons: &compact.AreaGeometryReferences{Polygons: []int{}, Paths: compact.References{{compact.CombineTypeAndNamespace(b6.FeatureTypePath, 2), 10}}},
		Relations: compact.References{{relTN, 51}, {relTN, 60}}}
	roundTrip(c, "area", rNss(nss), rTags(area.Tags)+" "+rGeom(area.Polygons)+" "+rRefs(area.Relations), nil,
		func(b []byte) int { return area.Marshal(nss, b) },
		func(b []byte) (int, string) {
			var d compact.Area
			n := d.Unmarshal(nss, b)
			return n, rTags(d.Tags) + " " + rGeom(d.Polygons) + " " + rRefs(d.Relations)
		})
	// fixed (fixes/C10-zigzag-decode.patch): deltas >= 2^62 between consecutive primary references
	refs := compact.References{{pathTN, 1 << 63}, {pathTN, 0}, {pathTN, 1<<64 - 1}, {pathTN, 1 << 62}, {relTN, 1 << 63}}
	roundTrip(c, "refs", tnStr(pathTN), rRefs(refs), []byte{0},
		func(b []byte) int { return refs.Marshal(pathTN, b) },
		func(b []byte) (int, string) {
			var d compact.References
			n := d.Unmarshal(pathTN, b)
			return n, rRefs(d)
		})
	// fixed (fixes/C11-member-type-guard.patch): a member of type collection (5) came back as type path (1) with role 5 instead of 4; now a Marshal panic
	ms := compact.Members{{Type: b6.FeatureTypeCollection, Role: 4, ID: compact.Reference{}}}
	roundTrip(c, "members", "0", rMembers(ms), nil,
		func(b []byte) int { return ms.Marshal(0, b) },
		func(b []byte) (int, string) {
			var d compact.Members
			n := d.Unmarshal(0, b)
			return n, rMembers(d)
		})
	c.NonTrivial()
}

func main() {
	hx.Main(hx.Family{
		Name: "c11",
		Rule: "case n exercises record kind kinds[n mod " + i(len(kinds)) + "] (ref refs ll lls mixed bits int tags members ints agr agl agm pll geom area path cpoint fpoint prefs relation nss str nsi nsis plh tokenmap mtags trunc) with 3 values: marshal with the real code, append random trailing bytes, unmarshal into a fresh or (kind!) an already used receiver; reference values from Uint64Edge/near the previous one, primaries and namespaces from a small pool so that primary and explicit forms both occur, int32 edges, list lengths 0/1/around 8/up to 35, ints up to the EncodeValueType/role limits (marshal panics are compared too); 1 in 8 mixed lists are outside the property's domain (an element with both halves set) and only compared with the model, 1 in 8 member lists carry a member type >= 4 (Marshal must panic); mixed!/agm! decode into a receiver holding a same-shape, a random canonical or an arbitrary old value; trunc ops decode every proper prefix of a leaf record; non-trivial = a list-carrying record with >= 2 elements or a composite record; distinct = by hash of the op text",
		Quick:    4350,
		Thorough: 200000,
		Corpus:   corpus,
		Case: func(c *hx.Ctx) {
			kind := kinds[c.CaseNo%len(kinds)]
			for j := 0; j < 3 && !aborted; j++ {
				runKind(c, kind)
			}
		},
	})
}

var _ = hex.EncodeToString
