// C13 harness: histories on a real ingest.MutableOverlayWorld that contain invalid replacements (a path
// under an area opened / shortened / reversed, a missing point, a point moved so that a closed path
// through it turns clockwise, an area over an open or missing path) and merged changes whose k-th part
// fails; the complete observation dump is written before and after every call, so the driver can
// compare the world after a rejected call with the world before it.
package main

import (
	"fmt"

	"verifharness/cmd/c12/mw"
	"verifharness/hx"
)

func s(k, v string) mw.Tag { return mw.Tag{K: k, Kind: "s", S: v} }

func corpus(c *hx.Ctx) {
	k := mw.NewCase(c)
	k.StandardRoot(hx.NewRand(2), false)
	k.World()
	k.Dump()
	// fixed: closed path under an area replaced by an open one -> error, but the path was left replaced
	k.AddFeature(mw.Feat{ID: 1005, Refs: []int{1, 2, 3, 4, 1}}) // bring the path into the overlay
	k.AddFeature(mw.Feat{ID: 1005, Refs: []int{1, 2, 3}})
	k.AddTag(1005, s("#highway", "pub")) // the index must still hold the restored feature
	// fixed: the same replacement was not validated at all while the path only lived in the base
	k2 := mw.NewCase(c)
	k2.StandardRoot(hx.NewRand(2), false)
	k2.World()
	k2.Dump()
	k2.AddFeature(mw.Feat{ID: 1005, Refs: []int{1, 2, 3}})
	// fixed: so a MergedChange passed its canary and failed half way ("change partially applied")
	k3 := mw.NewCase(c)
	k3.StandardRoot(hx.NewRand(2), false)
	k3.World()
	k3.Dump()
	k3.AddFeature(mw.Feat{ID: 1005, Refs: []int{1, 2, 3, 4, 1}})
	k3.Merged([]mw.Part{
		{Kind: "at", IDs: []int{1}, Tags: []mw.Tag{s("name", "x")}},
		{Kind: "af", Feats: []mw.Feat{{ID: 1005, Refs: []int{1, 2, 3}}}},
	})
	// a point moved so that the closed path through it turns clockwise
	pos := mw.Positions[2][2]
	k3.AddFeature(mw.Feat{ID: 2, Lat: mw.Positions[4][1][0], Lng: mw.Positions[4][1][1]})
	k3.AddFeature(mw.Feat{ID: 2, Lat: pos[0], Lng: pos[1]})
	// an area over a two-point path whose end points coincide: "closed" by coordinates, too short
	k4 := mw.NewCase(c)
	k4.StandardRoot(hx.NewRand(2), false)
	k4.World()
	k4.Dump()
	p7 := mw.Positions[7][0]
	k4.AddFeature(mw.Feat{ID: 7, Lat: p7[0], Lng: p7[1]})
	k4.AddFeature(mw.Feat{ID: 8, Lat: p7[0], Lng: p7[1]})
	k4.AddFeature(mw.Feat{ID: 1011, Refs: []int{7, 8}})
	k4.AddFeature(mw.Feat{ID: 2010, Refs: []int{1011}})
	// fixed: an area over a path that is closed only by two coincident points; moving one of them in a
	// merged change passed the canary (which saw the path through the world, with the old end point)
	// and failed in the world ("change partially applied")
	k5 := mw.NewCase(c)
	k5.StandardRoot(hx.NewRand(2), false)
	k5.World()
	k5.Dump()
	k5.AddFeature(mw.Feat{ID: 7, Lat: p7[0], Lng: p7[1]})
	k5.AddFeature(mw.Feat{ID: 8, Lat: p7[0], Lng: p7[1]})
	k5.AddFeature(mw.Feat{ID: 1011, Refs: []int{7, 1, 2, 8}})
	k5.AddFeature(mw.Feat{ID: 2010, Refs: []int{1011}})
	p8 := mw.Positions[8][0]
	k5.Merged([]mw.Part{
		{Kind: "at", IDs: []int{1}, Tags: []mw.Tag{s("name", "x")}},
		{Kind: "af", Feats: []mw.Feat{{ID: 8, Lat: p8[0], Lng: p8[1]}}},
	})
	k5.AddFeature(mw.Feat{ID: 8, Lat: p8[0], Lng: p8[1]})
	c.NonTrivial()
}

// adversarial returns a feature that is expected to be rejected, and a label.
func adversarial(k *mw.Case, r *hx.Rand) (mw.Feat, string) {
	sh := k.Shadow
	var closedUnderArea, closed []int
	under := map[int]bool{}
	for _, a := range mw.AreaIDs {
		for _, p := range sh.Area[a] {
			under[p] = true
		}
	}
	for _, p := range mw.PathIDs {
		if cur := sh.Path[p]; len(cur) >= 4 && cur[0] == cur[len(cur)-1] {
			closed = append(closed, p)
			if under[p] {
				closedUnderArea = append(closedUnderArea, p)
			}
		}
	}
	for try := 0; try < 6; try++ {
		switch r.Intn(8) {
		case 0: // opened under an area
			if len(closedUnderArea) > 0 {
				p := closedUnderArea[r.Intn(len(closedUnderArea))]
				cur := sh.Path[p]
				return mw.Feat{ID: p, Refs: append([]int(nil), cur[:len(cur)-1]...), Tags: mw.RandTags(r, 2)}, "opened"
			}
		case 1: // shortened
			if len(closed) > 0 {
				p := closed[r.Intn(len(closed))]
				cur := sh.Path[p]
				refs := []int{cur[0], cur[1], cur[0]}
				if r.Bool() {
					refs = []int{cur[0], cur[1]}
				}
				return mw.Feat{ID: p, Refs: refs, Tags: mw.RandTags(r, 2)}, "shortened"
			}
		case 2: // reversed
			if len(closed) > 0 {
				p := closed[r.Intn(len(closed))]
				cur := append([]int(nil), sh.Path[p]...)
				for i, j := 0, len(cur)-1; i < j; i, j = i+1, j-1 {
					cur[i], cur[j] = cur[j], cur[i]
				}
				return mw.Feat{ID: p, Refs: cur, Tags: mw.RandTags(r, 2)}, "reversed"
			}
		case 3: // missing point
			p := mw.PathIDs[r.Intn(len(mw.PathIDs))]
			refs := []int{1, 9, 3}
			if cur, ok := sh.Path[p]; ok && len(cur) > 1 {
				refs = append([]int(nil), cur...)
				refs[r.Intn(len(refs))] = 9
			}
			return mw.Feat{ID: p, Refs: refs, Tags: mw.RandTags(r, 2)}, "missing-point"
		case 4, 5: // a point moved so that a closed path through it flips
			for _, pi := range r.Perm(len(mw.PointIDs)) {
				pt := mw.PointIDs[pi]
				if !sh.Exists[pt] {
					continue
				}
				for _, vi := range r.Perm(3) {
					pos := mw.Positions[pt][vi]
					trial := sh.Clone()
					trial.Pos[pt] = pos
					for _, p := range closed {
						cur := sh.Path[p]
						uses := false
						for _, q := range cur {
							uses = uses || q == pt
						}
						if uses && trial.Shoelace(cur[:len(cur)-1]) < 0 {
							return mw.Feat{ID: pt, Lat: pos[0], Lng: pos[1], Tags: mw.RandTags(r, 2)}, "point-flips-path"
						}
					}
				}
			}
		case 6: // area over an open / missing path
			a := mw.AreaIDs[r.Intn(len(mw.AreaIDs))]
			refs := []int{1011}
			for _, p := range mw.PathIDs {
				if cur, ok := sh.Path[p]; ok && (len(cur) < 4 || cur[0] != cur[len(cur)-1]) {
					refs = []int{p}
				}
			}
			if r.Chance(1, 3) {
				refs = []int{1099}
			}
			return mw.Feat{ID: a, Refs: refs, Tags: mw.RandTags(r, 2)}, "bad-area"
		default: // too short
			return mw.Feat{ID: mw.PathIDs[r.Intn(len(mw.PathIDs))], Refs: []int{1}[:r.Intn(2)], Tags: mw.RandTags(r, 2)}, "too-short"
		}
	}
	return mw.Feat{ID: 1009, Refs: []int{9, 9}}, "missing-point"
}

func validOp(k *mw.Case, r *hx.Rand) {
	switch x := r.Intn(10); {
	case x < 3:
		k.AddTag(k.RandID(r), mw.RandTag(r, r.Bool()))
	case x < 4:
		k.RemoveTag(k.RandID(r), r.Pick(mw.AllKeys()))
	case x < 6:
		// bring a base feature into the overlay unchanged
		id := []int{1, 2, 3, 4, 1005, 2006}[r.Intn(6)]
		switch id / 1000 {
		case 0:
			if pos, ok := k.Shadow.Pos[id]; ok {
				k.AddFeature(mw.Feat{ID: id, Lat: pos[0], Lng: pos[1], Tags: mw.RandTags(r, 2)})
			}
		case 1:
			if cur, ok := k.Shadow.Path[id]; ok {
				k.AddFeature(mw.Feat{ID: id, Refs: cur, Tags: mw.RandTags(r, 2)})
			}
		default:
			if cur, ok := k.Shadow.Area[id]; ok {
				k.AddFeature(mw.Feat{ID: id, Refs: cur, Tags: mw.RandTags(r, 2)})
			}
		}
	default:
		k.AddFeature(k.RandFeature(r))
	}
}

func runCase(c *hx.Ctx) {
	r := c.Rand
	k := mw.NewCase(c)
	k.StandardRoot(r, r.Chance(1, 3))
	k.World()
	k.Dump()
	rejected := false
	rounds := 1 + r.Intn(3)
	for round := 0; round < rounds; round++ {
		for i, n := 0, r.Intn(7); i < n; i++ {
			validOp(k, r)
		}
		if r.Chance(3, 5) {
			f, label := adversarial(k, r)
			ans := k.AddFeature(f)
			c.Note("adv:" + label + " " + ans)
			rejected = rejected || ans == "err"
		} else {
			// a merged change with a failing k-th part
			var parts []mw.Part
			np := 1 + r.Intn(4)
			bad := r.Intn(np)
			label := ""
			for j := 0; j < np; j++ {
				if j == bad {
					if r.Chance(1, 4) {
						parts = append(parts, mw.Part{Kind: "at", IDs: []int{1, 9}, Tags: []mw.Tag{mw.RandTag(r, r.Bool()), mw.RandTag(r, false)}})
						label = "tag-on-missing"
					} else {
						f, l := adversarial(k, r)
						feats := []mw.Feat{f}
						if r.Chance(1, 3) {
							feats = []mw.Feat{k.RandPoint(r, mw.PointIDs[r.Intn(4)]), f}
						}
						parts = append(parts, mw.Part{Kind: "af", Feats: feats})
						label = l
					}
					continue
				}
				switch r.Intn(3) {
				case 0:
					parts = append(parts, mw.Part{Kind: "at", IDs: []int{mw.AllIDs[r.Intn(4)]}, Tags: []mw.Tag{mw.RandTag(r, r.Bool())}})
				case 1:
					parts = append(parts, mw.Part{Kind: "rt", IDs: []int{mw.AllIDs[r.Intn(4)]}, Keys: []string{r.Pick(mw.AllKeys())}})
				default:
					parts = append(parts, mw.Part{Kind: "af", Feats: []mw.Feat{k.RandPoint(r, mw.PointIDs[r.Intn(len(mw.PointIDs))])}})
				}
			}
			ans := k.Merged(parts)
			c.Note(fmt.Sprintf("merged:%s bad=%d/%d %s", label, bad+1, np, ans))
			rejected = rejected || ans != "ok"
		}
		for i, n := 0, r.Intn(4); i < n; i++ {
			validOp(k, r)
		}
	}
	if rejected {
		c.NonTrivial()
	}
}

func main() {
	hx.Main(hx.Family{
		Name: "c13",
		Rule: "root as in c12; 1-3 rounds of [0-6 valid edits, then an adversarial AddFeature (path under an area opened/shortened/reversed, missing point, point moved so a closed path flips, bad area, too short) or a MergedChange of 1-4 parts whose k-th part is adversarial or tags a missing feature, then 0-3 more edits]; full dump before/after every call; non-trivial = at least one call was rejected",
		Quick:    1500,
		Thorough: 25000,
		Corpus:   corpus,
		Case:     runCase,
	})
}
