// C27 harness: element sequences written with the real osm.Writer, the file parsed back into its
// primitive blocks (framing/zlib/protobuf undone here, with the repo's generated pb package) and read
// with osm.ReadPBFWithOptions for 1, 2 and 8 reader goroutines; plus single hand-built blocks fed to the
// unexported block reader, and the integer leaves encodeAngle/decodeAngle.
//
// Token formats (all single-line, space separated; strings as lowercase hex, "-" when empty):
//
//	element  N id lat lon nt (k v)*            lat/lon = nano-degrees, int64(angle/.000000001) on input,
//	                                           round(angle*1e9) on output
//	         W id nn node* nt (k v)*
//	         R id nm (n|w|r id role)* nt (k v)*
//	block    B ns str* gran lato lono ng group*
//	group    G nn pnode* (D0 | D1 ni id* nla lat* nlo lon* nkv kv*) nw pway* nr prel*
//	pnode    id lat lon nk k* nv v*
//	pway     id nr ref* nk k* nv v*
//	prel     id nm memid* nt type* nr role* nk k* nv v*
package main

import (
	"bytes"
	"compress/zlib"
	"encoding/binary"
	"fmt"
	"io"
	"math"
	"runtime"
	"strconv"
	"strings"
	"sync"
	"time"

	"diagonal.works/b6/osm"
	pb "diagonal.works/b6/osm/proto"
	"google.golang.org/protobuf/proto"
	"verifharness/hx"
)

type tw struct{ sb strings.Builder }

func (t *tw) w(s string) {
	if t.sb.Len() > 0 {
		t.sb.WriteByte(' ')
	}
	t.sb.WriteString(s)
}
func (t *tw) i(v int64)      { t.w(strconv.FormatInt(v, 10)) }
func (t *tw) n(v int)        { t.w(strconv.Itoa(v)) }
func (t *tw) s(v string)     { t.w(hx.Hex([]byte(v))) }
func (t *tw) String() string { return t.sb.String() }
func (t *tw) tags(ts osm.Tags) {
	t.n(len(ts))
	for _, tag := range ts {
		t.s(tag.Key)
		t.s(tag.Value)
	}
}

// nano is the conversion contract of the writer's boundary: float degrees -> int64 nano-degrees.
func nano(angle float64) int64 { return int64(angle / .000000001) }

// back maps a read coordinate (.000000001 * float64(int)) to that integer.
func back(angle float64) int64 { return int64(math.Round(angle * 1e9)) }

func writeElem(t *tw, e osm.Element, conv func(float64) int64) {
	switch e := e.(type) {
	case *osm.Node:
		t.w("N")
		t.i(int64(e.ID))
		t.i(conv(e.Location.Lat))
		t.i(conv(e.Location.Lng))
		t.tags(e.Tags)
	case *osm.Way:
		t.w("W")
		t.i(int64(e.ID))
		t.n(len(e.Nodes))
		for _, n := range e.Nodes {
			t.i(int64(n))
		}
		t.tags(e.Tags)
	case *osm.Relation:
		t.w("R")
		t.i(int64(e.ID))
		t.n(len(e.Members))
		for _, m := range e.Members {
			switch m.Type {
			case osm.ElementTypeNode:
				t.w("n")
			case osm.ElementTypeWay:
				t.w("w")
			default:
				t.w("r")
			}
			t.i(int64(m.ID))
			t.s(m.Role)
		}
		t.tags(e.Tags)
	}
}

func cloneElem(e osm.Element) osm.Element {
	switch e := e.(type) {
	case *osm.Node:
		c := e.Clone()
		return &c
	case *osm.Way:
		c := e.Clone()
		return &c
	case *osm.Relation:
		c := e.Clone()
		return &c
	}
	return nil
}

// ---- block dump ------------------------------------------------------------------------------

func u32s(t *tw, xs []uint32) {
	t.n(len(xs))
	for _, x := range xs {
		t.w(strconv.FormatUint(uint64(x), 10))
	}
}
func i32s(t *tw, xs []int32) {
	t.n(len(xs))
	for _, x := range xs {
		t.i(int64(x))
	}
}
func i64s(t *tw, xs []int64) {
	t.n(len(xs))
	for _, x := range xs {
		t.i(x)
	}
}

func dumpBlock(t *tw, b *pb.PrimitiveBlock) {
	t.w("B")
	ss := b.GetStringtable().GetS()
	t.n(len(ss))
	for _, s := range ss {
		t.s(string(s))
	}
	t.i(int64(b.GetGranularity()))
	t.i(b.GetLatOffset())
	t.i(b.GetLonOffset())
	t.n(len(b.GetPrimitivegroup()))
	for _, g := range b.GetPrimitivegroup() {
		t.w("G")
		t.n(len(g.GetNodes()))
		for _, n := range g.GetNodes() {
			t.i(n.GetId())
			t.i(n.GetLat())
			t.i(n.GetLon())
			u32s(t, n.GetKeys())
			u32s(t, n.GetVals())
		}
		if g.Dense == nil {
			t.w("D0")
		} else {
			t.w("D1")
			i64s(t, g.Dense.GetId())
			i64s(t, g.Dense.GetLat())
			i64s(t, g.Dense.GetLon())
			i32s(t, g.Dense.GetKeysVals())
		}
		t.n(len(g.GetWays()))
		for _, w := range g.GetWays() {
			t.i(w.GetId())
			i64s(t, w.GetRefs())
			u32s(t, w.GetKeys())
			u32s(t, w.GetVals())
		}
		t.n(len(g.GetRelations()))
		for _, r := range g.GetRelations() {
			t.i(r.GetId())
			i64s(t, r.GetMemids())
			t.n(len(r.GetTypes()))
			for _, ty := range r.GetTypes() {
				t.i(int64(ty))
			}
			i32s(t, r.GetRolesSid())
			u32s(t, r.GetKeys())
			u32s(t, r.GetVals())
		}
	}
}

// parseFile undoes the blob framing of a .osm.pbf file and returns its OSMData blocks in file order.
func parseFile(data []byte) ([]*pb.PrimitiveBlock, error) {
	r := bytes.NewReader(data)
	var blocks []*pb.PrimitiveBlock
	first := true
	for {
		var lb [4]byte
		if _, err := io.ReadFull(r, lb[:]); err != nil {
			if err == io.EOF {
				return blocks, nil
			}
			return nil, err
		}
		hb := make([]byte, binary.BigEndian.Uint32(lb[:]))
		if _, err := io.ReadFull(r, hb); err != nil {
			return nil, err
		}
		var header pb.BlobHeader
		if err := proto.Unmarshal(hb, &header); err != nil {
			return nil, err
		}
		bb := make([]byte, header.GetDatasize())
		if _, err := io.ReadFull(r, bb); err != nil {
			return nil, err
		}
		var blob pb.Blob
		if err := proto.Unmarshal(bb, &blob); err != nil {
			return nil, err
		}
		raw := blob.Raw
		if raw == nil {
			z, err := zlib.NewReader(bytes.NewReader(blob.ZlibData))
			if err != nil {
				return nil, err
			}
			if raw, err = io.ReadAll(z); err != nil {
				return nil, err
			}
			if int(blob.GetRawSize()) != len(raw) {
				return nil, fmt.Errorf("raw_size %d != %d", blob.GetRawSize(), len(raw))
			}
		}
		if first {
			first = false
			if header.GetType() != "OSMHeader" {
				return nil, fmt.Errorf("first blob is %q", header.GetType())
			}
			continue
		}
		if header.GetType() != "OSMData" {
			return nil, fmt.Errorf("blob type %q", header.GetType())
		}
		var block pb.PrimitiveBlock
		if err := proto.Unmarshal(raw, &block); err != nil {
			return nil, err
		}
		blocks = append(blocks, &block)
	}
}

// ---- generators ------------------------------------------------------------------------------

var alphabet = []string{"", "a", "b", "highway", "name", "yes", "outer", "inner", "x", "\x00", "\xff\xfe", "k=v [w]", "type", "multipolygon"}

func genString(r *hx.Rand) string {
	switch r.Intn(10) {
	case 0:
		return ""
	case 1:
		n := 1 + r.Intn(40)
		b := make([]byte, n)
		for i := range b {
			b[i] = byte(r.Intn(256))
		}
		return string(b)
	case 2:
		return fmt.Sprintf("s%d", r.Intn(1000))
	default:
		return alphabet[r.Intn(len(alphabet))]
	}
}

func genTags(r *hx.Rand, c *hx.Ctx) osm.Tags {
	n := 0
	switch r.Intn(6) {
	case 0, 1:
		n = 0
	case 2, 3:
		n = 1
	case 4:
		n = 2 + r.Intn(3)
	default:
		n = r.Intn(12)
	}
	var ts osm.Tags
	for i := 0; i < n; i++ {
		ts = append(ts, osm.Tag{Key: genString(r), Value: genString(r)})
	}
	return ts
}

type idGen struct {
	mode int
	next int64
}

func (g *idGen) id(r *hx.Rand) int64 {
	switch g.mode {
	case 0: // increasing
		g.next += int64(1 + r.Intn(5))
		return g.next
	case 1: // small, any sign
		return int64(r.Intn(41)) - 20
	case 2: // edges of int64
		return int64(r.Uint64Edge())
	default:
		if r.Chance(1, 4) {
			return int64(r.Uint64Edge())
		}
		g.next += int64(r.Intn(1000)) - 300
		return g.next
	}
}

var coordEdges = []float64{0, math.Copysign(0, -1), 90, -90, 180, -180, 1e-10, -1e-10, 9.99e-8, -9.99e-8, 1e-7, -1e-7,
	1.99e-7, -1.99e-7, 89.99999995, -89.99999995, 179.9999999, -179.9999999, 99.9999999, 51.5353621, -0.1243072, 1e5, -1e5, 12345.678912345}

func genCoord(r *hx.Rand, limit float64) float64 {
	switch r.Intn(6) {
	case 0:
		return coordEdges[r.Intn(len(coordEdges))]
	case 1: // E7 integer
		return float64(int64(r.Intn(int(2*limit*1e7)))-int64(limit*1e7)) / 1e7
	case 2: // nano integer
		return float64(int64(r.Uint64()%uint64(2*limit*1e9))-int64(limit*1e9)) * 1e-9
	case 3: // close to a granularity boundary
		k := int64(r.Uint64()%uint64(2*limit*1e7)) - int64(limit*1e7)
		return (float64(k*100) + float64(r.Intn(5)-2)) * 1e-9
	default:
		return (float64(r.Uint64()>>11)/float64(1<<53))*2*limit - limit
	}
}

func genNode(r *hx.Rand, c *hx.Ctx, ids *idGen) *osm.Node {
	return &osm.Node{ID: osm.NodeID(ids.id(r)), Location: osm.LatLng{Lat: genCoord(r, 90), Lng: genCoord(r, 180)}, Tags: genTags(r, c)}
}

func genWay(r *hx.Rand, c *hx.Ctx, ids, nids *idGen) *osm.Way {
	n := r.Intn(8)
	if r.Chance(1, 10) {
		n = 0
	}
	w := &osm.Way{ID: osm.WayID(ids.id(r)), Tags: genTags(r, c)}
	for i := 0; i < n; i++ {
		w.Nodes = append(w.Nodes, osm.NodeID(nids.id(r)))
	}
	return w
}

func genRel(r *hx.Rand, c *hx.Ctx, ids, mids *idGen) *osm.Relation {
	n := r.Intn(7)
	rel := &osm.Relation{ID: osm.RelationID(ids.id(r)), Tags: genTags(r, c)}
	for i := 0; i < n; i++ {
		rel.Members = append(rel.Members, osm.Member{Type: osm.ElementType(r.Intn(3)), ID: osm.AnyID(mids.id(r)), Role: genString(r)})
	}
	return rel
}

// ---- the round trip ---------------------------------------------------------------------------

func roundTrip(c *hx.Ctx, es []osm.Element) {
	var buf bytes.Buffer
	t := &tw{}
	t.n(len(es))
	for _, e := range es {
		writeElem(t, e, nano)
	}
	ans := hx.Recover(func() string {
		w, err := osm.NewWriter(&buf)
		if err != nil {
			return "err"
		}
		for _, e := range es {
			if err := w.WriteElement(e); err != nil {
				return "err"
			}
		}
		if err := w.Flush(); err != nil {
			return "err"
		}
		blocks, err := parseFile(buf.Bytes())
		if err != nil {
			return "err-parse"
		}
		o := &tw{}
		o.n(len(blocks))
		for _, b := range blocks {
			dumpBlock(o, b)
		}
		c.Note(fmt.Sprintf("blocks:%s", bucket(len(blocks))))
		return o.String()
	})
	c.Op("write "+t.String(), ans)
	if strings.HasPrefix(ans, "err") || ans == "panic" {
		return
	}
	readBack(c, es, buf.Bytes(), nil)
}

// readBack reads the file with 1, 2 and 8 goroutines. For more than one goroutine the answer also carries
// the order in which the callback was entered across goroutines (run-length coded goroutine indices, taken
// under a mutex at callback entry). slow != nil makes the callback sleep after it has recorded the given
// element index of goroutine-local order, to force a schedule.
func readBack(c *hx.Ctx, es []osm.Element, data []byte, slow func(cores int, e osm.Element) time.Duration) {
	for _, cores := range []int{1, 2, 8} {
		streams := make([][]osm.Element, cores)
		var mu sync.Mutex
		var order []int
		emit := func(e osm.Element, g int) error {
			if cores > 1 {
				mu.Lock()
				order = append(order, g)
				mu.Unlock()
			}
			streams[g] = append(streams[g], cloneElem(e)) // goroutine g is the only writer of streams[g]
			if cores > 1 {
				if slow != nil {
					if d := slow(cores, e); d > 0 {
						time.Sleep(d)
					}
				}
				runtime.Gosched() // let the other reader goroutines take blocks too
			}
			return nil
		}
		err := osm.ReadPBFWithOptions(bytes.NewReader(data), emit, osm.ReadOptions{Cores: cores})
		o := &tw{}
		if err != nil {
			o.w("err")
		} else {
			o.w("ok")
		}
		o.n(cores)
		used := 0
		for _, s := range streams {
			o.n(len(s))
			for _, e := range s {
				writeElem(o, e, back)
			}
			if len(s) > 0 {
				used++
			}
		}
		if cores == 1 {
			// float-level clause, evaluated here because floats never cross the line protocol:
			// every node read back lies within one granularity step (100 nano-degrees) of what was written
			fl := 1
			if len(streams[0]) == len(es) {
				for i, e := range es {
					if n, ok := e.(*osm.Node); ok {
						m, ok := streams[0][i].(*osm.Node)
						if !ok || !(math.Abs(m.Location.Lat-n.Location.Lat) <= 100e-9+1e-12) || !(math.Abs(m.Location.Lng-n.Location.Lng) <= 100e-9+1e-12) {
							fl = 0
						}
					}
				}
			} else {
				fl = 0
			}
			o.w(fmt.Sprintf("fl=%d", fl))
		} else {
			c.Note(fmt.Sprintf("cores%d-goroutines-used:%d", cores, used))
			// run-length coded callback order
			o.w("o")
			var runs [][2]int
			for _, g := range order {
				if len(runs) > 0 && runs[len(runs)-1][0] == g {
					runs[len(runs)-1][1]++
				} else {
					runs = append(runs, [2]int{g, 1})
				}
			}
			o.n(len(runs))
			for _, r := range runs {
				o.n(r[0])
				o.n(r[1])
			}
			if len(runs) > used {
				c.Note(fmt.Sprintf("cores%d-callback-order:interleaved", cores))
			} else {
				c.Note(fmt.Sprintf("cores%d-callback-order:stream-after-stream", cores))
			}
		}
		c.Op(fmt.Sprintf("read %d", cores), o.String())
	}
}

func bucket(n int) string {
	switch {
	case n <= 3:
		return strconv.Itoa(n)
	case n <= 10:
		return "4-10"
	case n <= 100:
		return "11-100"
	default:
		return ">100"
	}
}

func genSequence(c *hx.Ctx) []osm.Element {
	r := c.Rand
	nodeIDs := &idGen{mode: r.Intn(4), next: int64(r.Intn(1000))}
	wayIDs := &idGen{mode: r.Intn(4), next: int64(r.Intn(1000))}
	relIDs := &idGen{mode: r.Intn(4), next: int64(r.Intn(1000))}
	refIDs := &idGen{mode: r.Intn(4), next: int64(r.Intn(1000))}
	var es []osm.Element
	shape := r.Intn(10)
	switch {
	case shape <= 4: // free interleaving
		n := r.Intn(40)
		for i := 0; i < n; i++ {
			switch r.Intn(3) {
			case 0:
				es = append(es, genNode(r, c, nodeIDs))
			case 1:
				es = append(es, genWay(r, c, wayIDs, refIDs))
			default:
				es = append(es, genRel(r, c, relIDs, refIDs))
			}
		}
		c.Note("shape:interleaved")
	case shape <= 7: // runs of one type, as real files are laid out (and out of order too)
		runs := 1 + r.Intn(6)
		for j := 0; j < runs; j++ {
			k := r.Intn(3)
			n := 1 + r.Intn(12)
			for i := 0; i < n; i++ {
				switch k {
				case 0:
					es = append(es, genNode(r, c, nodeIDs))
				case 1:
					es = append(es, genWay(r, c, wayIDs, refIDs))
				default:
					es = append(es, genRel(r, c, relIDs, refIDs))
				}
			}
		}
		c.Note("shape:runs")
	default: // nodes only, dense-group specifics (tags / no tags mix)
		n := r.Intn(30)
		for i := 0; i < n; i++ {
			es = append(es, genNode(r, c, nodeIDs))
		}
		c.Note("shape:nodes-only")
	}
	return es
}

// bigRun makes n consecutive elements of one kind (0 dense nodes, 1 ways, 2 relations). Elements within 12 of
// a multiple of elementsPerGroup (8000) always carry strings (tag key, tag value, for relations also a member
// role): with distinct = true strings that no other element has, so that their string-table indices differ
// between the block that is full and the next one; otherwise strings shared by all elements.
func bigRun(r *hx.Rand, kind int, n int, distinct bool, ids, refs *idGen) []osm.Element {
	var es []osm.Element
	for i := 0; i < n; i++ {
		near := false
		if m := (i + 12) % 8000; m <= 24 && i+12 >= 8000 {
			near = true
		}
		var tags osm.Tags
		role := ""
		switch {
		case near && distinct:
			tags = osm.Tags{{Key: fmt.Sprintf("k%d", i), Value: fmt.Sprintf("v%d", i)}}
			role = fmt.Sprintf("r%d", i)
		case near:
			tags = osm.Tags{{Key: "highway", Value: alphabet[i%len(alphabet)]}}
			role = alphabet[(i+3)%len(alphabet)]
		case r.Chance(1, 8):
			tags = osm.Tags{{Key: alphabet[r.Intn(len(alphabet))], Value: fmt.Sprintf("v%d", r.Intn(50))}}
			role = alphabet[r.Intn(len(alphabet))]
		}
		switch kind {
		case 0:
			es = append(es, &osm.Node{ID: osm.NodeID(ids.id(r)), Location: osm.LatLng{Lat: genCoord(r, 90), Lng: genCoord(r, 180)}, Tags: tags})
		case 1:
			w := &osm.Way{ID: osm.WayID(ids.id(r)), Tags: tags}
			for q := r.Intn(3); q > 0; q-- {
				w.Nodes = append(w.Nodes, osm.NodeID(refs.id(r)))
			}
			es = append(es, w)
		default:
			rel := &osm.Relation{ID: osm.RelationID(ids.id(r)), Tags: tags}
			if near || r.Chance(1, 4) {
				rel.Members = append(rel.Members, osm.Member{Type: osm.ElementType(r.Intn(3)), ID: osm.AnyID(refs.id(r)), Role: role})
			}
			es = append(es, rel)
		}
	}
	return es
}

var bigKinds = []string{"dense", "ways", "relations"}

// genBig: a run of one element kind that reaches or crosses elementsPerGroup (8000): one short of it, exactly,
// by one, by many, and twice (16000 / 16001); sometimes a second run of another kind and a trailing element.
func genBig(c *hx.Ctx) []osm.Element {
	r := c.Rand
	sizes := []int{7999, 8000, 8001, 8001, 16000, 16001, 8002 + r.Intn(400)}
	ids := &idGen{mode: 0}
	refs := &idGen{mode: 3}
	kind := r.Intn(3)
	n := sizes[r.Intn(len(sizes))]
	distinct := r.Chance(2, 3)
	es := bigRun(r, kind, n, distinct, ids, refs)
	c.Note(fmt.Sprintf("big-run:%s:%s", bigKinds[kind], bucketBig(n)))
	if distinct {
		c.Note("big-run:strings-distinct-at-boundary")
	} else {
		c.Note("big-run:strings-shared")
	}
	if r.Chance(1, 4) { // a second full run, of another kind
		k2 := (kind + 1 + r.Intn(2)) % 3
		es = append(es, bigRun(r, k2, 8001, r.Bool(), ids, refs)...)
		c.Note(fmt.Sprintf("big-run:%s:8001", bigKinds[k2]))
	}
	if r.Bool() { // something after the full group(s)
		es = append(es, genNode(r, c, ids))
	}
	return es
}

func bucketBig(n int) string {
	switch {
	case n < 8000:
		return "7999"
	case n == 8000:
		return "8000"
	case n == 8001:
		return "8001"
	case n < 16000:
		return "8002-8401"
	case n == 16000:
		return "16000"
	default:
		return "16001"
	}
}

// ---- hand-built single blocks for the reader ---------------------------------------------------

func genIdx(r *hx.Rand, n int) uint32 {
	if r.Chance(1, 40) {
		return uint32(n + r.Intn(3)) // out of range
	}
	if n == 0 {
		return 0
	}
	return uint32(r.Intn(n))
}

func rawRead(c *hx.Ctx) {
	r := c.Rand
	ns := r.Intn(8)
	if r.Chance(1, 12) {
		ns = 0
	}
	b := &pb.PrimitiveBlock{Stringtable: &pb.StringTable{}}
	for i := 0; i < ns; i++ {
		s := genString(r)
		if i == 0 && r.Chance(3, 4) {
			s = ""
		}
		b.Stringtable.S = append(b.Stringtable.S, []byte(s))
	}
	if r.Chance(1, 2) {
		grans := []int32{100, 1, 1000, 10, -100, 7, 0}
		b.Granularity = proto.Int32(grans[r.Intn(len(grans))])
	}
	if r.Chance(1, 3) {
		b.LatOffset = proto.Int64(int64(r.Intn(2000001)) - 1000000)
	}
	if r.Chance(1, 3) {
		b.LonOffset = proto.Int64(int64(r.Intn(2000001)) - 1000000)
	}
	coord := func() int64 { return int64(r.Intn(3600000001)) - 1800000000 }
	idv := func() int64 {
		if r.Chance(1, 6) {
			return int64(r.Uint64Edge())
		}
		return int64(r.Intn(2001)) - 1000
	}
	idxs := func(n int) []uint32 {
		xs := make([]uint32, n)
		for i := range xs {
			xs[i] = genIdx(r, ns)
		}
		return xs
	}
	kvLens := func() (int, int) {
		n := r.Intn(4)
		if r.Chance(1, 15) {
			return n, n + 1
		}
		return n, n
	}
	ng := r.Intn(4)
	for gi := 0; gi < ng; gi++ {
		g := &pb.PrimitiveGroup{}
		kinds := r.Intn(16)
		if r.Chance(2, 3) {
			kinds = 1 << uint(r.Intn(4))
		}
		if kinds&1 != 0 {
			for q := 1 + r.Intn(3); q > 0; q-- {
				nk, nv := kvLens()
				g.Nodes = append(g.Nodes, &pb.Node{Id: proto.Int64(idv()), Lat: proto.Int64(coord()), Lon: proto.Int64(coord()), Keys: idxs(nk), Vals: idxs(nv)})
			}
		}
		if kinds&2 != 0 {
			d := &pb.DenseNodes{}
			n := r.Intn(5)
			for i := 0; i < n; i++ {
				d.Id = append(d.Id, idv())
				d.Lat = append(d.Lat, coord()/4)
				d.Lon = append(d.Lon, coord()/4)
				if !r.Chance(1, 30) {
					for q := r.Intn(3); q > 0; q-- {
						k, v := genIdx(r, ns), genIdx(r, ns)
						if k == 0 && !r.Chance(1, 10) && ns > 1 {
							k = 1
						}
						d.KeysVals = append(d.KeysVals, int32(k), int32(v))
					}
					if !r.Chance(1, 30) {
						d.KeysVals = append(d.KeysVals, 0)
					} else if r.Chance(1, 2) {
						d.KeysVals = append(d.KeysVals, int32(genIdx(r, ns)))
					}
				}
			}
			if r.Chance(1, 20) && len(d.Lat) > 0 {
				d.Lat = d.Lat[:len(d.Lat)-1]
			}
			if r.Chance(1, 20) && len(d.Lon) > 0 {
				d.Lon = d.Lon[:len(d.Lon)-1]
			}
			if r.Chance(1, 10) {
				d.KeysVals = nil
			}
			g.Dense = d
		}
		if kinds&4 != 0 {
			for q := 1 + r.Intn(3); q > 0; q-- {
				nk, nv := kvLens()
				w := &pb.Way{Id: proto.Int64(idv()), Keys: idxs(nk), Vals: idxs(nv)}
				for q2 := r.Intn(5); q2 > 0; q2-- {
					w.Refs = append(w.Refs, idv())
				}
				g.Ways = append(g.Ways, w)
			}
		}
		if kinds&8 != 0 {
			for q := 1 + r.Intn(3); q > 0; q-- {
				nk, nv := kvLens()
				rel := &pb.Relation{Id: proto.Int64(idv()), Keys: idxs(nk), Vals: idxs(nv)}
				nm := r.Intn(4)
				for i := 0; i < nm; i++ {
					rel.Memids = append(rel.Memids, idv())
					ty := pb.Relation_MemberType(r.Intn(3))
					if r.Chance(1, 25) {
						ty = 3
					}
					rel.Types = append(rel.Types, ty)
					rel.RolesSid = append(rel.RolesSid, int32(genIdx(r, ns)))
				}
				if r.Chance(1, 15) {
					rel.RolesSid = append(rel.RolesSid, 0)
				} else if r.Chance(1, 15) && nm > 0 {
					rel.Types = rel.Types[:nm-1]
				}
				g.Relations = append(g.Relations, rel)
			}
		}
		b.Primitivegroup = append(b.Primitivegroup, g)
	}
	opts := osm.ReadOptions{SkipTags: r.Chance(1, 6), SkipNodes: r.Chance(1, 8), SkipWays: r.Chance(1, 8), SkipRelations: r.Chance(1, 8)}
	raw, err := proto.Marshal(b)
	if err != nil {
		return
	}
	// dump what the reader will see (after its own Unmarshal), not what was built
	var seen pb.PrimitiveBlock
	if err := proto.Unmarshal(raw, &seen); err != nil {
		return
	}
	t := &tw{}
	bit := func(x bool) string {
		if x {
			return "1"
		}
		return "0"
	}
	t.w(bit(opts.SkipTags) + bit(opts.SkipNodes) + bit(opts.SkipWays) + bit(opts.SkipRelations))
	dumpBlock(t, &seen)
	var got []osm.Element
	end := hx.Recover(func() string {
		err := osm.VerifReadRawOSMDataBlob(raw, func(e osm.Element) error { got = append(got, cloneElem(e)); return nil }, opts)
		if err != nil {
			return "err"
		}
		return "ok"
	})
	o := &tw{}
	o.w(end)
	o.n(len(got))
	for _, e := range got {
		writeElem(o, e, back)
	}
	c.Op("rawread "+t.String(), o.String())
	c.Note("rawread:" + end)
}

func angles(c *hx.Ctx) {
	r := c.Rand
	grans := []int32{100, 100, 1, 1000, 10, -100, 7, 0, 2147483647, -2147483648}
	for i := 0; i < 6; i++ {
		a := genCoord(r, 180)
		off := int64(0)
		if r.Bool() {
			off = int64(r.Intn(2000001)) - 1000000
		}
		g := grans[r.Intn(len(grans))]
		ans := hx.Recover(func() string { return strconv.FormatInt(osm.VerifEncodeAngle(a, off, g), 10) })
		c.Op(fmt.Sprintf("enc %d %d %d", nano(a), off, g), ans)
		q := int64(r.Intn(3600000001)) - 1800000000
		if g > 1000 || g < -1000 {
			q = int64(r.Intn(2001)) - 1000
		}
		c.Op(fmt.Sprintf("dec %d %d %d", q, off, g), strconv.FormatInt(back(osm.VerifDecodeAngle(q, off, g)), 10))
	}
	c.Note("angles")
}

func main() {
	hx.Main(hx.Family{
		Name:     "c27",
		Rule:     "element sequences (free interleavings, runs per type, nodes only, runs of one kind (dense nodes / ways / relations) of 7999, 8000, 8001, 8002-8401, 16000, 16001 elements with distinct or shared strings at the group boundary) written with osm.Writer, block structure dumped, read back with 1/2/8 goroutines; hand-built single blocks for the reader; encodeAngle/decodeAngle. non-trivial = a written file with at least 2 blocks and at least one tag",
		Quick:    2500,
		Thorough: 25000,
		Corpus: func(c *hx.Ctx) {
			// empty file; one element of each kind; the empty string as key, value and role; extreme IDs
			roundTrip(c, nil)
			roundTrip(c, []osm.Element{
				&osm.Node{ID: math.MinInt64, Location: osm.LatLng{Lat: -90, Lng: 180}, Tags: osm.Tags{{Key: "", Value: ""}, {Key: "a", Value: ""}}},
				&osm.Node{ID: math.MaxInt64, Location: osm.LatLng{Lat: 89.99999995, Lng: -179.9999999}},
				&osm.Way{ID: -1, Nodes: []osm.NodeID{math.MaxInt64, math.MinInt64, 0}, Tags: osm.Tags{{Key: "a", Value: "a"}}},
				&osm.Relation{ID: 0, Members: []osm.Member{{Type: osm.ElementTypeRelation, ID: math.MinInt64, Role: ""}, {Type: osm.ElementTypeWay, ID: math.MaxInt64, Role: "outer"}}},
				&osm.Node{ID: 5, Location: osm.LatLng{Lat: 1e-10, Lng: -1e-10}},
			})
			// a run of one kind crossing elementsPerGroup by one, distinct strings at the boundary (seeded change
			// C27-4: the relation that overflows a full group was encoded against the previous block's string table)
			for kind := 0; kind < 3; kind++ {
				roundTrip(c, bigRun(c.Rand, kind, 8001, true, &idGen{mode: 0}, &idGen{mode: 3}))
			}
			// finding cores-gt1-cross-block-order: two nodes and a way are two blocks; the callback sleeps after
			// the first node, so with 2 or 8 goroutines the way (read by another goroutine) is seen before the
			// second node: the callback order is not the file order
			witness := []osm.Element{
				&osm.Node{ID: 1, Location: osm.LatLng{Lat: 1, Lng: 1}},
				&osm.Node{ID: 2, Location: osm.LatLng{Lat: 2, Lng: 2}},
				&osm.Way{ID: 3, Nodes: []osm.NodeID{1, 2}},
			}
			var buf bytes.Buffer
			w, _ := osm.NewWriter(&buf)
			t := &tw{}
			t.n(len(witness))
			for _, e := range witness {
				w.WriteElement(e)
				writeElem(t, e, nano)
			}
			w.Flush()
			blocks, _ := parseFile(buf.Bytes())
			o := &tw{}
			o.n(len(blocks))
			for _, b := range blocks {
				dumpBlock(o, b)
			}
			c.Op("write "+t.String(), o.String())
			readBack(c, witness, buf.Bytes(), func(cores int, e osm.Element) time.Duration {
				if n, ok := e.(*osm.Node); ok && n.ID == 1 {
					return 300 * time.Millisecond
				}
				return 0
			})
			c.NonTrivial()
		},
		Case: func(c *hx.Ctx) {
			r := c.Rand
			k := r.Intn(200)
			switch {
			case k == 0 || (c.Thorough() && k < 3):
				es := genBig(c)
				roundTrip(c, es)
				c.NonTrivial()
			case k < 120:
				es := genSequence(c)
				roundTrip(c, es)
				blocks, tagged := 0, false
				var last byte
				for _, e := range es {
					var kind byte
					switch e := e.(type) {
					case *osm.Node:
						kind, tagged = 'n', tagged || len(e.Tags) > 0
					case *osm.Way:
						kind, tagged = 'w', tagged || len(e.Tags) > 0
					case *osm.Relation:
						kind, tagged = 'r', tagged || len(e.Tags) > 0
					}
					if kind != last {
						blocks++
						last = kind
					}
				}
				c.Note("elements:" + bucket(len(es)))
				if blocks >= 2 && tagged {
					c.NonTrivial()
				}
			case k < 190:
				for i := 0; i < 4; i++ {
					rawRead(c)
				}
			default:
				angles(c)
			}
		},
	})
}
