// C16 harness: layered worlds. Pairs of small worlds with overlapping / disjoint / nested ID sets,
// layered with ingest.NewOverlayWorld and with ingest.NewMutableOverlayWorld, observed through the
// b6.World interface; plus the bare merge iterator (newOverlayFeatures through a verif hook) on
// arbitrary ID sequences and filters.
package main

import (
	"fmt"
	"sort"
	"strings"

	"diagonal.works/b6"
	"diagonal.works/b6/ingest"
	"github.com/golang/geo/s2"
	"verifharness/hx"
	"verifharness/skelx"
)

// ---- the bare iterator ---------------------------------------------------------------------------

type fakeFilter map[b6.FeatureID]bool

func (f fakeFilter) FindLocationByID(id b6.FeatureID) (s2.LatLng, error) {
	return s2.LatLng{}, fmt.Errorf("no location")
}
func (f fakeFilter) FindFeatureByID(id b6.FeatureID) b6.Feature { return nil }
func (f fakeFilter) HasFeatureWithID(id b6.FeatureID) bool    { return f[id] }

func fakeFeatures(items []string) b6.Features {
	fs := make([]b6.Feature, len(items))
	for i, it := range items {
		p := strings.SplitN(it, ":", 2)
		fs[i] = &ingest.GenericFeature{ID: skelx.MustID(p[0]), Tags: []b6.Tag{{Key: "v", Value: b6.NewStringExpression(p[1])}}}
	}
	return b6.NewFeatureIterator(fs)
}

func item(f b6.Feature) string {
	v := "-"
	if t := f.Get("v"); t.IsValid() {
		v = t.Value.String()
	}
	return skelx.RenderID(f.FeatureID()) + ":" + v
}

// drain lists an iterator in iteration order; the ID comes from FeatureID(), the version from Feature().
func drain(fs b6.Features) string {
	return hx.Recover(func() string {
		var out []string
		for n := 0; fs.Next(); n++ {
			if n > 10000 {
				return "hang"
			}
			f := fs.Feature()
			v := "-"
			if t := f.Get("v"); t.IsValid() {
				v = t.Value.String()
			}
			out = append(out, skelx.RenderID(fs.FeatureID())+":"+v)
		}
		return hx.List(out)
	})
}

func mergeCase(c *hx.Ctx) {
	r := c.Rand
	pool := []string{"p1", "p2", "p3", "p5", "p8", "w1", "w2", "w4", "a2", "a3", "r1", "r2", "r9", "c1", "c4"}
	sortPool := func(xs []string) {
		sort.Slice(xs, func(i, j int) bool { return skelx.MustID(xs[i]).Less(skelx.MustID(xs[j])) })
	}
	pick := func(max int, tag string, sorted bool) []string {
		n := r.Intn(max + 1)
		p := r.Perm(len(pool))
		var xs []string
		for i := 0; i < n && i < len(pool); i++ {
			xs = append(xs, pool[p[i]])
		}
		if sorted {
			sortPool(xs)
		}
		for i := range xs {
			xs[i] += ":" + tag
		}
		return xs
	}
	for k := 0; k < 6; k++ {
		wellFormed := r.Chance(5, 6)
		base := pick(7, "b", wellFormed)
		ov := pick(5, "o", wellFormed)
		filter := fakeFilter{}
		var fl []string
		for _, it := range ov {
			id := strings.SplitN(it, ":", 2)[0]
			if wellFormed || r.Chance(1, 2) {
				if !filter[skelx.MustID(id)] {
					filter[skelx.MustID(id)] = true
					fl = append(fl, id)
				}
			}
		}
		// IDs the overlay world holds but that do not match the query: filtered out of the base, never emitted
		for _, id := range pool {
			if r.Chance(1, 6) && !filter[skelx.MustID(id)] {
				filter[skelx.MustID(id)] = true
				fl = append(fl, id)
			}
		}
		if !wellFormed && r.Chance(1, 2) && len(base) > 0 { // duplicate IDs in one input
			base = append(base, base[r.Intn(len(base))])
		}
		sortPool(fl)
		ans := drain(ingest.VerifNewOverlayFeatures(fakeFeatures(base), fakeFeatures(ov), filter))
		c.Op(fmt.Sprintf("merge base=%s ov=%s filter=%s", hx.List(base), hx.List(ov), hx.List(fl)), ans)
		c.Note("op:merge")
		if wellFormed {
			c.Note("merge:well-formed")
		} else {
			c.Note("merge:arbitrary")
		}
		shared := 0
		for _, b := range base {
			if filter[skelx.MustID(strings.SplitN(b, ":", 2)[0])] {
				shared++
			}
		}
		if shared > 0 && len(ov) > 0 {
			c.NonTrivial()
		}
		c.Note(fmt.Sprintf("merge:shadowed-base:%d", min(shared, 3)))
	}
}

// ---- worlds ----------------------------------------------------------------------------------------

var slotOfE7 = func() map[string]int {
	m := map[string]int{}
	for k := 0; k < 4*skelx.Slots; k++ {
		m[skelx.E7(skelx.SlotLatLng(k))] = k
	}
	return m
}()

// featToken dumps a feature of a real world in the driver's feature syntax.
func featToken(f b6.Feature) string {
	s := skelx.RefsToken(f, false)
	v := "-"
	if t := f.Get("v"); t.IsValid() {
		v = t.Value.String()
	}
	s += ";v=" + v
	if t := f.Get("#t"); t.IsValid() {
		s += ";t=" + t.Value.String()
	}
	if f.FeatureID().Type == b6.FeatureTypePoint {
		if p, ok := f.(b6.PhysicalFeature); ok && p.GeometryType() == b6.GeometryTypePoint {
			if k, ok := slotOfE7[skelx.E7(s2.LatLngFromPoint(p.Point()))]; ok {
				s += fmt.Sprintf(";loc=%d", k)
			} else {
				s += ";loc=999"
			}
		} else {
			s += ";noloc"
		}
	}
	return s
}

type layered struct {
	kind    string
	w       b6.World
	base    b6.World
	overlay b6.World // nil for the mutable kind
}

func listItems(fs b6.Features) []string {
	var out []string
	for fs.Next() {
		out = append(out, item(fs.Feature()))
	}
	return out
}

func sortedItems(fs []b6.Feature) string {
	sort.Slice(fs, func(i, j int) bool { return fs[i].FeatureID().Less(fs[j].FeatureID()) })
	out := make([]string, len(fs))
	for i, f := range fs {
		out[i] = item(f)
	}
	return hx.List(out)
}

func (l *layered) query(c *hx.Ctx, op string) {
	ws := strings.Fields(op)
	ans := hx.Recover(func() string {
		switch ws[0] {
		case "get":
			if f := l.w.FindFeatureByID(skelx.MustID(ws[1])); f != nil {
				v := "-"
				if t := f.Get("v"); t.IsValid() {
					v = t.Value.String()
				}
				return v
			}
			return "none"
		case "has":
			return fmt.Sprint(l.w.HasFeatureWithID(skelx.MustID(ws[1])))
		case "loc":
			ll, err := l.w.FindLocationByID(skelx.MustID(ws[1]))
			if err != nil {
				return "err"
			}
			if k, ok := slotOfE7[skelx.E7(ll)]; ok {
				return fmt.Sprint(k)
			}
			return "999"
		case "each":
			var fs []b6.Feature
			l.w.EachFeature(func(f b6.Feature, g int) error { fs = append(fs, f); return nil }, &b6.EachFeatureOptions{Goroutines: 1})
			return sortedItems(fs)
		case "refs", "rels", "cols", "areas":
			id := skelx.MustID(ws[1])
			var fs []b6.Feature
			switch ws[0] {
			case "refs":
				var ts []b6.FeatureType
				for _, t := range ws[2:] {
					ts = append(ts, skelx.MustID(t+"0").Type)
				}
				i := l.w.FindReferences(id, ts...)
				for i.Next() {
					fs = append(fs, i.Feature())
				}
			case "rels":
				i := l.w.FindRelationsByFeature(id)
				for i.Next() {
					fs = append(fs, i.Feature())
				}
			case "cols":
				i := l.w.FindCollectionsByFeature(id)
				for i.Next() {
					fs = append(fs, i.Feature())
				}
			case "areas":
				i := l.w.FindAreasByPoint(id)
				for i.Next() {
					fs = append(fs, i.Feature())
				}
			}
			return sortedItems(fs)
		}
		panic("bad op " + op)
	})
	c.Op(op, ans)
	c.Note("op:" + ws[0])
}

func (l *layered) search(c *hx.Ctx, q string) {
	var query b6.Query
	if q == "all" {
		query = b6.All{}
	} else {
		query = b6.Tagged{Key: "#t", Value: b6.NewStringExpression(strings.TrimPrefix(q, "t="))}
	}
	baseRes := hx.List(listItems(l.base.FindFeatures(query)))
	ovRes := "-"
	if l.overlay != nil {
		ovRes = hx.List(listItems(l.overlay.FindFeatures(query)))
	}
	ans := drain(l.w.FindFeatures(query))
	c.Op(fmt.Sprintf("search %s base=%s ov=%s", q, baseRes, ovRes), ans)
	c.Note("op:search")
	if ans != "[]" {
		c.Note("search:non-empty")
	}
}

// ---- queries with spatial sub-queries ------------------------------------------------------------

type qnode struct {
	kind string // "if" | "t" | "all" | "U" | "I" | "T"
	arg  string
	kids []qnode
}

func (q qnode) String() string {
	switch q.kind {
	case "if":
		return "if:" + q.arg
	case "t":
		return "t=" + q.arg
	case "all":
		return "all"
	case "T":
		return "T." + q.arg + "(" + q.kids[0].String() + ")"
	}
	ks := make([]string, len(q.kids))
	for i, k := range q.kids {
		ks[i] = k.String()
	}
	return q.kind + "(" + strings.Join(ks, ",") + ")"
}

func (q qnode) build() b6.Query {
	switch q.kind {
	case "if":
		return b6.IntersectsFeature{ID: skelx.MustID(q.arg)}
	case "t":
		return b6.Tagged{Key: "#t", Value: b6.NewStringExpression(q.arg)}
	case "all":
		return b6.All{}
	case "T":
		return b6.Typed{Type: skelx.MustID(q.arg + "0").Type, Query: q.kids[0].build()}
	case "U":
		u := b6.Union{}
		for _, k := range q.kids {
			u = append(u, k.build())
		}
		return u
	default:
		i := b6.Intersection{}
		for _, k := range q.kids {
			i = append(i, k.build())
		}
		return i
	}
}

// holds evaluates the query on the CURRENT version of a feature of the layered world w: the leaves by the
// query's own Matches against w (an IntersectsFeature takes the named feature's geometry from w), the
// connectives here (Typed.Matches looks at the type only).
func (q qnode) holds(f b6.Feature, w b6.World) bool {
	switch q.kind {
	case "T":
		return f.FeatureID().Type == skelx.MustID(q.arg+"0").Type && q.kids[0].holds(f, w)
	case "U":
		for _, k := range q.kids {
			if k.holds(f, w) {
				return true
			}
		}
		return false
	case "I":
		for _, k := range q.kids {
			if !k.holds(f, w) {
				return false
			}
		}
		return true
	}
	return q.build().Matches(f, w)
}

// resolved builds the query with every IntersectsFeature leaf replaced by the geometry query of the named
// feature AS THE WORLD w SEES IT (leaf by leaf; the connectives are rebuilt here), i.e. what a layered world has
// to hand to its layers.
func (q qnode) resolved(w b6.World) b6.Query {
	switch q.kind {
	case "if":
		return b6.ResolveFeatureQueries(b6.IntersectsFeature{ID: skelx.MustID(q.arg)}, w)
	case "T":
		return b6.Typed{Type: skelx.MustID(q.arg + "0").Type, Query: q.kids[0].resolved(w)}
	case "U":
		u := b6.Union{}
		for _, k := range q.kids {
			u = append(u, k.resolved(w))
		}
		return u
	case "I":
		i := b6.Intersection{}
		for _, k := range q.kids {
			i = append(i, k.resolved(w))
		}
		return i
	}
	return q.build()
}

func (q qnode) hasSpatial() bool {
	if q.kind == "if" {
		return true
	}
	for _, k := range q.kids {
		if k.hasSpatial() {
			return true
		}
	}
	return false
}

func genQuery(r *hx.Rand, depth int, named []string) qnode {
	if depth == 0 || r.Chance(1, 4) {
		switch k := r.Intn(10); {
		case k < 6 && len(named) > 0:
			return qnode{kind: "if", arg: named[r.Intn(len(named))]}
		case k < 9:
			return qnode{kind: "t", arg: tagVals[r.Intn(len(tagVals))]}
		default:
			return qnode{kind: "all"}
		}
	}
	switch r.Intn(5) {
	case 0, 1:
		return qnode{kind: "U", kids: []qnode{genQuery(r, depth-1, named), genQuery(r, depth-1, named)}}
	case 2, 3:
		return qnode{kind: "I", kids: []qnode{genQuery(r, depth-1, named), genQuery(r, depth-1, named)}}
	default:
		return qnode{kind: "T", arg: []string{"p", "w", "a", "r"}[r.Intn(4)], kids: []qnode{genQuery(r, depth-1, named)}}
	}
}

// spatialSearch runs a query with IntersectsFeature sub-queries on the layered world; the expected match set is
// computed by brute force over the layered world's current features (points with a single tag are not indexed).
func (l *layered) spatialSearch(c *hx.Ctx, q qnode, note string) {
	var matched []b6.FeatureID
	l.w.EachFeature(func(f b6.Feature, g int) error {
		if f.FeatureID().Type == b6.FeatureTypePoint && len(f.AllTags()) == 1 {
			return nil
		}
		if q.holds(f, l.w) {
			matched = append(matched, f.FeatureID())
		}
		return nil
	}, &b6.EachFeatureOptions{Goroutines: 1})
	skelx.SortIDs(matched)
	// what each layer answers on its own for the query resolved in the layered world
	rq := q.resolved(l.w)
	baseRes := hx.List(listItems(l.base.FindFeatures(rq)))
	ovRes := "-"
	if l.overlay != nil {
		ovRes = hx.List(listItems(l.overlay.FindFeatures(rq)))
	}
	ans := drain(l.w.FindFeatures(q.build()))
	c.Op(fmt.Sprintf("search %s match=%s base=%s ov=%s", q.String(), skelx.RenderIDs(matched), baseRes, ovRes), ans)
	c.Note("op:search-spatial")
	c.Note("query:" + q.kind)
	c.Note(note)
	if len(matched) > 0 {
		c.Note("search-spatial:non-empty")
	}
}

var (
	pointVals = []int{1, 2, 3, 4, 5, 6}
	pathVals  = []int{10, 11, 12}
	areaVals  = []int{20, 21}
	relVals   = []int{1, 2, 3, 4}
	colVals   = []int{1, 2}
	tagVals   = []string{"x", "y"}
)

type layerGen struct {
	r      *hx.Rand
	ver    string
	toks   []string
	have   map[string]bool
	closed []string
	all    []string // every ID mentioned anywhere (query targets)
}

func (g *layerGen) add(id, refs string, extra string) {
	if g.have[id] {
		return
	}
	g.have[id] = true
	t := ""
	if g.r.Chance(1, 2) {
		t = ";t=" + tagVals[g.r.Intn(len(tagVals))]
	}
	g.toks = append(g.toks, id+"="+refs+";v="+g.ver+t+extra)
	g.all = append(g.all, id)
}

// fill generates one self-contained layer: its paths use its own points, its areas its own closed paths;
// relations and collections reference anything (other layer's IDs, themselves, each other).
func (g *layerGen) fill(density int, other *layerGen) {
	r := g.r
	var located []int // points of this layer that have a location (paths may only use those)
	for _, p := range pointVals {
		if r.Chance(density, 10) {
			extra := ""
			switch {
			case r.Chance(1, 8):
				extra = ";noloc"
			case r.Chance(1, 3):
				extra = fmt.Sprintf(";loc=%d", p+skelx.Slots) // moved: same angle, larger circle
			}
			if extra != ";noloc" {
				located = append(located, p)
			}
			g.add(fmt.Sprintf("p%d", p), "", extra)
		}
	}
	for _, w := range pathVals {
		if !r.Chance(density, 12) || len(located) < 2 {
			continue
		}
		closed := r.Chance(1, 2) && len(located) >= 3
		n := 2 + r.Intn(3)
		if closed {
			n = 3 + r.Intn(2)
		}
		if n > len(located) {
			n = len(located)
		}
		p := r.Perm(len(located))[:n]
		sort.Ints(p)
		var refs []string
		for _, i := range p {
			refs = append(refs, fmt.Sprintf("p%d", located[i]))
		}
		if closed && n >= 3 {
			refs = append(refs, refs[0])
			g.closed = append(g.closed, fmt.Sprintf("w%d", w))
		}
		g.add(fmt.Sprintf("w%d", w), strings.Join(refs, ","), "")
	}
	for _, a := range areaVals {
		if len(g.closed) > 0 && r.Chance(density, 14) {
			g.add(fmt.Sprintf("a%d", a), g.closed[r.Intn(len(g.closed))], "")
		}
	}
	anyID := func() string {
		pool := append([]string{}, g.all...)
		if other != nil {
			pool = append(pool, other.all...)
		}
		if len(pool) == 0 || r.Chance(1, 6) {
			return fmt.Sprintf("r%d", relVals[r.Intn(len(relVals))])
		}
		return pool[r.Intn(len(pool))]
	}
	for _, v := range relVals {
		if r.Chance(density, 12) {
			n := r.Intn(4)
			var refs []string
			for i := 0; i < n; i++ {
				refs = append(refs, anyID())
			}
			g.add(fmt.Sprintf("r%d", v), strings.Join(refs, ","), "")
		}
	}
	for _, v := range colVals {
		if r.Chance(density, 14) {
			n := r.Intn(3)
			var refs []string
			for i := 0; i < n; i++ {
				refs = append(refs, anyID())
			}
			kf := []string{"p", "t", "m"}[r.Intn(3)] // plain / typed / mixed key IDs
			g.add(fmt.Sprintf("c%d", v), strings.Join(refs, ","), ";kf="+kf)
		}
	}
}

func dump(w b6.World) string { return hx.List(skelx.DumpWorld(w, featToken)) }

func worldCase(c *hx.Ctx, kind string) {
	r := c.Rand
	bg := &layerGen{r: r, ver: "b", have: map[string]bool{}}
	og := &layerGen{r: r, ver: "o", have: map[string]bool{}}
	shape := r.Intn(4)
	switch shape {
	case 0: // overlapping
		bg.fill(7, nil)
		og.fill(5, bg)
		c.Note("shape:overlapping")
	case 1: // nested: the overlay re-states a subset of the base's IDs (and nothing else where possible)
		bg.fill(9, nil)
		og.fill(3, bg)
		c.Note("shape:nested")
	case 2: // sparse base, dense overlay
		bg.fill(3, nil)
		og.fill(8, bg)
		c.Note("shape:overlay-heavy")
	default: // one side empty or nearly
		if r.Bool() {
			bg.fill(7, nil)
		} else {
			og.fill(7, nil)
		}
		c.Note("shape:one-sided")
	}
	base, err := skelx.BuildBasic(bg.toks, 1)
	if err != nil {
		panic(err)
	}
	l := &layered{kind: kind, base: base}
	var ovDump string
	if kind == "overlay" {
		ov, err := skelx.BuildBasic(og.toks, 1)
		if err != nil {
			panic(err)
		}
		l.overlay = ov
		l.w = ingest.NewOverlayWorld(ov, base)
		ovDump = dump(ov)
		c.Op(fmt.Sprintf("overlay base=%s ov=%s", hx.List(bg.toks), hx.List(og.toks)), "base="+dump(base)+" ov="+ovDump)
	} else {
		m := ingest.NewMutableOverlayWorld(base)
		for _, t := range og.toks {
			hx.Recover(func() string { m.AddFeature(skelx.MustBuild(t)); return "" }) // rejected features are simply absent
		}
		l.w = m
		var fs []string
		type it struct {
			id  b6.FeatureID
			tok string
		}
		var items []it
		m.EachModifiedFeature(func(f b6.Feature, g int) error {
			items = append(items, it{f.FeatureID(), featToken(f)})
			return nil
		}, &b6.EachFeatureOptions{Goroutines: 1})
		sort.Slice(items, func(i, j int) bool { return items[i].id.Less(items[j].id) })
		for _, x := range items {
			fs = append(fs, x.tok)
		}
		ovDump = hx.List(fs)
		c.Op(fmt.Sprintf("mutable base=%s adds=%s", hx.List(bg.toks), hx.List(og.toks)), "base="+dump(base)+" ov="+ovDump)
	}
	c.Note("kind:" + kind)
	// overlap statistics from the built layers
	shared := 0
	for id := range og.have {
		if bg.have[id] {
			shared++
		}
	}
	c.Note(fmt.Sprintf("shared-ids:%d", min(shared, 4)))
	if shared > 0 {
		c.NonTrivial()
	}
	ids := append(append([]string{}, bg.all...), og.all...)
	ids = append(ids, "p9", "r4")
	pickID := func() string { return ids[r.Intn(len(ids))] }
	n := 8 + r.Intn(10)
	for i := 0; i < n; i++ {
		switch k := r.Intn(14); {
		case k < 3:
			l.query(c, "get "+pickID())
		case k == 3:
			l.query(c, "has "+pickID())
		case k < 6:
			id := pickID()
			if id[0] != 'p' && r.Chance(2, 3) {
				id = fmt.Sprintf("p%d", pointVals[r.Intn(len(pointVals))])
			}
			l.query(c, "loc "+id)
		case k == 6:
			l.query(c, "each")
		case k < 9 && r.Chance(1, 2):
			// a query with IntersectsFeature sub-queries: the named feature lives in the base only, in the overlay
			// only, or in both (replaced upstairs, possibly with other geometry)
			var named []string
			for _, id := range ids {
				if id[0] == 'p' || id[0] == 'w' || id[0] == 'a' {
					named = append(named, id)
				}
			}
			q := genQuery(r, 1+r.Intn(2), named)
			for tries := 0; !q.hasSpatial() && tries < 4 && len(named) > 0; tries++ {
				q = genQuery(r, 1+r.Intn(2), named)
			}
			note := "named:none"
			var walk func(n qnode)
			walk = func(n qnode) {
				if n.kind == "if" {
					switch {
					case bg.have[n.arg] && og.have[n.arg]:
						note = "named:both-layers"
					case og.have[n.arg]:
						note = "named:overlay-only"
					case bg.have[n.arg]:
						note = "named:base-only"
					}
				}
				for _, k := range n.kids {
					walk(k)
				}
			}
			walk(q)
			l.spatialSearch(c, q, note)
		case k < 9:
			if kind == "mutable" || r.Chance(2, 3) {
				l.search(c, "t="+tagVals[r.Intn(len(tagVals))])
			} else {
				l.search(c, "all")
			}
		default:
			if kind != "overlay" {
				l.query(c, "get "+pickID())
				continue
			}
			id := pickID()
			switch r.Intn(5) {
			case 0:
				l.query(c, "rels "+id)
			case 1:
				l.query(c, "cols "+id)
			case 2:
				if id[0] != 'p' {
					id = fmt.Sprintf("p%d", pointVals[r.Intn(len(pointVals))])
				}
				l.query(c, "areas "+id)
			case 3:
				ts := []string{"p", "w", "a", "r", "c"}
				l.query(c, "refs "+id+" "+ts[r.Intn(len(ts))])
			default:
				l.query(c, "refs "+id)
			}
		}
	}
	l.query(c, "each")
}

func corpus(c *hx.Ctx) {
	// fixed (fixes/C16-overlay-union-skip-shadowed.patch): base relation 5 = [p1] shadowed by 5 = [p2]
	base, _ := skelx.BuildBasic([]string{"p1=;v=b", "p2=;v=b", "r5=p1;v=b"}, 1)
	ov, _ := skelx.BuildBasic([]string{"r5=p2;v=o"}, 1)
	l := &layered{kind: "overlay", base: base, overlay: ov, w: ingest.NewOverlayWorld(ov, base)}
	c.Op("overlay base=[p1=;v=b p2=;v=b r5=p1;v=b] ov=[r5=p2;v=o]", "base="+dump(base)+" ov="+dump(ov))
	l.query(c, "rels p1")
	l.query(c, "rels p2")
	l.query(c, "refs p1")
	l.query(c, "get r5")
	l.query(c, "each")
	// fixed (fixes/C16-location-shadow.patch): overlay point 1 has no location
	base, _ = skelx.BuildBasic([]string{"p1=;v=b", "p2=;v=b"}, 1)
	ov, _ = skelx.BuildBasic([]string{"p1=;v=o;noloc"}, 1)
	l = &layered{kind: "overlay", base: base, overlay: ov, w: ingest.NewOverlayWorld(ov, base)}
	c.Op("overlay base=[p1=;v=b p2=;v=b] ov=[p1=;v=o;noloc]", "base="+dump(base)+" ov="+dump(ov))
	l.query(c, "loc p1")
	l.query(c, "loc p2")
	l.query(c, "get p1")
	// fixed (fixes/C16-union-refs-closure.patch): a chain that alternates between the layers
	base, _ = skelx.BuildBasic([]string{"p1=;v=b", "r5=p1;v=b"}, 1)
	ov, _ = skelx.BuildBasic([]string{"r6=r5;v=o"}, 1)
	l = &layered{kind: "overlay", base: base, overlay: ov, w: ingest.NewOverlayWorld(ov, base)}
	c.Op("overlay base=[p1=;v=b r5=p1;v=b] ov=[r6=r5;v=o]", "base="+dump(base)+" ov="+dump(ov))
	l.query(c, "rels p1")
	// seeded-change witness: IntersectsFeature inside a Union must be resolved in the layered world — the named path
	// lives in the overlay only, the point it crosses in the base only
	base, _ = skelx.BuildBasic([]string{"p1=;v=b", "p2=;v=b", "p3=;v=b", "w10=p1,p2;v=b;t=x"}, 1)
	ov, _ = skelx.BuildBasic([]string{"p1=;v=o", "p3=;v=o", "w11=p1,p3;v=o"}, 1)
	l = &layered{kind: "overlay", base: base, overlay: ov, w: ingest.NewOverlayWorld(ov, base)}
	c.Op("overlay base=[p1=;v=b p2=;v=b p3=;v=b w10=p1,p2;v=b;t=x] ov=[p1=;v=o p3=;v=o w11=p1,p3;v=o]", "base="+dump(base)+" ov="+dump(ov))
	for _, q := range []qnode{
		{kind: "if", arg: "w11"},
		{kind: "U", kids: []qnode{{kind: "if", arg: "w11"}, {kind: "t", arg: "y"}}},
		{kind: "U", kids: []qnode{{kind: "if", arg: "w10"}, {kind: "if", arg: "p3"}}},
		{kind: "I", kids: []qnode{{kind: "if", arg: "w11"}, {kind: "T", arg: "w", kids: []qnode{{kind: "all"}}}}},
		{kind: "T", arg: "w", kids: []qnode{{kind: "U", kids: []qnode{{kind: "if", arg: "p1"}, {kind: "t", arg: "x"}}}}},
	} {
		l.spatialSearch(c, q, "named:corpus")
	}
	// the bare iterator: equal IDs, exhausted sides, everything filtered
	for _, m := range [][3]string{
		{"[p1:b p2:b w1:b]", "[p2:o r1:o]", "[p2 r1]"},
		{"[p1:b p2:b]", "[p2:o]", "[]"},
		{"[p1:b p2:b]", "[]", "[p1 p2]"},
		{"[]", "[p1:o]", "[p1]"},
		{"[p1:b]", "[p1:o p3:o]", "[p1 p3 w1]"},
	} {
		filter := fakeFilter{}
		for _, id := range strings.Fields(strings.Trim(m[2], "[]")) {
			filter[skelx.MustID(id)] = true
		}
		ans := drain(ingest.VerifNewOverlayFeatures(fakeFeatures(strings.Fields(strings.Trim(m[0], "[]"))), fakeFeatures(strings.Fields(strings.Trim(m[1], "[]"))), filter))
		c.Op(fmt.Sprintf("merge base=%s ov=%s filter=%s", m[0], m[1], m[2]), ans)
	}
	c.NonTrivial()
}

func main() {
	hx.Main(hx.Family{
		Name: "c16",
		Rule: "pairs of generated basic worlds (points with/without/moved locations, paths, areas, relations and collections referencing across the layers) with overlapping, nested, overlay-heavy and one-sided ID sets, layered by NewOverlayWorld and by MutableOverlayWorld+AddFeature, observed by lookup, location, enumeration, tag/all search and the by-ID reference unions; plus the bare newOverlayFeatures iterator on sorted (5/6) and arbitrary (1/6) ID sequences and filters; non-trivial = the two layers share at least one ID (worlds) / the filter removes a base element while the overlay is non-empty (iterator); distinct = by hash of the op text",
		Quick:    2500,
		Thorough: 30000,
		Corpus:   corpus,
		Case: func(c *hx.Ctx) {
			switch k := c.Rand.Intn(10); {
			case k < 3:
				mergeCase(c)
				c.Note("family:iterator")
			case k < 7:
				worldCase(c, "overlay")
			default:
				worldCase(c, "mutable")
			}
		},
	})
}
