// C38 harness: caller-held ingest feature values (all four kinds) and a real mutable world.
//
// A case is an interleaving of: constructing a feature, Clone(), MergeFrom(), every mutator of the
// feature API, world.AddFeature, world.AddTag/RemoveTag.  After EVERY operation the complete observable
// state is written: what the world returns for every feature the case added (through the public wrappers
// of FindFeatureByID) and the value of every caller-held feature.  The driver checks on these answers that
// an operation changed nothing but its target (isolation), and compares them with the heap model.
package main

import (
	"fmt"
	"sort"
	"strings"

	"diagonal.works/b6"
	"diagonal.works/b6/ingest"
	"github.com/golang/geo/s2"
	"verifharness/hx"
)

const ns = b6.Namespace("diagonal.works/verif")

// ---- fixed pool: points 101..109, closed anticlockwise triangle paths 10..15, polygons P1..P3 ----

func pointID(v uint64) b6.FeatureID {
	return b6.FeatureID{Type: b6.FeatureTypePoint, Namespace: ns, Value: v}
}
func pathID(v uint64) b6.FeatureID {
	return b6.FeatureID{Type: b6.FeatureTypePath, Namespace: ns, Value: v}
}

var pathValues = []uint64{10, 11, 12, 13, 14, 15}

func triangle(k int) [3]s2.LatLng {
	lat, lng := 51.0+0.01*float64(k), 0.01*float64(k)
	return [3]s2.LatLng{s2.LatLngFromDegrees(lat, lng), s2.LatLngFromDegrees(lat, lng+0.001), s2.LatLngFromDegrees(lat+0.001, lng+0.0005)}
}

func poolFeatures() []ingest.Feature {
	var fs []ingest.Feature
	for k, pv := range pathValues {
		t := triangle(k)
		var pts []b6.FeatureID
		for j := 0; j < 3; j++ {
			id := pointID(uint64(101 + 3*k + j))
			fs = append(fs, &ingest.GenericFeature{ID: id, Tags: []b6.Tag{{Key: b6.PointTag, Value: b6.NewPointExpressionFromLatLng(t[j])}}})
			pts = append(pts, id)
		}
		p := &ingest.GenericFeature{}
		p.SetFeatureID(pathID(pv))
		for j, id := range append(pts, pts[0]) {
			p.ModifyOrAddTagAt(b6.Tag{Key: b6.PathTag, Value: b6.NewFeatureIDExpression(id)}, j)
		}
		fs = append(fs, p)
	}
	return fs
}

var polygons = func() []*s2.Polygon {
	var ps []*s2.Polygon
	for k := 0; k < 3; k++ {
		t := triangle(20 + k)
		ps = append(ps, s2.PolygonFromLoops([]*s2.Loop{s2.LoopFromPoints([]s2.Point{s2.PointFromLatLng(t[0]), s2.PointFromLatLng(t[1]), s2.PointFromLatLng(t[2])})}))
	}
	return ps
}()

func polyName(p *s2.Polygon) string {
	for i, q := range polygons {
		if p == q {
			return fmt.Sprintf("P%d", i+1)
		}
	}
	return "-" // nil, or a polygon the wrapper computed from paths
}

func polyByName(s string) *s2.Polygon {
	if s == "-" {
		return nil
	}
	var i int
	fmt.Sscanf(s, "P%d", &i)
	return polygons[i-1]
}

// ---- rendering (must agree with renderView in lean/B6/Driver/C38.lean) ----

func idText(id b6.FeatureID) string { // an area's path id
	switch {
	case id == b6.FeatureIDInvalid:
		return "!"
	case id == b6.FeatureID{}:
		return "0"
	case id.Type == b6.FeatureTypePath && id.Namespace == ns:
		return fmt.Sprintf("%d", id.Value)
	}
	return "?" + id.String()
}

func memberIDText(id b6.FeatureID) string {
	switch {
	case id == b6.FeatureIDInvalid:
		return "!"
	case id == b6.FeatureID{}:
		return "0"
	case id.Namespace == ns && id.Type == b6.FeatureTypePoint:
		return fmt.Sprintf("n%d", id.Value)
	case id.Namespace == ns && id.Type == b6.FeatureTypePath:
		return fmt.Sprintf("p%d", id.Value)
	}
	return "?" + id.String()
}

func parseMemberID(s string) b6.FeatureID {
	var v uint64
	fmt.Sscanf(s[1:], "%d", &v)
	if s[0] == 'n' {
		return pointID(v)
	}
	return pathID(v)
}

func valueText(v b6.Expression) string {
	if es, ok := v.AnyExpression.(b6.Expressions); ok { // a list value: <e,e,e>
		ys := make([]string, len(es))
		for i, e := range es {
			switch e := e.(type) {
			case nil:
				ys[i] = ""
			case b6.FeatureIDExpression:
				ys[i] = memberIDText(b6.FeatureID(e))
			default:
				ys[i] = e.String()
			}
		}
		return "<" + strings.Join(ys, ",") + ">"
	}
	return v.String()
}

func tagsText(t b6.Tags) string {
	xs := make([]string, len(t))
	for i, tag := range t {
		xs[i] = tag.Key + "=" + valueText(tag.Value)
	}
	return "t" + hx.List(xs)
}

func listLen(f ingest.Feature, k string) int {
	es, _ := f.Get(k).Value.AnyExpression.(b6.Expressions)
	return len(es)
}

func listHas(f ingest.Feature, k string, e string) bool {
	es, _ := f.Get(k).Value.AnyExpression.(b6.Expressions)
	for _, x := range es {
		if id, ok := x.(b6.FeatureIDExpression); ok && memberIDText(b6.FeatureID(id)) == e {
			return true
		}
	}
	return false
}

type kind int

const (
	kGeneric kind = iota
	kArea
	kRelation
	kCollection
)

var kindWord = []string{"generic", "area", "relation", "collection"}
var kindLetter = []string{"g", "a", "r", "c"}
var kindType = []b6.FeatureType{b6.FeatureTypePoint, b6.FeatureTypeArea, b6.FeatureTypeRelation, b6.FeatureTypeCollection}

// fid: generic features with id >= 20 are paths (list-valued `path` tag), below that points
func fid(k kind, v uint64) b6.FeatureID {
	t := kindType[k]
	if k == kGeneric && v >= 20 {
		t = b6.FeatureTypePath
	}
	return b6.FeatureID{Type: t, Namespace: ns, Value: v}
}

var pathVarIDs = []uint64{20, 21, 22}

func kindOf(f ingest.Feature) kind {
	switch f.(type) {
	case *ingest.AreaFeature:
		return kArea
	case *ingest.RelationFeature:
		return kRelation
	case *ingest.CollectionFeature:
		return kCollection
	}
	return kGeneric
}

func key(k kind, id b6.FeatureID) string { return fmt.Sprintf("%s:%d", kindLetter[k], id.Value) }

type pathIDer interface {
	PathIDs(i int) ([]b6.FeatureID, bool)
}

func idsText(n int, p pathIDer) string {
	xs := make([]string, n)
	for i := range xs {
		if ids, ok := p.PathIDs(i); ok {
			ys := make([]string, len(ids))
			for j, id := range ids {
				ys[j] = idText(id)
			}
			xs[i] = "(" + strings.Join(ys, " ") + ")"
		} else {
			xs[i] = "-"
		}
	}
	return "i" + hx.List(xs)
}

func anyText(x interface{}) string { return fmt.Sprintf("%v", x) }

// the caller's own value, read through its fields / methods
func varText(f ingest.Feature) string {
	k := kindOf(f)
	s := key(k, f.FeatureID()) + " " + tagsText(f.AllTags())
	switch f := f.(type) {
	case *ingest.AreaFeature:
		ps := make([]string, f.Len())
		for i := range ps {
			p, _ := f.AreaMembers.Polygon(i)
			ps[i] = polyName(p)
		}
		s += " " + idsText(f.Len(), f) + " p" + hx.List(ps)
	case *ingest.RelationFeature:
		ms := make([]string, len(f.Members))
		for i, m := range f.Members {
			ms[i] = memberIDText(m.ID) + "/" + m.Role
		}
		s += " m" + hx.List(ms)
	case *ingest.CollectionFeature:
		ks, vs := make([]string, len(f.Keys)), make([]string, len(f.Values))
		for i := range ks {
			ks[i] = anyText(f.Keys[i])
		}
		for i := range vs {
			vs[i] = anyText(f.Values[i])
		}
		s += " k" + hx.List(ks) + " v" + hx.List(vs) + " s=" + bit(f.IsSortedByKey())
	}
	return s
}

func bit(b bool) string {
	if b {
		return "1"
	}
	return "0"
}

// what the world returns, read through the public b6 interfaces of FindFeatureByID's wrapper
func worldText(w b6.World, k kind, id b6.FeatureID) string {
	f := w.FindFeatureByID(id)
	if f == nil {
		return key(k, id) + " missing"
	}
	s := key(k, id) + " " + tagsText(f.AllTags())
	switch k {
	case kArea:
		af := f.(b6.AreaFeature)
		ps := make([]string, af.Len())
		for i := range ps {
			ps[i] = polyName(af.Polygon(i))
		}
		s += " " + idsText(af.Len(), f.(pathIDer)) + " p" + hx.List(ps)
	case kRelation:
		rf := f.(b6.RelationFeature)
		ms := make([]string, rf.Len())
		for i := range ms {
			m := rf.Member(i)
			ms[i] = memberIDText(m.ID) + "/" + m.Role
		}
		s += " m" + hx.List(ms)
	case kCollection:
		cf := f.(b6.CollectionFeature)
		var ks, vs []string
		it := cf.BeginUntyped()
		for {
			ok, err := it.Next()
			if !ok || err != nil {
				break
			}
			ks = append(ks, anyText(it.Key()))
			vs = append(vs, anyText(it.Value()))
		}
		s += " k" + hx.List(ks) + " v" + hx.List(vs) + " s=" + bit(cf.IsSortedByKey())
	}
	return s
}

// ---- a running case ----

type added struct {
	k  kind
	id b6.FeatureID
}

type run struct {
	c     *hx.Ctx
	w     ingest.MutableWorld
	vars  []ingest.Feature
	added map[string]added
	// bookkeeping for the non-triviality rule
	exposed map[int]bool // vars that were added to the world, cloned, or are clones
	probes  int
}

func join(xs []string) string {
	if len(xs) == 0 {
		return "-"
	}
	return strings.Join(xs, " ; ")
}

func (r *run) state() string {
	keys := hx.SortedKeys(r.added)
	ws := make([]string, 0, len(keys))
	for _, k := range keys {
		ws = append(ws, worldText(r.w, r.added[k].k, r.added[k].id))
	}
	sort.Strings(ws)
	vs := make([]string, len(r.vars))
	for i, f := range r.vars {
		vs[i] = varText(f)
	}
	return join(ws) + " | " + join(vs)
}

// do runs one operation on the real code and writes the op line with the complete observable state
func (r *run) do(op string, f func() string) string {
	status := hx.Recover(f)
	r.c.Op(op, status+" | "+r.state())
	r.c.Note("status:" + status)
	return status
}

func newWorld(which int) ingest.MutableWorld {
	var w ingest.MutableWorld
	switch which {
	case 0:
		w = ingest.NewBasicMutableWorld()
	case 1:
		w = ingest.NewMutableOverlayWorld(ingest.NewBasicMutableWorld())
	default: // the pool lives in the base, the case's features in the overlay
		base := ingest.NewBasicMutableWorld()
		for _, f := range poolFeatures() {
			if err := base.AddFeature(f); err != nil {
				panic(err)
			}
		}
		return ingest.NewMutableOverlayWorld(base)
	}
	for _, f := range poolFeatures() {
		if err := w.AddFeature(f); err != nil {
			panic(err)
		}
	}
	return w
}

var worldName = []string{"basic", "overlay", "overlay-over-base"}

func (r *run) opNew(k kind, idv uint64, n int) {
	id := fid(k, idv)
	r.do(fmt.Sprintf("new %s %d %d", kindWord[k], idv, n), func() string {
		var f ingest.Feature
		switch k {
		case kGeneric:
			f = &ingest.GenericFeature{ID: id}
		case kArea:
			a := ingest.NewAreaFeature(n)
			a.AreaID = id.ToAreaID()
			f = a
		case kRelation:
			rel := ingest.NewRelationFeature(n)
			rel.RelationID = id.ToRelationID()
			f = rel
		case kCollection:
			f = &ingest.CollectionFeature{CollectionID: id.ToCollectionID()}
		}
		r.vars = append(r.vars, f)
		return "ok"
	})
	r.c.Note("new:" + kindWord[k])
}

func (r *run) opClone(i int) {
	r.do(fmt.Sprintf("clone %d", i), func() string {
		c := r.vars[i].Clone()
		r.vars = append(r.vars, c)
		return "ok"
	})
	r.exposed[i], r.exposed[len(r.vars)-1] = true, true
	r.c.Note("clone:" + kindWord[kindOf(r.vars[i])])
}

func (r *run) opMerge(i, j int) {
	r.do(fmt.Sprintf("merge %d %d", i, j), func() string {
		r.vars[i].MergeFrom(r.vars[j])
		return "ok"
	})
	r.exposed[j] = true
	if r.exposed[i] {
		r.probes++
	}
	r.c.Note("merge:" + kindWord[kindOf(r.vars[i])])
}

func (r *run) opAdd(i int) string {
	f := r.vars[i]
	k, id := kindOf(f), f.FeatureID()
	_, replaces := r.added[key(k, id)]
	status := r.do(fmt.Sprintf("add %d", i), func() string {
		if err := r.w.AddFeature(f); err != nil {
			return "err"
		}
		r.added[key(k, id)] = added{k, id}
		return "ok"
	})
	if status == "ok" {
		r.exposed[i] = true
		if replaces {
			r.c.Note("add:replace:" + kindWord[k])
		} else {
			r.c.Note("add:first:" + kindWord[k])
		}
	}
	return status
}

func (r *run) opWorldTag(a added, k, v string) {
	r.do(fmt.Sprintf("wtag %s %d %s=%s", kindWord[a.k], a.id.Value, k, v), func() string {
		if err := r.w.AddTag(a.id, b6.Tag{Key: k, Value: b6.NewStringExpression(v)}); err != nil {
			return "err"
		}
		return "ok"
	})
	r.probes++
	r.c.Note("wtag")
}

func (r *run) opWorldRemoveTag(a added, k string) {
	r.do(fmt.Sprintf("wrm %s %d %s", kindWord[a.k], a.id.Value, k), func() string {
		if err := r.w.RemoveTag(a.id, k); err != nil {
			return "err"
		}
		return "ok"
	})
	r.probes++
	r.c.Note("wrm")
}

// opFromWorld: the caller takes a copy of a feature of the world (NewFeatureFromWorld), as callers and
// MutableOverlayWorld itself do before modifying a feature
func (r *run) opFromWorld(a added) {
	r.do(fmt.Sprintf("fromworld %s %d", kindWord[a.k], a.id.Value), func() string {
		f := ingest.NewFeatureFromWorld(r.w.FindFeatureByID(a.id))
		r.vars = append(r.vars, f)
		return "ok"
	})
	r.exposed[len(r.vars)-1] = true
	r.c.Note("fromworld:" + kindWord[a.k])
}

// mut applies one mutator of the feature API, given in the driver's syntax, to vars[i]
func (r *run) mut(i int, m string) {
	f := r.vars[i]
	ws := strings.Fields(m)
	str := b6.NewStringExpression
	kv := func(s string) b6.Tag {
		p := strings.SplitN(s, "=", 2)
		return b6.Tag{Key: p[0], Value: str(p[1])}
	}
	list := func(s string) []string { return strings.Fields(strings.Trim(s, "[]")) }
	rest := func(n int) string { return strings.Join(ws[n:], " ") }
	atoi := func(s string) int { var v int; fmt.Sscanf(s, "%d", &v); return v }
	r.do(fmt.Sprintf("mut %d %s", i, m), func() string {
		switch ws[0] {
		case "setid":
			f.SetFeatureID(fid(kindOf(f), uint64(atoi(ws[1]))))
		case "settags":
			var ts []b6.Tag
			for _, s := range list(rest(1)) {
				ts = append(ts, kv(s))
			}
			if ts == nil {
				ts = []b6.Tag{}
			}
			f.SetTags(ts)
		case "addtag":
			f.AddTag(kv(ws[1]))
		case "settag":
			f.ModifyOrAddTag(kv(ws[1]))
		case "rmtag":
			f.RemoveTag(ws[1])
		case "rmtags":
			f.RemoveTags(list(rest(1)))
		case "rmall":
			f.RemoveAllTags()
		case "setat": // ModifyOrAddTagAt: b6.Set on the list value
			f.ModifyOrAddTagAt(b6.Tag{Key: ws[1], Value: b6.NewFeatureIDExpression(parseMemberID(ws[3]))}, atoi(ws[2]))
		case "setlist": // a list value the caller built with spare capacity
			es := list(rest(3))
			xs := make([]b6.AnyExpression, len(es), len(es)+atoi(ws[2]))
			for j, e := range es {
				xs[j] = b6.FeatureIDExpression(parseMemberID(e))
			}
			f.ModifyOrAddTag(b6.Tag{Key: ws[1], Value: b6.NewExpressions(xs)})
		case "setpathids":
			ids := []b6.FeatureID{}
			for _, s := range list(rest(2)) {
				ids = append(ids, pathID(uint64(atoi(s))))
			}
			f.(*ingest.AreaFeature).SetPathIDs(atoi(ws[1]), ids)
		case "setpathid":
			f.(*ingest.AreaFeature).SetPathID(atoi(ws[1]), atoi(ws[2]), pathID(uint64(atoi(ws[3]))))
		case "setpoly":
			f.(*ingest.AreaFeature).SetPolygon(atoi(ws[1]), polyByName(ws[2]))
		case "setmember":
			p := strings.SplitN(ws[2], "/", 2)
			f.(*ingest.RelationFeature).Members[atoi(ws[1])] = b6.RelationMember{ID: parseMemberID(p[0]), Role: p[1]}
		case "appmember":
			p := strings.SplitN(ws[1], "/", 2)
			rel := f.(*ingest.RelationFeature)
			rel.Members = append(rel.Members, b6.RelationMember{ID: parseMemberID(p[0]), Role: p[1]})
		case "setkey":
			f.(*ingest.CollectionFeature).Keys[atoi(ws[1])] = ws[2]
		case "setval":
			f.(*ingest.CollectionFeature).Values[atoi(ws[1])] = ws[2]
		case "appkv":
			c := f.(*ingest.CollectionFeature)
			c.Keys = append(c.Keys, ws[1])
			c.Values = append(c.Values, ws[2])
		case "sort":
			f.(*ingest.CollectionFeature).Sort()
		default:
			panic("harness: unknown mutator " + m)
		}
		return "ok"
	})
	if r.exposed[i] {
		r.probes++
	}
	r.c.Note("mut:" + ws[0])
}

// ---- generation ----

var tagKeys = []string{"a", "b", "c", "d", "#e", "name"}
var roles = []string{"", "inner", "outer", "x"}
var idRange = [][]uint64{{1, 2, 3}, {100, 101, 102}, {5, 6}, {7, 8}}

func pick64(r *hx.Rand, xs []uint64) uint64 { return xs[r.Intn(len(xs))] }

func randTag(r *hx.Rand) string { return r.Pick(tagKeys) + "=" + fmt.Sprintf("v%d", r.Intn(10)) }

func presentKey(r *hx.Rand, f ingest.Feature) string {
	t := f.AllTags()
	if len(t) > 0 && r.Chance(3, 4) {
		return t[r.Intn(len(t))].Key
	}
	return r.Pick(tagKeys)
}

func memberText(r *hx.Rand) string {
	var id string
	if r.Bool() {
		id = fmt.Sprintf("n%d", 101+r.Intn(18))
	} else {
		id = fmt.Sprintf("p%d", pick64(r, pathValues))
	}
	return id + "/" + r.Pick(roles)
}

// index in [0,n), or with small probability out of range (the call must panic and change nothing)
func index(r *hx.Rand, n int) int {
	if n == 0 || r.Chance(1, 40) {
		return n + r.Intn(2)
	}
	return r.Intn(n)
}

func randMutator(r *hx.Rand, f ingest.Feature) string {
	if a, ok := f.(*ingest.AreaFeature); ok && a.Len() == 0 && !r.Chance(1, 10) {
		return "settag " + randTag(r) // nothing to index in an area without members
	}
	if kindOf(f) == kGeneric && f.Get(b6.PathTag).IsValid() && r.Chance(1, 3) {
		return listEdit(r, f)
	}
	if r.Chance(2, 5) || kindOf(f) == kGeneric {
		switch r.Intn(12) {
		case 0:
			if kindOf(f) == kGeneric && f.FeatureID().Value >= 20 {
				return fmt.Sprintf("setid %d", pick64(r, pathVarIDs))
			}
			return fmt.Sprintf("setid %d", pick64(r, idRange[kindOf(f)]))
		case 1:
			n := r.Intn(4)
			p := r.Perm(len(tagKeys))
			var ts []string
			for j := 0; j < n; j++ {
				ts = append(ts, tagKeys[p[j]]+"="+fmt.Sprintf("v%d", r.Intn(10)))
			}
			return "settags " + hx.List(ts)
		case 2, 3:
			// AddTag is a blind append: keep keys distinct (lists with repeated keys are outside C39's
			// domain, RemoveTag can panic half-way on them)
			for _, k := range tagKeys {
				if !f.Get(k).IsValid() {
					return "addtag " + k + "=" + fmt.Sprintf("v%d", r.Intn(10))
				}
			}
			return "settag " + randTag(r)
		case 4, 5, 6:
			return "settag " + presentKey(r, f) + "=" + fmt.Sprintf("v%d", r.Intn(10))
		case 7, 8:
			return "rmtag " + presentKey(r, f)
		case 9, 10:
			n := 1 + r.Intn(3)
			var ks []string
			for j := 0; j < n; j++ {
				ks = append(ks, presentKey(r, f))
			}
			return "rmtags " + hx.List(ks)
		default:
			return "rmall"
		}
	}
	switch f := f.(type) {
	case *ingest.AreaFeature:
		i := index(r, f.Len())
		switch r.Intn(5) {
		case 0:
			n := 1 + r.Intn(2)
			var ids []string
			for j := 0; j < n; j++ {
				ids = append(ids, fmt.Sprintf("%d", pick64(r, pathValues)))
			}
			return fmt.Sprintf("setpathids %d %s", i, hx.List(ids))
		case 1, 2, 3:
			j := 0
			if i < f.Len() {
				ids, _ := f.PathIDs(i)
				j = r.Intn(len(ids) + 1) // an existing position, or one past the end
				if r.Chance(1, 8) {
					j = len(ids) + 1 // pads with the invalid ID
				}
			}
			return fmt.Sprintf("setpathid %d %d %d", i, j, pick64(r, pathValues))
		default:
			return fmt.Sprintf("setpoly %d P%d", i, 1+r.Intn(3))
		}
	case *ingest.RelationFeature:
		if len(f.Members) > 0 && r.Chance(2, 3) {
			return fmt.Sprintf("setmember %d %s", index(r, len(f.Members)), memberText(r))
		}
		return "appmember " + memberText(r)
	case *ingest.CollectionFeature:
		x := r.Intn(6)
		if len(f.Keys) == 0 && x <= 2 && !r.Chance(1, 10) {
			x = 3
		}
		switch x {
		case 0, 1:
			return fmt.Sprintf("setkey %d k%d", index(r, len(f.Keys)), r.Intn(30))
		case 2:
			return fmt.Sprintf("setval %d v%d", index(r, len(f.Values)), r.Intn(30))
		case 3, 4:
			return fmt.Sprintf("appkv k%d v%d", r.Intn(30), r.Intn(30))
		default:
			// sort.Sort is not stable: only sort when the keys are distinct
			seen := map[interface{}]bool{}
			for _, k := range f.Keys {
				if seen[k] {
					return fmt.Sprintf("appkv k%d v%d", 30+len(f.Keys), r.Intn(30))
				}
				seen[k] = true
			}
			return "sort"
		}
	}
	return "settag " + randTag(r)
}

func newRun(c *hx.Ctx, which int) *run {
	c.Comment("world=" + worldName[which])
	c.Note("world:" + worldName[which])
	return &run{c: c, w: newWorld(which), added: map[string]added{}, exposed: map[int]bool{}}
}

// randomStep performs one randomly chosen operation
func randomStep(run *run, r *hx.Rand, focus kind) {
	nv := len(run.vars)
	x := r.Intn(20)
	switch {
	case nv == 0 || (x == 0 && nv < 7):
		k := focus
		if r.Chance(1, 4) {
			k = kind(r.Intn(4))
		}
		n := 0
		if k == kArea || k == kRelation {
			n = r.Intn(4)
		}
		run.opNew(k, pick64(r, idRange[k]), n)
	case x <= 2 && nv < 7:
		run.opClone(r.Intn(nv))
	case x <= 4:
		// MergeFrom between two values of the same kind
		i := r.Intn(nv)
		var js []int
		for j, g := range run.vars {
			if j != i && kindOf(g) == kindOf(run.vars[i]) {
				js = append(js, j)
			}
		}
		if len(js) == 0 {
			run.mut(i, randMutator(r, run.vars[i]))
		} else {
			run.opMerge(i, js[r.Intn(len(js))])
		}
	case x <= 8:
		run.opAdd(r.Intn(nv))
	case x == 10 && len(run.added) > 0 && nv < 7:
		keys := hx.SortedKeys(run.added)
		run.opFromWorld(run.added[keys[r.Intn(len(keys))]])
	case x == 9 && len(run.added) > 0:
		keys := hx.SortedKeys(run.added)
		a := run.added[keys[r.Intn(len(keys))]]
		if r.Bool() {
			run.opWorldTag(a, r.Pick(tagKeys), fmt.Sprintf("w%d", r.Intn(10)))
		} else {
			f := run.w.FindFeatureByID(a.id)
			k := r.Pick(tagKeys)
			if t := f.AllTags(); len(t) > 0 && r.Chance(3, 4) {
				k = t[r.Intn(len(t))].Key
			}
			run.opWorldRemoveTag(a, k)
		}
	default:
		// prefer values that are shared with the world or have clones: that is where isolation can break
		i := r.Intn(nv)
		for try := 0; try < 2 && !run.exposed[i]; try++ {
			i = r.Intn(nv)
		}
		run.mut(i, randMutator(r, run.vars[i]))
	}
}

func (r *run) finish() {
	r.c.Note(fmt.Sprintf("vars:%d", len(r.vars)))
	r.c.Note(fmt.Sprintf("world-entries:%d", len(r.added)))
	if r.probes > 0 {
		r.c.NonTrivial()
	}
}

func randomCase(c *hx.Ctx) {
	r := c.Rand
	run := newRun(c, r.Intn(3))
	nops := 8 + r.Intn(22)
	focus := kind(r.Intn(4)) // most features of a case are of one kind, so that they meet in the world
	for step := 0; step < nops; step++ {
		randomStep(run, r, focus)
	}
	run.finish()
}

// ---- the "grown value" scenario -------------------------------------------------------------
//
// A short value is stored; it is then REPLACED (world.AddFeature with the same id -> MergeFrom into the
// stored struct) or merged (caller-side MergeFrom) by a LONGER one - more members / polygons / path ids
// per member / keys and values / tags -; then elements BEYOND THE OLD LENGTH are mutated in place through
// the caller's grown value, through a clone of it and through the receivers of the merges, and everything
// is re-observed after each step.  This is the shape in which a MergeFrom/Clone that shares instead of
// copying only the *additional* elements shows.

// element returns the mutator that sets element i of the kind's list on a value whose list has room for it
func fillElement(r *hx.Rand, k kind, i int) []string {
	switch k {
	case kArea:
		if r.Chance(3, 4) {
			n := 1 + r.Intn(2)
			var ids []string
			for j := 0; j < n; j++ {
				ids = append(ids, fmt.Sprintf("%d", pick64(r, pathValues)))
			}
			return []string{fmt.Sprintf("setpathids %d %s", i, hx.List(ids))}
		}
		return []string{fmt.Sprintf("setpoly %d P%d", i, 1+r.Intn(3))}
	case kRelation:
		return []string{fmt.Sprintf("setmember %d %s", i, memberText(r))}
	case kCollection:
		return []string{fmt.Sprintf("appkv k%d v%d", 10+i, r.Intn(30))}
	}
	return nil
}

// build makes a new caller value of the kind with `elems` elements and `tags` tags; returns its index
func (run *run) build(r *hx.Rand, k kind, id uint64, elems, tags int) int {
	n := 0
	if k == kArea || k == kRelation {
		n = elems
	}
	run.opNew(k, id, n)
	v := len(run.vars) - 1
	if k != kGeneric {
		for i := 0; i < elems; i++ {
			for _, m := range fillElement(r, k, i) {
				run.mut(v, m)
			}
		}
	}
	for i := 0; i < tags && i < len(tagKeys); i++ {
		run.mut(v, fmt.Sprintf("addtag %s=v%d", tagKeys[i], r.Intn(10)))
	}
	return v
}

func elemCount(f ingest.Feature) int {
	switch f := f.(type) {
	case *ingest.AreaFeature:
		return f.Len()
	case *ingest.RelationFeature:
		return len(f.Members)
	case *ingest.CollectionFeature:
		return len(f.Keys)
	}
	return 0
}

// inPlace returns a mutator that overwrites element i (i < elemCount) of v without changing any length
func inPlace(r *hx.Rand, f ingest.Feature, i int) string {
	switch f := f.(type) {
	case *ingest.AreaFeature:
		if ids, ok := f.PathIDs(i); ok && len(ids) > 0 {
			return fmt.Sprintf("setpathid %d %d %d", i, r.Intn(len(ids)), pick64(r, pathValues))
		}
		return fmt.Sprintf("setpoly %d P%d", i, 1+r.Intn(3))
	case *ingest.RelationFeature:
		return fmt.Sprintf("setmember %d %s", i, memberText(r))
	case *ingest.CollectionFeature:
		if r.Bool() {
			return fmt.Sprintf("setkey %d k%d", i, 40+r.Intn(20))
		}
		return fmt.Sprintf("setval %d v%d", i, 40+r.Intn(20))
	}
	return ""
}

// ---- list-valued tags: a path's points --------------------------------------------------------------
//
// Tags.Clone / copy / append copy Tag structs, so clones, FromWorld copies, MergeFrom receivers and the
// world's entry all point to the SAME list of points.  ModifyOrAddTagAt (b6.Set) must therefore never
// write into an existing list: every holder extends (index == len) and overwrites (index < len) the list,
// and all others are re-observed.

func freshPoint(r *hx.Rand, f ingest.Feature) string {
	for try := 0; try < 10; try++ {
		e := fmt.Sprintf("n%d", 101+r.Intn(18))
		if !listHas(f, b6.PathTag, e) {
			return e
		}
	}
	return fmt.Sprintf("n%d", 101+r.Intn(18))
}

// listEdit: extend at index == len (2 in 3), or overwrite an existing position
func listEdit(r *hx.Rand, f ingest.Feature) string {
	if t := f.Get(b6.PathTag); t.IsValid() {
		if _, isList := t.Value.AnyExpression.(b6.Expressions); !isList {
			// an earlier ModifyOrAddTag made `path` a plain value: ModifyOrAddTagAt would AddTag a SECOND `path`
			// tag (keys no longer distinct - outside the domain, RemoveTag can panic half-way): make it a list again
			return fmt.Sprintf("setlist %s %d %s", b6.PathTag, r.Intn(3), hx.List([]string{freshPoint(r, f), freshPoint(r, f)}))
		}
	}
	n := listLen(f, b6.PathTag)
	i := n
	if n > 0 && r.Chance(1, 3) {
		i = r.Intn(n)
	}
	return fmt.Sprintf("setat %s %d %s", b6.PathTag, i, freshPoint(r, f))
}

func listCase(c *hx.Ctx) {
	r := c.Rand
	run := newRun(c, r.Intn(3))
	c.Note("scenario:list")
	id := pick64(r, pathVarIDs)
	run.opNew(kGeneric, id, 0)
	// the path: built point by point, or handed over as a list with spare capacity
	npts := 2 + r.Intn(4)
	if r.Chance(1, 3) {
		var es []string
		for j := 0; j < npts; j++ {
			es = append(es, fmt.Sprintf("n%d", 101+(r.Intn(3)+3*j)%18))
		}
		run.mut(0, fmt.Sprintf("setlist %s %d %s", b6.PathTag, r.Intn(4), hx.List(es)))
		c.Note("list:built-with-spare-capacity")
	} else {
		for j := 0; j < npts; j++ {
			run.mut(0, fmt.Sprintf("setat %s %d %s", b6.PathTag, j, freshPoint(r, run.vars[0])))
		}
		c.Note("list:built-point-by-point")
	}
	c.Note(fmt.Sprintf("list:points:%d", npts))
	if r.Chance(1, 2) {
		run.mut(0, "addtag "+randTag(r))
	}
	stored := run.opAdd(0) == "ok"
	holders := []int{0}
	if r.Chance(3, 4) {
		run.opClone(0)
		holders = append(holders, len(run.vars)-1)
	}
	if stored && r.Chance(3, 4) {
		run.opFromWorld(run.added[key(kGeneric, fid(kGeneric, id))])
		holders = append(holders, len(run.vars)-1)
	}
	if r.Chance(1, 2) {
		run.opNew(kGeneric, pick64(r, pathVarIDs), 0)
		recv := len(run.vars) - 1
		run.opMerge(recv, holders[r.Intn(len(holders))])
		holders = append(holders, recv)
	}
	c.Note(fmt.Sprintf("list:holders:%d", len(holders)))
	rounds := 3 + r.Intn(6)
	for round := 0; round < rounds; round++ {
		v := holders[r.Intn(len(holders))]
		m := listEdit(r, run.vars[v])
		if strings.HasPrefix(m, "setat") && strings.Fields(m)[2] == fmt.Sprint(listLen(run.vars[v], b6.PathTag)) {
			c.Note("list:extend-at-len")
		} else {
			c.Note("list:overwrite")
		}
		run.mut(v, m)
		if r.Chance(1, 4) {
			// the world takes the holder's current value (MergeFrom: the entry now shares its lists)
			if run.opAdd(v) == "ok" {
				c.Note("list:readd")
			}
		}
		if r.Chance(1, 6) && len(run.vars) < 7 {
			run.opClone(v)
			holders = append(holders, len(run.vars)-1)
		}
	}
	for step := r.Intn(5); step > 0; step-- {
		randomStep(run, r, kGeneric)
	}
	run.finish()
}

func growCase(c *hx.Ctx) {
	r := c.Rand
	run := newRun(c, r.Intn(3))
	k := kind(r.Intn(4))
	kw := kindWord[k]
	c.Note("scenario:grow:" + kw)
	id := pick64(r, idRange[k])
	old, extra := r.Intn(3), 1+r.Intn(3)
	oldTags, extraTags := r.Intn(3), 1+r.Intn(2)

	// 1. the short value, stored
	short := run.build(r, k, id, old, oldTags)
	if run.opAdd(short) != "ok" {
		c.Note("grow:first-add-rejected")
	}
	// 2. the grown value: built from scratch, or a clone of the short one that is then extended, or the
	//    short value itself extended (areas cannot be extended through the API: always from scratch)
	var grown int
	variant := r.Intn(3)
	if k == kArea {
		variant = 0
	}
	switch variant {
	case 0:
		grown = run.build(r, k, id, old+extra, oldTags+extraTags)
		c.Note("grow:from-scratch")
	default:
		grown = short
		if variant == 1 {
			run.opClone(short)
			grown = len(run.vars) - 1
			c.Note("grow:extended-clone")
		} else {
			c.Note("grow:extended-original")
		}
		for i := old; i < old+extra; i++ {
			switch k {
			case kRelation:
				run.mut(grown, "appmember "+memberText(r))
			case kCollection:
				run.mut(grown, fmt.Sprintf("appkv k%d v%d", 10+i, r.Intn(30)))
			}
		}
		for i := oldTags; i < oldTags+extraTags; i++ {
			run.mut(grown, fmt.Sprintf("addtag %s=v%d", tagKeys[i], r.Intn(10)))
		}
	}
	if k == kArea && r.Bool() && old > 0 {
		// also grow an inner list: one more path id in an old member
		if ids, ok := run.vars[grown].(*ingest.AreaFeature).PathIDs(0); ok {
			run.mut(grown, fmt.Sprintf("setpathid 0 %d %d", len(ids), pick64(r, pathValues)))
			c.Note("grow:inner-list")
		}
	}
	// 3. receivers: the world entry (replacement), a short caller value (MergeFrom), a clone of the grown one
	replaced := run.opAdd(grown) == "ok"
	if replaced {
		c.Note("grow:replace-accepted:" + kw)
	} else {
		c.Note("grow:replace-rejected:" + kw)
	}
	targets := []int{grown}
	if r.Chance(2, 3) {
		recv := run.build(r, k, pick64(r, idRange[k]), r.Intn(old+1), r.Intn(oldTags+1))
		run.opMerge(recv, grown)
		targets = append(targets, recv)
		c.Note("grow:caller-mergefrom")
	}
	if r.Chance(2, 3) {
		run.opClone(grown)
		targets = append(targets, len(run.vars)-1)
		c.Note("grow:clone-of-grown")
	}
	if replaced && r.Chance(2, 3) {
		run.opFromWorld(run.added[key(k, fid(k, id))])
		targets = append(targets, len(run.vars)-1)
		c.Note("grow:copy-from-world")
	}
	// 4. in-place mutation of the elements beyond the old length (and one old one), through every holder
	rounds := 2 + r.Intn(3)
	for round := 0; round < rounds; round++ {
		v := targets[r.Intn(len(targets))]
		f := run.vars[v]
		if n := elemCount(f); n > 0 && k != kGeneric && r.Chance(3, 4) {
			i := r.Intn(n)
			if n > old && r.Chance(4, 5) {
				i = old + r.Intn(n-old)
				c.Note("grow:inplace-beyond-old-len:" + kw)
			} else {
				c.Note("grow:inplace-within-old-len:" + kw)
			}
			run.mut(v, inPlace(r, f, i))
		} else if t := f.AllTags(); len(t) > 0 {
			i := r.Intn(len(t))
			if len(t) > oldTags && r.Chance(4, 5) {
				i = oldTags + r.Intn(len(t)-oldTags)
				c.Note("grow:inplace-beyond-old-len:tags:" + kw)
			}
			run.mut(v, fmt.Sprintf("settag %s=x%d", t[i].Key, r.Intn(10)))
		}
	}
	// 4b. append through every holder, then through the world: an append that did not re-allocate a shared
	//     array would overwrite (or expose) another holder's element
	if r.Chance(2, 3) {
		for _, v := range targets {
			f := run.vars[v]
			switch {
			case k == kRelation && r.Bool():
				run.mut(v, "appmember "+memberText(r))
			case k == kCollection && r.Bool():
				run.mut(v, fmt.Sprintf("appkv k%d v%d", 60+v, r.Intn(30)))
			case k == kArea && f.(*ingest.AreaFeature).Len() > 0 && r.Bool():
				a := f.(*ingest.AreaFeature)
				i := r.Intn(a.Len())
				ids, _ := a.PathIDs(i)
				run.mut(v, fmt.Sprintf("setpathid %d %d %d", i, len(ids), pick64(r, pathValues)))
			default:
				for _, tk := range tagKeys {
					if !f.Get(tk).IsValid() {
						run.mut(v, fmt.Sprintf("addtag %s=y%d", tk, v))
						break
					}
				}
			}
			c.Note("grow:append-through-holder:" + kw)
		}
		if replaced {
			a := run.added[key(k, fid(k, id))]
			for _, tk := range tagKeys {
				if !run.w.FindFeatureByID(a.id).Get(tk).IsValid() {
					run.opWorldTag(a, tk, "wy")
					c.Note("grow:world-appends-tag")
					break
				}
			}
		}
	}
	// 5. the other direction: the world edits its (grown) entry in place
	if replaced && r.Bool() {
		a := run.added[key(k, fid(k, id))]
		if t := run.w.FindFeatureByID(a.id).AllTags(); len(t) > 0 {
			run.opWorldTag(a, t[len(t)-1].Key, fmt.Sprintf("w%d", r.Intn(10)))
			c.Note("grow:world-edits-last-tag")
		}
	}
	// 6. and a few arbitrary operations
	for step := r.Intn(6); step > 0; step-- {
		randomStep(run, r, k)
	}
	run.finish()
}

func corpus(c *hx.Ctx) {
	for which := 0; which < 3; which++ {
		c.Op("reset", "ok | - | -")
		r := newRun(c, which)
		// fixed C38-area-clone-deep: SetPathID on the caller's value after AddFeature, and on a clone
		r.opNew(kArea, 100, 1)
		r.mut(0, "setpathids 0 [10]")
		r.opAdd(0)
		r.mut(0, "setpathid 0 0 11")
		r.opClone(0)
		r.mut(1, "setpathid 0 0 12")
		r.mut(0, "setpathid 0 1 13")
		// fixed C38-collection-copy: Keys/Values after the first add, Tags/Keys/Values after a replacement
		r.opNew(kCollection, 7, 0)
		r.mut(2, "appkv k1 v1")
		r.mut(2, "appkv k2 v2")
		r.mut(2, "addtag name=one")
		r.opAdd(2)
		r.mut(2, "setkey 0 HACK")
		r.mut(2, "setval 1 HACKV")
		r.opClone(2)
		r.mut(3, "setkey 1 HACKC")
		r.opNew(kCollection, 7, 0)
		r.mut(4, "appkv a b")
		r.mut(4, "addtag name=two")
		r.opAdd(4)
		r.mut(4, "settag name=CALLER")
		r.mut(4, "setkey 0 HACK2")
		r.mut(4, "rmtag name")
		r.opWorldTag(added{kCollection, b6.FeatureID{Type: b6.FeatureTypeCollection, Namespace: ns, Value: 7}}, "name", "WORLD")
		// fixed C38-area-merge-polygon-member: replace [P1] by [P1 P2]; replace a path member by a polygon
		r.opNew(kArea, 101, 1)
		r.mut(5, "setpoly 0 P1")
		r.opAdd(5)
		r.opNew(kArea, 101, 2)
		r.mut(6, "setpoly 0 P1")
		r.mut(6, "setpoly 1 P2")
		r.opAdd(6)
		r.opNew(kArea, 100, 1)
		r.mut(7, "setpoly 0 P3")
		r.opAdd(7)
		r.mut(7, "setpathids 0 [14 15]")
		r.mut(7, "addtag name=area")
		r.opAdd(7)
		// copies taken from the world (NewFeatureFromWorld) are the caller's own: tags, path ids, keys
		r.opFromWorld(added{kArea, b6.FeatureID{Type: b6.FeatureTypeArea, Namespace: ns, Value: 100}})
		r.mut(8, "settag name=COPY")
		r.mut(8, "setpathid 0 1 10")
		r.opFromWorld(added{kCollection, b6.FeatureID{Type: b6.FeatureTypeCollection, Namespace: ns, Value: 7}})
		r.mut(9, "settag name=COPY")
		r.mut(9, "setkey 0 COPYK")
		r.opWorldTag(added{kArea, b6.FeatureID{Type: b6.FeatureTypeArea, Namespace: ns, Value: 100}}, "name", "WORLD")
		// list-valued tags (seeded C38-3: b6.Set appending in place): a path's points are shared by the clone,
		// the copy from the world and the world's entry; every holder extends at index == len
		r.opNew(kGeneric, 20, 0)
		r.mut(10, "setat path 0 n101")
		r.mut(10, "setat path 1 n102")
		r.mut(10, "setat path 2 n104")
		r.opAdd(10)
		r.opClone(10)
		r.opFromWorld(added{kGeneric, fid(kGeneric, 20)})
		r.mut(10, "setat path 3 n107")
		r.mut(11, "setat path 3 n110")
		r.mut(12, "setat path 3 n113")
		r.mut(11, "setat path 0 n116")
		r.opAdd(11)
		r.mut(11, "setat path 4 n105")
		r.mut(10, "setat path 4 n108")
		r.mut(12, "setlist path 3 [n101 n102]")
		r.opClone(12)
		r.mut(12, "setat path 2 n104")
		r.mut(13, "setat path 2 n107")
	}
	c.NonTrivial()
}

func main() {
	hx.Main(hx.Family{
		Name: "c38",
		Rule: "1 case in 6: the list-value scenario (a path built point by point or handed over with spare capacity, stored, cloned, copied back from the world, merged; every holder extends the list at index == len and overwrites positions via ModifyOrAddTagAt, the world re-takes holders; buckets list:*); 1 case in 3: the grown-value scenario (a short value is stored, then replaced / merged by a longer one - more members, polygons, path ids, keys+values, tags -, then elements beyond the old length are mutated in place through the grown value, a clone of it, a MergeFrom receiver and a copy taken back from the world (NewFeatureFromWorld), then every holder and the world append; buckets grow:*); otherwise random interleavings (8-29 ops) of new/Clone/MergeFrom/NewFeatureFromWorld/every feature mutator/world.AddFeature/world.AddTag/RemoveTag over generic, area, relation and collection features and three kinds of mutable world (basic, overlay, overlay over a base holding the referenced paths); ids from small ranges so that adds replace earlier entries; 1 in 40 indices out of range (must panic and change nothing); non-trivial = at least one mutation of a value that had been added to the world, cloned, or is a clone (or a world-side tag edit); distinct = by hash of the op text",
		Quick:    2500,
		Thorough: 80000,
		Corpus:   corpus,
		Case: func(c *hx.Ctx) {
			if c.CaseNo%3 == 0 {
				growCase(c)
			} else if c.CaseNo%6 == 1 {
				listCase(c)
			} else {
				randomCase(c)
			}
		},
	})
}
