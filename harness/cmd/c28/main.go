// C28 harness: the five streaming protocols of b6 driven with a failing callback.
//
// One case = one run of one exported API:
//
//	eachitem     encoding.Uint64Map.EachItem            (items = buckets, sub-items = distinct ids of the bucket)
//	memread      ingest.MemoryFeatureSource.Read        (items = features)
//	pbf          osm.ReadPBFWithOptions                 (items = blobs, item 0 = the header blob, sub-items = nodes)
//	eachfeature  ingest.EachFeature / BasicMutableWorld.EachFeature (eachIngestFeature; items = features, fed in map order)
//	modtags      ingest.ModifiedTags.EachModifiedTag    (items = (id, key) pairs, fed in map order)
//
// The callback records every call (item.sub@goroutine, result, number of tagged entries), yields / sleeps per a
// seeded plan, and fails on the sub-items listed in the op.  Every run happens in a child process (batches of
// runs with an in-child watchdog; a run that does not return is re-run alone in a fresh child with a longer
// timeout before it is answered `hang`).
//
// op     : run p=<proto> g=<goroutines> mp=<GOMAXPROCS> sizes=[s0 s1 …] fail=[k.j …] mode=<persist|once> multi=<0|1> y=<yield seed>
// answer : <err|nil|hang|panic> [k.j@w+/t k.j@w!/t …]      (events in callback-entry order; `!` = this call returned an error)
package main

import (
	"bytes"
	"context"
	"encoding/binary"
	"encoding/json"
	"errors"
	"fmt"
	"io"
	"runtime"
	"runtime/debug"
	"sort"
	"strings"
	"sync"
	"time"

	"diagonal.works/b6"
	"diagonal.works/b6/encoding"
	"diagonal.works/b6/ingest"
	"diagonal.works/b6/ingest/compact"
	"diagonal.works/b6/osm"
	pb "diagonal.works/b6/osm/proto"
	"github.com/golang/geo/s2"
	"google.golang.org/protobuf/proto"
	"verifharness/hx"
)

type Run struct {
	Proto string
	G     int
	MP    int
	Sizes []int
	Fail  [][2]int
	Once  bool
	Multi bool
	Y     uint64
	World string   // eachfeature: direct | basic | overlay | compact
	Kinds []string // pbf: kind of every blob (h n w r p m); eachfeature: kind of every feature (p a A r)
	Index []byte   // eachfeature, compact world: the index built by the parent process (compact.BuildInMemory)
	Ev     string  // the error value the callback returns: new | wrapped | canceled | deadline | eof
	Cancel int     // memread: 1 + index of the callback inside which the harness cancels the caller's context (0 = never)
}

var protos = []string{"eachitem", "memread", "pbf", "eachfeature", "modtags"}

func (r *Run) opText() string {
	sz := make([]string, len(r.Sizes))
	for i, s := range r.Sizes {
		sz[i] = fmt.Sprint(s)
	}
	fl := make([]string, len(r.Fail))
	for i, f := range r.Fail {
		fl[i] = fmt.Sprintf("%d.%d", f[0], f[1])
	}
	mode := "persist"
	if r.Once {
		mode = "once"
	}
	multi := 0
	if r.Multi {
		multi = 1
	}
	extra := ""
	if r.Proto == "pbf" {
		extra = " kinds=" + hx.List(r.Kinds)
	}
	if r.Proto == "memread" && r.Cancel > 0 {
		extra = fmt.Sprintf(" cancel=%d", r.Cancel-1)
	}
	if r.Proto == "eachfeature" {
		ph := make([]string, len(r.Sizes))
		for i := range ph {
			ph[i] = fmt.Sprint(r.phase(i))
		}
		extra = " w=" + r.World + " kinds=" + hx.List(r.Kinds) + " ph=" + hx.List(ph)
	}
	if r.Ev != "" && r.Ev != "new" {
		extra += " ev=" + r.Ev
	}
	return fmt.Sprintf("run p=%s g=%d mp=%d sizes=%s fail=%s mode=%s multi=%d y=%d%s", r.Proto, r.G, r.MP, hx.List(sz), hx.List(fl), mode, multi, r.Y, extra)
}

// phase of feature i: MutableOverlayWorld.EachFeature first enumerates the overlay's own features (phase 0), then
// the base world's (phase 1). Feature 1 is in both worlds (the base copy is filtered out, silently).
func (r *Run) phase(i int) int {
	if r.World == "overlay" && !(i%3 == 0 || i == 1) {
		return 1
	}
	return 0
}

// ---- the callback ---------------------------------------------------------------------------

var errCallback = errors.New("callback failed")

// errValue is the error a failing callback returns. Besides a fresh error: a wrapped one, and the sentinel values the
// code under test (or the libraries under it) compares errors with — ReadPBFWithOptions filters `context.Canceled`
// out of what readBlobs returned, readBlobs treats `io.EOF` as the end of the file, contexts end with
// `context.DeadlineExceeded`. A callback may legitimately return any of them (e.g. the ctx.Err() of its own request).
func errValue(kind string) error {
	switch kind {
	case "", "new":
		return errCallback
	case "wrapped":
		return fmt.Errorf("callback: %w", errCallback)
	case "canceled":
		return context.Canceled
	case "deadline":
		return context.DeadlineExceeded
	case "eof":
		return io.EOF
	}
	panic("unknown error value " + kind)
}

var errKinds = []string{"new", "new", "wrapped", "canceled", "canceled", "deadline", "eof"}

type recorder struct {
	run    *Run
	mu     sync.Mutex
	events []string
	failed map[[2]int]bool // sub-items that have already failed once (mode=once)
	fails  map[[2]int]bool
	layout string // compact world: the buckets of every feature block, as found in the built index
}

func newRecorder(r *Run) *recorder {
	rec := &recorder{run: r, failed: map[[2]int]bool{}, fails: map[[2]int]bool{}}
	for _, f := range r.Fail {
		rec.fails[f] = true
	}
	return rec
}

func mix(a, b, c uint64) uint64 {
	z := a + 0x9e3779b97f4a7c15*(b+1) + 0xbf58476d1ce4e5b9*(c+1)
	z = (z ^ (z >> 30)) * 0xbf58476d1ce4e5b9
	z = (z ^ (z >> 27)) * 0x94d049bb133111eb
	return z ^ (z >> 31)
}

// call is what every wrapped callback does: record, perturb the schedule, answer.
func (rec *recorder) call(k, j, goroutine, tagged int) error {
	_, err := rec.callIdx(k, j, goroutine, tagged)
	return err
}

// callIdx also returns the index of the call in the event log.
func (rec *recorder) callIdx(k, j, goroutine, tagged int) (int, error) {
	key := [2]int{k, j}
	rec.mu.Lock()
	fail := rec.fails[key]
	if fail && rec.run.Once {
		if rec.failed[key] {
			fail = false
		}
		rec.failed[key] = true
	}
	mark := "+"
	if fail {
		mark = "!"
	}
	idx := len(rec.events)
	rec.events = append(rec.events, fmt.Sprintf("%d.%d@%d%s/%d", k, j, goroutine, mark, tagged))
	rec.mu.Unlock()
	switch mix(rec.run.Y, uint64(k), uint64(j)) % 8 {
	case 4:
		runtime.Gosched()
	case 5:
		runtime.Gosched()
		runtime.Gosched()
		runtime.Gosched()
	case 6:
		time.Sleep(20 * time.Microsecond)
	case 7:
		time.Sleep(200 * time.Microsecond)
	}
	if fail {
		return idx, errValue(rec.run.Ev)
	}
	return idx, nil
}

func (rec *recorder) answer(err error) string {
	rec.mu.Lock()
	defer rec.mu.Unlock()
	out := "nil"
	if err != nil {
		out = "err"
		base := errValue(rec.run.Ev)
		if rec.run.Ev == "wrapped" {
			base = errCallback
		}
		if !errors.Is(err, base) { // an error, but not the one the callback returned
			out = "err-other"
		}
	}
	if rec.layout != "" {
		return out + " " + hx.List(rec.events) + " lay=" + rec.layout
	}
	return out + " " + hx.List(rec.events)
}

// ---- the five APIs --------------------------------------------------------------------------

// eachitem: bucket k of a Uint64Map with 2^bits buckets holds the ids k + j<<bits, j < sizes[k];
// with multi, id (k,j) has 1 + (k+j)%2 tagged entries.
func tagCount(r *Run, k, j int) int {
	if r.Proto == "eachitem" && r.Multi {
		return 1 + (k+j)%2
	}
	return 1
}

func runEachItem(r *Run, rec *recorder) error {
	bits := 0
	for 1<<bits < len(r.Sizes) {
		bits++
	}
	if 1<<bits != len(r.Sizes) {
		panic("eachitem: number of buckets must be a power of two")
	}
	builder := encoding.NewUint64MapBuilder(bits, 1)
	if builder.Layout.BucketBits != bits {
		panic("eachitem: builder changed the bucket count")
	}
	type item struct {
		id  uint64
		tag encoding.Tag
	}
	var items []item
	for k, s := range r.Sizes {
		for j := 0; j < s; j++ {
			id := uint64(k) + uint64(j)<<bits
			for t := 0; t < tagCount(r, k, j); t++ {
				items = append(items, item{id, encoding.Tag(t)})
			}
		}
	}
	// write in a scrambled order so that the per-bucket sort has work to do
	for i := range items {
		o := int(mix(r.Y, uint64(i), 77) % uint64(len(items)))
		items[i], items[o] = items[o], items[i]
	}
	for _, it := range items {
		builder.Reserve(it.id, it.tag, 1)
	}
	builder.FinishReservation()
	var buf encoding.Buffer
	if _, err := builder.WriteHeader(&buf, 0); err != nil {
		panic(err)
	}
	for _, it := range items {
		if err := builder.WriteItem(it.id, it.tag, []byte{byte(it.tag)}, &buf); err != nil {
			panic(err)
		}
	}
	m := encoding.NewUint64Map(buf.Bytes())
	mask := uint64(1)<<bits - 1
	return m.EachItem(func(id uint64, tagged []encoding.Tagged, goroutine int) error {
		return rec.call(int(id&mask), int(id>>bits), goroutine, len(tagged))
	}, r.G)
}

func pointFeature(i int) ingest.Feature {
	ll := s2.LatLngFromDegrees(51.5+float64(i)*1e-4, -0.1)
	return &ingest.GenericFeature{
		ID:   b6.FeatureID{Type: b6.FeatureTypePoint, Namespace: b6.Namespace("diagonal.works/verif"), Value: uint64(i)},
		Tags: []b6.Tag{{Key: b6.PointTag, Value: b6.NewPointExpressionFromLatLng(ll)}},
	}
}

func runMemRead(r *Run, rec *recorder) error {
	fs := make([]ingest.Feature, len(r.Sizes))
	for i := range fs {
		fs[i] = pointFeature(i)
	}
	ctx, cancelCaller := context.WithCancel(context.Background())
	defer cancelCaller()
	emit := func(f ingest.Feature, goroutine int) error {
		idx, err := rec.callIdx(int(f.FeatureID().Value), 0, goroutine, 1)
		if idx+1 == r.Cancel {
			cancelCaller() // the environment: the caller's context is cancelled while this callback runs
		}
		return err
	}
	return ingest.MemoryFeatureSource(fs).Read(ingest.ReadOptions{Goroutines: r.G}, emit, ctx)
}

// pbf: item 0 is the header blob NewWriter emits (sizes[0] = 0, kind h); data blob k holds sizes[k] >= 1 elements with
// ids k*1000 + j + 1, of the kind kinds[k]: n = dense nodes, w = ways, r = relations (written by osm.Writer, one Flush
// per blob), p = plain (non-dense) nodes, m = mixed: plain nodes, ways and relations in one block (hand-made blocks,
// uncompressed; in one PrimitiveGroup when k is even, in three when k is odd).
func mixedCounts(s int) (int, int, int) { return (s + 2) / 3, (s + 1) / 3, s / 3 }

func rawBlob(block *pb.PrimitiveBlock) []byte {
	data, err := proto.Marshal(block)
	if err != nil {
		panic(err)
	}
	blob, err := proto.Marshal(&pb.Blob{Raw: data, RawSize: proto.Int32(int32(len(data)))})
	if err != nil {
		panic(err)
	}
	header, err := proto.Marshal(&pb.BlobHeader{Type: proto.String("OSMData"), Datasize: proto.Int32(int32(len(blob)))})
	if err != nil {
		panic(err)
	}
	var out bytes.Buffer
	var length [4]byte
	binary.BigEndian.PutUint32(length[0:], uint32(len(header)))
	out.Write(length[0:])
	out.Write(header)
	out.Write(blob)
	return out.Bytes()
}

func handMade(k int, kind string, size int) []byte {
	id := func(j int) *int64 { return proto.Int64(int64(k*1000 + j + 1)) }
	var nodes []*pb.Node
	var ways []*pb.Way
	var relations []*pb.Relation
	a, b, c := size, 0, 0
	if kind == "m" {
		a, b, c = mixedCounts(size)
	}
	for j := 0; j < a; j++ {
		nodes = append(nodes, &pb.Node{Id: id(j), Lat: proto.Int64(515000000), Lon: proto.Int64(-1000000)})
	}
	for j := a; j < a+b; j++ {
		ways = append(ways, &pb.Way{Id: id(j), Refs: []int64{1, 1}})
	}
	for j := a + b; j < a+b+c; j++ {
		relations = append(relations, &pb.Relation{Id: id(j), Memids: []int64{1}, Types: []pb.Relation_MemberType{pb.Relation_NODE}, RolesSid: []int32{0}})
	}
	block := &pb.PrimitiveBlock{Stringtable: &pb.StringTable{S: [][]byte{{}}}}
	if k%2 == 0 {
		block.Primitivegroup = []*pb.PrimitiveGroup{{Nodes: nodes, Ways: ways, Relations: relations}}
	} else {
		block.Primitivegroup = []*pb.PrimitiveGroup{{Nodes: nodes}, {Ways: ways}, {Relations: relations}}
	}
	return rawBlob(block)
}

func runPBF(r *Run, rec *recorder) error {
	var buf bytes.Buffer
	w, err := osm.NewWriter(&buf)
	if err != nil {
		panic(err)
	}
	for k := 1; k < len(r.Sizes); k++ {
		kind := r.Kinds[k]
		if kind == "p" || kind == "m" {
			buf.Write(handMade(k, kind, r.Sizes[k]))
			continue
		}
		for j := 0; j < r.Sizes[k]; j++ {
			id := k*1000 + j + 1
			var err error
			switch kind {
			case "n":
				err = w.WriteNode(&osm.Node{ID: osm.NodeID(id), Location: osm.LatLng{Lat: 51.5, Lng: -0.1}})
			case "w":
				err = w.WriteWay(&osm.Way{ID: osm.WayID(id), Nodes: []osm.NodeID{1, 2}})
			case "r":
				err = w.WriteRelation(&osm.Relation{ID: osm.RelationID(id), Members: []osm.Member{{Type: osm.ElementTypeNode, ID: 1, Role: "x"}}})
			default:
				panic("pbf: unknown blob kind " + kind)
			}
			if err != nil {
				panic(err)
			}
		}
		if err := w.Flush(); err != nil {
			panic(err)
		}
	}
	emit := func(e osm.Element, goroutine int) error {
		var id int
		switch e := e.(type) {
		case *osm.Node:
			id = int(e.ID)
		case *osm.Way:
			id = int(e.ID)
		case *osm.Relation:
			id = int(e.ID)
		default:
			panic("pbf: unexpected element")
		}
		id--
		return rec.call(id/1000, id%1000, goroutine, 1)
	}
	return osm.ReadPBFWithOptions(bytes.NewReader(buf.Bytes()), emit, osm.ReadOptions{Cores: r.G})
}

// pbfSite names the loop of readPrimitiveGroup / readDenseNodes that emits sub-item j of blob k.
func pbfSite(r *Run, k, j int) string {
	switch r.Kinds[k] {
	case "n":
		return "densenode"
	case "w":
		return "way"
	case "r":
		return "relation"
	case "p":
		return "plainnode"
	case "m":
		a, b, _ := mixedCounts(r.Sizes[k])
		switch {
		case j < a:
			return "mixed-plainnode"
		case j < a+b:
			return "mixed-way"
		}
		return "mixed-relation"
	}
	return "?"
}

// where in its item a sub-item sits
func place(size, j int) string {
	switch {
	case size == 1:
		return "only"
	case j == 0:
		return "first"
	case j == size-1:
		return "last"
	}
	return "inner"
}

// site is the histogram bucket (api, callback site) of a failing position.
func site(r *Run, k, j int) string {
	switch r.Proto {
	case "eachitem":
		// the ids of a bucket but the last are called from the inner loop, the last one by the trailing call
		return "eachitem:" + place(r.Sizes[k], j)
	case "pbf":
		s := "pbf:" + pbfSite(r, k, j) + ":" + place(r.Sizes[k], j)
		if k == len(r.Sizes)-1 {
			s += ":lastblob"
		}
		return s
	case "eachfeature":
		kind := map[string]string{"p": "point", "a": "path", "A": "area", "r": "relation"}[r.Kinds[k]]
		w := r.World
		if w == "overlay" {
			w += []string{"-own", "-base"}[r.phase(k)]
		}
		return "eachfeature:" + w + ":" + kind
	case "modtags":
		if k%3 == 2 {
			return "modtags:deleted"
		}
		return "modtags:modified"
	}
	return r.Proto
}

const verifNS = b6.Namespace("diagonal.works/verif")

// feature i of kind p (point), a (path), A (area) or r (relation); ids are i within each type.
func featureID(kind string, i int) b6.FeatureID {
	t := map[string]b6.FeatureType{"p": b6.FeatureTypePoint, "a": b6.FeatureTypePath, "A": b6.FeatureTypeArea, "r": b6.FeatureTypeRelation}[kind]
	return b6.FeatureID{Type: t, Namespace: verifNS, Value: uint64(i)}
}

func makeFeature(kind string, i int) ingest.Feature {
	lat, lng := 51.5+float64(i)*1e-3, -0.1
	ll := func(dlat, dlng float64) s2.LatLng { return s2.LatLngFromDegrees(lat+dlat, lng+dlng) }
	switch kind {
	case "p":
		return &ingest.GenericFeature{ID: featureID(kind, i), Tags: []b6.Tag{{Key: b6.PointTag, Value: b6.NewPointExpressionFromLatLng(ll(0, 0))}}}
	case "a":
		return &ingest.GenericFeature{ID: featureID(kind, i), Tags: []b6.Tag{{Key: b6.PathTag, Value: b6.NewExpressions([]b6.AnyExpression{
			b6.PointExpression(ll(0, 0)), b6.PointExpression(ll(1e-4, 1e-4)), b6.PointExpression(ll(2e-4, 0)),
		})}}}
	case "A":
		a := ingest.NewAreaFeature(1)
		a.AreaID = b6.AreaID{Namespace: verifNS, Value: uint64(i)}
		a.SetPolygon(0, s2.PolygonFromLoops([]*s2.Loop{s2.LoopFromPoints([]s2.Point{
			s2.PointFromLatLng(ll(0, 0)), s2.PointFromLatLng(ll(0, 2e-4)), s2.PointFromLatLng(ll(2e-4, 1e-4)),
		})}))
		return a
	case "r":
		rel := ingest.NewRelationFeature(0)
		rel.RelationID = b6.RelationID{Namespace: verifNS, Value: uint64(i)}
		rel.Tags = b6.Tags{{Key: "type", Value: b6.NewStringExpression("verif")}}
		return rel
	}
	panic("eachfeature: unknown feature kind " + kind)
}

// a loaded compact world per feature-kind list and child process
var compactCache = map[string]*compactWorld{}

type compactWorld struct {
	w      b6.World
	index  map[b6.FeatureID][2]int // feature → (bucket number over all blocks in enumeration order, rank in the bucket)
	layout string                  // blocks separated by ` `, buckets by `|`, features by `,`; `-` = empty bucket
}

// buildIndex runs compact.BuildInMemory for a kind list — in the parent process, once per kind list: a build takes
// from 0.1 s to many seconds (it allocates ~80 MB buffers per goroutine and pass; the collector is switched off
// while it runs) and is not what this check is about.
var indexCache = map[string][]byte{}

func buildIndex(kinds []string) []byte {
	key := strings.Join(kinds, "")
	if data, ok := indexCache[key]; ok {
		return data
	}
	fs := make([]ingest.Feature, len(kinds))
	for i, k := range kinds {
		fs[i] = makeFeature(k, i)
	}
	old := debug.SetGCPercent(-1)
	o := compact.Options{Goroutines: 2, PointsScratchOutputType: compact.OutputTypeMemory}
	data, err := compact.BuildInMemory(ingest.MemoryFeatureSource(fs), &o)
	debug.SetGCPercent(old)
	runtime.GC()
	if err != nil {
		panic(err)
	}
	data = append([]byte(nil), data...)
	indexCache[key] = data
	return data
}

func loadCompact(kinds []string, data []byte) *compactWorld {
	key := strings.Join(kinds, "")
	if cw, ok := compactCache[key]; ok {
		return cw
	}
	byID := map[b6.FeatureID]int{}
	for i, k := range kinds {
		byID[featureID(k, i)] = i
	}
	w, err := compact.NewWorldFromData(data)
	if err != nil {
		panic(err)
	}
	var h compact.Header
	h.Unmarshal(data)
	var fbs compact.FeatureBlocks
	fbs.Unmarshal(data[h.BlockOffset:])
	cw := &compactWorld{w: w, index: map[b6.FeatureID][2]int{}}
	var blocks []string
	bucket := 0
	// World.EachFeature goes through the blocks of points, then paths, areas, relations
	for _, t := range []b6.FeatureType{b6.FeatureTypePoint, b6.FeatureTypePath, b6.FeatureTypeArea, b6.FeatureTypeRelation} {
		for _, fb := range fbs {
			if fb.FeatureType != t {
				continue
			}
			n := fb.Map.Layout.SentinelBucket()
			per := make([][]uint64, n)
			it := fb.Map.Begin()
			for it.Next() {
				b := fb.Map.Layout.BucketForID(it.ID())
				per[b] = append(per[b], it.ID())
			}
			var bs []string
			for b := 0; b < n; b++ {
				ids := per[b]
				sort.Slice(ids, func(i, j int) bool { return ids[i] < ids[j] })
				var names []string
				for rank, id := range ids {
					fid := b6.FeatureID{Type: t, Namespace: verifNS, Value: id}
					i, ok := byID[fid]
					if !ok {
						panic(fmt.Sprintf("compact: unknown feature %s in the index", fid))
					}
					cw.index[fid] = [2]int{bucket, rank}
					names = append(names, fmt.Sprint(i))
				}
				if len(names) == 0 {
					bs = append(bs, "-")
				} else {
					bs = append(bs, strings.Join(names, ","))
				}
				bucket++
			}
			blocks = append(blocks, strings.Join(bs, "|"))
		}
	}
	cw.layout = hx.List(blocks)
	compactCache[key] = cw
	return cw
}

func runEachFeature(r *Run, rec *recorder) error {
	index := map[b6.FeatureID]int{}
	for i, k := range r.Kinds {
		index[featureID(k, i)] = i
	}
	each := func(f b6.Feature, goroutine int) error {
		i, ok := index[f.FeatureID()]
		if !ok {
			panic(fmt.Sprintf("eachfeature: unexpected feature %s", f.FeatureID()))
		}
		return rec.call(i, 0, goroutine, 1)
	}
	options := &b6.EachFeatureOptions{Goroutines: r.G}
	switch r.World {
	case "direct":
		byID := ingest.NewFeaturesByID()
		for i, k := range r.Kinds {
			byID.AddFeature(makeFeature(k, i))
		}
		return ingest.EachFeature(each, byID, ingest.NewFeatureReferences(), options)
	case "basic":
		w := ingest.NewBasicMutableWorld()
		for i, k := range r.Kinds {
			if err := w.AddFeature(makeFeature(k, i)); err != nil {
				panic(err)
			}
		}
		return w.EachFeature(each, options)
	case "overlay":
		base := ingest.NewBasicMutableWorld()
		for i, k := range r.Kinds {
			if r.phase(i) == 1 || i == 1 {
				if err := base.AddFeature(makeFeature(k, i)); err != nil {
					panic(err)
				}
			}
		}
		w := ingest.NewMutableOverlayWorld(base)
		for i, k := range r.Kinds {
			if r.phase(i) == 0 {
				if err := w.AddFeature(makeFeature(k, i)); err != nil {
					panic(err)
				}
			}
		}
		return w.EachFeature(each, options)
	case "compact":
		cw := loadCompact(r.Kinds, r.Index)
		rec.layout = cw.layout
		return cw.w.EachFeature(each, options)
	}
	panic("eachfeature: unknown world " + r.World)
}

// modtags: item i is the modified tag (point i/2, key "k<i%2>").
func runModTags(r *Run, rec *recorder) error {
	m := ingest.NewModifiedTags()
	for i := range r.Sizes {
		id := b6.FeatureID{Type: b6.FeatureTypePoint, Namespace: b6.Namespace("diagonal.works/verif"), Value: uint64(i / 2)}
		if i%3 == 2 {
			m.RemoveTag(id, fmt.Sprintf("k%d", i%2))
		} else {
			m.ModifyOrAddTag(id, b6.Tag{Key: fmt.Sprintf("k%d", i%2), Value: b6.NewStringExpression("v")})
		}
	}
	each := func(t ingest.ModifiedTag, goroutine int) error {
		return rec.call(int(t.ID.Value)*2+int(t.Tag.Key[1]-'0'), 0, goroutine, 1)
	}
	return m.EachModifiedTag(each, &b6.EachFeatureOptions{Goroutines: r.G})
}

func runOne(r *Run) string {
	rec := newRecorder(r)
	var err error
	switch r.Proto {
	case "eachitem":
		err = runEachItem(r, rec)
	case "memread":
		err = runMemRead(r, rec)
	case "pbf":
		err = runPBF(r, rec)
	case "eachfeature":
		err = runEachFeature(r, rec)
	case "modtags":
		err = runModTags(r, rec)
	default:
		panic("unknown protocol " + r.Proto)
	}
	return rec.answer(err)
}

// ---- child side: a batch of runs, each under a watchdog --------------------------------------

type batch struct {
	Runs      []Run
	TimeoutMs int
}

func childBatch(arg string) string {
	var b batch
	if err := json.Unmarshal([]byte(arg), &b); err != nil {
		return "badarg"
	}
	out := make([]string, len(b.Runs))
	for i := range b.Runs {
		r := &b.Runs[i]
		runtime.GOMAXPROCS(r.MP)
		done := make(chan string, 1)
		go func() {
			// a panic on a goroutine started by the code under test kills the child (answered `panic` by
			// the parent after an individual re-run); one on this goroutine is caught here.
			done <- hx.Recover(func() string { return runOne(r) })
		}()
		select {
		case a := <-done:
			out[i] = a
		case <-time.After(time.Duration(b.TimeoutMs) * time.Millisecond):
			out[i] = "hang"
		}
	}
	return strings.Join(out, "\n")
}

// ---- parent side ------------------------------------------------------------------------------

const batchSize = 100

func runBatch(runs []Run) []string {
	for i := range runs {
		if runs[i].Proto == "eachfeature" && runs[i].World == "compact" {
			runs[i].Index = buildIndex(runs[i].Kinds)
		}
	}
	arg, _ := json.Marshal(batch{Runs: runs, TimeoutMs: 2500})
	res := hx.RunChild("batch", string(arg), 120*time.Second)
	lines := strings.Split(res, "\n")
	ok := res != "hang" && res != "crash" && len(lines) == len(runs)
	out := make([]string, len(runs))
	for i := range runs {
		if ok && lines[i] != "hang" {
			out[i] = lines[i]
			continue
		}
		// alone, fresh process, longer timeout
		one, _ := json.Marshal(batch{Runs: runs[i : i+1], TimeoutMs: 10000})
		a := hx.RunChild("batch", string(one), 20*time.Second)
		if a == "crash" {
			a = "panic"
		}
		out[i] = a
	}
	return out
}

// ---- generator --------------------------------------------------------------------------------

var gs = []int{1, 2, 3, 8}
var mps = []int{1, 2, 4, 16}

// positions lists every (item, sub) of a run.
func positions(sizes []int) [][2]int {
	var ps [][2]int
	for k, s := range sizes {
		for j := 0; j < s; j++ {
			ps = append(ps, [2]int{k, j})
		}
	}
	return ps
}

// fill gives a run the defaults of the dimensions it does not mention (corpus entries).
func fill(run Run) Run {
	if run.Proto == "pbf" && run.Kinds == nil {
		run.Kinds = make([]string, len(run.Sizes))
		for i := range run.Kinds {
			run.Kinds[i] = "n"
		}
		run.Kinds[0] = "h"
	}
	if run.Proto == "eachfeature" {
		if run.World == "" {
			run.World = "direct"
		}
		if run.Kinds == nil {
			run.Kinds = make([]string, len(run.Sizes))
			for i := range run.Kinds {
				run.Kinds[i] = "p"
			}
		}
	}
	return run
}

var worlds = []string{"direct", "basic", "overlay", "compact"}
var featureKinds = []string{"p", "a", "A", "r"}
var blobKinds = []string{"n", "w", "r", "p", "m", "r", "n"}

// compact worlds are built once per kind list and child process, so only a few kind lists are used
var compactTemplates = []string{"pppapArA"} // one build per harness run

func split(t string) []string {
	out := make([]string, len(t))
	for i := range t {
		out[i] = t[i : i+1]
	}
	return out
}

func ones(n int) []int {
	sizes := make([]int, n)
	for i := range sizes {
		sizes[i] = 1
	}
	return sizes
}

func shape(r *hx.Rand, run *Run) {
	switch run.Proto {
	case "eachitem":
		n := 2 << r.Intn(3) // at least two buckets: the builder widens bucketBits to tagBits (= 1)
		if r.Chance(1, 8) {
			n = 16
		}
		run.Sizes = make([]int, n)
		for i := range run.Sizes {
			run.Sizes[i] = r.Intn(6)
			if r.Chance(1, 4) {
				run.Sizes[i] = 0
			}
		}
	case "pbf":
		n := 1 + r.Intn(10)
		run.Sizes = make([]int, n+1)
		run.Kinds = make([]string, n+1)
		run.Kinds[0] = "h"
		for i := 1; i <= n; i++ {
			run.Sizes[i] = 1 + r.Intn(4)
			run.Kinds[i] = blobKinds[r.Intn(len(blobKinds))]
		}
	case "eachfeature":
		run.World = worlds[r.Intn(3)]
		if r.Chance(1, 8) { // a compact world costs a build per kind list and child process
			run.World = "compact"
		}
		if run.World == "compact" {
			run.Kinds = split(compactTemplates[r.Intn(len(compactTemplates))])
		} else {
			n := 1 + r.Intn(12)
			if r.Chance(1, 10) {
				n = 13 + r.Intn(20)
			}
			run.Kinds = make([]string, n)
			for i := range run.Kinds {
				run.Kinds[i] = featureKinds[r.Intn(len(featureKinds))]
			}
		}
		run.Sizes = ones(len(run.Kinds))
	default:
		n := 1 + r.Intn(12)
		if r.Chance(1, 10) {
			n = 13 + r.Intn(20)
		}
		run.Sizes = ones(n)
	}
}

// systematic sweep: protocol (× world) × goroutine count × failing position on a fixed shape (cases 0 … sweepN-1)
func sweep() []Run {
	var out []Run
	add := func(base Run) {
		for _, g := range gs {
			for _, pos := range positions(base.Sizes) {
				run := base
				run.G, run.MP, run.Fail = g, 4, [][2]int{pos}
				out = append(out, run)
			}
		}
	}
	add(Run{Proto: "eachitem", Sizes: []int{2, 1, 4, 1, 0, 2, 1, 1}, Multi: true})
	add(Run{Proto: "memread", Sizes: ones(10)})
	add(Run{Proto: "pbf", Sizes: []int{0, 2, 2, 3, 1, 3, 2}, Kinds: split("hnwrpmr")})
	for _, w := range worlds {
		if w == "overlay" { // every feature kind among the overlay's own features (0 1 3 6 9) and among the base world's
			add(Run{Proto: "eachfeature", World: w, Kinds: split("paArpaArpaAr"), Sizes: ones(12)})
		} else {
			add(Run{Proto: "eachfeature", World: w, Kinds: split("pppapArA"), Sizes: ones(8)})
		}
	}
	add(Run{Proto: "modtags", Sizes: ones(10)})
	return out
}

var sweepRuns = sweep()

func caseRand(seed uint64, no int) *hx.Rand {
	return hx.NewRand(seed*0x9e3779b97f4a7c15 ^ uint64(no)*0xd1342543de82ef95 ^ 0x5851f42d4c957f2d)
}

func genRun(seed uint64, no int) Run {
	r := caseRand(seed, no)
	if no < len(sweepRuns) {
		run := sweepRuns[no]
		run.Y = r.Uint64() % 1000000
		run.MP = mps[r.Intn(len(mps))]
		run.Once = r.Chance(1, 4)
		run.Ev = errKinds[r.Intn(len(errKinds))]
		return run
	}
	run := Run{Proto: protos[r.Intn(len(protos))], G: gs[r.Intn(len(gs))], MP: mps[r.Intn(len(mps))], Y: r.Uint64() % 1000000}
	if r.Chance(1, 10) {
		run.G = 1 + r.Intn(8)
	}
	shape(r, &run)
	if run.Proto == "memread" && r.Chance(1, 3) {
		run.Cancel = 1 + r.Intn(len(run.Sizes))
	}
	run.Multi = r.Bool()
	run.Ev = errKinds[r.Intn(len(errKinds))]
	run.Once = r.Chance(1, 3)
	ps := positions(run.Sizes)
	switch x := r.Intn(20); {
	case len(ps) == 0 || x < 3: // nothing fails
	case x < 15: // one failing position, early positions a little more often
		i := r.Intn(len(ps))
		if r.Chance(1, 4) {
			i = r.Intn(1 + len(ps)/4)
		}
		run.Fail = [][2]int{ps[i]}
	case x < 19: // a few
		for _, i := range r.Perm(len(ps))[:1+r.Intn(min(3, len(ps)))] {
			run.Fail = append(run.Fail, ps[i])
		}
	default: // everything fails
		run.Fail = ps
	}
	return run
}

var corpus = []Run{
	// EachItem, 1 goroutine, 8 buckets, first callback fails: hung (feeder kept offering buckets to nobody) — DESIGN §7
	{Proto: "eachitem", G: 1, MP: 4, Sizes: []int{1, 1, 1, 1, 1, 1, 1, 1}, Fail: [][2]int{{0, 0}}},
	{Proto: "eachitem", G: 1, MP: 1, Sizes: []int{1, 1, 1, 1}, Fail: [][2]int{{0, 0}}},
	{Proto: "eachitem", G: 2, MP: 4, Sizes: []int{1, 1, 1, 1, 1, 1, 1, 1}, Fail: [][2]int{{0, 0}, {1, 0}}},
	// EachItem lost the error of a callback that fails once on a non-last id of its bucket (trailing f(...) overwrote err)
	{Proto: "eachitem", G: 1, MP: 4, Sizes: []int{3, 1}, Fail: [][2]int{{0, 0}}, Once: true},
	{Proto: "eachitem", G: 2, MP: 4, Sizes: []int{3, 2}, Fail: [][2]int{{0, 1}}, Once: true, Multi: true},
	// … and called the failing id a second time, with the tags of the rest of the bucket
	{Proto: "eachitem", G: 1, MP: 4, Sizes: []int{3, 1}, Fail: [][2]int{{0, 0}}, Multi: true},
	// MemoryFeatureSource.Read: producer blocked on a full channel after every feeder left
	{Proto: "memread", G: 1, MP: 4, Sizes: []int{1, 1, 1, 1, 1, 1, 1, 1}, Fail: [][2]int{{0, 0}}},
	{Proto: "memread", G: 2, MP: 4, Sizes: []int{1, 1, 1, 1, 1, 1, 1, 1, 1, 1, 1, 1}, Fail: [][2]int{{0, 0}, {1, 0}}},
	// ReadPBFWithOptions: stale blob left in the channel, reader blocked sending the done blobs
	{Proto: "pbf", G: 1, MP: 4, Sizes: []int{0, 1, 1, 1, 1}, Fail: [][2]int{{1, 0}}},
	{Proto: "pbf", G: 2, MP: 1, Sizes: []int{0, 1, 1, 1, 1, 1, 1}, Fail: [][2]int{{1, 0}, {2, 0}}},
	// the errgroup protocols with everything failing
	{Proto: "eachfeature", G: 1, MP: 4, Sizes: []int{1, 1, 1, 1}, Fail: [][2]int{{0, 0}, {1, 0}, {2, 0}, {3, 0}}},
	{Proto: "modtags", G: 1, MP: 4, Sizes: []int{1, 1, 1, 1}, Fail: [][2]int{{0, 0}, {1, 0}, {2, 0}, {3, 0}}},
	// Read with the caller's context cancelled inside the 2nd callback (the old producer ignored the context and hung
	// once the feeders had left), with and without a failing callback
	{Proto: "memread", G: 1, MP: 4, Sizes: []int{1, 1, 1, 1, 1, 1, 1, 1}, Cancel: 2},
	{Proto: "memread", G: 2, MP: 4, Sizes: []int{1, 1, 1, 1, 1, 1, 1, 1, 1, 1, 1, 1}, Cancel: 1, Fail: [][2]int{{5, 0}}},
	// a callback that returns one of the sentinel errors the implementation compares with: still an error to report
	// (seeded change C28-4 filtered `context.Canceled` out of what ReadPBFWithOptions returns)
	{Proto: "pbf", G: 1, MP: 4, Sizes: []int{0, 2, 2}, Fail: [][2]int{{1, 1}}, Ev: "canceled"},
	{Proto: "pbf", G: 2, MP: 4, Sizes: []int{0, 2, 2}, Fail: [][2]int{{2, 0}}, Ev: "eof"},
	{Proto: "memread", G: 2, MP: 4, Sizes: []int{1, 1, 1, 1}, Fail: [][2]int{{1, 0}}, Ev: "canceled"},
	{Proto: "eachitem", G: 2, MP: 4, Sizes: []int{2, 1}, Fail: [][2]int{{0, 1}}, Ev: "deadline"},
	{Proto: "eachfeature", G: 2, MP: 4, Sizes: []int{1, 1, 1}, Fail: [][2]int{{1, 0}}, Ev: "canceled"},
	{Proto: "modtags", G: 2, MP: 4, Sizes: []int{1, 1, 1}, Fail: [][2]int{{1, 0}}, Ev: "canceled"},
	// ReadPBF: a callback error on a RELATION (first / middle / last of its group, last blob; also in a mixed block)
	// must be reported like one on a node or a way (seeded change C28-1 dropped it)
	{Proto: "pbf", G: 1, MP: 4, Sizes: []int{0, 2, 3}, Kinds: []string{"h", "n", "r"}, Fail: [][2]int{{2, 0}}},
	{Proto: "pbf", G: 2, MP: 4, Sizes: []int{0, 1, 3, 2}, Kinds: []string{"h", "w", "r", "n"}, Fail: [][2]int{{2, 1}}},
	{Proto: "pbf", G: 3, MP: 2, Sizes: []int{0, 2, 3}, Kinds: []string{"h", "w", "r"}, Fail: [][2]int{{2, 2}}},
	{Proto: "pbf", G: 1, MP: 4, Sizes: []int{0, 3, 3}, Kinds: []string{"h", "m", "m"}, Fail: [][2]int{{2, 2}}},
	{Proto: "pbf", G: 2, MP: 4, Sizes: []int{0, 3, 2}, Kinds: []string{"h", "p", "w"}, Fail: [][2]int{{1, 1}}},
	// EachFeature through every kind of world, failing on a relation / an area / a base-world feature
	{Proto: "eachfeature", World: "basic", G: 2, MP: 4, Sizes: ones(4), Kinds: split("paAr"), Fail: [][2]int{{3, 0}}},
	{Proto: "eachfeature", World: "overlay", G: 1, MP: 4, Sizes: ones(8), Kinds: split("pppapArA"), Fail: [][2]int{{5, 0}}},
	{Proto: "eachfeature", World: "overlay", G: 2, MP: 4, Sizes: ones(8), Kinds: split("pppapArA"), Fail: [][2]int{{6, 0}}},
	{Proto: "eachfeature", World: "compact", G: 1, MP: 4, Sizes: ones(8), Kinds: split("pppapArA"), Fail: [][2]int{{6, 0}}},
	{Proto: "eachfeature", World: "compact", G: 2, MP: 4, Sizes: ones(8), Kinds: split("pppapArA"), Fail: [][2]int{{5, 0}}},
}

func note(c *hx.Ctx, r *Run, ans string) {
	c.Note("proto:" + r.Proto)
	if len(r.Fail) > 0 {
		ev := r.Ev
		if ev == "" {
			ev = "new"
		}
		c.Note("error-value:" + r.Proto + ":" + ev)
	}
	if r.Cancel > 0 {
		c.Note("memread:caller-cancels")
		if strings.Count(ans, "@") > r.Cancel-1 {
			c.Note("memread:caller-cancelled")
		}
	}
	if r.Proto == "eachfeature" {
		c.Note("world:" + r.World)
	}
	c.Note(fmt.Sprintf("g:%d", r.G))
	c.Note(fmt.Sprintf("mp:%d", r.MP))
	c.Note(fmt.Sprintf("items:%d", len(r.Sizes)/4*4))
	switch n := len(r.Fail); {
	case n == 0:
		c.Note("fail:none")
	case n == 1:
		c.Note("fail:one")
		c.Note("site:" + site(r, r.Fail[0][0], r.Fail[0][1]))
		ps := positions(r.Sizes)
		for i, p := range ps {
			if p == r.Fail[0] {
				c.Note(fmt.Sprintf("failpos-decile:%d", i*10/len(ps)))
			}
		}
	case n == len(positions(r.Sizes)):
		c.Note("fail:all")
	default:
		c.Note("fail:some")
	}
	out := strings.SplitN(ans, " ", 2)[0]
	c.Note("outcome:" + out)
	if i := strings.Index(ans, "!"); i >= 0 {
		after := strings.Count(ans[i:], "@") // callbacks entered after the first failing one
		b := after
		if b > 8 {
			b = 8 + (b-8)/8*8
		}
		c.Note(fmt.Sprintf("callbacks-after-first-failure:%d", b))
	}
	if len(r.Fail) > 0 {
		c.NonTrivial()
	}
}

func main() {
	hx.RegisterChild("batch", childBatch)
	cache := map[int]string{}
	var cacheSeed uint64
	hx.Main(hx.Family{
		Name: "c28",
		Rule: "one run of one of the five streaming APIs (eachitem/memread/pbf/eachfeature/modtags) with goroutine counts 1,2,3,8 (sometimes 1..8), GOMAXPROCS 1/2/4/16, item shapes up to 32 items, a callback that yields/sleeps per a seeded plan and fails at one position (60%), a few (20%), all (5%) or none (15%); cases 0.." + fmt.Sprint(len(sweepRuns)-1) + " sweep protocol x goroutines x every failing position of a fixed shape; non-trivial = at least one failing position; distinct = by hash of the op text",
		Quick:    2000,
		Thorough: 20000,
		Corpus: func(c *hx.Ctx) {
			runs := make([]Run, 0, 2*len(corpus))
			for _, r := range corpus {
				for _, y := range []uint64{1, 2} {
					r := fill(r)
					r.Y = y
					runs = append(runs, r)
				}
			}
			for i, a := range runBatch(runs) {
				c.Op(runs[i].opText(), a)
				note(c, &runs[i], a)
			}
		},
		Case: func(c *hx.Ctx) {
			if cacheSeed != c.Seed {
				cache, cacheSeed = map[int]string{}, c.Seed
			}
			if _, ok := cache[c.CaseNo]; !ok {
				runs := make([]Run, batchSize)
				for i := range runs {
					runs[i] = genRun(c.Seed, c.CaseNo+i)
				}
				for i, a := range runBatch(runs) {
					cache[c.CaseNo+i] = a
				}
			}
			r := genRun(c.Seed, c.CaseNo)
			a := cache[c.CaseNo]
			delete(cache, c.CaseNo)
			c.Op(r.opText(), a)
			note(c, &r, a)
		},
	})
}
