// Package hx is the shared plumbing of the correspondence harnesses: one PRNG per case derived
// from (VERIF_SEED, case index), an operation-line writer, distribution statistics, and a
// child-process runner for operations that can kill or hang the process.
package hx

import (
	"bufio"
	"encoding/json"
	"flag"
	"fmt"
	"hash/fnv"
	"os"
	"os/exec"
	"sort"
	"strings"
	"time"
)

// Rand is splitmix64; every random choice of a case derives from one state.
type Rand struct{ s uint64 }

func NewRand(seed uint64) *Rand { return &Rand{s: seed} }

func (r *Rand) Uint64() uint64 {
	r.s += 0x9e3779b97f4a7c15
	z := r.s
	z = (z ^ (z >> 30)) * 0xbf58476d1ce4e5b9
	z = (z ^ (z >> 27)) * 0x94d049bb133111eb
	return z ^ (z >> 31)
}

// Intn returns a value in [0,n); n<=0 gives 0.
func (r *Rand) Intn(n int) int {
	if n <= 0 {
		return 0
	}
	return int(r.Uint64() % uint64(n))
}

func (r *Rand) Bool() bool { return r.Uint64()&1 == 1 }

// Chance is true with probability num/den.
func (r *Rand) Chance(num, den int) bool { return r.Intn(den) < num }

// Pick returns one of the strings.
func (r *Rand) Pick(xs []string) string { return xs[r.Intn(len(xs))] }

// Perm returns a permutation of 0..n-1.
func (r *Rand) Perm(n int) []int {
	p := make([]int, n)
	for i := range p {
		p[i] = i
	}
	for i := n - 1; i > 0; i-- {
		j := r.Intn(i + 1)
		p[i], p[j] = p[j], p[i]
	}
	return p
}

// Uint64Edge draws from boundary values and random values of random bit width.
func (r *Rand) Uint64Edge() uint64 {
	edges := []uint64{0, 1, 2, 127, 128, 255, 256, 16383, 16384, 1<<31 - 1, 1 << 31, 1<<32 - 1, 1 << 32,
		1<<62 - 1, 1 << 62, 1<<63 - 1, 1 << 63, 1<<63 + 1, 1<<64 - 2, 1<<64 - 1}
	switch r.Intn(3) {
	case 0:
		return edges[r.Intn(len(edges))]
	case 1:
		return r.Uint64() >> uint(r.Intn(64))
	default:
		return r.Uint64()
	}
}

// Ctx is handed to a family's case generator.
type Ctx struct {
	Seed     uint64
	Tier     string
	Rand     *Rand // re-seeded per case
	CaseNo   int
	w        *bufio.Writer
	hist     map[string]int
	distinct map[uint64]struct{}
	cases    int
	ops      int
	caseKey  strings.Builder
	nontriv  bool
}

// Thorough reports whether the thorough tier was requested.
func (c *Ctx) Thorough() bool { return c.Tier == "thorough" }

// Op writes one operation line together with the implementation's canonical answer.
func (c *Ctx) Op(op string, answer string) {
	if strings.Contains(op, " => ") || strings.ContainsAny(op, "\n\r") || strings.ContainsAny(answer, "\n\r") {
		panic("hx: malformed op line: " + op)
	}
	fmt.Fprintf(c.w, "%s => %s\n", op, answer)
	c.ops++
	c.caseKey.WriteString(op)
	c.caseKey.WriteByte('\n')
}

// Comment writes a comment line (ignored by the driver).
func (c *Ctx) Comment(s string) { fmt.Fprintf(c.w, "# %s\n", strings.ReplaceAll(s, "\n", " ")) }

// Note bumps a histogram bucket (input distribution, branches hit, error kinds…).
func (c *Ctx) Note(key string) { c.hist[key]++ }

// NonTrivial marks the current case as non-trivial by the family's stated rule.
func (c *Ctx) NonTrivial() { c.nontriv = true }

type Stats struct {
	Family             string         `json:"family"`
	Seed               uint64         `json:"seed"`
	Tier               string         `json:"tier"`
	Cases              int            `json:"cases"`
	Ops                int            `json:"ops"`
	DistinctNontrivial int            `json:"distinct_nontrivial"`
	Histogram          map[string]int `json:"histogram"`
	Rule               string         `json:"rule"`
}

// Family describes one harness: how many cases per tier and how to generate one case.
type Family struct {
	Name     string
	Rule     string // how cases are generated and what makes one non-trivial
	Quick    int    // cases in the quick tier
	Thorough int    // cases in the thorough tier
	Corpus   func(c *Ctx) // minimised past failures / fixed witnesses, run first (case numbers < 0 are not used; corpus cases are numbered from 1000000)
	Case     func(c *Ctx) // generate and run case c.CaseNo with c.Rand
}

// Main parses the common flags and runs the family.
func Main(f Family) {
	seed := flag.Uint64("seed", 1, "PRNG seed (VERIF_SEED)")
	tier := flag.String("tier", "quick", "quick|thorough")
	out := flag.String("out", "", "ops file to write")
	stats := flag.String("stats", "", "stats json to write")
	only := flag.Int("only-case", -1, "generate only this case number (replay)")
	n := flag.Int("n", 0, "override the number of cases")
	flag.Parse()
	if ChildMode() {
		return
	}
	w := bufio.NewWriterSize(os.Stdout, 1<<20)
	if *out != "" {
		fh, err := os.Create(*out)
		if err != nil {
			fmt.Fprintln(os.Stderr, err)
			os.Exit(2)
		}
		defer fh.Close()
		w = bufio.NewWriterSize(fh, 1<<20)
	}
	c := &Ctx{Seed: *seed, Tier: *tier, w: w, hist: map[string]int{}, distinct: map[uint64]struct{}{}}
	count := f.Quick
	if *tier == "thorough" {
		count = f.Thorough
	}
	if *n > 0 {
		count = *n
	}
	runCase := func(no int, gen func(*Ctx)) {
		c.CaseNo = no
		c.Rand = NewRand(*seed*0x9e3779b97f4a7c15 ^ uint64(no)*0xd1342543de82ef95 ^ 0x5851f42d4c957f2d)
		c.caseKey.Reset()
		c.nontriv = false
		fmt.Fprintf(w, "case %d %s seed=%d\n", no, f.Name, *seed)
		gen(c)
		c.cases++
		if c.nontriv {
			h := fnv.New64a()
			h.Write([]byte(c.caseKey.String()))
			c.distinct[h.Sum64()] = struct{}{}
		}
	}
	if *only >= 0 {
		if *only >= 1000000 && f.Corpus != nil {
			runCase(*only, f.Corpus)
		} else {
			runCase(*only, f.Case)
		}
	} else {
		if f.Corpus != nil {
			runCase(1000000, f.Corpus)
		}
		for i := 0; i < count; i++ {
			runCase(i, f.Case)
		}
	}
	w.Flush()
	if *stats != "" {
		st := Stats{Family: f.Name, Seed: *seed, Tier: *tier, Cases: c.cases, Ops: c.ops,
			DistinctNontrivial: len(c.distinct), Histogram: c.hist, Rule: f.Rule}
		b, _ := json.MarshalIndent(st, "", " ")
		os.WriteFile(*stats, b, 0o644)
	}
}

// Recover runs f and maps a Go panic to the answer "panic".
func Recover(f func() string) (ans string) {
	defer func() {
		if r := recover(); r != nil {
			ans = "panic"
		}
	}()
	return f()
}

// ---- child-process runner -------------------------------------------------------------------
//
// Operations that can kill the process (fatal stack overflow) or hang (deadlock) are executed in
// a child: the same binary re-invoked with HX_CHILD=<name> and the argument on stdin. Children are
// registered with RegisterChild before Main is called.

var children = map[string]func(arg string) string{}

func RegisterChild(name string, f func(arg string) string) { children[name] = f }

// ChildMode runs the requested child function when HX_CHILD is set.
func ChildMode() bool {
	name := os.Getenv("HX_CHILD")
	if name == "" {
		return false
	}
	f, ok := children[name]
	if !ok {
		fmt.Println("hx-child-unknown")
		return true
	}
	in, _ := os.ReadFile("/dev/stdin")
	res := Recover(func() string { return f(string(in)) })
	fmt.Print("HXRESULT " + res)
	return true
}

// RunChild executes the registered child function in a fresh process with a timeout.
// It returns the child's answer, or "hang" on timeout, or "crash" when the process died.
func RunChild(name string, arg string, timeout time.Duration) string {
	self, _ := os.Executable()
	cmd := exec.Command(self)
	cmd.Env = append(os.Environ(), "HX_CHILD="+name, "GOMEMLIMIT=2GiB")
	cmd.Stdin = strings.NewReader(arg)
	var sb strings.Builder
	cmd.Stdout = &sb
	if err := cmd.Start(); err != nil {
		return "crash"
	}
	done := make(chan error, 1)
	go func() { done <- cmd.Wait() }()
	select {
	case <-done:
	case <-time.After(timeout):
		cmd.Process.Kill()
		<-done
		return "hang"
	}
	s := sb.String()
	if i := strings.LastIndex(s, "HXRESULT "); i >= 0 {
		return s[i+len("HXRESULT "):]
	}
	return "crash"
}

// SortedKeys returns the keys of a string-keyed map in order (canonicalisation helper).
func SortedKeys[V any](m map[string]V) []string {
	ks := make([]string, 0, len(m))
	for k := range m {
		ks = append(ks, k)
	}
	sort.Strings(ks)
	return ks
}

// List renders words as "[a b c]".
func List(xs []string) string { return "[" + strings.Join(xs, " ") + "]" }

// Hex renders bytes as lowercase hex, "-" when empty.
func Hex(b []byte) string {
	if len(b) == 0 {
		return "-"
	}
	return fmt.Sprintf("%x", b)
}
