-- Root of the `B6` library: every model, spec, property and driver module.
import B6.Driver.Common
import B6.Model.Tags
import B6.Spec.OrderedMap
import B6.Props.C39
import B6.Driver.C39
