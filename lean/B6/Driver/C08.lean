import B6.Driver.Common
import B6.Model.Posting
import B6.Spec.Cursor
/-!
Driver for C08 (posting lists).  Ops written by harness/cmd/c08:

  `table [names]`             answer `[FromEncoded]`             (`""` is written `_`)
  `fill <tokenhex> [t:ns:v …]` answer `<hex of PostingList.Marshal>` | `panic`   (token bytes as hex, `-` = empty)
  `iter`                      answer `ok` (`panic`/`hang` = `NewIterator` failed on the header: propfail `roundtrip`)
  `next`                      answer `true t:ns:v` | `false` | `panic` | `hang`
  `adv t:ns:v`                answer `true t:ns:v` | `false` | `panic`

Every answer is recomputed with `B6.Model.Posting` (the model the theorems of `B6.Props.C08` are about):
`fillFromNamespaces`, `marshal (fill …)` byte for byte, `next`, `advance`.  The iterator model runs on the posting
list **unmarshalled from the implementation's bytes**, so a wrong encoder shows up in the reads as well.

Property predicate (evaluated on the implementation's answers, on the property's domain = table strictly
sorted, ids valid and strictly increasing, target namespace in the table, no `false` answered yet):
* `fill`: the model decoder drains the implementation's bytes to exactly the ids given (`roundtrip`);
* `next` / `adv k`: the answer is the one of the spec cursor `B6.Spec.Cursor` over the id list (`next` / `advance`).
Outside the domain only the model answer is compared (`diff`).
After a disagreement the model iterator and the cursor are re-synchronised on the id the implementation reported.
-/
open B6.Driver B6.Model.Posting B6.Model.Varint
open B6.Spec.Cursor (Cursor)
namespace B6.Driver.C08

def nameOfWord (w : String) : String := if w == "_" then "" else w
def wordOfName (n : String) : String := if n == "" then "_" else n

def parseKey (w : String) : Option Key :=
  match w.splitOn ":" with
  | [t, ns, v] =>
    match t.toNat?, v.toNat? with
    | some t, some v => if v < 2 ^ 64 then some ⟨t, nameOfWord ns, v⟩ else none
    | _, _ => none
  | _ => none

def renderKey (k : Key) : String := s!"{k.type}:{wordOfName k.ns}:{k.value}"

def renderErr : Err → String
  | .panic => "panic"
  | .corrupt => "corrupt"
  | .fuel => "fuel"

structure St where
  tbl : Table := ⟨[]⟩
  tblOK : Bool := false          -- names strictly increasing (no duplicate)
  ids : List Id := []
  inDomain : Bool := false
  pl : PostingList := ⟨⟨[], 0, []⟩, []⟩
  it : It := It.start
  cursor : Cursor := B6.Spec.Cursor.start []
  live : Bool := false           -- an iterator exists and has not answered `false` / `panic` yet

def strictNames : List String → Bool
  | [] => true
  | [_] => true
  | a :: b :: rest => decide (a < b) && strictNames (b :: rest)

def idOfNat (x : Nat) : Id := (x / 2 ^ 64, x % 2 ^ 64)

/-- answer text for a successful call landing on iterator state `it` -/
def renderTrue (st : St) (it : It) : String :=
  match featureID st.pl st.tbl it with
  | .ok k => "true " ++ renderKey k
  | .error e => renderErr e

def renderRes (st : St) : Except Err (Bool × It) → String
  | .ok (true, it) => renderTrue st it
  | .ok (false, _) => "false"
  | .error e => renderErr e

/-- spec answer: the cursor result rendered through the table -/
def renderSpec (st : St) (r : Bool × Cursor) : String :=
  if r.1 then
    match r.2.cur with
    | some x => match st.tbl.decodeId (idOfNat x) with
      | .ok k => "true " ++ renderKey k
      | .error e => renderErr e
    | none => "spec-error"
  else "false"

/-- model iterator state after the implementation reported `id`: walk from the start -/
def findState (p : PostingList) (target : Id) : Nat → It → Option It
  | 0, _ => none
  | fuel + 1, it =>
    match next p it with
    | .ok (true, it') =>
      match cur p it' with
      | .ok id => if id = target then some it' else findState p target fuel it'
      | .error _ => none
    | _ => none

/-- cursor positioned on `x` -/
def cursorAt (xs : List Nat) (x : Nat) : Option Cursor :=
  let before := xs.takeWhile (· ≠ x)
  match xs.drop before.length with
  | y :: rest => some ⟨before ++ [y], rest⟩
  | [] => none

/-- re-synchronise on the implementation's answer -/
def resync (st : St) (impl : String) (modelIt : It) : St :=
  match words impl with
  | ["true", w] =>
    match parseKey w with
    | some k =>
      match st.tbl.encodeKey k with
      | .ok id =>
        let it := (findState st.pl id (st.pl.ids.length + 1) It.start).getD modelIt
        match cursorAt st.cursor.xs (keyNat id) with
        | some c => { st with it := it, cursor := c }
        | none => { st with it := it, live := false }
      | .error _ => { st with it := modelIt, live := false }
    | none => { st with it := modelIt, live := false }
  | _ => { st with it := modelIt, live := false }

/-- a call outside the spec's domain (target namespace outside the table) that still moved the iterator:
put the cursor on the id that was reported -/
def resyncCursor (st : St) (impl : String) (it : It) : St :=
  match words impl with
  | ["true", w] =>
    match (parseKey w).bind (fun k => match st.tbl.encodeKey k with | .ok id => some id | .error _ => none) with
    | some id =>
      match cursorAt st.cursor.xs (keyNat id) with
      | some c => { st with it := it, cursor := c }
      | none => { st with it := it, live := false }
    | none => { st with it := it, live := false }
  | _ => { st with it := it, live := false }

def firstDiff : List UInt8 → List UInt8 → Nat → Nat
  | a :: as, b :: bs, n => if a = b then firstDiff as bs (n + 1) else n
  | _, _, n => n

def stepCall (st : St) (impl : String) (model : Except Err (Bool × It)) (spec : Option (Bool × Cursor))
    (clause : String) : St × Verdict :=
  let m := renderRes st model
  let modelIt := match model with | .ok (_, it) => it | .error _ => st.it
  let specAns := spec.map (renderSpec st)
  let verdict : Verdict :=
    match specAns with
    | some s => if impl == s then (if impl == m then .ok else .diff m) else .propfail clause
    | none => if impl == m then .ok else .diff m
  let agree := impl == m && (match specAns with | some s => impl == s | none => true)
  let st' :=
    if agree then
      match model, spec with
      | .ok (true, it), some (_, c) => { st with it := it, cursor := c }
      | .ok (true, it), none => resyncCursor st impl it
      | .ok (false, it), _ => { st with it := it, live := false }
      | .error _, _ => { st with live := false }
    else resync st impl modelIt
  (st', verdict)

def step (st : St) (op impl : String) : St × Verdict :=
  match words op with
  | "table" :: _ =>
    match parseBracket (sdrop op 6), parseBracket impl with
    | some ws, some out =>
      let m := fillFromNamespaces (ws.map nameOfWord)
      let implNames := out.map nameOfWord
      let mText := renderList (m.names.map wordOfName)
      -- order-preserving encoding: FromEncoded must be ascending
      let asc := strictNames implNames || implNames == m.names
      ({ tbl := ⟨implNames⟩, tblOK := strictNames implNames },
        if !asc then .propfail "table-order" else if impl == mText then .ok else .diff mText)
    | _, _ => (st, .bad)
  | "fill" :: tok :: _ =>
    match parseBracket (sdrop op (5 + tok.length + 1)) with
    | none => (st, .bad)
    | some ws =>
      match ws.mapM parseKey with
      | none => (st, .bad)
      | some keys =>
        match keys.mapM (fun k => match st.tbl.encodeKey k with | .ok id => some id | .error _ => none) with
        | none =>
          ({ st with ids := [], inDomain := false, live := false }, if impl == "panic" then .ok else .diff "panic")
        | some ids =>
          let inDomain := st.tblOK && ids.all validId && sortedChain ids &&
            keys.all (fun k => decide (k.type < 8)) && decide (st.tbl.names.length ≤ 8192)
          match parseHex tok with
          | none => (st, .bad)
          | some tokBytes =>
          let mpl := fill tokBytes ids
          let mbytes := marshal mpl
          match parseHex impl with
          | none =>
            ({ st with ids := ids, inDomain := inDomain, pl := mpl, live := false },
              if inDomain then .propfail "roundtrip" else .diff "bytes")
          | some ibytes =>
            let ipl := unmarshal ibytes
            let pl := ipl.getD mpl
            let rtOK := match ipl with
              | some p => drain p == some ids && p.header.features == ids.length
              | none => false
            let st' := { st with ids := ids, inDomain := inDomain, pl := pl, live := false,
                                 cursor := B6.Spec.Cursor.start (ids.map keyNat) }
            if inDomain && !rtOK then (st', .propfail "roundtrip")
            else if ibytes == mbytes then (st', .ok)
            else (st', .diff s!"bytes-differ-at-{firstDiff ibytes mbytes 0}")
  | ["iter"] =>
    -- `NewIterator` must get past the header (token of any length) without failing
    ({ st with it := It.start, cursor := B6.Spec.Cursor.start (st.ids.map keyNat), live := impl == "ok" },
      if impl == "ok" then .ok else if st.inDomain then .propfail "roundtrip" else .diff "ok")
  | ["next"] =>
    let model := next st.pl st.it
    let spec := if st.inDomain && st.live then some st.cursor.next else none
    stepCall st impl model spec "next"
  | ["adv", w] =>
    match parseKey w with
    | none => (st, .bad)
    | some key =>
      let model := advance st.pl st.tbl key st.it
      let spec :=
        if st.inDomain && st.live && key.type < 8 then
          match st.tbl.encodeKey key with
          | .ok id => some (st.cursor.advance (keyNat id))
          | .error _ => none
        else none
      stepCall st impl model spec "advance"
  | _ => (st, .bad)

def family : Family := { σ := St, init := {}, step := step }

end B6.Driver.C08

def main : IO Unit := B6.Driver.run B6.Driver.C08.family
