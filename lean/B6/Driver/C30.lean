import B6.Driver.Common
import B6.Model.Dijkstra
/-!
Driver for C30.  State = the `Traverse` adjacency of the current world as dumped by the harness (real
`World.Traverse` + real `Weights`), which is the model's `Graph`.

ops (points `n<k>`, segments `w<way>.<first>.<last>`, integer weights/distances, `inf` = +Inf):
  `world <kind> [p …] [w=p,p,… …]`                 answer `[pt/seg/first/last/usable/weight …]`  (recorded; paths)
  `search <o> <max> zu=<0|1> bf=[p:d …]`           answer `[p:d:origin/seg-dest-cost/… …]` sorted by p
  `searchto <o> <to> <max> zu=<0|1> bf=[p:d …]`    answer as above (all `byPoint` entries after `ExpandSearchTo`; `to` may be `o`)
  `access <o> <max> zu=<0|1> bf=[p:d …]`           answer `[p:d …] | [seg:n …] | [q …]`: `ComputeAccessibility`'s distance for every
                                                   point the search reached, per-segment path counts, interpolated points

`bf` = Bellman–Ford distances computed by the harness over the same adjacency (no limit): the reference for
the property predicate.  `zu` = outcome of the connectivity probe of `NewShortestPathSearchFromPoint`.

Verdicts.  Model answer = `Model.Dijkstra.search` / `searchTo` (exact `container/heap` simulation, every pop
checked to be a queued minimum).  Predicate on the implementation's answer:
  `distance`  a reported point's distance differs from the true shortest distance (or the point is unreachable)
  `route`     a reported route is not a chain of usable segments from the origin with accumulated costs
              ending at the point with the reported distance
  `complete`  a point with true distance `< max` is missing (the origin itself is exempt when it has no usable
              outgoing segment, i.e. is not on the network)
  `traverse-first`  a dumped segment does not start at the point it was traversed from (outside C30; the
              route theorem assumes it)
-/
open B6.Driver B6.Model.Dijkstra
namespace B6.Driver.C30

abbrev E := Edge String String Nat
abbrev T := Table String String Nat

structure World where
  points : List String
  edges : List (String × E)        -- (traversed-from point, segment) in dump order
  paths : List (String × List String) := []   -- way ↦ its points in path order
  ok : Bool                         -- a world line has been seen

def World.graph (w : World) : Graph String String Nat :=
  ⟨fun p => (w.edges.filter (fun x => x.1 == p)).map (·.2)⟩

def parseNat? (s : String) : Option Nat := s.toNat?

def parseEdge (s : String) : Option (String × E) :=
  match s.splitOn "/" with
  | [pt, seg, first, last, u, w] => do
    let wn ← parseNat? w
    let ub ← (if u == "1" then some true else if u == "0" then some false else none)
    pure (pt, { seg := seg, first := first, last := last, usable := ub, weight := wn })
  | _ => none

/-- `p:d` pairs -/
def parseBF (s : String) : Option (List (String × Nat)) := do
  let ws ← parseBracket s
  ws.mapM fun w => match w.splitOn ":" with
    | [p, d] => do pure (p, ← parseNat? d)
    | _ => none

inductive Dist where
  | fin (n : Nat)
  | inf
deriving BEq

structure RStep where
  seg : String
  dest : String
  cost : String

structure REntry where
  point : String
  dist : Dist
  origin : String
  steps : List RStep

def parseDist (s : String) : Option Dist :=
  if s == "inf" then some .inf else (parseNat? s).map .fin

def parseEntry (s : String) : Option REntry :=
  match s.splitOn ":" with
  | [p, d, route] => do
    let dist ← parseDist d
    match route.splitOn "/" with
    | [] => none
    | o :: rest =>
      let steps ← rest.mapM fun st => match st.splitOn "-" with
        | [seg, dest, cost] => some { seg := seg, dest := dest, cost := cost : RStep }
        | _ => none
      pure { point := p, dist := dist, origin := o, steps := steps }
  | _ => none

def parseEntries (s : String) : Option (List REntry) := do
  let ws ← parseBracket s
  ws.mapM parseEntry

/-! rendering of the model's table, same format as the harness -/

def strLe (a b : String) : Bool := a < b || a == b

def renderEntry (t : T) (inf : Option Nat) (p : String) (e : Entry String String Nat) : Option String := do
  let (o, steps) ← buildRoute t (t.length + 1) p []
  let d := if inf == some e.dist then "inf" else toString e.dist
  let parts := o :: steps.map fun st => s!"{st.via.seg}-{st.dest}-{st.cost}"
  pure s!"{p}:{d}:{"/".intercalate parts}"

def renderTable (t : T) (inf : Option Nat) : String :=
  let rows := t.map fun (p, e) => (p, match renderEntry t inf p e with
    | some s => s
    | none => s!"{p}:loop")       -- BuildRoute would not terminate
  let sorted := rows.mergeSort (fun a b => strLe a.1 b.1)
  renderList (sorted.map (·.2))

/-! the property predicate on the implementation's answer -/

def lookupBF (bf : List (String × Nat)) (p : String) : Option Nat := (bf.find? (·.1 == p)).map (·.2)

/-- follow the reported steps over the dumped adjacency -/
def routeOk (w : World) (origin : String) (en : REntry) : Bool :=
  let rec go (cur : String) (cost : Nat) : List RStep → Option (String × Nat)
    | [] => some (cur, cost)
    | st :: rest =>
      match (w.graph.adj cur).find? (fun e => e.seg == st.seg) with
      | none => none
      | some e =>
        if e.usable && e.first == cur && e.last == st.dest && st.cost == toString (cost + e.weight)
        then go e.last (cost + e.weight) rest else none
  en.origin == origin &&
  match go origin 0 en.steps with
  | some (cur, cost) => cur == en.point && en.dist == Dist.fin cost
  | none => false

def onNetwork (w : World) (o : String) : Bool := (w.graph.adj o).any (·.usable)

def firstOk (w : World) : Bool := w.edges.all fun (pt, e) => e.first == pt

/-- clause that fails for a full `ExpandSearch`, if any -/
def searchPredicate (w : World) (o : String) (max : Nat) (bf : List (String × Nat)) (ans : List REntry) :
    Option String :=
  if !firstOk w then some "traverse-first" else
  if ans.any (fun en => match en.dist with
      | .fin d => lookupBF bf en.point != some d
      | .inf => true) then some "distance" else
  if ans.any (fun en => !routeOk w o en) then some "route" else
  if bf.any (fun (p, d) => d < max && !(p == o && !onNetwork w o) && !(ans.any (·.point == p)))
    then some "complete" else
  none

/-- `ExpandSearchTo`: the destination's entry must be final; every other finite entry must be a sound route
whose cost is not below the true distance. -/
def searchToPredicate (w : World) (o dest : String) (max : Nat) (bf : List (String × Nat)) (ans : List REntry) :
    Option String :=
  if !firstOk w then some "traverse-first" else
  let destEntry := ans.find? (·.point == dest)
  let want := match lookupBF bf dest with
    | some d => if d < max && onNetwork w o then some d else none
    | none => none
  -- a finite entry must carry the true distance (the origin itself may be recorded at 0 whatever the limit);
  -- `+Inf` / no entry is right exactly when the destination is not within the limit
  let destBad := match destEntry with
    | some en => match en.dist with
      | .fin d => lookupBF bf dest != some d
      | .inf => want.isSome || !en.steps.isEmpty
    | none => want.isSome
  if destBad then some (if want.isSome then "complete" else "distance") else
  if ans.any (fun en => match en.dist with
      | .fin d => match lookupBF bf en.point with
        | some b => d < b
        | none => true
      | .inf => en.point != dest) then some "distance" else
  if ans.any (fun en => en.dist != Dist.inf && !routeOk w o en) then some "route" else
  none

/-! `ComputeAccessibility` -/

/-- `w<way>.<a>.<b>` with the direction dropped (`a ≤ b`), as `FillCountsAndDistancesFromPaths` keys its counts -/
def undirected (seg : String) : String :=
  match seg.splitOn "." with
  | [w, a, b] => match a.toNat?, b.toNat? with
    | some x, some y => if y < x then s!"{w}.{b}.{a}" else seg
    | _, _ => seg
  | _ => seg

def bump (m : List (String × Nat)) (k : String) : List (String × Nat) :=
  if m.any (·.1 == k) then m.map (fun (a, n) => if a == k then (a, n + 1) else (a, n)) else m ++ [(k, 1)]

/-- points of the path between the two indices of `w<way>.<a>.<b>` (inclusive, either direction) -/
def segPoints (w : World) (seg : String) : List String :=
  match seg.splitOn "." with
  | [way, a, b] => match a.toNat?, b.toNat?, w.paths.find? (·.1 == way) with
    | some x, some y, some (_, pts) =>
      let lo := if x ≤ y then x else y
      let hi := if x ≤ y then y else x
      (pts.drop lo).take (hi - lo + 1)
    | _, _, _ => []
  | _ => []

/-- distances of all entries; per undirected segment the number of entries whose route uses it; interpolated points -/
def renderAccess (w : World) (t : T) : String :=
  let ds := (t.map fun (p, e) => (p, s!"{p}:{e.dist}")).mergeSort (fun a b => strLe a.1 b.1)
  let counts := t.foldl (fun m (p, _) =>
    match buildRoute t (t.length + 1) p [] with
    | some (_, steps) => steps.foldl (fun m st => bump m (undirected st.via.seg)) m
    | none => bump m "loop") []
  let cs := counts.mergeSort (fun a b => strLe a.1 b.1)
  let interp := (interpolatedPoints t (segPoints w)).mergeSort strLe
  renderList (ds.map (·.2)) ++ " | " ++ renderList (cs.map fun (k, n) => s!"{k}:{n}") ++ " | " ++ renderList interp

def accessPredicate (w : World) (o : String) (max : Nat) (bf : List (String × Nat)) (impl : String) :
    Option String :=
  match impl.splitOn " | " with
  | [dText, _, _] =>
    match parseBF dText with      -- non-integer / missing distances do not parse
    | none => some "distance"
    | some ds =>
      if ds.any (fun (p, d) => lookupBF bf p != some d) then some "distance" else
      if bf.any (fun (p, d) => d < max && !(p == o && !onNetwork w o) && !(ds.any (·.1 == p)))
        then some "complete" else none
  | _ => some "distance"

def judge (impl model : String) (clause : Option String) : Verdict :=
  match clause with
  | some c => .propfail c
  | none => if impl == model then .ok else .diff model

/-- `bf=[…]` is the tail of the op text -/
def splitBF (op : String) : Option (String × String) :=
  match op.splitOn " bf=" with
  | [a, b] => some (a, b)
  | _ => none

def step (w : World) (op impl : String) : World × Verdict :=
  match words op with
  | "world" :: _kind :: _ =>
    -- `world <kind> [points] [w1=n1,n2 …]`
    let rest := " ".intercalate ((words op).drop 2)
    match rest.splitOn "] [" with
    | [a, b] =>
      match parseBracket (a ++ "]"), parseBracket ("[" ++ b), parseBracket impl with
      | some pts, some pws, some es =>
        let paths := pws.mapM fun pw => match pw.splitOn "=" with
          | [way, ns] => some (way, ns.splitOn ",")
          | _ => none
        match es.mapM parseEdge, paths with
        | some edges, some paths => ({ points := pts, edges := edges, ok := true, paths := paths }, .ok)
        | _, _ => (w, .bad)
      | _, _, _ => (w, .bad)
    | _ => (w, .bad)
  | "search" :: _ =>
    match splitBF op with
    | none => (w, .bad)
    | some (head, bfText) =>
      match words head, parseBF bfText, parseEntries impl with
      | ["search", o, maxS, zuS], some bf, some ans =>
        match parseNat? maxS, w.ok, (zuS == "zu=1" || zuS == "zu=0") with
        | some max, true, true =>
          let origins := if zuS == "zu=1" then [o] else []
          let fuel := 4 * (w.points.length + 4)
          match search w.graph max origins fuel with
          | .done s' =>
            if !allVisited s'.t then (w, .bad) else
            let model := renderTable s'.t none
            -- the model's own distances must agree with the reference (else the machinery is wrong)
            let modelOk := s'.t.all fun (p, e) => lookupBF bf p == some e.dist
            if !modelOk then (w, .bad) else
            (w, judge impl model (searchPredicate w o max bf ans))
          | _ => (w, .bad)
        | _, _, _ => (w, .bad)
      | _, _, _ =>
        -- an answer that does not parse (panic, non-integer distance, …) breaks the property outright
        match words head, parseBF bfText with
        | ["search", _, _, _], some _ => (w, .propfail "distance")
        | _, _ => (w, .bad)
  | "access" :: _ =>
    match splitBF op with
    | none => (w, .bad)
    | some (head, bfText) =>
      match words head, parseBF bfText with
      | ["access", o, maxS, zuS], some bf =>
        match parseNat? maxS, w.ok, (zuS == "zu=1" || zuS == "zu=0") with
        | some max, true, true =>
          let origins := if zuS == "zu=1" then [o] else []
          match search w.graph max origins (4 * (w.points.length + 4)) with
          | .done s' =>
            if !allVisited s'.t then (w, .bad) else
            (w, judge impl (renderAccess w s'.t) (accessPredicate w o max bf impl))
          | _ => (w, .bad)
        | _, _, _ => (w, .bad)
      | _, _ => (w, .bad)
  | "searchto" :: _ =>
    match splitBF op with
    | none => (w, .bad)
    | some (head, bfText) =>
      match words head, parseBF bfText, parseEntries impl with
      | ["searchto", o, dest, maxS, zuS], some bf, some ans =>
        match parseNat? maxS, w.ok, (zuS == "zu=1" || zuS == "zu=0") with
        | some max, true, true =>
          let origins := if zuS == "zu=1" then [o] else []
          let fuel := 4 * (w.points.length + 4)
          let inf := max + 1
          match searchTo w.graph max inf origins dest fuel with
          | .done s' =>
            let model := renderTable s'.t (some inf)
            (w, judge impl model (searchToPredicate w o dest max bf ans))
          | _ => (w, .bad)
        | _, _, _ => (w, .bad)
      | _, _, _ =>
        match words head, parseBF bfText with
        | ["searchto", _, _, _, _], some _ => (w, .propfail "distance")
        | _, _ => (w, .bad)
  | _ => (w, .bad)

def family : Family := { σ := World, init := { points := [], edges := [], ok := false }, step := step }

end B6.Driver.C30

def main : IO Unit := B6.Driver.run B6.Driver.C30.family
