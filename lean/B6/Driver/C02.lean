import B6.Driver.Common
import B6.Driver.C02Common
import B6.Model.WorldRead
/-!
Driver for C02 — three-way differential: Go in-memory world vs Go compact world vs the model.

  `src <feature description>`   answer `-`                 (the features the real OSM source emitted)
  `build`                       answer `ok ## ok` | `crash` | `hang` | `… err …`
  `q <query>`                   answer `<in-memory answer> ## <compact answer>`
  `reset`                       answer `-`                 (next input of the corpus case)

Property predicate on a `q` line: the two Go answers are equal.  When they differ the line is a property
failure; it carries `class=compact-referrers-of-absent-id` exactly when the query is a `refs`/`rels` query, both
Go answers are what the model predicts, and the `hasRecord` hypothesis of `references_equiv` /
`relations_by_feature_equiv` is false for this world and id (no feature under the id, and not a point id).  When they agree but differ from the model the line is a `diff`.
-/
open B6.Driver B6.Model.WorldRead B6.Driver.C02Common
namespace B6.Driver.C02

structure St where
  src : List Feature := []     -- reversed
  world : Option World := none

def splitAnswers (impl : String) : Option (String × String) :=
  match impl.splitOn " ## " with
  | [b, c] => some (b, c)
  | _ => none

def step (st : St) (op impl : String) : St × Verdict :=
  match words op with
  | "src" :: _ =>
    match parseFeature (sdrop op 4) with
    | some f => ({ st with src := f :: st.src }, if impl == "-" then .ok else .diff "-")
    | none => (st, .bad)
  | ["reset"] => ({}, .ok)
  | ["build"] =>
    if impl == "ok ## ok" then ({ st with world := some (build st.src.reverse) }, .ok)
    else (st, .propfail ("build " ++ impl))
  | "q" :: key =>
    match st.world, splitAnswers impl with
    | some w, some (b, c) =>
      let mb := answer w true key
      let mc := answer w false key
      if b != c then
        let known :=
          match key with
          | [k, x] =>
            (k == "refs" || k == "rels") && mb == some b && mc == some c &&
              (match parseId x with
               | some i => !(hasRecord w i)
               | none => false)
          | _ => false
        (st, .propfail ((key.headD "?") ++ (if known then " class=compact-referrers-of-absent-id" else "")))
      else
        match mb, mc with
        | some x, some y => (st, if x == b && y == c then .ok else .diff (x ++ " ## " ++ y))
        | _, _ => (st, if isKnownKey key then .bad else .ok)
    | _, _ => (st, .bad)
  | _ => (st, .bad)

def family : Family := { σ := St, init := {}, step := step }

end B6.Driver.C02

def main : IO Unit := B6.Driver.run B6.Driver.C02.family
