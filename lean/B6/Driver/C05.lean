import B6.Driver.Common
import B6.Model.SpatialPred
import B6.Spec.SpatialPred
/-!
Driver for C05 (stateless).  Each op line carries the S2 primitive table of one (query, feature) pair, the
answer is Go's `Matches` (`true` / `false` / `panic`).

text formats
  bits   : `0`/`1` characters, `-` = empty list                       rows : bits separated by `;`, a row without
  entries is `e`, no rows at all is `-`
  polys  : cap-vs-polygon tables separated by `|` (`-` = none), each `nv0,interior,exterior,centreIn,loops`
           loops = loops separated by `/` (`-` = none), a loop = one digit per edge: 2*within + left (`e` = no edge)

ops
  `cells point <bits>` `cells path <bits>` `cells area <rows>` `cells other`
  `cap point <b>` `cap path <b>` `cap area <polys>` `cap other`
  `point point <b>` `point path <b>` `point area <bits>` `point other`
  `line n=<k> point <b>` `line n=<k> path <b>` `line n=<k> area <rows>` `line n=<k> other`   (k = vertices of the query polyline)
  `might`                 (b6.MightIntersect.Matches on a feature: constantly true)
  `mp point <bits>` `mp path <rows>` `mp area <rows>` `mp other`
  `feat <sameID> empty`  |  `feat <sameID> point|line|mp <kind> [<table>]`
  `pip <loops> <x,y>`     loops separated by `|`, vertices `x,y` separated by `;` (E7 integers); answer = S2's
                          `Polygon.ContainsPoint`; checked against exact integer crossing-number parity unless the
                          point is within 60 units of the boundary (EXPLORATION: planar reading of small extents)

verdict: `propfail <clause>` when Go's answer differs from the executable spec (`B6.Spec.SpatialPred`) evaluated on
the table; `diff` when it equals the spec but not the model of the repaired code; else `ok`.
-/
open B6.Driver B6.Model.SpatialPred
namespace B6.Driver.C05

def parseBits (s : String) : Option (List Bool) :=
  if s == "-" || s == "e" then some [] else
  s.toList.mapM fun c => if c = '0' then some false else if c = '1' then some true else none

def parseRows (s : String) : Option (List (List Bool)) :=
  if s == "-" then some [] else (s.splitOn ";").mapM parseBits

def parseBit (s : String) : Option Bool :=
  if s == "0" then some false else if s == "1" then some true else none

def parseLoop (s : String) : Option (List EdgeRow) :=
  if s == "e" then some [] else
  s.toList.mapM fun c =>
    if c = '0' then some ⟨false, false⟩ else if c = '1' then some ⟨false, true⟩
    else if c = '2' then some ⟨true, false⟩ else if c = '3' then some ⟨true, true⟩ else none

def parseLoops (s : String) : Option (List (List EdgeRow)) :=
  if s == "-" then some [] else (s.splitOn "/").mapM parseLoop

def parsePoly (s : String) : Option CapPoly :=
  match s.splitOn "," with
  | [nv, i, e, c, ls] => do
    let nv ← nv.toNat?
    let i ← parseBits i
    let e ← parseBits e
    let c ← parseBit c
    let ls ← parseLoops ls
    pure ⟨nv, i, e, c, ls⟩
  | _ => none

def parsePolys (s : String) : Option (List CapPoly) :=
  if s == "-" then some [] else (s.splitOn "|").mapM parsePoly

def parsePointTable : List String → Option PointTable
  | ["point", b] => (parseBit b).map .point
  | ["path", b] => (parseBit b).map .path
  | ["area", bs] => (parseBits bs).map .area
  | ["other"] => some .other
  | _ => none

def parseLineTable : List String → Option LineTable
  | ["point", b] => (parseBit b).map .point
  | ["path", b] => (parseBit b).map .path
  | ["area", rs] => (parseRows rs).map .area
  | ["other"] => some .other
  | _ => none

def parseMpTable : List String → Option MpTable
  | ["point", bs] => (parseBits bs).map .point
  | ["path", rs] => (parseRows rs).map .path
  | ["area", rs] => (parseRows rs).map .area
  | ["other"] => some .other
  | _ => none

def parseCellsTable : List String → Option CellsTable
  | ["point", bs] => (parseBits bs).map .point
  | ["path", bs] => (parseBits bs).map .path
  | ["area", rs] => (parseRows rs).map .area
  | ["other"] => some .other
  | _ => none

def parseCapTable : List String → Option CapTable
  | ["point", b] => (parseBit b).map .point
  | ["path", b] => (parseBit b).map .path
  | ["area", ps] => (parsePolys ps).map .area
  | ["other"] => some .other
  | _ => none

def parseGeo : List String → Option GeoQuery
  | ["empty"] => some .empty
  | "point" :: rest => (parsePointTable rest).map .point
  | "line" :: rest => (parseLineTable rest).map .line
  | "mp" :: rest => (parseMpTable rest).map .mp
  | _ => none

def parsePt (s : String) : Option Pt :=
  match s.splitOn "," with
  | [x, y] => do
    let x ← x.toInt?
    let y ← y.toInt?
    pure (x, y)
  | _ => none

def parseIntLoops (s : String) : Option (List (List Pt)) :=
  (s.splitOn "|").mapM fun l => (l.splitOn ";").mapM parsePt

def renderB (b : Bool) : String := if b then "true" else "false"
def renderO : Option Bool → String
  | some b => renderB b
  | none => "panic"

/-- predicate first (spec), then correspondence (model of the repaired code) -/
def judge (impl model spec clause : String) : Verdict :=
  if impl == spec then (if impl == model then .ok else .diff model) else .propfail clause

def pipMargin : Int := 60

def step (_ : Unit) (op impl : String) : Unit × Verdict :=
  match words op with
  | "cells" :: rest =>
    match parseCellsTable rest with
    | some t => ((), judge impl (renderB (cellsIntersectFeature t)) (renderB (B6.Spec.SpatialPred.cells t)) "cells")
    | none => ((), .bad)
  | "cap" :: rest =>
    match parseCapTable rest with
    | some t => ((), judge impl (renderO (capMatches true t)) (renderB (B6.Spec.SpatialPred.cap t)) "cap")
    | none => ((), .bad)
  | "point" :: rest =>
    match parsePointTable rest with
    | some t => ((), judge impl (renderB (pointIntersectsFeature t)) (renderB (B6.Spec.SpatialPred.point t)) "point")
    | none => ((), .bad)
  | "line" :: nq :: rest =>
    match (if nq.startsWith "n=" then (sdrop nq 2).toNat? else none), parseLineTable rest with
    | some n, some t =>
      ((), judge impl (renderO (intersectsPolylineMatches true n t)) (renderB (B6.Spec.SpatialPred.lineQuery n t)) "polyline")
    | _, _ => ((), .bad)
  | ["might"] => ((), judge impl (renderB mightIntersectMatches) "true" "might-intersect")
  | "mp" :: rest =>
    match parseMpTable rest with
    | some t => ((), judge impl (renderB (multiPolygonIntersectsFeature true t)) (renderB (B6.Spec.SpatialPred.mp t)) "multipolygon")
    | none => ((), .bad)
  | "feat" :: same :: rest =>
    match parseBit same, parseGeo rest with
    | some s, some q =>
      ((), judge impl (renderB (intersectsFeatureMatches true s q)) (renderB (B6.Spec.SpatialPred.feature s q)) "intersects-feature")
    | _, _ => ((), .bad)
  | ["pip", loops, pt] =>
    match parseIntLoops loops, parsePt pt with
    | some ls, some p =>
      if nearBoundary pipMargin ls p then ((), .ok)   -- too close to an edge for the planar reading: not judged
      else
        let o := renderB (polygonContains ls p)
        ((), if impl == o then .ok else .propfail "pip-oracle")
    | _, _ => ((), .bad)
  | _ => ((), .bad)

def family : Family := { σ := Unit, init := (), step := step }

end B6.Driver.C05

def main : IO Unit := B6.Driver.run B6.Driver.C05.family
