import B6.Driver.Common
import B6.Model.Containers
/-!
Driver for C09.  Numbers are unsigned decimal 64-bit words, byte strings lowercase hex (`-` = empty).
State = the map built by the last `map` line: the entries written (the spec) and the bytes the
*implementation* produced (the model readers run on those bytes, so one byte difference in the writer
does not cascade into the reader lines).

  `delta [v…]`            => `hex k [v'…]`            Marshal/UnmarshalDeltaCodedUint64s      pred: v' = v
  `ints [v…]`             => `hex k [v'…]`            …DeltaCodedInts (ints as 64-bit words)   pred: v' = v
  `deltad n hex`          => `k [v…]` | `panic`       decode of arbitrary bytes (model only)
  `fix v l`               => `hex v'` | `panic`       Marshal/UnmarshalUint64                  pred (l ≥ Uint64Length v, l ≥ 1): v' = v
  `fixown v`              => `l hex v'`               the same at the value's own length l = Uint64Length(v), as the
                                                      ByteArrays pointer table does it        pred: v' = v
  `bal [len…]`            => `hex end blen rlen n [off…]`  layout only: reserve, WriteHeader, read the pointer table back
                                                      pred: offsets = running sums, lengths agree
  `len v`                 => `n`                      Uint64Length
  `ba n | i:len … | i:hex+hex …` => `hex end blen rlen [item…]` | `panic`
                                                      pred (every item filled exactly): item i = concatenation of its writes
  `st [hex…]`             => `hex end blen [t…] [s:i…] eq`   pred: table = permutation of the distinct strings, counts
                                                      non-increasing, builder index of t_i = i, Equal agrees
  `map b t [id:tag:hex…]` => `b' t' hex end blen rlen` | `panic`   pred (tags < 2^t'): the build succeeds (reserve = write sizes)
  `fill id`               => `[tag:hex…]`             pred: = entries written under id, in write order
  `first id`              => `tag:hex` | `none`       pred: = first of them
  `firsttag id tag`       => `hex` | `none`           pred: = first of them with the tag
  `iter`                  => `[id{tag:hex,…}…]`       pred: every distinct id exactly once with all its entries
  `each g`                => same, groups sorted by id
-/
open B6.Driver B6.Model.Containers B6.Model.Varint B6.Model.Bits
namespace B6.Driver.C09

def u64? (s : String) : Option (BitVec 64) :=
  match s.toNat? with
  | some n => if n < 2 ^ 64 then some (BitVec.ofNat 64 n) else none
  | none => none

def r64 (v : BitVec 64) : String := toString v.toNat

def parseWords (s : String) : Option (List (BitVec 64)) := (parseBracket s).bind fun ws => ws.mapM u64?

def renderWords (vs : List (BitVec 64)) : String := renderList (vs.map r64)

/-- text after the first word of the op -/
def rest (op : String) : String := strim (String.ofList (op.toList.dropWhile (· ≠ ' ')))

structure St where
  entries : List Entry
  view : Option MapView

def renderEntry (e : Entry) : String := s!"{e.tag.toNat}:{renderHex e.data}"

/-- insertion sort of strings (canonical order inside one id group, as the harness does with sort.Strings) -/
def insertStr (s : String) : List String → List String
  | [] => [s]
  | x :: xs => if s ≤ x then s :: x :: xs else x :: insertStr s xs
def sortStrs (xs : List String) : List String := xs.foldr insertStr []

def renderGroup (g : BitVec 64 × List Entry) : String :=
  r64 g.1 ++ "{" ++ ",".intercalate (sortStrs (g.2.map renderEntry)) ++ "}"

def renderGroups (gs : List (BitVec 64 × List Entry)) : String := renderList (gs.map renderGroup)

def insertGroup (g : BitVec 64 × List Entry) : List (BitVec 64 × List Entry) → List (BitVec 64 × List Entry)
  | [] => [g]
  | x :: xs => if g.1 ≤ x.1 then g :: x :: xs else x :: insertGroup g xs
def sortGroups (gs : List (BitVec 64 × List Entry)) := gs.foldr insertGroup []

/-- the spec of iteration: the distinct ids (in the given visiting order) each with all entries written under it. -/
def specGroups (es : List Entry) (order : List (BitVec 64)) : List (BitVec 64 × List Entry) :=
  order.map fun id => (id, es.filter fun e => e.id == id)

/-! ### fast iteration (driver only)

`mapIterate` of the proved model re-parses the `ByteArrays` header for every bucket on a `List` (quadratic
for 2^12 buckets).  `iterateFast` reads the pointer table once from an `Array`; it only handles the
well-formed shape (enough items, pointer width 1..8, monotone pointers inside the data) and otherwise
defers to the model function.  For maps with at most 2^5 buckets both are computed and must agree
(`none` = they did not: the driver reports `bad-op`). -/

def leAt (a : Array UInt8) (pos n : Nat) : Nat :=
  (List.range n).foldr (fun j acc => (a.getD (pos + j) 0).toNat + 256 * acc) 0

def iterateFast (m : MapView) : Option (Option (List (BitVec 64 × List Entry))) :=
  let slow : Unit → Option (List (BitVec 64 × List Entry)) := fun _ => mapIterate m
  let fast : Option (Option (List (BitVec 64 × List Entry))) :=
    match baReadLayout m.buckets with
    | none => none
    | some l =>
      let a := m.buckets.toArray
      let n := 2 ^ m.b.toNat
      let off := baLayoutLength + l.offsetBytes * (l.items + 1)
      if l.items < n || l.offsetBytes == 0 || l.offsetBytes > 8 || a.size < off then none
      else
        let ptrs := (List.range (n + 1)).map fun k => leAt a (baLayoutLength + l.offsetBytes * k) l.offsetBytes
        let okPtrs := (ptrs.zip (ptrs.drop 1)).all (fun (p, q) => p ≤ q) && off + ptrs.getLastD 0 ≤ a.size
        if !okPtrs then none
        else
          let res := (List.range n).foldr (fun k (acc : Option (List (BitVec 64 × List Entry))) =>
            match acc with
            | none => none
            | some rest =>
              let items := (a.extract (off + ptrs.getD k 0) (off + ptrs.getD (k + 1) 0)).toList
              match scanBucket (items.length + 1) items (BitVec.ofNat 64 k) m.b m.t with
              | none => none
              | some es => some (groupById (sortById es) ++ rest)) (some [])
          some res
  match fast with
  | none => some (slow ())
  | some r =>
    if m.b.toNat ≤ 5 then
      (if r == slow () then some r else none)
    else some r

def judge (impl model spec clause : String) : Verdict :=
  if impl == spec then (if impl == model then .ok else .diff model) else .propfail clause

def judgeM (impl model : String) : Verdict := if impl == model then .ok else .diff model

def parseEntry (s : String) : Option Entry :=
  match s.splitOn ":" with
  | [a, b, c] => do
    let id ← u64? a
    let tag ← u64? b
    let d ← parseHex c
    pure { id := id, tag := tag, data := d }
  | _ => none

def parseRes (s : String) : Option (List (Nat × Nat)) :=
  if strim s == "-" then some [] else
  (words s).mapM fun w => match w.splitOn ":" with
    | [a, b] => do pure ((← a.toNat?), (← b.toNat?))
    | _ => none

def parseWrites (s : String) : Option (List (Nat × List Bytes)) :=
  if strim s == "-" then some [] else
  (words s).mapM fun w => match w.splitOn ":" with
    | [a, b] => do
      let i ← a.toNat?
      let bufs ← (b.splitOn "+").mapM parseHex
      pure (i, bufs)
    | _ => none

def optStr : Option String → String
  | some s => s
  | none => "panic"

def stepBA (op impl : String) : Verdict :=
  match (rest op).splitOn " | " with
  | [ns, rs, ws] =>
    match ns.toNat?, parseRes rs, parseWrites ws with
    | some n, some res, some writes =>
      -- Reserve calls: per-item sums (`none` = Reserve panics: item out of range)
      let sums : Option (List Nat) := res.foldl (fun acc (i, l) => acc.bind fun xs =>
        if i < n then some (xs.set i ((xs.getD i 0) + l)) else none) (some (List.replicate n 0))
      let model : Option String := do
        let sums ← sums
        let w0 := baStart sums
        let w ← writes.foldl (fun acc (i, bufs) => acc.bind fun w => baWriteItem w i bufs) (some w0)
        let items := (List.range n).map fun i => match baItem w.out i with | some b => renderHex b | none => "panic"
        let endOff := baDataOffset sums + total sums
        let rlen := match baLength w.out with | some l => toString l | none => "panic"
        pure s!"{renderHex w.out} {endOff} {endOff} {rlen} {renderList items}"
      let m := optStr model
      -- spec: when every item is filled exactly, item i reads back the concatenation of its writes
      let concat (i : Nat) : Bytes := (writes.filter (·.1 == i)).flatMap fun w => w.2.flatten
      let exact := match sums with
        | some s => (List.range n).all (fun i => (concat i).length == s.getD i 0) && writes.all (·.1 < n)
        | none => false
      if exact then
        let specItems := renderList ((List.range n).map fun i => renderHex (concat i))
        match impl.splitOn " [" with
        | [_, items] => if "[" ++ items == specItems then judgeM impl m else .propfail "bytearrays_item"
        | _ => .propfail "bytearrays_item"
      else judgeM impl m
    | _, _, _ => .bad
  | _ => .bad

def count (xs : List Bytes) (s : Bytes) : Nat := (xs.filter (· == s)).length

def stepST (op impl : String) : Verdict :=
  match parseBracket (rest op) with
  | none => .bad
  | some ws =>
    match ws.mapM parseHex with
    | none => .bad
    | some adds =>
      -- impl: `hex end blen [table] [lookups] eq`
      match impl.splitOn " [" with
      | [pre, tableS, lookS] =>
        let lookParts := lookS.splitOn "] "
        match parseBracket ("[" ++ tableS), lookParts with
        | some tws, [lk, eq] =>
          match tws.mapM parseHex, (words lk).mapM (fun w => match w.splitOn ":" with
              | [a, b] => do pure ((← parseHex a), (← b.toNat?))
              | _ => none) with
          | some table, some looks =>
            let distinct := adds.eraseDups
            let okPerm := table.length == distinct.length && distinct.all (table.contains ·) && table.eraseDups.length == table.length
            let okCounts := (table.zip (table.drop 1)).all fun (a, b) => count adds a ≥ count adds b
            let okIdx := looks.length == distinct.length &&
              looks.all fun (s, i) => table[i]? == some s
            if !(okPerm && okCounts && okIdx && eq == "eq") then .propfail "stringtable_lookup"
            else
              let bytes := stEncode table
              let m := s!"{renderHex bytes} {bytes.length} {bytes.length}"
              -- and the model reader on the implementation's bytes
              let implHex := (words pre).headD ""
              let readOK := match parseHex implHex with
                | some ib => (List.range table.length).all fun i => stLookup ib i == table[i]?
                | none => false
              if pre == m && readOK then .ok else .diff (m ++ (if readOK then "" else " (model reader disagrees)"))
          | _, _ => .bad
        | _, _ => .bad
      | _ => if impl == "panic" then .propfail "stringtable_lookup" else .bad

def step (st : St) (op impl : String) : St × Verdict :=
  match words op with
  | "delta" :: _ | "ints" :: _ =>
    match parseWords (rest op) with
    | none => (st, .bad)
    | some vs =>
      let bytes := marshalDelta vs
      let m := match unmarshalDelta vs.length bytes with
        | some (out, k) => s!"{renderHex bytes} {k} {renderWords out}"
        | none => "panic"
      -- the predicate looks at the decoded list only (last bracket group of the implementation's answer)
      let implList := match impl.splitOn " [" with | [_, l] => "[" ++ l | _ => ""
      (st, if implList == renderWords vs then judgeM impl m else .propfail "delta_roundtrip")
  | ["deltad", ns, hs] =>
    match ns.toNat?, parseHex hs with
    | some n, some data =>
      let m := match unmarshalDelta n data with
        | some (out, k) => s!"{k} {renderWords out}"
        | none => "panic"
      (st, judgeM impl m)
    | _, _ => (st, .bad)
  | ["fix", vs, ls] =>
    match u64? vs, ls.toNat? with
    | some v, some l =>
      let bytes := marshalUint64 v.toNat l
      let m := match unmarshalUint64 l bytes with
        | some back => s!"{renderHex bytes} {back}"
        | none => "panic"
      if l ≥ uint64Length v.toNat then
        (st, judge impl m s!"{renderHex bytes} {v.toNat}" "fixed_width_roundtrip")
      else (st, judgeM impl m)
    | _, _ => (st, .bad)
  | ["fixown", vs] =>
    match u64? vs with
    | some v =>
      let l := uint64Length v.toNat
      let bytes := marshalUint64 v.toNat l
      let m := match unmarshalUint64 l bytes with
        | some back => s!"{l} {renderHex bytes} {back}"
        | none => "panic"
      -- predicate: whatever width the implementation chose, the value must come back
      match words impl with
      | [_, _, back] => (st, if back == toString v.toNat then judgeM impl m else .propfail "fixed_width_roundtrip_at_own_length")
      | _ => (st, .propfail "fixed_width_roundtrip_at_own_length")
    | none => (st, .bad)
  | "bal" :: _ =>
    match parseWords (rest op) with
    | none => (st, .bad)
    | some ls =>
      let res := ls.map (·.toNat)
      let hdr := baHeader res
      let ob := uint64Length (total res)
      let offs := (List.range (res.length + 1)).map fun i =>
        match (goFrom hdr (baLayoutLength + ob * i)).bind (unmarshalUint64 ob) with
        | some o => toString o | none => "panic"
      let endOff := baDataOffset res + total res
      let rlen := match baLength hdr with | some l => toString l | none => "panic"
      let m := s!"{renderHex hdr} {endOff} {endOff} {rlen} {res.length} {renderList offs}"
      -- spec: the offsets read back are the running sums, and the length read back is the length written
      let specOffs := renderList ((List.range (res.length + 1)).map fun i => toString (res.take i).sum)
      let okSpec := match impl.splitOn " [" , words impl with
        | [_, o], [_, e, bl, rl, n, _] => "[" ++ o == specOffs && e == toString endOff && bl == e && rl == e && n == toString res.length
        | [_, o], ws => "[" ++ o == specOffs && ws.getD 1 "" == toString endOff && ws.getD 2 "" == ws.getD 1 "" &&
            ws.getD 3 "" == ws.getD 1 "" && ws.getD 4 "" == toString res.length
        | _, _ => false
      (st, if okSpec then judgeM impl m else .propfail "bytearrays_layout")
  | ["len", vs] =>
    match u64? vs with
    | some v => (st, judgeM impl (toString (uint64Length v.toNat)))
    | none => (st, .bad)
  | "ba" :: _ => (st, stepBA op impl)
  | "st" :: _ => (st, stepST op impl)
  | "map" :: bs :: ts :: _ =>
    match u64? bs, u64? ts, (parseBracket (String.ofList ((rest op).toList.dropWhile (· ≠ '[')))).bind (·.mapM parseEntry) with
    | some b, some t, some es =>
      let (b', t') := builderLayout b t
      let bytes := mapEncode b' t' es
      let tagsFit := es.all fun e => decide (e.tag < (1#64 <<< t'))
      let m := if tagsFit then s!"{b'.toNat} {t'.toNat} {renderHex bytes} {bytes.length} {bytes.length} {bytes.length}" else "panic"
      -- resynchronise on the implementation's bytes
      let view := match words impl with
        | [_, _, h, _, _, _] => (parseHex h).bind mapOpen
        | _ => none
      -- predicate: entries whose tags fit the layout must be writable (the reserve pass and the write pass
      -- size every bucket identically) — a builder that panics or errs loses them
      let built := match words impl with | [_, _, _, _, _, _] => true | _ => false
      ({ entries := es, view := view },
        if tagsFit && !built then .propfail "map_reserve_write" else judgeM impl m)
    | _, _, _ => (st, .bad)
  | ["fill", ids] =>
    match u64? ids, st.view with
    | some id, some mv =>
      let m := optStr ((mapFillTagged mv id).map fun es => renderList (es.map renderEntry))
      let spec := renderList ((st.entries.filter fun e => e.id == id).map renderEntry)
      (st, judge impl m spec "map_fill_tagged")
    | _, _ => (st, .bad)
  | ["first", ids] =>
    match u64? ids, st.view with
    | some id, some mv =>
      let r := fun (o : Option Entry) => match o with | some e => renderEntry e | none => "none"
      let m := optStr ((mapFindFirst mv id).map r)
      let spec := r (st.entries.find? fun e => e.id == id)
      (st, judge impl m spec "map_find_first")
    | _, _ => (st, .bad)
  | ["firsttag", ids, tags] =>
    match u64? ids, u64? tags, st.view with
    | some id, some tag, some mv =>
      let r := fun (o : Option Entry) => match o with | some e => renderHex e.data | none => "none"
      let m := optStr ((mapFindFirstWithTag mv id tag).map r)
      let spec := r (st.entries.find? fun e => e.id == id && e.tag == tag)
      (st, judge impl m spec "map_find_first_with_tag")
    | _, _, _ => (st, .bad)
  | ["iter"] =>
    match st.view.bind fun mv => (iterateFast mv).map fun r => (mv, r) with
    | some (mv, it) =>
      let m := optStr (it.map renderGroups)
      -- spec: visiting order = bucket, then id; every distinct id once with all entries written under it
      let ids := (st.entries.map (·.id)).eraseDups
      let order := (sortGroups (ids.map fun id => (id, ([] : List Entry)))).map (·.1)
      let byBucket := (List.range (2 ^ mv.b.toNat)).flatMap fun k => order.filter fun id => (bucketForID id mv.b).toNat == k
      let spec := renderGroups (specGroups st.entries byBucket)
      (st, judge impl m spec "map_iterate")
    | none => (st, .bad)
  | ["each", _] =>
    match st.view.bind fun mv => (iterateFast mv).map fun r => (mv, r) with
    | some (mv, it) =>
      let m := optStr (it.map fun gs => renderGroups (sortGroups gs))
      let ids := (st.entries.map (·.id)).eraseDups
      let order := (sortGroups (ids.map fun id => (id, ([] : List Entry)))).map (·.1)
      let spec := renderGroups (specGroups st.entries order)
      (st, judge impl m spec "map_each_item")
    | none => (st, .bad)
  | _ => (st, .bad)

def family : Family := { σ := St, init := { entries := [], view := none }, step := step }

end B6.Driver.C09

def main : IO Unit := B6.Driver.run B6.Driver.C09.family
