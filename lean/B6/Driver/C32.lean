import B6.Driver.Common
import B6.Model.GeoJSON
/-!
Driver for C32 (GeoJSON marshal / unmarshal structure and `FillFromGeoJSON`).  Coordinates are E7 integers.

text forms (no spaces inside a form)
  tree      := int | `[]` | `[` tree (`,` tree)* `]`
  geometry  := `<Type>:<tree>` where a position is `[lat,lng]`  (model order), e.g. `LineString:[[515000000,-1250000],[1,2]]`
  json      := `<Type>:<tree>` where a position is `[lng,lat]`  (JSON order; any nesting / arity for `parse`)
  feature   := `<geometry>|k=v,k=v`  (`|-` when there are no properties)

ops
  `geom <geometry>`        answer `<json> <geometry|err> <geometry|err>`   json.Marshal(Geometry); the text back through
                            json.Unmarshal(&Geometry) and through geojson.Unmarshal
  `bits <geometry>`        answer `<geometry|err> <geometry|err>`          atoms = IEEE-754 bit patterns (as int64) of arbitrary
                            finite float64 coordinates; json.Marshal(Geometry) → both decoders, compared by math.Float64bits
  `parse <json>`           answer `<geometry|err> <geometry|err>`          (same two decoders on harness-written JSON)
  `coll <feature>…`        answer `coll <feature>…` | `err`                json.Marshal(FeatureCollection) → geojson.Unmarshal
  `import <feature>…`      answer `filled=<n|panic> apply=<ok|err|-> world=<n>`   FillFromGeoJSON + Apply on an empty world
  `feat <i>`               answer `none` | `<found>` (`+`-joined when several kinds share the index) with
                            found := `<kind> <obs> [k=<tagval> …]`; obs := `P:[lat,lng]` | `L:<tree>` | `A:<tree of
                            polygons→loops→[hole(0/1),[positions]]>` | `?`; tagval := `s:<str>` | `P:[lat,lng]` | `L:<tree>`
                            (tags in stored order — the order of the properties among them is Go's map order)

Predicates.  `geom`, `bits`, `coll`: what comes back equals what went in (`roundtrip`).  `feat i` (only when every feature of
the collection is well shaped): GeoJSON feature `i` is found once, under the expected kind, with the same geometry
(loops compared as cycles in either direction, a polygon as a set of loops, ring 0 outer and the others holes, and the
polygon on the side of its outer ring that holds the ring's vertex centroid — the smaller of the two regions) and
every property readable under its stored key (`storedKey`: `geojson:point` / `geojson:path` for the two reserved keys, the
key itself otherwise) (`import_one_per_feature`).  Failures in the recorded class carry `class=multi-geometry-dropped`
(the feature is a MultiPoint / MultiLineString).
-/
open B6.Driver B6.Model.GeoJSON
namespace B6.Driver.C32

/-! ## generic trees -/

inductive T where
  | atom (s : String)
  | list (xs : List T)
  deriving Inhabited

partial def T.render : T → String
  | .atom s => s
  | .list xs => "[" ++ ",".intercalate (xs.map T.render) ++ "]"

/-- recursive descent over the characters; returns the tree and the rest -/
partial def parseT : List Char → Option (T × List Char)
  | '[' :: ']' :: rest => some (.list [], rest)
  | '[' :: rest =>
    let rec items (cs : List Char) (acc : List T) : Option (List T × List Char) :=
      match parseT cs with
      | none => none
      | some (t, ',' :: r) => items r (t :: acc)
      | some (t, ']' :: r) => some ((t :: acc).reverse, r)
      | some _ => none
    (items rest []).map fun (xs, r) => (.list xs, r)
  | cs =>
    let a := cs.takeWhile fun c => c != ',' && c != ']' && c != '['
    if a.isEmpty then none else some (.atom (String.ofList a), cs.drop a.length)

def parseTree (s : String) : Option T :=
  match parseT s.toList with
  | some (t, []) => some t
  | _ => none

abbrev C := Coord Int

def cT (c : C) : T := .list [.atom (toString c.lat), .atom (toString c.lng)]
def lT {α : Type} (f : α → T) (xs : List α) : T := .list (xs.map f)

def tC : T → Option C
  | .list [.atom a, .atom b] => do some { lat := (← a.toInt?), lng := (← b.toInt?) }
  | _ => none
def tL {α : Type} (f : T → Option α) : T → Option (List α)
  | .list xs => xs.mapM f
  | .atom _ => none

def geomTree : Geom Int → T
  | .point c => cT c
  | .multiPoint cs => lT cT cs
  | .lineString cs => lT cT cs
  | .multiLineString ls => lT (lT cT) ls
  | .polygon rs => lT (lT cT) rs
  | .multiPolygon ps => lT (lT (lT cT)) ps

def renderGeom (g : Geom Int) : String := g.typeName ++ ":" ++ (geomTree g).render

def parseGeom (s : String) : Option (Geom Int) :=
  match s.splitOn ":" with
  | [ty, body] => do
    let t ← parseTree body
    match ty with
    | "Point" => (tC t).map .point
    | "MultiPoint" => (tL tC t).map .multiPoint
    | "LineString" => (tL tC t).map .lineString
    | "MultiLineString" => (tL (tL tC) t).map .multiLineString
    | "Polygon" => (tL (tL tC) t).map .polygon
    | "MultiPolygon" => (tL (tL (tL tC)) t).map .multiPolygon
    | _ => none
  | _ => none

partial def cjTree : CJ Int → T
  | .num x => .atom (toString x)
  | .arr xs => .list (xs.map cjTree)

partial def treeCJ : T → Option (CJ Int)
  | .atom a => a.toInt?.map .num
  | .list xs => (xs.mapM treeCJ).map .arr

def renderJ (j : GeomJ Int) : String := j.typ ++ ":" ++ (cjTree j.coords).render

def parseJ (s : String) : Option (GeomJ Int) :=
  match s.splitOn ":" with
  | [ty, body] => do
    let t ← parseTree body
    let c ← treeCJ t
    some { typ := ty, coords := c }
  | _ => none

def renderOpt (o : Option (Geom Int)) : String :=
  match o with
  | some g => renderGeom g
  | none => "err"

def parseProps (s : String) : Option (List (String × String)) :=
  if s == "-" then some [] else
  (s.splitOn ",").mapM fun kv => match kv.splitOn "=" with
    | [k, v] => some (k, v)
    | _ => none

def renderProps (p : List (String × String)) : String :=
  if p.isEmpty then "-" else ",".intercalate (p.map fun kv => kv.1 ++ "=" ++ kv.2)

def parseFeature (s : String) : Option (Feature Int) :=
  match s.splitOn "|" with
  | [g, p] => do some { geom := (← parseGeom g), props := (← parseProps p) }
  | _ => none

def renderFeature (f : Feature Int) : String := renderGeom f.geom ++ "|" ++ renderProps f.props

/-! ## canonical forms for comparing geometry that went through S2 -/

def coordLt (a b : C) : Bool := a.lat < b.lat || (a.lat == b.lat && a.lng < b.lng)

def listLt : List C → List C → Bool
  | [], [] => false
  | [], _ => true
  | _, [] => false
  | a :: as, b :: bs => coordLt a b || (a == b && listLt as bs)

def rotations (l : List C) : List (List C) :=
  (List.range l.length).map fun i => l.drop i ++ l.take i

/-- smallest rotation of the cycle or of its reverse -/
def canonLoop (l : List C) : List C :=
  (rotations l ++ rotations l.reverse).foldl (fun best r => if listLt r best then r else best) l

def loopKeyLt (a b : Bool × List C) : Bool :=
  listLt a.2 b.2 || (a.2 == b.2 && !a.1 && b.1)

/-- a polygon: loops with hole flags, as a sorted set of canonical cycles -/
def canonPolygon (loops : List (Bool × List C)) : List (Bool × List C) :=
  ((loops.map fun l => (l.1, canonLoop l.2)).toArray.qsort loopKeyLt).toList

def renderFlagged (ps : List (List (Bool × List C))) : String :=
  (lT (lT fun l : Bool × List C => T.list [.atom (if l.1 then "1" else "0"), lT cT l.2]) ps).render

def parseFlagged (s : String) : Option (List (List (Bool × List C))) :=
  (parseTree s).bind fun t =>
    tL (tL fun
      | T.list [.atom h, l] => (tL tC l).map fun cs => (h == "1", cs)
      | _ => none) t

/-- the model's polygons with the hole flags the property expects: ring 0 outer, the others holes -/
def flagged (ps : List (List (List C))) : List (List (Bool × List C)) :=
  ps.map fun loops => (List.range loops.length).zip loops |>.map fun (i, l) => (i != 0, l)

inductive Obs where
  | point (c : C)
  | path (cs : List C)
  | area (ps : List (List (Bool × List C)))
  | invalid
  deriving Inhabited

def Obs.canon : Obs → Obs
  | .area ps => .area (ps.map canonPolygon)
  | o => o

def Obs.render : Obs → String
  | .point c => "P:" ++ (cT c).render
  | .path cs => "L:" ++ (lT cT cs).render
  | .area ps => "A:" ++ renderFlagged ps
  | .invalid => "?"

def parseObs (s : String) : Option Obs :=
  if s == "?" then some .invalid
  else if s.startsWith "P:" then ((parseTree (sdrop s 2)).bind tC).map .point
  else if s.startsWith "L:" then ((parseTree (sdrop s 2)).bind (tL tC)).map .path
  else if s.startsWith "A:" then (parseFlagged (sdrop s 2)).map .area
  else none

def obsOfModel : ObsGeom Int → Obs
  | .point c => .point c
  | .path cs => .path cs
  | .area ps => .area (flagged ps)
  | .invalid => .invalid

def renderTagVal : TagVal Int → String
  | .str s => "s:" ++ s
  | .point c => "P:" ++ (cT c).render
  | .points cs => "L:" ++ (lT cT cs).render

def kindName : FType → String
  | .point => "point"
  | .path => "path"
  | .area => "area"

def sortStrings (l : List String) : List String := (l.toArray.qsort (· < ·)).toList

structure Found where
  kind : String
  obs : Obs
  tags : List String          -- `k=<tagval>` in stored order
  /-- some polygon of the area does not contain the probe point of its outer ring (the harness flags that loop
  `2`): it is the complement of the region the ring was drawn around -/
  wrongSide : Bool := false

def Found.render (f : Found) : String :=
  s!"{f.kind} {f.obs.canon.render} {renderList (sortStrings f.tags)}"

def parseFound (s : String) : Option Found :=
  match words s with
  | kind :: obs :: rest => do
    let wrong := (obs.splitOn "[2,[").length > 1
    let o ← parseObs ("[0,[".intercalate (obs.splitOn "[2,["))
    let tags ← parseBracket (" ".intercalate rest)
    some { kind := kind, obs := o, tags := tags, wrongSide := wrong }
  | _ => none

def parseAnswer (s : String) : Option (List Found) :=
  if s == "none" then some [] else (s.splitOn " + ").mapM parseFound

def foundOfModel (x : Imported Int) : Found :=
  { kind := kindName x.ftype, obs := obsOfModel (observe x),
    tags := x.tags.map fun t => t.1 ++ "=" ++ renderTagVal t.2 }

def renderAnswer (fs : List Found) : String :=
  if fs.isEmpty then "none" else " + ".intercalate (fs.map Found.render)

structure St where
  coll : List (Feature Int) := []
  world : List (Imported Int) := []
  applyOk : Bool := true

/-- the property predicate for feature `i`, on what the implementation reports -/
def faithful (f : Feature Int) (found : List Found) : Bool :=
  match expectedGeom f.geom, found with
  | some (t, g), [x] =>
    x.kind == kindName t
    && !x.wrongSide
    && x.obs.canon.render == (obsOfModel g).canon.render
    && f.props.all fun kv =>
        (x.tags.find? fun tg => tg.startsWith (storedKey kv.1 ++ "=")) == some (storedKey kv.1 ++ "=s:" ++ kv.2)
  | _, _ => false

def step (st : St) (op impl : String) : St × Verdict :=
  match words op with
  | ["geom", gs] =>
    match parseGeom gs with
    | none => (st, .bad)
    | some g =>
      let j := marshalGeometry g
      let back := renderOpt (unmarshalGeometry j)
      let back2 := renderOpt ((unmarshalDoc (.geometry j)).bind fun | .geometry g' => some g' | _ => none)
      let model := s!"{renderJ j} {back} {back2}"
      let v := match words impl with
        | [_, b1, b2] =>
          if b1 != gs || b2 != gs then Verdict.propfail "roundtrip"
          else if impl == model then .ok else .diff model
        | _ => if impl == model then .ok else .propfail "roundtrip"
      (st, v)
  | ["bits", gs] =>
    -- atoms are IEEE bit patterns of arbitrary finite float64 coordinates: both decoders must return them unchanged
    match parseGeom gs with
    | none => (st, .bad)
    | some g =>
      let j := marshalGeometry g
      let back := renderOpt (unmarshalGeometry j)
      let back2 := renderOpt ((unmarshalDoc (.geometry j)).bind fun | .geometry g' => some g' | _ => none)
      let model := s!"{back} {back2}"
      let v := match words impl with
        | [b1, b2] =>
          if b1 != gs || b2 != gs then Verdict.propfail "roundtrip-float64"
          else if impl == model then .ok else .diff model
        | _ => .propfail "roundtrip-float64"
      (st, v)
  | ["parse", js] =>
    match parseJ js with
    | none => (st, .bad)
    | some j =>
      let a := renderOpt (unmarshalGeometry j)
      let b := renderOpt ((unmarshalDoc (.geometry j)).bind fun | .geometry g' => some g' | _ => none)
      let model := s!"{a} {b}"
      (st, if impl == model then .ok else .diff model)
  | "coll" :: fsT =>
    match fsT.mapM parseFeature with
    | none => (st, .bad)
    | some fs =>
      let model := match unmarshalDoc (marshalDoc (.collection fs)) with
        | some (.collection fs') => " ".intercalate ("coll" :: fs'.map renderFeature)
        | _ => "err"
      (st, if impl != op then .propfail "roundtrip" else if impl == model then .ok else .diff model)
  | "import" :: fsT =>
    match fsT.mapM parseFeature with
    | none => (st, .bad)
    | some fs =>
      let (model, world, aok) := match fillFromGeoJSON (.collection fs) with
        | none => ("filled=panic apply=- world=0", [], true)
        | some added =>
          let r := applyAll added
          (s!"filled={added.length} apply={if r.2 then "ok" else "err"} world={r.1.length}", r.1, r.2)
      ({ coll := fs, world := world, applyOk := aok }, if impl == model then .ok else .diff model)
  | ["feat", is] =>
    match is.toNat? with
    | none => (st, .bad)
    | some i =>
      match st.coll[i]? with
      | none => (st, .bad)
      | some f =>
        let modelFound := [FType.point, .path, .area].filterMap fun t => (findByID st.world t i).map foundOfModel
        let model := renderAnswer modelFound
        match parseAnswer impl with
        | none => (st, .bad)
        | some found =>
          let implCanon := renderAnswer found
          let applicable := st.coll.all fun g => wellShaped g.geom
          if applicable && !faithful f found then
            let cls := if !importable f.geom then " class=multi-geometry-dropped" else ""
            (st, .propfail ("import_one_per_feature" ++ cls))
          else (st, if implCanon == model then .ok else .diff model)
  | _ => (st, .bad)

def family : Family := { σ := St, init := {}, step := step }

end B6.Driver.C32

def main : IO Unit := B6.Driver.run B6.Driver.C32.family
