import B6.Driver.Common
import B6.Model.Records
import B6.Model.RecordsTokenMap
import B6.Model.RecordsRaw
/-!
Driver for C11 — every compact record kind through its codec.

op     : `<kind>[!] <params…> | <value tokens> | <rest hex>`     (`!` = the Go side decoded into a used receiver)
answer : `<marshalled hex> <bytes Unmarshal reported> | <decoded value tokens>` | `panic` | `<hex> panic` | `hang` | `<hex> hang`

Per line the driver parses the value, marshals it with the model of `B6.Model.Records` (the bytes must equal the
Go bytes; `none` must coincide with a Go panic), unmarshals *the Go bytes* `++ rest` with the model (decoded
value and consumed count must equal the Go answer) and evaluates the property on the Go answer itself:
decoded = encoded (`sortRefs` of it for the lists that `Marshal` sorts) — clause `roundtrip` — and
consumed = number of marshalled bytes — clause `consumed`.  Values outside the property's domain (a mixed
element / polygon with both halves set) are only compared with the model.

`mixed! p | value | rest | old` and `agm! p | value | rest | old`: the Go receiver held `old` (same notation as the
value); the model decodes with `RefLLs.decInto old` / `AreaGeomMixed.decInto old`; the property is demanded when
`compatible old value` (Props `…_reused_receiver_iff`), else only model = implementation.
`trunc <kind> <params> | value` => `<hex> | r0 r1 …`: `Unmarshal` of a fresh receiver on every proper prefix (length
0, 1, …) of the marshalled bytes, each `panic` or `<returned>/<value>`; compared with `R.decRaw` (outside the
property: never a `propfail`).

Value tokens (flat prefix notation, counts first):
  ref `tn:value` · ll `lat,lng` · refs `n ref…` · lls `n ll…` · mixed `n ref/ll…` · bits `0110…|-` · ints `n int…`
  value `i int | p ll | L lls | R refs | M mixed` · tags `n (key value)…` · members `n (type role ref)…`
  pll `ints lls` · agr `ints refs` · agl `n pll…` · agm `n (refs pll)…` · geom `GR agr | GL agl | GM agm`
  nss `a,b,c,d` · nsi `tn:index` · nsis `n nsi…` · plh `tokenhex features nsis`
-/
open B6.Driver B6.Model.Records B6.Model.Varint
namespace B6.Driver.C11

/-! ## token parsers -/

abbrev P (α : Type) := List String → Option (α × List String)

def pTok : P String
  | [] => none
  | t :: ts => some (t, ts)

def P.bind {α β : Type} (p : P α) (f : α → P β) : P β := fun ts =>
  match p ts with
  | none => none
  | some (a, ts') => f a ts'
def P.ret {α : Type} (a : α) : P α := fun ts => some (a, ts)
instance : Monad P where
  pure := P.ret
  bind := P.bind

def pOf {α : Type} (f : String → Option α) : P α := fun ts =>
  match ts with
  | [] => none
  | t :: ts' => (f t).map fun a => (a, ts')

def pRepeat {α : Type} (p : P α) : Nat → P (List α)
  | 0 => pure []
  | n + 1 => do
    let a ← p
    let as ← pRepeat p n
    pure (a :: as)

def natOf (s : String) : Option Nat := s.toNat?
def u64Of (s : String) : Option (BitVec 64) := (s.toNat?).bind fun n => if n < 2 ^ 64 then some (BitVec.ofNat 64 n) else none
def u16Of (s : String) : Option (BitVec 16) := (s.toNat?).bind fun n => if n < 2 ^ 16 then some (BitVec.ofNat 16 n) else none
def i64Of (s : String) : Option (BitVec 64) :=
  (s.toInt?).bind fun n => if -(2 ^ 63 : Int) ≤ n ∧ n < 2 ^ 63 then some (BitVec.ofInt 64 n) else none
def i32Of (s : String) : Option (BitVec 32) :=
  (s.toInt?).bind fun n => if -(2 ^ 31 : Int) ≤ n ∧ n < 2 ^ 31 then some (BitVec.ofInt 32 n) else none

def refOf (s : String) : Option Reference :=
  match s.splitOn ":" with
  | [a, b] => do
    let tn ← u16Of a
    let v ← u64Of b
    pure ⟨tn, v⟩
  | _ => none
def llOf (s : String) : Option LatLng :=
  match s.splitOn "," with
  | [a, b] => do
    let x ← i32Of a
    let y ← i32Of b
    pure ⟨x, y⟩
  | _ => none
def refLLOf (s : String) : Option RefLL :=
  match s.splitOn "/" with
  | [a, b] => do
    let r ← refOf a
    let l ← llOf b
    pure ⟨r, l⟩
  | _ => none
def bitsOf (s : String) : Option (List Bool) :=
  if s == "-" then some [] else
  s.toList.mapM fun c => if c == '1' then some true else if c == '0' then some false else none
def nssOf (s : String) : Option Namespaces :=
  match s.splitOn "," with
  | [a, b, c, d] => do
    let a ← u16Of a
    let b ← u16Of b
    let c ← u16Of c
    let d ← u16Of d
    pure ⟨a, b, c, d⟩
  | _ => none
def nsiOf (s : String) : Option NamespaceIndex :=
  match s.splitOn ":" with
  | [a, b] => do
    let tn ← u16Of a
    let v ← i64Of b
    pure ⟨tn, v⟩
  | _ => none

def pCounted {α : Type} (p : P α) : P (List α) := do
  let n ← pOf natOf
  if n > 100000 then fun _ => none else pRepeat p n

def pRefs : P (List Reference) := pCounted (pOf refOf)
def pLLs : P (List LatLng) := pCounted (pOf llOf)
def pMixed : P (List RefLL) := pCounted (pOf refLLOf)
def pInts : P (List (BitVec 64)) := pCounted (pOf i64Of)

def pValue : P Value := do
  let k ← pTok
  if k == "i" then (do let v ← pOf i64Of; pure (Value.int v))
  else if k == "p" then (do let v ← pOf llOf; pure (Value.point v))
  else if k == "L" then (do let v ← pLLs; pure (Value.latlngs v))
  else if k == "R" then (do let v ← pRefs; pure (Value.refs v))
  else if k == "M" then (do let v ← pMixed; pure (Value.mixed v))
  else fun _ => none

def pTag : P Tag := do
  let k ← pOf i64Of
  let v ← pValue
  pure ⟨k, v⟩
def pTags : P (List Tag) := pCounted pTag
def pMember : P Member := do
  let t ← pOf i64Of
  let role ← pOf i64Of
  let id ← pOf refOf
  pure ⟨t, role, id⟩
def pMembers : P (List Member) := pCounted pMember
def pPLL : P PolygonLL := do
  let loops ← pInts
  let pts ← pLLs
  pure ⟨loops, pts⟩
def pAGR : P AreaGeomRefs := do
  let polys ← pInts
  let paths ← pRefs
  pure ⟨polys, paths⟩
def pAGL : P (List PolygonLL) := pCounted pPLL
def pPMixed : P PolygonMixed := do
  let rs ← pRefs
  let q ← pPLL
  pure ⟨rs, q⟩
def pAGM : P (List PolygonMixed) := pCounted pPMixed
def pGeom : P AreaGeometry := do
  let k ← pTok
  if k == "GR" then (do let v ← pAGR; pure (AreaGeometry.refs v))
  else if k == "GL" then (do let v ← pAGL; pure (AreaGeometry.latlngs v))
  else if k == "GM" then (do let v ← pAGM; pure (AreaGeometry.mixed v))
  else fun _ => none
def pNSIs : P (List NamespaceIndex) := pCounted (pOf nsiOf)
def pPLH : P PostingListHeader := do
  let tok ← pOf parseHex
  let f ← pOf i64Of
  let ns ← pNSIs
  pure ⟨tok, f, ns⟩

/-- run a parser on a whole token list; all tokens must be consumed. -/
def parseAll {α : Type} (p : P α) (ts : List String) : Option α :=
  match p ts with
  | some (a, []) => some a
  | _ => none

/-! ## rendering (must match harness/cmd/c11/main.go) -/

def j (xs : List String) : String := " ".intercalate xs
def rU (v : BitVec 64) : String := toString v.toNat
def rI (v : BitVec 64) : String := toString v.toInt
def rRef (r : Reference) : String := toString r.tn.toNat ++ ":" ++ toString r.value.toNat
def rLL (l : LatLng) : String := toString l.lat.toInt ++ "," ++ toString l.lng.toInt
def rCounted {α : Type} (f : α → String) (xs : List α) : String := j (toString xs.length :: xs.map f)
def rRefs : List Reference → String := rCounted rRef
def rLLs : List LatLng → String := rCounted rLL
def rMixed : List RefLL → String := rCounted fun x => rRef x.ref ++ "/" ++ rLL x.ll
def rBits (b : List Bool) : String := if b.isEmpty then "-" else String.ofList (b.map fun v => if v then '1' else '0')
def rInts : List (BitVec 64) → String := rCounted rI
def rValue : Value → String
  | .int v => "i " ++ rI v
  | .point l => "p " ++ rLL l
  | .latlngs l => "L " ++ rLLs l
  | .refs l => "R " ++ rRefs l
  | .mixed l => "M " ++ rMixed l
def rTags : List Tag → String := rCounted fun t => rI t.key ++ " " ++ rValue t.value
def rMembers : List Member → String := rCounted fun m => j [rI m.type, rI m.role, rRef m.id]
def rPLL (q : PolygonLL) : String := rInts q.loops ++ " " ++ rLLs q.points
def rAGR (a : AreaGeomRefs) : String := rInts a.polygons ++ " " ++ rRefs a.paths
def rAGL : List PolygonLL → String := rCounted rPLL
def rAGM : List PolygonMixed → String := rCounted fun q => rRefs q.paths ++ " " ++ rPLL q.ll
def rGeom : AreaGeometry → String
  | .refs a => "GR " ++ rAGR a
  | .latlngs ps => "GL " ++ rAGL ps
  | .mixed ps => "GM " ++ rAGM ps
def rNss (n : Namespaces) : String :=
  ",".intercalate [toString n.point.toNat, toString n.path.toNat, toString n.area.toNat, toString n.relation.toNat]
def rNSI (x : NamespaceIndex) : String := toString x.tn.toNat ++ ":" ++ rI x.index
def rNSIs : List NamespaceIndex → String := rCounted rNSI
def rPLH (h : PostingListHeader) : String := j [renderHex h.token, rI h.features, rNSIs h.namespaces]

/-! ## one record kind = how to marshal the parsed value, what must come back, how to decode -/

structure Codec where
  marshal : Option Bytes
  /-- rendering of the value the property demands to come back -/
  expected : String
  decode : Bytes → Option (String × Nat)
  /-- value inside the property's domain (otherwise only model = implementation is checked) -/
  inDomain : Bool := true
  /-- the value belongs to a recorded finding class (KNOWN_FINDINGS.txt): a property failure on it that the
  model predicts is reported as `propfail <clause> class=<name>` -/
  knownClass : Option String := none

def mk {α : Type} (p : P α) (ts : List String) (marshal : α → Option Bytes) (expect : α → α) (render : α → String)
    (dec : Dec α) (dom : α → Bool := fun _ => true) (cls : α → Option String := fun _ => none) : Option Codec :=
  (parseAll p ts).map fun v =>
    { marshal := marshal v, expected := render (expect v),
      decode := fun bs => (dec bs).map fun r => (render r.1, r.2), inDomain := dom v, knownClass := cls v }

def stripBang (k : String) : String := if k.endsWith "!" then sdropEnd k 1 else k

/-- `mixed!` / `agm!`: decoding into a receiver that holds `old` (4th part of the op).  The property is demanded
exactly when the stale halves are compatible with the value (`…_reused_receiver_iff`); otherwise the answer is
only compared with the model (`overlay old g`). -/
def codecReused (kind : String) (params : List String) (ts oldTs : List String) : Option Codec :=
  match kind, params with
  | "mixed", [p] => (u16Of p).bind fun p => (parseAll pMixed oldTs).bind fun old =>
      mk pMixed ts (RefLLs.marshal p) id rMixed (RefLLs.decInto old p)
        (fun g => g.all RefLL.canonical && RefLLs.compatible old g)
  | "agm", [p] => (u16Of p).bind fun p => (parseAll pAGM oldTs).bind fun old =>
      mk pAGM ts (AreaGeomMixed.marshal p) id rAGM (AreaGeomMixed.decInto old p)
        (fun ps => ps.all PolygonMixed.canonical && AreaGeomMixed.compatible old ps)
  | _, _ => none

def rRaw {α : Type} (f : α → String) : Raw α → String
  | .ok v n => toString n ++ "/" ++ f v
  | .panic => "panic"

/-- `trunc <kind> …`: the leaf decoder on every proper prefix of the marshalled bytes; the model answer -/
def truncFor (kind : String) (params : List String) (ts : List String) : Option String :=
  let run {α : Type} (bs : Option Bytes) (dec : Bytes → Raw α) (f : α → String) : String :=
    match bs with
    | none => "panic"
    | some bs => renderHex bs ++ " | " ++ j ((prefixResults dec bs).map (rRaw f))
  match kind, params with
  | "ref", [p] => (u16Of p).bind fun p => (parseAll (pOf refOf) ts).map fun r =>
      run (some (Reference.enc p r)) (Reference.decRaw p) rRef
  | "int", [] => (parseAll (pOf i64Of) ts).map fun v =>
      run (if (Value.int v).ok then some ((Value.int v).enc 0#16) else none) Int.decRaw rI
  | "ll", [] => (parseAll (pOf llOf) ts).map fun l => run l.marshal LatLng.decRaw rLL
  | "str", [] => (parseAll (pOf parseHex) ts).map fun s0 => run (Str.marshal s0) Str.decRaw renderHex
  | "nsi", [] => (parseAll (pOf nsiOf) ts).map fun x => run (some x.enc) NamespaceIndex.decRaw rNSI
  | "nss", [] => (parseAll (pOf nssOf) ts).map fun n => run (some n.enc) Namespaces.decRaw rNss
  | "bits", [] => (parseAll (pOf bitsOf) ts).map fun b => run (Bits.marshal b) Bits.decRaw rBits
  | _, _ => none

def codecFor (kind : String) (params : List String) (ts : List String) : Option Codec :=
  match kind, params with
  | "ref", [p] => (u16Of p).bind fun p =>
      mk (pOf refOf) ts (fun r => some (Reference.enc p r)) id rRef (Reference.dec p)
  | "refs", [p] => (u16Of p).bind fun p => mk pRefs ts (References.marshal p) id rRefs (References.dec p)
  | "ll", [] => mk (pOf llOf) ts LatLng.marshal id rLL LatLng.dec
  | "lls", [] => mk pLLs ts LatLngs.marshal id rLLs LatLngs.dec
  | "mixed", [p] => (u16Of p).bind fun p =>
      mk pMixed ts (RefLLs.marshal p) id rMixed (RefLLs.dec p) (fun g => g.all RefLL.canonical)
  | "bits", [] => mk (pOf bitsOf) ts Bits.marshal id rBits Bits.dec
  | "int", [] => mk (pOf i64Of) ts (fun v => if (Value.int v).ok then some ((Value.int v).enc 0#16) else none) id rI Int.dec
  | "tags", [p] => (u16Of p).bind fun p =>
      mk pTags ts (Tags.marshal p) id rTags (Tags.dec p)
        Tags.canonical
  | "mtags", [p] => (u16Of p).bind fun p => mk pTags ts (Tags.marshal p) id rTags (Tags.dec p)
  | "members", [p] => (u16Of p).bind fun p =>
      mk pMembers ts (Members.marshal p) id rMembers (Members.dec p)
  | "agr", [p] => (u16Of p).bind fun p => mk pAGR ts (AreaGeomRefs.marshal p) id rAGR (AreaGeomRefs.dec p)
  | "agl", [] => mk pAGL ts AreaGeomLL.marshal id rAGL AreaGeomLL.dec
  | "agm", [p] => (u16Of p).bind fun p =>
      mk pAGM ts (AreaGeomMixed.marshal p) id rAGM (AreaGeomMixed.dec p) (fun ps => ps.all PolygonMixed.canonical)
  | "pll", [] => mk pPLL ts PolygonLL.marshal id rPLL PolygonLL.dec
  | "geom", [p] => (u16Of p).bind fun p =>
      mk pGeom ts (fun g => if g.ok then some (g.enc p) else none) id rGeom (AreaGeometry.dec p)
        AreaGeometry.canonical
  | "nss", [] => mk (pOf nssOf) ts (fun n => some n.enc) id rNss Namespaces.dec
  | "str", [] =>
      -- the answer also carries `MarshalledStringEquals` against the string, a proper prefix, an extension and a
      -- one-byte change: must be `1000`
      mk (pOf parseHex) ts Str.marshal id (fun s => renderHex s ++ " 1000") Str.dec
  | "nsi", [] => mk (pOf nsiOf) ts (fun x => some x.enc) id rNSI NamespaceIndex.dec
  | "nsis", [] => mk pNSIs ts NamespaceIndices.marshal id rNSIs NamespaceIndices.dec
  | "plh", [] => mk pPLH ts PostingListHeader.marshal id rPLH PostingListHeader.dec
  | "area", [n] => (nssOf n).bind fun n =>
      mk (do let t ← pTags; let g ← pGeom; let r ← pRefs; pure (⟨t, g, r⟩ : Area)) ts (Area.marshal n) id
        (fun a => j [rTags a.tags, rGeom a.polygons, rRefs a.relations]) (Area.dec n)
        (fun a => Tags.canonical a.tags && a.polygons.canonical)
  | "path", [n] => (nssOf n).bind fun n =>
      mk (do let t ← pTags; let a ← pRefs; let r ← pRefs; pure (⟨t, a, r⟩ : Path)) ts (Path.marshal n) Path.sorted
        (fun p => j [rTags p.tags, rRefs p.areas, rRefs p.relations]) (Path.dec n) (fun p => Tags.canonical p.tags)
  | "cpoint", [n] => (nssOf n).bind fun n =>
      mk (do let t ← pTags; let r ← pOf refOf; pure (⟨t, r⟩ : CommonPoint)) ts (CommonPoint.marshal n) id
        (fun c => j [rTags c.tags, rRef c.path]) (CommonPoint.dec n) (fun c => Tags.canonical c.tags)
  | "prefs", [n] => (nssOf n).bind fun n =>
      mk (do let a ← pRefs; let b ← pRefs; pure (⟨a, b⟩ : PointReferences)) ts (PointReferences.marshal n)
        PointReferences.sorted (fun p => j [rRefs p.paths, rRefs p.relations]) (PointReferences.dec n)
  | "fpoint", [n] => (nssOf n).bind fun n =>
      mk (do let t ← pTags; let a ← pRefs; let b ← pRefs; pure (⟨t, ⟨a, b⟩⟩ : FullPoint)) ts (FullPoint.marshal n)
        FullPoint.sorted (fun p => j [rTags p.tags, rRefs p.refs.paths, rRefs p.refs.relations]) (FullPoint.dec n)
        (fun p => Tags.canonical p.tags)
  | "relation", [t, n] => (i64Of t).bind fun t => (nssOf n).bind fun n =>
      mk (do let tg ← pTags; let m ← pMembers; let r ← pRefs; pure (⟨tg, m, r⟩ : Relation)) ts (Relation.marshal t n) id
        (fun r => j [rTags r.tags, rMembers r.members, rRefs r.relations]) (Relation.dec t n)
        (fun r => Tags.canonical r.tags)
  | "ints", [] =>
      -- `UnmarshalDeltaCodedInts(vs, n, buffer)` is given the count by its caller: the harness passes `len(v)`
      (parseAll pInts ts).map fun v =>
        { marshal := some (DeltaInts.enc v), expected := rInts v,
          decode := fun bs => (DeltaInts.dec v.length bs).map fun r => (rInts r.1, r.2) }
  | _, _ => none

/-! ## TokenMap -/

open B6.Model.RecordsTokenMap in
def tokenMapStep (parts : List String) (impl : String) : Verdict :=
  match parts with
  | [addsS, queriesS, restS] =>
    let pAdd : P (Bytes × BitVec 64) := pOf fun s =>
      match s.splitOn ":" with
      | [a, b] => do
        let t ← parseHex a
        let v ← i64Of b
        pure (t, v)
      | _ => none
    match parseAll (pCounted pAdd) (words addsS), parseAll (pCounted (pOf parseHex)) (words queriesS), parseHex (strim restS) with
    | some adds, some queries, some rest =>
      if impl == "hang" then .propfail "terminates" else
      let enc := addAll adds
      let bytes := encode enc
      let m := decodeLength (bytes ++ rest)
      let finds := queries.map fun q =>
        match findPossibleIndices (bytes ++ rest) q with
        | some is => if is.isEmpty then "-" else ",".intercalate (is.map rI)
        | none => "panic"
      let lenS := match m with | some n => toString n | none => "panic"
      let model := s!"{renderHex bytes} {bytes.length} {lenS} | {j finds}"
      -- property: every added (token, index) is among the possible indices reported for the token,
      -- and the bytes Unmarshal reports = the bytes written
      match impl.splitOn " | " with
      | [left, right] =>
        match words left with
        | [hexI, lenI, gotI] =>
          let okLen := lenI == gotI && (parseHex hexI).map (·.length) == lenI.toNat?
          let lists := (words right).map fun w => if w == "-" then [] else w.splitOn ","
          let okFind := lists.length == queries.length && (adds.zip lists).all fun (a, l) => l.contains (rI a.2)
          if !okLen then .propfail "tokenmap-consumed"
          else if !okFind then .propfail "tokenmap-find"
          else if impl == model then .ok else .diff model
        | _ => .bad
      | _ => if impl == model then .ok else .diff model
    | _, _, _ => .bad
  | _ => .bad

/-! ## the step -/

def step (_ : Unit) (op impl : String) : Unit × Verdict :=
  match op.splitOn " | " with
  | head :: rest1 =>
    match words head with
    | [] => ((), .bad)
    | kind0 :: params =>
      let kind := stripBang kind0
      if kind == "tokenmap" then ((), tokenMapStep rest1 impl) else
      if kind == "trunc" then
        match params, rest1 with
        | k :: ps, [valueS] =>
          match truncFor k ps (words valueS) with
          | some m => ((), if impl == m then .ok else .diff m)
          | none => ((), .bad)
        | _, _ => ((), .bad)
      else
      let parsed : Option (Option Codec × String) :=
        match rest1 with
        | [valueS, restS] => some (codecFor kind params (words valueS), restS)
        | [valueS, restS, oldS] => some (codecReused kind params (words valueS) (words oldS), restS)
        | _ => none
      match parsed with
      | some (codec, restS) =>
        match codec, parseHex (strim restS) with
        | some c, some rest =>
          let modelAnswer : String :=
            match c.marshal with
            | none => "panic"
            | some mb =>
              match c.decode (mb ++ rest) with
              | some (s, n) => s!"{renderHex mb} {n} | {s}"
              | none => s!"{renderHex mb} panic"
          if impl == "panic" then ((), if modelAnswer == "panic" then .ok else .diff modelAnswer) else
          -- the harness gave up waiting for Marshal / Unmarshal (10 s): a codec must terminate on every value
          if impl == "hang" || impl.endsWith " hang" then ((), .propfail "terminates") else
          match impl.splitOn " | " with
          | [_] =>
            -- `<hex> panic`: Unmarshal panicked on Marshal's own output — never acceptable inside the domain
            if c.inDomain then ((), .propfail "roundtrip") else ((), if impl == modelAnswer then .ok else .diff modelAnswer)
          | [left, decodedI] =>
            match words left with
            | [hexI, consumedI] =>
              match parseHex hexI, consumedI.toNat? with
              | some bytesI, some nI =>
                let viol : Option String :=
                  if !c.inDomain then none
                  else if decodedI != c.expected then some "roundtrip"
                  else if nI != bytesI.length then some "consumed"
                  else none
                match viol with
                | some clause =>
                  match c.knownClass with
                  | some cls =>
                    -- recorded finding: reported as such only when the implementation does what the model predicts
                    if impl == modelAnswer then ((), .propfail s!"{clause} class={cls}") else ((), .diff modelAnswer)
                  | none => ((), .propfail clause)
                | none =>
                  -- model decode of the *Go* bytes
                  let md := match c.decode (bytesI ++ rest) with
                    | some (s, n) => s!"{n} | {s}"
                    | none => "panic"
                  if some bytesI != c.marshal then ((), .diff modelAnswer)
                  else if md != s!"{nI} | {decodedI}" then ((), .diff modelAnswer)
                  else ((), .ok)
              | _, _ => ((), .bad)
            | _ => ((), .bad)
          | _ => ((), .bad)
        | _, _ => ((), .bad)
      | _ => ((), .bad)
  | _ => ((), .bad)

def family : Family := { σ := Unit, init := (), step := step }

end B6.Driver.C11

def main : IO Unit := B6.Driver.run B6.Driver.C11.family
