import B6.Driver.Common
import B6.Driver.SkelIO
import B6.Model.RefIndex
import B6.Spec.Referrers
/-!
Driver for C15 — reference queries.

Three object families share one case (each op names its object by prefix):

`idx.*`  a bare `ingest.FeatureReferencesByID`
  `idx.new`                     answer: dump of the index (`[]`)
  `idx.add <feature>`           answer: dump        (feature = `w10=p1,p2`, `r5=`, …)
  `idx.rm <feature>`            answer: dump | `panic`
  `idx.find <id> [type…]`       answer: sorted source IDs, one per returned reference | `crash` | `hang`
  dump = `[p1:w10@0,w11@2 w10:a20 r9:]` (targets sorted; entries in slice order; `@n` = indexed entry)
`mw.*`   an `ingest.BasicMutableWorld`
  `mw.new` → `ok`;  `mw.add <feature>` → `ok` | `err` | `skipped`
  `mw.find|rels|cols|areas <id> [type…]` → sorted IDs | `crash` | `hang` | `skipped`
`ow.*`   an `ingest.MutableOverlayWorld` over a basic world
  `ow.base [<feature>…]` → the features of the built base world (the driver resynchronises on it)
  `ow.add <feature>` → `ok`|`err`|`skipped`; `ow.snap` → `ok`
  `ow.tag <id>`    AddTag of a searchable tag (`#amenity`): a feature that lives only in the base is copied up
  `ow.untag <id>`  RemoveTag of the searchable tag `#t` (carried by features written `…;t=x`): copied up when the
                   base-only feature has the tag
  `ow.tagp <id>` / `ow.untagp <id>`  AddTag / RemoveTag of a plain key on a non-point feature: never a copy
                   → `ok` | `err` (no such feature) | `skipped`
  `ow.find|rels|cols|areas <id> [type…]`

The property predicate: every query answer = the referrers of the ID in the CURRENT feature set
(`B6.Spec.Referrers.referrers`, restricted to the requested types), each once; no crash, no hang.
Whether `AddFeature` accepts a feature (validation) is taken from the implementation (C13/C37).
-/
open B6.Driver B6.Driver.SkelIO B6.Model.RefIndex
namespace B6.Driver.C15
abbrev Id := B6.Model.RefIndex.Id

/-- `<id>=<refs>[;attr…]`: attributes (how a collection's keys are typed, …) do not change the references -/
def parseFeature (s0 : String) : Option Feature :=
  let s := (s0.splitOn ";").headD ""
  match s.splitOn "=" with
  | [a, b] => do
    let id ← parseId a
    let refs ← parseIdsComma b
    some ⟨id, refs⟩
  | _ => none

/-- does the feature token carry `;t=…` (the searchable tag `#t`)? -/
def hasT (tok : String) : Bool := ((tok.splitOn ";").drop 1).any (·.startsWith "t=")

def idOfToken (tok : String) : Option Id := (parseFeature tok).map (·.id)

/-- the tagged IDs among feature tokens; a later token of the same ID replaces an earlier one -/
def taggedOf (toks : List String) : List Id :=
  toks.foldl (fun acc tok => match idOfToken tok with
    | some i => if hasT tok then (if acc.contains i then acc else acc ++ [i]) else acc.filter (· != i)
    | none => acc) []

def renderFeature (f : Feature) : String := renderId f.id ++ "=" ++ ",".intercalate (f.refs.map renderId)

def renderRef (r : Ref) : String :=
  match r.pos with
  | some n => renderId r.src ++ "@" ++ toString n
  | none => renderId r.src

def renderIndex (ix : Index) : String :=
  let sorted := sortBy (fun (a b : Id × List Ref) => idLt a.1 b.1) ix
  renderList (sorted.map fun (t, rs) => renderId t ++ ":" ++ ",".intercalate (rs.map renderRef))

def parseRef (s : String) : Option Ref :=
  match s.splitOn "@" with
  | [a] => do let id ← parseId a; some ⟨id, none⟩
  | [a, n] => do let id ← parseId a; let k ← parseNat? n; some ⟨id, some k⟩
  | _ => none

def parseIndex (s : String) : Option Index := do
  let ws ← parseBracket s
  ws.mapM fun w => match w.splitOn ":" with
    | [t, es] => do
      let t ← parseId t
      let rs ← (splitComma es).mapM parseRef
      some (t, rs)
    | _ => none

def renderOptIds : Option (List Id) → String
  | some xs => renderIds (sortIds xs)
  | none => "hang"

structure St where
  ix : Index := []
  /-- the feature set of the bare index while the history is disciplined (add fresh / remove present) -/
  disc : Option (List Feature) := some []
  mw : World := World.empty
  mwPoisoned : Bool := false
  ow : Overlay := ⟨[], [], []⟩
  owPoisoned : Bool := false
  /-- the features of the overlay world that currently carry the searchable tag `#t` -/
  tagged : List Id := []

/-- spec answer: referrers in `fs`, restricted to existing features of the requested types -/
def specAnswer (fs : List Feature) (id : Id) (typed : List Nat) : Option (List Id) :=
  match B6.Spec.Referrers.referrers fs id with
  | some rs => some (sortIds ((rs.filter (hasFeature fs)).filter (typeOk typed)))
  | none => none

def judge (impl : String) (model : Option (List Id)) (spec : Option (List Id)) : Verdict :=
  match spec with
  | none => .bad
  | some s =>
    if impl == renderIds s then (if impl == renderOptIds model then .ok else .diff (renderOptIds model))
    else .propfail ("referrers expected=" ++ (renderIds s).replace " " ",")

/-- inverse-relation check of a dumped index against a feature set -/
def indexIsInverse (ix : Index) (fs : List Feature) : Bool :=
  let targets := (ix.map (·.1)) ++ fs.flatMap (·.refs)
  targets.all fun t =>
    let have_ := sortIds (dedup ((entries ix t).map (·.src)))
    let want := sortIds (dedup ((fs.filter fun f => f.refs.contains t).map (·.id)))
    have_ == want && ((entries ix t).map (·.src)).length == have_.length

def queryTypes (kind : String) (extra : List String) : Option (List Nat) :=
  if kind == "find" then parseTypes extra
  else if extra != [] then none
  else if kind == "rels" then some [3] else if kind == "cols" then some [5] else if kind == "areas" then some [2]
  else none

def step (st : St) (op impl : String) : St × Verdict :=
  match words op with
  | ["idx.new"] => ({ st with ix := [], disc := some [] }, if impl == "[]" then .ok else .diff "[]")
  | ["idx.add", fs] =>
    match parseFeature fs with
    | none => (st, .bad)
    | some f =>
      let ix' := addFeature st.ix f
      let disc' := match st.disc with
        | some S => if hasFeature S f.id then none else some (S ++ [f])
        | none => none
      let m := renderIndex ix'
      let resync := match parseIndex impl with | some i => i | none => ix'
      let v : Verdict :=
        match parseIndex impl, disc' with
        | some i, some S => if !indexIsInverse i S then .propfail "index-not-inverse" else if impl == m then .ok else .diff m
        | _, _ => if impl == m then .ok else .diff m
      ({ st with ix := resync, disc := disc' }, v)
  | ["idx.rm", fs] =>
    match parseFeature fs with
    | none => (st, .bad)
    | some f =>
      let r := removeFeature st.ix f
      let disc' := match st.disc with
        | some S => if S.contains f then some (S.filter (· != f)) else none
        | none => none
      let m := match r with | some ix' => renderIndex ix' | none => "panic"
      let resync := match parseIndex impl with | some i => i | none => (r.getD st.ix)
      let v : Verdict :=
        match parseIndex impl, disc' with
        | some i, some S => if !indexIsInverse i S then .propfail "index-not-inverse" else if impl == m then .ok else .diff m
        | none, some _ => .propfail "remove-failed"
        | _, none => if impl == m then .ok else .diff m
      ({ st with ix := resync, disc := disc' }, v)
  | "idx.find" :: ids :: extra =>
    match parseId ids, parseTypes extra with
    | some id, some typed =>
      let m := findReferences st.ix id typed
      match st.disc with
      | some S =>
        -- predicate: as a set, the referrers in the current feature set; and terminated
        match parseIds impl, specAnswer S id typed with
        | some xs, some s =>
          if sortIds (dedup xs) == s then (st, if impl == renderOptIds m then .ok else .diff (renderOptIds m))
          else (st, .propfail ("referrers expected=" ++ (renderIds s).replace " " ","))
        | none, some _ => (st, .propfail "no-answer")
        | _, none => (st, .bad)
      | none =>
        if impl == "crash" || impl == "hang" then (st, .propfail "no-answer")
        else (st, if impl == renderOptIds m then .ok else .diff (renderOptIds m))
    | _, _ => (st, .bad)
  | ["mw.new"] => ({ st with mw := World.empty, mwPoisoned := false }, if impl == "ok" then .ok else .diff "ok")
  | ["mw.add", fs] =>
    match parseFeature fs with
    | none => (st, .bad)
    | some f =>
      if st.mwPoisoned then (st, if impl == "skipped" then .ok else .diff "skipped")
      else if impl == "ok" then
        match st.mw.add f with
        | some w' => ({ st with mw := w' }, .ok)
        | none => (st, .diff "panic")
      else if impl == "err" then ({ st with mwPoisoned := true }, .ok)
      else (st, .propfail "no-answer")
  | ["ow.base", _] | "ow.base" :: _ =>
    match (do let ws ← parseBracket impl; ws.mapM parseFeature), parseBracket (sdrop op 8) with
    | some fs, some toks => ({ st with ow := ⟨fs, [], []⟩, owPoisoned := false, tagged := taggedOf toks }, .ok)
    | _, _ => (st, .bad)
  | ["ow.add", fs] =>
    match parseFeature fs with
    | none => (st, .bad)
    | some f =>
      if st.owPoisoned then (st, if impl == "skipped" then .ok else .diff "skipped")
      else if impl == "ok" then
        match st.ow.add f with
        | some o' =>
          let tg := if hasT fs then (if st.tagged.contains f.id then st.tagged else st.tagged ++ [f.id])
                    else st.tagged.filter (· != f.id)
          ({ st with ow := o', tagged := tg }, .ok)
        | none => (st, .diff "panic")
      else if impl == "err" then ({ st with owPoisoned := true }, .ok)
      else (st, .propfail "no-answer")
  | ["ow.untag", ids] =>
    match parseId ids with
    | none => (st, .bad)
    | some id =>
      if st.owPoisoned then (st, if impl == "skipped" then .ok else .diff "skipped")
      else if impl == "ok" then
        -- a base-only feature that carries the tag is copied into the overlay (its referrers are not)
        let o' := if st.tagged.contains id then st.ow.copyUp id else st.ow
        ({ st with ow := o', tagged := st.tagged.filter (· != id) }, if st.ow.has id then .ok else .diff "err")
      else if impl == "err" then (st, if st.ow.has id then .diff "ok" else .ok)
      else (st, .propfail "no-answer")
  | [opk, ids] =>
    if opk == "ow.tagp" || opk == "ow.untagp" then
      match parseId ids with
      | none => (st, .bad)
      | some id =>
        if st.owPoisoned then (st, if impl == "skipped" then .ok else .diff "skipped")
        else if impl == "ok" then (st, if st.ow.has id then .ok else .diff "err")
        else if impl == "err" then (st, if st.ow.has id then .diff "ok" else .ok)
        else (st, .propfail "no-answer")
    else step2 st op impl
  | _ => step2 st op impl
where step2 (st : St) (op impl : String) : St × Verdict :=
  match words op with
  | ["ow.tag", ids] =>
    match parseId ids with
    | none => (st, .bad)
    | some id =>
      if st.owPoisoned then (st, if impl == "skipped" then .ok else .diff "skipped")
      else if impl == "ok" then ({ st with ow := st.ow.copyUp id }, if st.ow.has id then .ok else .diff "err")
      else if impl == "err" then (st, if st.ow.has id then .diff "ok" else .ok)
      else (st, .propfail "no-answer")
  | ["ow.snap"] =>
    if st.owPoisoned then (st, if impl == "skipped" then .ok else .diff "skipped")
    else ({ st with ow := st.ow.snapshot }, if impl == "ok" then .ok else .diff "ok")
  | q :: ids :: extra =>
    let (world, kind) := match q.splitOn "." with
      | [a, b] => (a, b)
      | _ => ("", "")
    match parseId ids, queryTypes kind extra with
    | some id, some typed =>
      if world == "mw" then
        if st.mwPoisoned then (st, if impl == "skipped" then .ok else .diff "skipped")
        else (st, judge impl (basicFind st.mw.feats st.mw.ix id typed) (specAnswer st.mw.feats id typed))
      else if world == "ow" then
        if st.owPoisoned then (st, if impl == "skipped" then .ok else .diff "skipped")
        else (st, judge impl (st.ow.find id typed) (specAnswer st.ow.merged id typed))
      else (st, .bad)
    | _, _ => (st, .bad)
  | _ => (st, .bad)

def family : Family := { σ := St, init := {}, step := step }

end B6.Driver.C15

def main : IO Unit := B6.Driver.run B6.Driver.C15.family
