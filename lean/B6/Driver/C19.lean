import B6.Driver.Common
import B6.Model.WireExpr
/-!
Driver for C19.  Stateless.  Protos and expressions travel as S-expressions (strings as `x<hex>`, floats
as `f<16 hex digits of the bit pattern>`, everything else decimal words):

NodeProto   `(N name begin end KIND)`     KIND = `unset` | `(sym x)` | `(lit L)` | `(call 0|1 N N*)` | `(lam (x*) N)`
Literal     L = `unset` `nil` `pair` `feature` `applied` | `(bool 0|1)` `(str x)` `(int n)` `(float f)` |
                `(coll sk sv (L L)*)` | `(query Q)` | `(id enum x value)` | `(pt lat lng)` | `(path lat lng …)` |
                `(area (poly (loop lat lng …)*)*)` | `(geojson x)` | `(tag x x)` | `(route ID (step ID ID f)*)`
QueryProto  Q = `unset` `all` `empty` `isvalid` | `(keyed x)` `(tagged x x)` `(typed enum Q)` `(typed enum)` `(and Q*)`
                `(or Q*)` `(cap lat lng f)` `(feat enum x value)` `(qpt lat lng)` `(qline lat lng …)` `(qarea POLY*)`
                `(cells n*)` `(might n*)`
Expression  `(E name begin end ANY)`; ANY / queries as above with type *names* instead of enum numbers, tag
            values `(s x)` (a string expression) or `(o x)` (anything else, its String()), `absent` for a nil
            AnyExpression, `(coll (ANY ANY)*)`.

ops
  `rt P`   client proto P:  answer `E | P' | E' | P'' | eq | raw`  (ExpressionFromProto(P); E.ToProto(); ExpressionFromProto(P');
           E'.ToProto(); E.Equal(E'); P'' = P' with polygon loops as they are), each field the S-expression or `err` / `panic`,
           `-` once a stage failed.  Polygon loops are printed in a canonical form (start at the smallest vertex, fixed
           direction, loops sorted): S2 re-orients and re-orders them when it builds the polygon
  `ex E`   server-side expression E:  answer `P | E' | P'' | eq`
The model recomputes every stage from the implementation's previous stage (so one disagreement does not cascade);
the property predicate — E' = E, P'' = P', Go's Equal says so too — is evaluated on the implementation's answers
for requests in `NodeP.wire` / expressions in `Expr.supported`.
-/
open B6.Driver B6.Model.WireExpr B6.Model.FeatureID
namespace B6.Driver.C19

inductive SExp where
  | atom (s : String)
  | list (xs : List SExp)
  deriving Inhabited

def tokenize (s : String) : List String :=
  let padded := String.ofList (s.toList.flatMap fun c =>
    if c == '(' || c == ')' then [' ', c, ' '] else [c])
  words padded

partial def parseSExp : List String → Option (SExp × List String)
  | [] => none
  | "(" :: rest =>
    let rec go (ts : List String) (acc : List SExp) : Option (SExp × List String) :=
      match ts with
      | [] => none
      | ")" :: rest => some (.list acc.reverse, rest)
      | _ =>
        match parseSExp ts with
        | some (x, rest) => go rest (x :: acc)
        | none => none
    go rest []
  | ")" :: _ => none
  | t :: rest => some (.atom t, rest)

def readSExp (s : String) : Option SExp :=
  match parseSExp (tokenize s) with
  | some (x, []) => some x
  | _ => none

/-! ### atoms -/

def hexVal (s : String) : Option Nat :=
  s.toList.foldlM (fun acc c => (hexDigit? c).map (acc * 16 + ·)) 0

def aStr : SExp → Option String
  | .atom s => if s.startsWith "x" then some (sdrop s 1) else none
  | _ => none
def aNat : SExp → Option Nat
  | .atom s => s.toNat?
  | _ => none
def aInt : SExp → Option Int
  | .atom s => s.toInt?
  | _ => none
def aFloat : SExp → Option Nat
  | .atom s => if s.startsWith "f" then hexVal (sdrop s 1) else none
  | _ => none
def aBool : SExp → Option Bool
  | .atom "0" => some false
  | .atom "1" => some true
  | _ => none

def rStr (s : String) : String := "x" ++ s
def hex16 (n : Nat) : String :=
  String.ofList ((List.range 16).reverse.map fun i => hexOfNibble ((n / 16 ^ i) % 16))
def rFloat (n : Nat) : String := "f" ++ hex16 n
def rBool (b : Bool) : String := if b then "1" else "0"
def paren (xs : List String) : String := "(" ++ " ".intercalate xs ++ ")"

def typeName : FType → String
  | .point => "point" | .path => "path" | .area => "area" | .relation => "relation"
  | .invalid => "invalid" | .collection => "collection" | .expression => "expression"
def parseType : String → Option FType
  | "point" => some .point | "path" => some .path | "area" => some .area
  | "relation" => some .relation | "invalid" => some .invalid
  | "collection" => some .collection | "expression" => some .expression | _ => none

/-! ### geometry -/

def decPoints : List SExp → Option (List PointE7)
  | [] => some []
  | a :: b :: rest => do
    let lat ← aInt a
    let lng ← aInt b
    let r ← decPoints rest
    pure (⟨lat, lng⟩ :: r)
  | _ => none

def rPoints (ps : List PointE7) : List String := ps.flatMap fun p => [toString p.lat, toString p.lng]

def decLoop : SExp → Option Loop
  | .list (.atom "loop" :: pts) => decPoints pts
  | _ => none
def decPoly : SExp → Option Polygon
  | .list (.atom "poly" :: loops) => loops.mapM decLoop
  | _ => none
def rPoly (p : Polygon) : String := paren ("poly" :: p.map fun l => paren ("loop" :: rPoints l))

/-! ### IDs, routes -/

def decWIDP : SExp → Option WIDP
  | .list [.atom "id", e, ns, v] => do pure ⟨← aNat e, ← aStr ns, ← aNat v⟩
  | _ => none
def rWIDP (tag : String) (p : WIDP) : String := paren [tag, toString p.enum, rStr p.ns, toString p.value]
def decWID : SExp → Option WID
  | .list [.atom "id", .atom t, ns, v] => do pure ⟨← parseType t, ← aStr ns, ← aNat v⟩
  | _ => none
def rWID (tag : String) (f : WID) : String := paren [tag, typeName f.type, rStr f.ns, toString f.value]

def decRouteP : List SExp → Option RouteP
  | o :: steps => do
    let o ← decWIDP o
    let ss ← steps.mapM fun s =>
      match s with
      | .list [.atom "step", d, v, c] => do pure (⟨← decWIDP d, ← decWIDP v, ← aFloat c⟩ : StepP)
      | _ => none
    pure ⟨o, ss⟩
  | _ => none
def rRouteP (r : RouteP) : String :=
  paren ("route" :: rWIDP "id" r.origin :: r.steps.map fun s =>
    paren ["step", rWIDP "id" s.destination, rWIDP "id" s.via, rFloat s.cost])
def decRoute : List SExp → Option Route
  | o :: steps => do
    let o ← decWID o
    let ss ← steps.mapM fun s =>
      match s with
      | .list [.atom "step", d, v, c] => do pure (⟨← decWID d, ← decWID v, ← aFloat c⟩ : Step)
      | _ => none
    pure ⟨o, ss⟩
  | _ => none
def rRoute (r : Route) : String :=
  paren ("route" :: rWID "id" r.origin :: r.steps.map fun s =>
    paren ["step", rWID "id" s.destination, rWID "id" s.via, rFloat s.cost])

/-! ### query protos -/

mutual
partial def decQueryP : SExp → Option QueryP
  | .atom "unset" => some .unset
  | .atom "all" => some .all
  | .atom "empty" => some .empty
  | .atom "isvalid" => some .isValid
  | .list [.atom "keyed", k] => do pure (.keyed (← aStr k))
  | .list [.atom "tagged", k, v] => do pure (.tagged (← aStr k) (← aStr v))
  | .list [.atom "typed", e, q] => do pure (.typed (← aNat e) (← decQueryP q))
  | .list [.atom "typed", e] => do pure (.typedNoQuery (← aNat e))
  | .list (.atom "and" :: qs) => do pure (.inter (← decQueryPList qs))
  | .list (.atom "or" :: qs) => do pure (.union (← decQueryPList qs))
  | .list [.atom "cap", a, b, r] => do pure (.cap ⟨← aInt a, ← aInt b⟩ (← aFloat r))
  | .list [.atom "feat", e, ns, v] => do pure (.feature ⟨← aNat e, ← aStr ns, ← aNat v⟩)
  | .list [.atom "qpt", a, b] => do pure (.point ⟨← aInt a, ← aInt b⟩)
  | .list (.atom "qline" :: pts) => do pure (.polyline (← decPoints pts))
  | .list (.atom "qarea" :: ps) => do pure (.multipolygon (← ps.mapM decPoly))
  | .list (.atom "cells" :: ids) => do pure (.cells (← ids.mapM aNat))
  | .list (.atom "might" :: ids) => do pure (.might (← ids.mapM aNat))
  | _ => none
partial def decQueryPList : List SExp → Option QueryPList
  | [] => some .nil
  | q :: qs => do pure (.cons (← decQueryP q) (← decQueryPList qs))
end

mutual
partial def rQueryP : QueryP → String
  | .unset => "unset" | .all => "all" | .empty => "empty" | .isValid => "isvalid"
  | .keyed k => paren ["keyed", rStr k]
  | .tagged k v => paren ["tagged", rStr k, rStr v]
  | .typed e q => paren ["typed", toString e, rQueryP q]
  | .typedNoQuery e => paren ["typed", toString e]
  | .inter qs => paren ("and" :: rQueryPList qs)
  | .union qs => paren ("or" :: rQueryPList qs)
  | .cap c r => paren ["cap", toString c.lat, toString c.lng, rFloat r]
  | .feature id => rWIDP "feat" id
  | .point p => paren ["qpt", toString p.lat, toString p.lng]
  | .polyline ps => paren ("qline" :: rPoints ps)
  | .multipolygon m => paren ("qarea" :: m.map rPoly)
  | .cells ids => paren ("cells" :: ids.map toString)
  | .might ids => paren ("might" :: ids.map toString)
partial def rQueryPList : QueryPList → List String
  | .nil => []
  | .cons q qs => rQueryP q :: rQueryPList qs
end

/-! ### queries (server side) -/

def decTagVal : SExp → Option TagVal
  | .list [.atom "s", v] => do pure (.str (← aStr v))
  | .list [.atom "o", v] => do pure (.other (← aStr v))
  | _ => none
def rTagVal : TagVal → String
  | .str s => paren ["s", rStr s]
  | .other r => paren ["o", rStr r]

mutual
partial def decQuery : SExp → Option Query
  | .atom "all" => some .all
  | .atom "empty" => some .empty
  | .atom "isvalid" => some .isValid
  | .list [.atom "keyed", k] => do pure (.keyed (← aStr k))
  | .list [.atom "tagged", k, v] => do pure (.tagged (← aStr k) (← decTagVal v))
  | .list [.atom "typed", .atom t, q] => do pure (.typed (← parseType t) (← decQuery q))
  | .list (.atom "and" :: qs) => do pure (.inter (← decQueryList qs))
  | .list (.atom "or" :: qs) => do pure (.union (← decQueryList qs))
  | .list [.atom "cap", a, b, r] => do pure (.cap ⟨← aInt a, ← aInt b⟩ (← aFloat r))
  | .list [.atom "feat", .atom t, ns, v] => do pure (.feature ⟨← parseType t, ← aStr ns, ← aNat v⟩)
  | .list [.atom "qpt", a, b] => do pure (.point ⟨← aInt a, ← aInt b⟩)
  | .list (.atom "qline" :: pts) => do pure (.polyline (← decPoints pts))
  | .list (.atom "qarea" :: ps) => do pure (.multipolygon (← ps.mapM decPoly))
  | .list (.atom "cells" :: ids) => do pure (.cells (← ids.mapM aNat))
  | .list (.atom "might" :: ids) => do pure (.might (← ids.mapM aNat))
  | _ => none
partial def decQueryList : List SExp → Option QueryList
  | [] => some .nil
  | q :: qs => do pure (.cons (← decQuery q) (← decQueryList qs))
end

mutual
partial def rQuery : Query → String
  | .all => "all" | .empty => "empty" | .isValid => "isvalid"
  | .keyed k => paren ["keyed", rStr k]
  | .tagged k v => paren ["tagged", rStr k, rTagVal v]
  | .typed t q => paren ["typed", typeName t, rQuery q]
  | .inter qs => paren ("and" :: rQueryList qs)
  | .union qs => paren ("or" :: rQueryList qs)
  | .cap c r => paren ["cap", toString c.lat, toString c.lng, rFloat r]
  | .feature id => rWID "feat" id
  | .point p => paren ["qpt", toString p.lat, toString p.lng]
  | .polyline ps => paren ("qline" :: rPoints ps)
  | .multipolygon m => paren ("qarea" :: m.map rPoly)
  | .cells ids => paren ("cells" :: ids.map toString)
  | .might ids => paren ("might" :: ids.map toString)
partial def rQueryList : QueryList → List String
  | .nil => []
  | .cons q qs => rQuery q :: rQueryList qs
end

/-! ### node protos -/

mutual
partial def decLitP : SExp → Option LitP
  | .atom "unset" => some .unset
  | .atom "nil" => some .nilV
  | .atom "pair" => some .pairV
  | .atom "feature" => some .featureV
  | .atom "applied" => some .appliedChangeV
  | .list [.atom "bool", b] => do pure (.boolV (← aBool b))
  | .list [.atom "str", s] => do pure (.strV (← aStr s))
  | .list [.atom "int", i] => do pure (.intV (← aInt i))
  | .list [.atom "float", f] => do pure (.floatV (← aFloat f))
  | .list (.atom "coll" :: sk :: sv :: pairs) => do pure (.collV (← decLitPairs pairs) (← aNat sk) (← aNat sv))
  | .list [.atom "query", q] => do pure (.queryV (← decQueryP q))
  | .list [.atom "id", e, ns, v] => do pure (.idV ⟨← aNat e, ← aStr ns, ← aNat v⟩)
  | .list [.atom "pt", a, b] => do pure (.pointV ⟨← aInt a, ← aInt b⟩)
  | .list (.atom "path" :: pts) => do pure (.pathV (← decPoints pts))
  | .list (.atom "area" :: ps) => do pure (.areaV (← ps.mapM decPoly))
  | .list [.atom "geojson", b] => do pure (.geojsonV (← aStr b))
  | .list [.atom "tag", k, v] => do pure (.tagV (← aStr k) (← aStr v))
  | .list (.atom "route" :: r) => do pure (.routeV (← decRouteP r))
  | _ => none
partial def decLitPairs : List SExp → Option LitPairList
  | [] => some .nil
  | .list [k, v] :: rest => do pure (.cons (← decLitP k) (← decLitP v) (← decLitPairs rest))
  | _ => none
end

mutual
partial def rLitP : LitP → String
  | .unset => "unset" | .nilV => "nil" | .pairV => "pair" | .featureV => "feature" | .appliedChangeV => "applied"
  | .boolV b => paren ["bool", rBool b]
  | .strV s => paren ["str", rStr s]
  | .intV i => paren ["int", toString i]
  | .floatV f => paren ["float", rFloat f]
  | .collV pairs sk sv => paren ("coll" :: toString sk :: toString sv :: rLitPairs pairs)
  | .queryV q => paren ["query", rQueryP q]
  | .idV id => rWIDP "id" id
  | .pointV p => paren ["pt", toString p.lat, toString p.lng]
  | .pathV ps => paren ("path" :: rPoints ps)
  | .areaV m => paren ("area" :: m.map rPoly)
  | .geojsonV b => paren ["geojson", rStr b]
  | .tagV k v => paren ["tag", rStr k, rStr v]
  | .routeV r => rRouteP r
partial def rLitPairs : LitPairList → List String
  | .nil => []
  | .cons k v rest => paren [rLitP k, rLitP v] :: rLitPairs rest
end

mutual
partial def decKindP : SExp → Option KindP
  | .atom "unset" => some .unset
  | .list [.atom "sym", s] => do pure (.symbol (← aStr s))
  | .list [.atom "lit", l] => do pure (.literal (← decLitP l))
  | .list (.atom "call" :: p :: f :: args) => do pure (.call (← decNodeP f) (← decNodePList args) (← aBool p))
  | .list [.atom "lam", .list ps, body] => do pure (.lambda (← ps.mapM aStr) (← decNodeP body))
  | _ => none
partial def decNodeP : SExp → Option NodeP
  | .list [.atom "N", name, b, e, k] => do pure (.mk (← decKindP k) (← aStr name) (← aInt b) (← aInt e))
  | _ => none
partial def decNodePList : List SExp → Option NodePList
  | [] => some .nil
  | n :: ns => do pure (.cons (← decNodeP n) (← decNodePList ns))
end

mutual
partial def rKindP : KindP → String
  | .unset => "unset"
  | .symbol s => paren ["sym", rStr s]
  | .literal l => paren ["lit", rLitP l]
  | .call f args p => paren ("call" :: rBool p :: rNodeP f :: rNodePList args)
  | .lambda ps body => paren ["lam", paren (ps.map rStr), rNodeP body]
partial def rNodeP : NodeP → String
  | .mk k name b e => paren ["N", rStr name, toString b, toString e, rKindP k]
partial def rNodePList : NodePList → List String
  | .nil => []
  | .cons n ns => rNodeP n :: rNodePList ns
end

/-! ### expressions -/

mutual
partial def decAny : SExp → Option Any
  | .atom "absent" => some .absent
  | .atom "nil" => some .nilLit
  | .atom "feature" => some .feature
  | .list [.atom "sym", s] => do pure (.symbol (← aStr s))
  | .list [.atom "int", i] => do pure (.int (← aInt i))
  | .list [.atom "float", f] => do pure (.float (← aFloat f))
  | .list [.atom "bool", b] => do pure (.bool (← aBool b))
  | .list [.atom "str", s] => do pure (.str (← aStr s))
  | .list [.atom "id", .atom t, ns, v] => do pure (.id ⟨← parseType t, ← aStr ns, ← aNat v⟩)
  | .list [.atom "tag", k, v] => do pure (.tag (← aStr k) (← decTagVal v))
  | .list [.atom "pt", a, b] => do pure (.point ⟨← aInt a, ← aInt b⟩)
  | .list (.atom "path" :: pts) => do pure (.path (← decPoints pts))
  | .list (.atom "area" :: ps) => do pure (.area (← ps.mapM decPoly))
  | .list [.atom "query", q] => do pure (.query (← decQuery q))
  | .list [.atom "geojson", b] => do pure (.geojson (← aStr b))
  | .list (.atom "route" :: r) => do pure (.route (← decRoute r))
  | .list (.atom "coll" :: pairs) => do pure (.coll (← decPairs pairs))
  | .list (.atom "call" :: p :: f :: args) => do pure (.call (← decExpr f) (← decExprList args) (← aBool p))
  | .list [.atom "lam", .list ps, body] => do pure (.lambda (← ps.mapM aStr) (← decExpr body))
  | _ => none
partial def decExpr : SExp → Option Expr
  | .list [.atom "E", name, b, e, a] => do pure (.mk (← decAny a) (← aStr name) (← aInt b) (← aInt e))
  | _ => none
partial def decExprList : List SExp → Option ExprList
  | [] => some .nil
  | e :: es => do pure (.cons (← decExpr e) (← decExprList es))
partial def decPairs : List SExp → Option PairList
  | [] => some .nil
  | .list [k, v] :: rest => do pure (.cons (← decAny k) (← decAny v) (← decPairs rest))
  | _ => none
end

mutual
partial def rAny : Any → String
  | .absent => "absent" | .nilLit => "nil" | .feature => "feature"
  | .symbol s => paren ["sym", rStr s]
  | .int i => paren ["int", toString i]
  | .float f => paren ["float", rFloat f]
  | .bool b => paren ["bool", rBool b]
  | .str s => paren ["str", rStr s]
  | .id f => rWID "id" f
  | .tag k v => paren ["tag", rStr k, rTagVal v]
  | .point p => paren ["pt", toString p.lat, toString p.lng]
  | .path ps => paren ("path" :: rPoints ps)
  | .area m => paren ("area" :: m.map rPoly)
  | .query q => paren ["query", rQuery q]
  | .geojson b => paren ["geojson", rStr b]
  | .route r => rRoute r
  | .coll items => paren ("coll" :: rPairs items)
  | .call f args p => paren ("call" :: rBool p :: rExpr f :: rExprList args)
  | .lambda ps body => paren ["lam", paren (ps.map rStr), rExpr body]
partial def rExpr : Expr → String
  | .mk a name b e => paren ["E", rStr name, toString b, toString e, rAny a]
partial def rExprList : ExprList → List String
  | .nil => []
  | .cons e es => rExpr e :: rExprList es
partial def rPairs : PairList → List String
  | .nil => []
  | .cons k v rest => paren [rAny k, rAny v] :: rPairs rest
end

def rR {α : Type} (f : α → String) : R α → String
  | .ok a => f a
  | .err => "err"
  | .panic => "panic"

def isSExp (s : String) : Bool := s.startsWith "("

/-- a NaN anywhere in the text (`f7ff…`/`ffff…` with a non-zero mantissa): Go's `Equal` is then `false` -/
def mentionsNaN (s : String) : Bool :=
  (tokenize s).any fun t =>
    t.startsWith "f" && t.length == 17 &&
      match hexVal (sdrop t 1) with
      | some bits => (bits / 2 ^ 52) % 2048 == 2047 && bits % 2 ^ 52 != 0
      | none => false

/-- equal token for token, except that the radius of a `(cap lat lng radius)` may differ by at most 16 units
in the last place: the executable form of "`cv r = r` up to the float conversion's rounding". -/
def capClose (a b : String) : Bool :=
  let ta := (tokenize a).toArray
  let tb := (tokenize b).toArray
  ta.size == tb.size &&
    (List.range ta.size).all fun i =>
      let x := ta[i]!
      let y := tb[i]!
      x == y ||
        (i ≥ 3 && ta[i - 3]! == "cap" && tb[i - 3]! == "cap" &&
          match hexVal (sdrop x 1), hexVal (sdrop y 1) with
          | some u, some v => x.startsWith "f" && y.startsWith "f" && (if u ≤ v then v - u else u - v) ≤ 16
          | _, _ => false)

def mentionsCap (s : String) : Bool := (tokenize s).contains "cap"

/-- check one stage: the model's answer computed from the implementation's previous stage.  `float` stages
(`ExpressionFromProto`, which runs the cap radius through floating point) are compared with `capClose`. -/
def stage (name : String) (model impl : String) (float : Bool := false) : Option Verdict :=
  if model == impl || (float && capClose model impl) then none else some (.diff s!"{name}:{model}")

/-- the verdict when the property predicate is false on the implementation's answers: the documented class if
the tree holds a cap query and nothing but cap radii moved, by a few units in the last place (this includes the
case where the printed radii agree again but Go's `Equal` compares the two caps' chord angles and says no) -/
def failVerdict (clause : String) (e e' p p' : String) : Verdict :=
  if isSExp e && isSExp e' && isSExp p && isSExp p' && mentionsCap e && capClose e e' && capClose p p' then
    .propfail (clause ++ " class=cap-radius-drift")
  else .propfail clause

def step (_ : Unit) (op impl : String) : Unit × Verdict :=
  let fields := (impl.splitOn " | ").map strim
  let v : Verdict :=
    if op.startsWith "rt " then
      match (readSExp (sdrop op 3)).bind decNodeP, fields with
      | some p, [f1, f2, f3, f4, eq, raw] =>
        let inDomain := p.wire
        -- the property on the implementation's own answers (`raw`: the second proto equals the first also in
        -- the orientation and order of polygon loops, which the canonical printing hides)
        let holds := !inDomain || !isSExp f1 ||
          (isSExp f2 && f3 == f1 && f4 == f2 && (eq == "1" || mentionsNaN f1) && (raw == "1" || mentionsCap f1))
        if !holds then failVerdict "wire-roundtrip" f1 f3 f2 f4 else
        let m1 := rR rExpr (p.fromProto id)
        match stage "E" m1 f1 true with
        | some d => d
        | none =>
          if !isSExp f1 then .ok else
          match (readSExp f1).bind decExpr with
          | none => .bad
          | some e1 =>
            match stage "P'" (rR rNodeP e1.toProto) f2 with
            | some d => d
            | none =>
              if !isSExp f2 then .ok else
              match (readSExp f2).bind decNodeP with
              | none => .bad
              | some p2 =>
                match stage "E'" (rR rExpr (p2.fromProto id)) f3 true with
                | some d => d
                | none =>
                  if !isSExp f3 then .ok else
                  match (readSExp f3).bind decExpr with
                  | none => .bad
                  | some e3 =>
                    match stage "P''" (rR rNodeP e3.toProto) f4 with
                    | some d => d
                    | none => .ok
      | _, _ => .bad
    else if op.startsWith "ex " then
      match (readSExp (sdrop op 3)).bind decExpr, fields with
      | some e, [f1, f2, f3, eq] =>
        let inDomain := e.supported
        let holds := !inDomain ||
          (isSExp f1 && f2 == sdrop op 3 && f3 == f1 && (eq == "1" || mentionsNaN f1))
        if !holds then failVerdict "proto-roundtrip" (sdrop op 3) f2 f1 f3 else
        match stage "P" (rR rNodeP e.toProto) f1 with
        | some d => d
        | none =>
          if !isSExp f1 then .ok else
          match (readSExp f1).bind decNodeP with
          | none => .bad
          | some p1 =>
            match stage "E'" (rR rExpr (p1.fromProto id)) f2 true with
            | some d => d
            | none =>
              if !isSExp f2 then .ok else
              match (readSExp f2).bind decExpr with
              | none => .bad
              | some e2 =>
                match stage "P''" (rR rNodeP e2.toProto) f3 with
                | some d => d
                | none => .ok
      | _, _ => .bad
    else .bad
  ((), v)

def family : Family := { σ := Unit, init := (), step := step }

end B6.Driver.C19

def main : IO Unit := B6.Driver.run B6.Driver.C19.family
