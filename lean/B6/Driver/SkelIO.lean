import B6.Driver.Common
/-!
Text forms shared by the drivers of C15, C16 and C37 (world skeletons).

* ID        `p1` point, `w10` path (way), `a20` area, `r5` relation, `c7` collection
            = (feature type as in world.go, value): p=0 w=1 a=2 r=3 c=5.
* ID list   `[p1 w10]`
-/
namespace B6.Driver.SkelIO
open B6.Driver

abbrev Id := Nat × Nat  -- same as B6.Model.RefIndex.Id

def typeOfChar (c : Char) : Option Nat :=
  if c == 'p' then some 0 else if c == 'w' then some 1 else if c == 'a' then some 2
  else if c == 'r' then some 3 else if c == 'c' then some 5 else none

def charOfType (t : Nat) : String :=
  if t == 0 then "p" else if t == 1 then "w" else if t == 2 then "a" else if t == 3 then "r"
  else if t == 5 then "c" else "?"

def parseNat? (s : String) : Option Nat :=
  if s.isEmpty then none else
  s.toList.foldl (fun acc c => match acc with
    | none => none
    | some n => if '0' ≤ c && c ≤ '9' then some (n * 10 + (c.toNat - '0'.toNat)) else none) (some 0)

def parseId (s : String) : Option Id :=
  match s.toList with
  | [] => none
  | c :: rest =>
    match typeOfChar c, parseNat? (String.ofList rest) with
    | some t, some v => some (t, v)
    | _, _ => none

def renderId (i : Id) : String := charOfType i.1 ++ toString i.2

def idLt (a b : Id) : Bool := a.1 < b.1 || (a.1 == b.1 && a.2 < b.2)

def insertSorted (lt : α → α → Bool) (x : α) : List α → List α
  | [] => [x]
  | y :: ys => if lt x y then x :: y :: ys else y :: insertSorted lt x ys

def sortBy (lt : α → α → Bool) (xs : List α) : List α := xs.foldl (fun acc x => insertSorted lt x acc) []

def sortIds (xs : List Id) : List Id := sortBy idLt xs

def renderIds (xs : List Id) : String := renderList (xs.map renderId)

/-- comma separated, possibly empty -/
def splitComma (s : String) : List String := (s.splitOn ",").filter (· ≠ "")

def parseIdsComma (s : String) : Option (List Id) := (splitComma s).mapM parseId

def parseIds (s : String) : Option (List Id) := do
  let ws ← parseBracket s
  ws.mapM parseId

/-- feature-type filter words: `p w a r c` -/
def parseTypes (ws : List String) : Option (List Nat) :=
  ws.mapM fun w => match w.toList with
    | [c] => typeOfChar c
    | _ => none

end B6.Driver.SkelIO
