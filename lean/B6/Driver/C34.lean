import B6.Driver.Common
import B6.Model.DouglasPeucker
import Std.Data.HashMap
/-!
Driver for C34.  One op per line, no state between lines.

  `dp <eps> [<vid> …] [<a>:<z>:<d>,<d>,… …]`   answer `iter=<[vid …]|panic|hang|crash> ref=<…>`

* `vid`  value class of each input point (equal points share an id); results are lists of vids.
* row `a:z` = `distance(points[a], points[z], points[i])` for `i = a+1 … z-1` as order-preserving
  integers (hex of the IEEE bits of the non-negative float; NaN → 0); `eps` likewise (negative → `-1`).

The model (`B6.Model.DouglasPeucker`, points = indices `0 … n-1`, `D = Int`, `gt = >`) is run on exactly
these numbers.  Property predicate, evaluated on the implementation's own answers for `n ≥ 2`:
`terminates` (iter is a list), `eq_ref` (iter = ref), `keeps_ends`, `subsequence`.
A model run that needs a row the harness did not ship is reported as `diff missing-row`.
-/
open B6.Driver B6.Model.DouglasPeucker
namespace B6.Driver.C34

def hexNat (s : String) : Option Nat :=
  if s.isEmpty then none else
  s.toList.foldl (fun acc c => do let a ← acc; let d ← hexDigit? c; pure (a * 16 + d)) (some 0)

def parseD (s : String) : Option Int :=
  if s == "-1" then some (-1) else (hexNat s).map Int.ofNat

abbrev Table := Std.HashMap (Nat × Nat) (Array Int)

def parseRow (s : String) : Option ((Nat × Nat) × Array Int) :=
  match s.splitOn ":" with
  | [a, z, ds] => do
    let a ← a.toNat?
    let z ← z.toNat?
    let ds ← (ds.splitOn ",").mapM parseD
    pure ((a, z), ds.toArray)
  | _ => none

def parseRows (ws : List String) : Option Table :=
  ws.foldl (fun acc w => do let t ← acc; let (k, v) ← parseRow w; pure (t.insert k v)) (some {})

/-- the metric the Go code saw; a missing entry reads as `-2` (never selected) and is reported by `missing` -/
def metric (t : Table) : Metric Nat Int :=
  { dist := fun a z p => match t[(a, z)]? with
      | some r => match r[p - a - 1]? with
        | some d => d
        | none => -2
      | none => -2
    gt := fun x y => decide (x > y)
    zero := 0 }

/-- first chord (in the reference's visiting order) whose row is absent or too short -/
def missing (t : Table) (eps : Int) : Nat → Nat → Nat → Option (Nat × Nat)
  | 0, _, _ => none
  | f + 1, b, e =>
    if e < b + 3 then none else
    match t[(b, e - 1)]? with
    | none => some (b, e - 1)
    | some r =>
      if r.size ≠ e - b - 2 then some (b, e - 1) else
      let s := refScan (metric t) ((List.range (e - b)).map (· + b))
      if 0 < s.2 && s.1 > eps then
        match missing t eps f b (b + s.2) with
        | some x => some x
        | none => missing t eps f (b + s.2) e
      else none

def renderRes (vids : Array String) : Res (List Nat) → String
  | .ok l => renderList (l.map fun i => vids[i]?.getD "?")
  | .panic => "panic"
  | .nofuel => "hang"

def isSub : List String → List String → Bool
  | [], _ => true
  | _ :: _, [] => false
  | x :: xs, y :: ys => if x == y then isSub xs ys else isSub (x :: xs) ys

def step (_ : Unit) (op impl : String) : Unit × Verdict :=
  match op.splitOn "[" with
  | [h, vs, rs] =>
    match words h, parseBracket ("[" ++ vs), parseBracket ("[" ++ rs) with
    | ["dp", e], some vids, some rws =>
      match parseD e, parseRows rws, impl.splitOn " ref=" with
      | some eps, some tbl, [it, rf] =>
        if !it.startsWith "iter=" then ((), .bad) else
        let it := sdrop it 5
        let n := vids.length
        let m := metric tbl
        let pts := List.range n
        let mi := renderRes vids.toArray (simplify m pts eps)
        let mr := renderRes vids.toArray (reference m pts eps)
        let v : Verdict :=
          if n < 2 then .ok else
          match parseBracket it with
          | none => .propfail ("terminates iter=" ++ it)
          | some out =>
            if it ≠ rf then .propfail "eq_ref"
            else if out.head? ≠ vids.head? || out.getLast? ≠ vids.getLast? then .propfail "keeps_ends"
            else if !isSub out vids then .propfail "subsequence"
            else .ok
        match v with
        | .ok =>
          match missing tbl eps (n + 1) 0 n with
          | some (a, z) => ((), .diff s!"missing-row {a}:{z}")
          | none =>
            if it == mi && rf == mr then ((), .ok) else ((), .diff s!"iter={mi} ref={mr}")
        | v => ((), v)
      | _, _, _ => ((), .bad)
    | _, _, _ => ((), .bad)
  | _ => ((), .bad)

def family : Family := { σ := Unit, init := (), step := step }

end B6.Driver.C34

def main : IO Unit := B6.Driver.run B6.Driver.C34.family
