import B6.Driver.Common
import B6.Model.Cells
/-!
Driver for C04 (stateless).

cell   : `<face>/<child positions>`, e.g. `2/` (face cell), `2/0313`;  cell list: comma separated, `-` = empty
token  : `s:<cell>` (Go `s2:<token>`), `a:<cell>` (Go `a2:<token>`); anything else is kept as an opaque word

ops
  `pair F=<cells> Q=<cells>`  answer `T=<tokens> R=<tokens>`
        T = search.TokensForCovering(F), R = tokens of search.RewriteSpatialQuery(Q), both as sorted sets.
        model: same sets.  predicate: if some f∈F, q∈Q intersect then T ∩ R ≠ ∅   (`prefilter-miss`).
  `find <kind> Q=<cells> F=<id>:<flags>:<cells>;…`  answer `<ids>` (comma separated, `-` = none)
        the world holds exactly the listed features; Q is the covering the query compiles to; flags:
        `m` the query's own Matches is true, `u` not indexed by rule (a point whose only tag is its location),
        `s` the feature is the one named by an intersects-feature query, one of `p l a r c` = point/path/area/
        relation/collection, `o` = lives in the overlay layer of an overlay world.  answer = ids returned by FindFeatures in iteration order.
        model: findFeatures (token pre-filter, then Matches).  predicate: answer = {indexed ids with m}, no
        duplicates (`miss` / `invent` / `duplicate`).
        known class of `miss` (hypothesis of `find_exact` fails: Matches true but coverings disjoint):
          `tolerance-outside-covering`  point query vs path feature / polyline query vs point feature (1 mm rule)
        kind `might` (b6.MightIntersect, whose Matches is constantly true): the answer must contain every indexed
        feature with `m` whose covering meets Q (`might-miss`), and equals that set in the model.
-/
open B6.Driver B6.Model.Cells
namespace B6.Driver.C04

def parseCell (s : String) : Option Cell :=
  match s.splitOn "/" with
  | [f, p] =>
    match f.toNat? with
    | some n =>
      if h : n < 6 then
        let ds := p.toList.mapM fun ch =>
          if ch = '0' then some (0 : Fin 4) else if ch = '1' then some 1
          else if ch = '2' then some 2 else if ch = '3' then some 3 else none
        ds.map fun d => ⟨⟨n, h⟩, d⟩
      else none
    | none => none
  | _ => none

def parseCells (s : String) : Option (List Cell) :=
  if s == "-" then some [] else (s.splitOn ",").mapM parseCell

def renderCell (c : Cell) : String :=
  toString c.face.val ++ "/" ++ String.ofList (c.path.map fun d => Char.ofNat ('0'.toNat + d.val))

def renderToken : Token → String
  | .s2 c => "s:" ++ renderCell c
  | .a2 c => "a:" ++ renderCell c

def parseWords (s : String) : List String :=
  if s == "-" then [] else s.splitOn ","

def renderWords (xs : List String) : String :=
  if xs.isEmpty then "-" else ",".intercalate xs

def sortDedup (xs : List String) : List String :=
  let sorted := xs.mergeSort (fun a b => decide (a ≤ b))
  sorted.foldr (fun x acc => match acc with
    | y :: _ => if x == y then acc else x :: acc
    | [] => [x]) []

def sameSet (a b : List String) : Bool := a.all (b.contains ·) && b.all (a.contains ·)

/-- value of `key=` in a word list -/
def field (ws : List String) (key : String) : Option String :=
  (ws.find? (·.startsWith (key ++ "="))).map fun w => sdrop w (key.length + 1)

structure Feat where
  id : String
  flags : List Char
  cov : List Cell

def parseFeat (s : String) : Option Feat :=
  match s.splitOn ":" with
  | [id, fl, cs] => (parseCells cs).map fun c => ⟨id, fl.toList, c⟩
  | _ => none

def parseFeats (s : String) : Option (List Feat) :=
  if s == "-" then some [] else (s.splitOn ";").mapM parseFeat

def Feat.has (f : Feat) (c : Char) : Bool := f.flags.contains c

/-- the recorded classes of missed features (see the header) -/
def missClass (kind : String) (q : List Cell) (f : Feat) : Option String :=
  if coveringsMeet f.cov q then none
  else if (kind == "point" || kind == "feature-point") && f.has 'l' then some "tolerance-outside-covering"
  else if (kind == "polyline" || kind == "feature-path") && f.has 'p' then some "tolerance-outside-covering"
  else none

def hasDup : List String → Bool
  | [] => false
  | x :: xs => xs.contains x || hasDup xs

def step (_ : Unit) (op impl : String) : Unit × Verdict :=
  let ws := words op
  match ws with
  | "pair" :: rest =>
    match (field rest "F").bind parseCells, (field rest "Q").bind parseCells with
    | some F, some Q =>
      let mT := sortDedup ((tokensForCovering F).map renderToken)
      let mR := sortDedup ((rewriteSpatialQuery Q).map renderToken)
      let model := "T=" ++ renderWords mT ++ " R=" ++ renderWords mR
      let iw := words impl
      match field iw "T", field iw "R" with
      | some t, some r =>
        let iT := parseWords t
        let iR := parseWords r
        let implShares := iT.any (iR.contains ·)
        if coveringsMeet F Q && !implShares then ((), .propfail "prefilter-miss")
        else if sameSet iT mT && sameSet iR mR then ((), .ok)
        else ((), .diff model)
      | _, _ => ((), .diff model)
    | _, _ => ((), .bad)
  | "find" :: kind :: rest =>
    match (field rest "Q").bind parseCells, (field rest "F").bind parseFeats with
    | some Q, some feats =>
      let indexed := feats.filter fun f => !f.has 'u'
      let byId : String → Bool := fun id => (indexed.find? (·.id == id)).any (·.has 'm')
      let modelRes := (findFeatures byId (indexed.map fun f => (f.id, f.cov)) Q).map (·.1)
      let spec := (indexed.filter (·.has 'm')).map (·.id)
      let got := parseWords impl
      let invented := got.filter fun id => !spec.contains id
      let missed := indexed.filter fun f => f.has 'm' && !got.contains f.id
      if hasDup got then ((), .propfail "duplicate")
      else if !invented.isEmpty then ((), .propfail "invent")
      else if kind == "might" then
        -- MightIntersect: Matches is constant, the result is the candidate set itself
        if !(modelRes.all (got.contains ·)) then ((), .propfail "might-miss")
        else if sameSet got modelRes then ((), .ok)
        else ((), .diff (renderWords modelRes))
      else if !missed.isEmpty then
        let classes := missed.map (missClass kind Q)
        match classes with
        | some c :: _ =>
          -- every missed feature must be in a recorded class; the first one names the line
          if classes.all (·.isSome) then ((), .propfail ("miss class=" ++ c)) else ((), .propfail "miss")
        | _ => ((), .propfail "miss")
      else if sameSet got modelRes then ((), .ok)
      else ((), .diff (renderWords modelRes))
    | _, _ => ((), .bad)
  | _ => ((), .bad)

def family : Family := { σ := Unit, init := (), step := step }

end B6.Driver.C04

def main : IO Unit := B6.Driver.run B6.Driver.C04.family
