import B6.Driver.Common
import B6.Model.FeatureHeap
/-!
Driver for C38.  State = the heap model's `State` (a world + caller-held feature values over a store of
backing arrays) and the observable state the implementation reported after the previous line.

Every op line is answered by the implementation with its COMPLETE observable state
  `<status> | <world entries> | <caller values>`      status = ok | err | panic
  entries are joined by ` ; ` (`-` when there are none); world entries are sorted by key, caller values are
  in index order.  A feature is rendered `<g|a|r|c>:<id> t[k=v …]` followed by, per kind,
  ` i[(id id) - ()] p[P1 -]` (area: path-id lists, `-` = nil; polygons, `-` = nil),
  ` m[id/role …]` (relation), ` k[…] v[…] s=0|1` (collection).

ops
  `reset`            a new empty world, no caller values (answer `ok | - | -`)
  `new <generic|area|relation|collection> <id> <n>`
  `clone <i>`        vars.push(vars[i].Clone())
  `merge <i> <j>`    vars[i].MergeFrom(vars[j])
  `add <i>`          world.AddFeature(vars[i])            (status err = rejected by validation)
  `wtag <kind> <id> k=v` / `wrm <kind> <id> k`             world.AddTag / world.RemoveTag
  `fromworld <kind> <id>`   vars.push(NewFeatureFromWorld(world.FindFeatureByID(id)))
  `mut <i> <mutator>` with mutator one of
     `setid <id>` `settags [k=v …]` `addtag k=v` `settag k=v` `rmtag k` `rmtags [k …]` `rmall`
     `setpathids <i> [id …]` `setpathid <i> <j> <id>` `setpoly <i> <P|->`
     `setat <k> <idx> <e>` (ModifyOrAddTagAt) `setlist <k> <spare> [e …]` (ModifyOrAddTag of a list value built
     with spare capacity); a list-valued tag is rendered `k=<e,e,e>`
     `setmember <i> <id>/<role>` `appmember <id>/<role>` `setkey <i> <k>` `setval <i> <v>` `appkv <k> <v>` `sort`

Verdict.  The property predicate is evaluated on the implementation's own answers (previous line vs this
line): everything except the operation's target — the other caller values, the (other) world entries — is
literally unchanged (`isolation`, also when the call panics); a clone is observably equal to its original
(`clone`), a copy taken from the world to the world's entry (`copy`); after an accepted `add` the world returns what was passed (`store`); a rejected `add` changes nothing.  Then the
whole answer is compared with the model's (`diff`).
-/
open B6.Driver B6.Model.FeatureHeap
namespace B6.Driver.C38

def kindLetter : Kind → String
  | .generic => "g" | .area => "a" | .relation => "r" | .collection => "c"

def parseKind : String → Option Kind
  | "generic" => some .generic | "area" => some .area
  | "relation" => some .relation | "collection" => some .collection
  | _ => none

def renderPair (vals : Vals) (sep : String) : Cell → String
  | .pair a b => a ++ sep ++ b
  | .scalar s => "?" ++ s
  | .ltag k h =>
    -- a list-valued tag: `k=<e,e,e>`
    match resolveV vals h with
    | some xs => k ++ sep ++ "<" ++ ",".intercalate xs ++ ">"
    | none => k ++ sep ++ "<dangling>"

def renderScalar : Cell → String
  | .scalar s => if s == "" then "-" else s
  | .pair a b => "?" ++ a ++ "," ++ b
  | .ltag k _ => "?" ++ k

def renderIds (l : List (Option (List Cell))) : String :=
  renderList (l.map fun
    | none => "-"
    | some cs => "(" ++ " ".intercalate (cs.map renderScalar) ++ ")")

def renderView (vals : Vals) (v : View) : String :=
  let head := kindLetter v.kind ++ ":" ++ v.id ++ " t" ++ renderList (v.tags.map (renderPair vals "="))
  match v.kind with
  | .generic => head
  | .area => head ++ " i" ++ renderIds v.ids ++ " p" ++ renderList (v.polygons.map renderScalar)
  | .relation => head ++ " m" ++ renderList (v.members.map (renderPair vals "/"))
  | .collection => head ++ " k" ++ renderList (v.keys.map renderScalar) ++ " v"
      ++ renderList (v.values.map renderScalar) ++ " s=" ++ (if v.sorted then "1" else "0")

def renderFeat (st : Store) (vals : Vals) (f : Feat) : String :=
  match view st f with
  | some v => renderView vals v
  | none => "dangling"

def insertSorted (x : String) : List String → List String
  | [] => [x]
  | y :: ys => if x < y then x :: y :: ys else y :: insertSorted x ys

def sortStrings (l : List String) : List String := l.foldr insertSorted []

def joinEntries (l : List String) : String := if l.isEmpty then "-" else " ; ".intercalate l

def splitEntries (s : String) : List String := if s == "-" then [] else s.splitOn " ; "

def renderState (s : State) : String × String :=
  (joinEntries (sortStrings (s.world.map (renderFeat s.st s.vals))),
   joinEntries (s.vars.map (renderFeat s.st s.vals)))

/-- the key `<k>:<id>` of a rendered feature -/
def entryKey (e : String) : String := (words e).headD ""

def parseKV (s : String) : Option (String × String) :=
  match s.splitOn "=" with
  | [k, v] => some (k, v)
  | _ => none

def parseMember (s : String) : Option (String × String) :=
  match s.splitOn "/" with
  | [a, b] => some (a, b)
  | _ => none

def parsePoly (s : String) : String := if s == "-" then "" else s

def parseMut (ws : List String) : Option Mut :=
  match ws with
  | ["setid", id] => some (.setID id)
  | "settags" :: rest => (parseBracket (" ".intercalate rest)).bind fun l => (l.mapM parseKV).map .setTags
  | ["addtag", kv] => (parseKV kv).map fun p => .addTag p.1 p.2
  | ["settag", kv] => (parseKV kv).map fun p => .setTag p.1 p.2
  | ["rmtag", k] => some (.rmTag k)
  | "rmtags" :: rest => (parseBracket (" ".intercalate rest)).map .rmTags
  | ["rmall"] => some .rmAllTags
  | "setpathids" :: i :: rest => (parseBracket (" ".intercalate rest)).bind fun l => i.toNat?.map fun i => .setPathIDs i l
  | ["setpathid", i, j, id] => i.toNat?.bind fun i => j.toNat?.map fun j => .setPathID i j id
  | ["setpoly", i, p] => i.toNat?.map fun i => .setPolygon i (parsePoly p)
  | ["setmember", i, m] => i.toNat?.bind fun i => (parseMember m).map fun p => .setMember i p.1 p.2
  | ["appmember", m] => (parseMember m).map fun p => .appendMember p.1 p.2
  | ["setkey", i, k] => i.toNat?.map fun i => .setKey i k
  | ["setval", i, v] => i.toNat?.map fun i => .setValue i v
  | ["appkv", k, v] => some (.appendKV k v)
  | ["sort"] => some .sort
  | _ => none

def parseOp (op : String) : Option Op :=
  match words op with
  | ["new", kind, id, n] => (parseKind kind).bind fun k => n.toNat?.map fun n => .new k id n
  | ["clone", i] => i.toNat?.map .clone
  | ["merge", i, j] => i.toNat?.bind fun i => j.toNat?.map fun j => .merge i j
  | ["add", i] => i.toNat?.map .add
  | ["wtag", kind, id, kv] => (parseKind kind).bind fun k => (parseKV kv).map fun p => .wtag k id p.1 p.2
  | ["wrm", kind, id, k] => (parseKind kind).map fun kd => .wrm kd id k
  | ["fromworld", kind, id] => (parseKind kind).map fun k => .fromWorld k id
  | ["mut", i, "setat", k, idx, e] => i.toNat?.bind fun i => idx.toNat?.map fun j => .updV i (.setTagAt k j e)
  | "mut" :: i :: "setlist" :: k :: spare :: rest =>
    i.toNat?.bind fun i => spare.toNat?.bind fun sp =>
      (parseBracket (" ".intercalate rest)).map fun l => .updV i (.setTagList k l sp)
  | "mut" :: i :: rest => i.toNat?.bind fun i => (parseMut rest).map fun m => .upd i m
  | _ => none

structure St where
  model : State := {}
  world : List String := []
  vars : List String := []

/-- all entries of `l` except position `i` -/
def dropAt (l : List String) (i : Nat) : List String := l.take i ++ l.drop (i + 1)

def others (key : String) (l : List String) : List String := l.filter (entryKey · != key)

/-- the property predicate on two consecutive answers of the implementation; `none` = holds -/
def predicate (st : St) (op : Op) (status : String) (world vars : List String) : Option String :=
  let same := world == st.world && vars == st.vars
  let panicked := status == "panic"
  match op with
  | .new _ _ _ =>
    if panicked then (if same then none else some "isolation") else
    if world == st.world && vars.take st.vars.length == st.vars && vars.length == st.vars.length + 1
    then none else some "isolation"
  | .clone i =>
    if panicked then (if same then none else some "isolation") else
    if !(world == st.world && vars.take st.vars.length == st.vars && vars.length == st.vars.length + 1)
    then some "isolation"
    else if vars.getLast? == st.vars[i]? then none else some "clone"
  | .fromWorld k id =>
    -- a new caller value, observably equal to the world's entry; nothing else changes
    if panicked then (if same then none else some "isolation") else
    if !(world == st.world && vars.take st.vars.length == st.vars && vars.length == st.vars.length + 1)
    then some "isolation"
    else if (vars.getLast?.map fun v => [v]) == some (world.filter (entryKey · == kindLetter k ++ ":" ++ id))
    then none else some "copy"
  | .upd i _ | .updV i _ | .merge i _ =>
    if world == st.world && vars.length == st.vars.length && dropAt vars i == dropAt st.vars i
    then none else some "isolation"
  | .add i =>
    match st.vars[i]? with
    | none => if same then none else some "isolation"
    | some v =>
      let key := entryKey v
      if status == "err" || panicked then (if same then none else some "rejected-add-changed-state")
      else if !(vars == st.vars && others key world == others key st.world) then some "isolation"
      else if world.filter (entryKey · == key) == [v] then none else some "store"
  | .wtag k id _ _ | .wrm k id _ =>
    let key := kindLetter k ++ ":" ++ id
    if vars == st.vars && others key world == others key st.world then none else some "isolation"

def step (st : St) (op impl : String) : St × Verdict :=
  if op == "reset" then ({}, if impl == "ok | - | -" then .ok else .bad) else
  match impl.splitOn " | ", parseOp op with
  | [status, w, v], some o =>
    let world := splitEntries w
    let vars := splitEntries v
    let next (m : State) : St := { model := m, world := world, vars := vars }
    match predicate st o status world vars with
    | some clause => (next st.model, .propfail clause)
    | none =>
      match B6.Model.FeatureHeap.step st.model o with
      | none =>
        -- the model says the call panics (index out of range, wrong kind) before it has written anything
        let r := renderState st.model
        let mine := "panic | " ++ r.1 ++ " | " ++ r.2
        (next st.model, if impl == mine then .ok else .diff mine)
      | some m =>
        if status == "err" then
          -- rejected by the world's validation, which the model does not contain; nothing changed (checked above)
          (next st.model, match o with | .add _ => .ok | _ => .bad)
        else
          let r := renderState m
          let mine := "ok | " ++ r.1 ++ " | " ++ r.2
          (next m, if impl == mine then .ok else .diff mine)
  | _, _ => (st, .bad)

def family : Family := { σ := St, init := {}, step := step }

end B6.Driver.C38

def main : IO Unit := B6.Driver.run B6.Driver.C38.family
