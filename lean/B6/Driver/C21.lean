import B6.Driver.Common
import B6.Model.VM
/-!
Driver for C21.  Stateless: every line carries a whole program.

ops
  `compile <expr>`  answer `[instr …]` | `err` | `panic`
        model: `VM.compile` rendered like `api.VerifCompileDump`; a difference is `diff` (the compiler
        model no longer follows the code).  When they agree, the translation validation `VM.layoutOK`
        (the decidable hypothesis of `vm_lambda_partial`) is evaluated on the program: the compiler
        succeeds exactly on statically well-formed programs and the array has the target layout;
        a failure is `propfail compile layout`.
  `eval <expr>`     answer `val <value>` | `err` | `panic` | `crash` | `hang`
        property predicate: the implementation's answer equals the **reference interpreter's**
        (`Interp.interp`): same value, or `err` where the interpreter reports an error; never a panic.
        `ok` when it also equals the VM model's answer, `diff <vm model>` when only the VM model is off.
        When the predicate fails and the VM model predicts exactly the implementation's answer and the
        program is outside `Expr.regSafe` — the hypothesis of the theorem `vm_lambda_partial`, literally:
        some lambda uses a parameter of an enclosing lambda, or reads an own parameter after a call that
        may re-enter it — the failure is the recorded finding: `propfail eval class=closure-registers`.
        Inside `regSafe` any difference from the interpreter is a violation.
-/
open B6.Driver B6.Model
namespace B6.Driver.C21

def fuel : Nat := 4000

def renderDump : Res (List VM.Instr) → String
  | .ok code => renderList (code.map VM.Instr.render)
  | .error .error => "err"
  | .error .panic => "panic"
  | .error .fuel => "fuel"

def step (_ : Unit) (op impl : String) : Unit × Verdict :=
  match words op with
  | "compile" :: _ =>
    match Expr.parse (sdrop op 8) with
    | none => ((), .bad)
    | some e =>
      let m := renderDump (VM.compile e)
      ((), if impl != m then .diff m else if VM.layoutOK e then .ok else .propfail "compile layout")
  | "eval" :: _ =>
    match Expr.parse (sdrop op 5) with
    | none => ((), .bad)
    | some e =>
      let ref := Res.render (interp fuel e)
      let vm := Res.render (VM.run fuel e)
      if ref == "fuel" || vm == "fuel" then ((), .bad)
      else if impl == ref then ((), if impl == vm then .ok else .diff vm)
      else if impl == vm && !e.regSafe then ((), .propfail "eval class=closure-registers")
      else ((), .propfail ("eval want=" ++ ref ++ " vm-model=" ++ vm))
  | _ => ((), .bad)

def family : Family := { σ := Unit, init := (), step := step }

end B6.Driver.C21

def main : IO Unit := B6.Driver.run B6.Driver.C21.family
