import B6.Driver.Common
import B6.Model.FeatureID
/-!
Driver for C31.  Stateless: every line is one observation of the real code.

An ID is the word `type:nshex:value` (`nshex` = lowercase hex of the namespace bytes, `-` when empty).
Byte strings are hex words.

ops
  `str ID`                 answer `<hex of id.String()> <FeatureIDFromString of it>`
  `parse HEX`              answer `ID`                               (FeatureIDFromString of any string)
  `json ID`                answer `<hex of the JSON string value> <ID after json round trip>`
  `yaml ID`                answer `<hex of the YAML string value> <ID after yaml round trip>`
  `yamlraw HEX`            answer `ID`                               (UnmarshalYAML given that string)
  `proto ID`               answer `<enum> <nshex> <value> <ID after wire round trip>`
  `unparse A ID`           answer `<hex token> <ok|err> <ID>`        (UnparseFeatureID(id, A=1) then ParseFeatureIDToken)
  `token HEX`              answer `<ok|err> <ID>` | `panic`          (ParseFeatureIDToken of any token)
  `less ID ID ID`          answer 7 bits `ab ba bc cb ac ca aa`
  `compact [nshex…] ID ID` answer `<encA> <encB> <keyA> <keyB> <compactLess> <Less>` | `panic`
  `posting [nshex…] [ID…]` answer `[ID…]` | `panic`                  (IDs sorted by compact.FeatureIDs, written by PostingList.Fill/Marshal, read by compact.Iterator)
  `postcode HEX`           answer `<ID> <hex|none>`                  (PointIDFromGBPostcode, PostcodeFromPointID of it)
  `pcid ID`                answer `<hex|none>`                       (PostcodeFromPointID)
  `ons HEX YEAR TYPE`      answer `<ID> <hex code|none> <year|->`    (FeatureIDFromUKONSCode, UKONSCodeFromFeatureID of it)
  `onsid ID`               answer `<hex code|none> <year|->`

Verdicts: the property predicate (round trip gives the ID back; order laws; compact order = Less) is
evaluated on the implementation's answer; `diff` when only the model disagrees.
-/
open B6.Driver B6.Model.FeatureID
namespace B6.Driver.C31

def typeName : FType → String
  | .point => "point" | .path => "path" | .area => "area" | .relation => "relation"
  | .invalid => "invalid" | .collection => "collection" | .expression => "expression"

def parseType : String → Option FType
  | "point" => some .point | "path" => some .path | "area" => some .area
  | "relation" => some .relation | "invalid" => some .invalid
  | "collection" => some .collection | "expression" => some .expression | _ => none

def parseBytes (s : String) : Option Bytes := (parseHex s).map (·.map UInt8.toNat)
def renderBytes (b : Bytes) : String := renderHex (b.map UInt8.ofNat)

def parseID (s : String) : Option FeatureID :=
  match s.splitOn ":" with
  | [t, ns, v] => do
    let t ← parseType t
    let ns ← parseBytes ns
    let v ← v.toNat?
    if v < 2 ^ 64 then some ⟨t, ns, v⟩ else none
  | _ => none

def renderID (f : FeatureID) : String := s!"{typeName f.type}:{renderBytes f.ns}:{f.value}"

def bit (b : Bool) : String := if b then "1" else "0"

/-- model answer vs implementation answer, with the property predicate `holds` evaluated on the
implementation's answer -/
def judge (impl model : String) (holds : Bool) (clause : String) : Verdict :=
  if !holds then .propfail clause
  else if impl == model then .ok else .diff model

/-- the last word of the implementation's answer parsed as an ID -/
def lastID (impl : String) : Option FeatureID :=
  match (words impl).getLast? with
  | some w => parseID w
  | none => none

def normalisePostcode (s : Bytes) : Bytes := toUpper (s.filter (· ≠ 32))

def validPostcodeB (p : Bytes) : Bool :=
  5 ≤ p.length && p.length ≤ 7 && p.all fun c => (48 ≤ c && c ≤ 57) || (65 ≤ c && c ≤ 90)

def validONSCodeB (code : Bytes) (year : Int) : Bool :=
  match code with
  | letter :: digits =>
    letter < 128 && letter ≠ 47 && digits.length == 8 && digits.all isDigit && 1900 ≤ year && year ≤ 2155
  | [] => false

/-- insertion into a list kept in `Less` order -/
def insertBy (x : FeatureID) : List FeatureID → List FeatureID
  | [] => [x]
  | y :: ys => if less x y then x :: y :: ys else y :: insertBy x ys

/-- strictly ascending by `Less` -/
def ascending : List FeatureID → Bool
  | a :: b :: rest => less a b && ascending (b :: rest)
  | _ => true

def optBytes : Option Bytes → String
  | some b => renderBytes b
  | none => "none"

def step (_ : Unit) (op impl : String) : Unit × Verdict :=
  let v : Verdict :=
    match words op with
    | ["str", ids] =>
      match parseID ids with
      | none => .bad
      | some f =>
        let s := idString f
        let m := s!"{renderBytes s} {renderID (fromString s)}"
        judge impl m (f.type == .invalid || lastID impl == some f) "string-roundtrip"
    | ["parse", h] =>
      match parseBytes h with
      | none => .bad
      | some s => judge impl (renderID (fromString s)) true ""
    | ["json", ids] =>
      match parseID ids with
      | none => .bad
      | some f =>
        -- what the JSON document carries: invalid UTF-8 becomes U+FFFD (no error); the round trip is claimed for
        -- namespaces that are valid UTF-8
        let s := jsonCarry (jsonString f)
        let m := s!"{renderBytes s} {renderID (fromJSONString s)}"
        judge impl m (f.type == .invalid || !validUTF8 f.ns || lastID impl == some f) "json-roundtrip"
    | ["yaml", ids] =>
      match parseID ids with
      | none => .bad
      | some f =>
        let s := yamlString f
        let m := s!"{renderBytes s} {renderID (fromYAMLString s)}"
        judge impl m (f.type == .invalid || lastID impl == some f) "yaml-roundtrip"
    | ["yamlraw", h] =>
      match parseBytes h with
      | none => .bad
      | some s => judge impl (renderID (fromYAMLString s)) true ""
    | ["proto", ids] =>
      match parseID ids with
      | none => .bad
      | some f =>
        let (e, ns, v) := toProto f
        let back := match fromProto (e, ns, v) with
          | some g => renderID g
          | none => "panic"
        -- `proto.Marshal` refuses a `string` field that is not valid UTF-8
        let m := if validUTF8 f.ns then s!"{e} {renderBytes ns} {v} {back}" else "err"
        judge impl m (!validUTF8 f.ns || lastID impl == some f) "proto-roundtrip"
    | ["unparse", a, ids] =>
      match parseID ids with
      | none => .bad
      | some f =>
        if a != "0" && a != "1" then .bad else
        let tok := unparse f (a == "1")
        let back := match parseToken tok with
          | some (g, err) => s!"{if err then "err" else "ok"} {renderID g}"
          | none => "panic"
        let m := s!"{renderBytes tok} {back}"
        let holds := !f.isValid ||
          (match words impl with
           | [_, "ok", g] => parseID g == some f
           | _ => false)
        judge impl m holds "shell-roundtrip"
    | ["token", h] =>
      match parseBytes h with
      | none => .bad
      | some tok =>
        let m := match parseToken tok with
          | some (g, err) => s!"{if err then "err" else "ok"} {renderID g}"
          | none => "panic"
        judge impl m true ""
    | ["less", a, b, c] =>
      match parseID a, parseID b, parseID c with
      | some a, some b, some c =>
        let m := String.join ([less a b, less b a, less b c, less c b, less a c, less c a, less a a].map bit)
        let holds :=
          match impl.toList.map (· == '1') with
          | [ab, ba, bc, cb, ac, ca, aa] =>
            !aa &&
            (if a == b then !ab && !ba else ab != ba) &&
            (if b == c then !bc && !cb else bc != cb) &&
            (if a == c then !ac && !ca else ac != ca) &&
            (!(ab && bc) || ac) && (!(cb && ba) || ca) &&
            (!(ba && ac) || bc) && (!(ca && ab) || cb) &&
            (!(ac && cb) || ab) && (!(bc && ca) || ba)
          | _ => false
        judge impl m holds "strict-total-order"
      | _, _, _ => .bad
    | "compact" :: _ =>
      -- `compact [ns ns …] a b`
      match op.splitOn "]" with
      | [l, r] =>
        match parseBracket (sdrop l 8 ++ "]"), words r with
        | some nsw, [a, b] =>
          match nsw.mapM parseBytes, parseID a, parseID b with
          | some nss, some a, some b =>
            let tbl := fillTable nss
            let m := match encode tbl a.ns, encode tbl b.ns with
              | some ea, some eb =>
                let ka := (combine a.type ea, a.value)
                let kb := (combine b.type eb, b.value)
                s!"{ea} {eb} {ka.1} {kb.1} {bit (keyLess ka kb)} {bit (less a b)}"
              | _, _ => "panic"
            let holds :=
              match words impl with
              | [_, _, _, _, cl, l] => tbl.length > 8192 || cl == l
              | ["panic"] => true
              | _ => false
            judge impl m holds "compact-order-agrees"
          | _, _, _ => .bad
        | _, _ => .bad
      | _ => .bad
    | "posting" :: _ =>
      -- `posting [ns …] [id …]`: the IDs in the order a real posting list hands them out
      match op.splitOn "]" with
      | [l1, l2, _] =>
        match parseBracket (sdrop l1 8 ++ "]"), parseBracket (strim l2 ++ "]") with
        | some nsw, some idw =>
          match nsw.mapM parseBytes, idw.mapM parseID with
          | some _, some ids =>
            let sorted := ids.foldl (fun acc x => insertBy x acc) []
            let m := renderList (sorted.map renderID)
            -- the property on the implementation's answer: it is the input, each ID once, in `Less` order
            let holds :=
              match parseBracket impl with
              | some ws =>
                match ws.mapM parseID with
                | some out =>
                  out.length == ids.length && ids.all (out.contains ·) && ascending out
                | none => false
              | none => false
            judge impl m holds "posting-order-is-less"
          | _, _ => .bad
        | _, _ => .bad
      | _ => .bad
    | ["postcode", h] =>
      match parseBytes h with
      | none => .bad
      | some s =>
        let id := pointIDFromGBPostcode s
        let m := s!"{renderID id} {optBytes (postcodeFromPointID id)}"
        let p := normalisePostcode s
        let holds := !validPostcodeB p ||
          (match words impl with
           | [_, back] => back == renderBytes p
           | _ => false)
        judge impl m holds "postcode-roundtrip"
    | ["pcid", ids] =>
      match parseID ids with
      | none => .bad
      | some f => judge impl (optBytes (postcodeFromPointID f)) true ""
    | ["ons", h, y, t] =>
      match parseBytes h, y.toInt?, parseType t with
      | some code, some year, some t =>
        let id := featureIDFromUKONSCode code year t
        let back := match ukONSCodeFromFeatureID id with
          | some (c, yr) => s!"{renderBytes c} {yr}"
          | none => "none -"
        let m := s!"{renderID id} {back}"
        let holds := !validONSCodeB code year ||
          (match words impl with
           | [_, c, yr] => c == renderBytes code && yr.toInt? == some year
           | _ => false)
        judge impl m holds "ons-roundtrip"
      | _, _, _ => .bad
    | ["onsid", ids] =>
      match parseID ids with
      | none => .bad
      | some f =>
        let m := match ukONSCodeFromFeatureID f with
          | some (c, yr) => s!"{renderBytes c} {yr}"
          | none => "none -"
        judge impl m true ""
    | _ => .bad
  ((), v)

def family : Family := { σ := Unit, init := (), step := step }

end B6.Driver.C31

def main : IO Unit := B6.Driver.run B6.Driver.C31.family
