import B6.Driver.Common
import B6.Model.Search
/-!
Driver for C06.  One case = one index, then any number of (query, call sequence) blocks.

ops (tokens are written as `'` + the hex of their bytes, so any byte string — also the empty one — is a word;
values are naturals):
  `index <array|tree> 'tok ( v v v ) 'tok ( ) …`, `index compact 'ns 'ns … | 'tok ( v v ) …` (namespace table first)   answer `ok`         tokens and values in increasing order
  `query <q>`                                       answer `ok`         q ::= ( e ) | ( a 'tok ) | ( u q* ) | ( i q* )
                                                                              | ( r <begin> <end> q ) | ( p 'prefix )
  `next`                                            answer `true <v>` | `false` | `panic`
  `adv <k>`                                         answer `true <v>` | `false` | `panic`

Verdict of a call: the implementation's answer must equal the **spec cursor's** answer over `denote q`
(`propfail next|advance` otherwise); if it does but the model iterator says something else: `diff`.
For a query outside the property's domain (an intersection without children, which panics in Go) only the
model is compared.  The harness stops a call sequence at the first `false`.
-/
open B6.Driver B6.Spec.Cursor B6.Spec.SearchQuery B6.Model.Search
namespace B6.Driver.C06

/-- a raw word after the quote (namespace names) -/
def parseRaw (w : String) : Option (List Char) :=
  match w.toList with
  | '\'' :: cs => some cs
  | _ => none

/-- a token: `'` followed by the hex of its bytes; each byte becomes one `Char` (so `<` on tokens is Go's byte-wise
string order and `isPrefixOf` is `strings.HasPrefix`) -/
def parseTok (w : String) : Option Token :=
  match w.toList with
  | '\'' :: cs => (parseHex (String.ofList cs)).bind fun bs =>
      if cs.isEmpty then some [] else some (bs.map fun b => Char.ofNat b.toNat)
  | _ => none

/-- `'tok ( v v ) 'tok ( ) …` -/
partial def parseLists (ws : List String) (acc : List (Token × List Nat)) : Option (List (Token × List Nat)) :=
  match ws with
  | [] => some acc.reverse
  | t :: "(" :: rest =>
    match parseTok t with
    | none => none
    | some tok =>
      let vals := rest.takeWhile (· ≠ ")")
      match rest.dropWhile (· ≠ ")") with
      | ")" :: rest' =>
        match vals.mapM String.toNat? with
        | some vs => parseLists rest' ((tok, vs) :: acc)
        | none => none
      | _ => none
  | _ => none

mutual
partial def parseQuery (ws : List String) : Option (SQuery × List String) :=
  match ws with
  | "(" :: "e" :: ")" :: rest => some (.empty, rest)
  | "(" :: "a" :: t :: ")" :: rest => (parseTok t).map fun tok => (.all tok, rest)
  | "(" :: "p" :: t :: ")" :: rest => (parseTok t).map fun tok => (.tokenPrefix tok, rest)
  | "(" :: "u" :: rest => (parseQueries rest []).map fun (qs, rest') => (.union qs, rest')
  | "(" :: "i" :: rest => (parseQueries rest []).map fun (qs, rest') => (.inter qs, rest')
  | "(" :: "r" :: b :: e :: rest =>
    match b.toNat?, e.toNat?, parseQuery rest with
    | some b, some e, some (q, ")" :: rest') => some (.keyRange b e q, rest')
    | _, _, _ => none
  | _ => none
partial def parseQueries (ws : List String) (acc : List SQuery) : Option (List SQuery × List String) :=
  match ws with
  | ")" :: rest => some (acc.reverse, rest)
  | _ =>
    match parseQuery ws with
    | some (q, rest) => parseQueries rest (q :: acc)
    | none => none
end

def validB (ix : Index) : Bool :=
  decide ((ix.lists.map (·.1)).Pairwise (· < ·)) && ix.lists.all (fun e => decide (StrictSorted e.2))

mutual
def wfB : SQuery → Bool
  | .empty => true
  | .all _ => true
  | .union qs => wfListB qs
  | .inter qs => !qs.isEmpty && wfListB qs
  | .keyRange _ _ q => wfB q
  | .tokenPrefix _ => true
def wfListB : List SQuery → Bool
  | [] => true
  | q :: qs => wfB q && wfListB qs
end

structure Run where
  it : Iter
  d : Nat
  modelOk : Bool
  spec : Option Cursor       -- `none`: the query is outside the property's domain
  done : Bool

structure St where
  ix : Option Index := none
  fuel : Nat := 0
  run : Option Run := none

def renderRes (o : IterOps Iter) : Res Iter → String
  | .ok (true, it) => match o.value it with | some v => s!"true {v}" | none => "true ?"
  | .ok (false, _) => "false"
  | .error .panic => "panic"
  | .error .fuel => "fuel"

def renderSpec (r : Bool × Cursor) : String :=
  if r.1 then (match r.2.cur with | some v => s!"true {v}" | none => "true ?") else "false"

/-- put the spec cursor on `v` (after a disagreement), if `v` is in the list -/
def resyncSpec (c : Cursor) (v : Nat) : Cursor :=
  if c.xs.contains v then ⟨c.xs.filter (· ≤ v), c.xs.filter (· > v)⟩ else c

def stepCall (st : St) (r : Run) (call : Call) (impl : String) : St × Verdict :=
  if r.done then (st, .bad) else
  let o := ops (fun _ => True) st.fuel r.d
  let mres := match call with | .next => o.next r.it | .advance k => o.advance k r.it
  let mans := renderRes o mres
  let it' := match mres with | .ok (_, it) => it | .error _ => r.it
  let clause := match call with | .next => "next" | .advance _ => "advance"
  let implDone := impl != "true" && !impl.startsWith "true "
  match r.spec with
  | none =>
    let v := if !r.modelOk || impl == mans then Verdict.ok else .diff mans
    ({ st with run := some { r with it := it', done := implDone, modelOk := r.modelOk && impl == mans } }, v)
  | some c =>
    let sres := match call with | .next => c.next | .advance k => c.advance k
    let sans := renderSpec sres
    if impl == sans then
      let v := if !r.modelOk || impl == mans then Verdict.ok else .diff mans
      ({ st with run := some { r with it := it', spec := some sres.2, done := implDone,
                                       modelOk := r.modelOk && impl == mans } }, v)
    else
      let c' := match (words impl) with
        | ["true", v] => match v.toNat? with | some n => resyncSpec sres.2 n | none => sres.2
        | _ => sres.2
      ({ st with run := some { r with it := it', spec := some c', done := implDone, modelOk := false } },
        .propfail clause)

def step (st : St) (op impl : String) : St × Verdict :=
  match words op with
  | "index" :: kind :: rest =>
    let k? : Option LeafKind :=
      if kind == "array" then some .array else if kind == "tree" then some .tree
      else if kind == "compact" then some .compact else none
    -- compact: the namespace table first, `'name 'name … |`
    let (names?, rest) : Option (List String) × List String :=
      if kind == "compact" then
        let ns := rest.takeWhile (· ≠ "|")
        ((ns.mapM parseRaw).map (·.map String.ofList), (rest.dropWhile (· ≠ "|")).drop 1)
      else (some [], rest)
    match k?, names?, parseLists rest [] with
    | some k, some names, some lists =>
      let ix : Index := { kind := k, lists := lists, names := names }
      if validB ix then
        ({ ix := some ix, fuel := ix.total + 1, run := none }, if impl == "ok" then .ok else .diff "ok")
      else (st, .bad)
    | _, _, _ => (st, .bad)
  | "query" :: rest =>
    match st.ix, parseQuery rest with
    | some ix, some (q, []) =>
      let it := compile st.fuel ix q
      let spec := if wfB q then some (start (q.denote ix)) else none
      ({ st with run := some ⟨it, depth q, true, spec, false⟩ }, if impl == "ok" then .ok else .diff "ok")
    | _, _ => (st, .bad)
  | ["next"] =>
    match st.run with
    | some r => stepCall st r .next impl
    | none => (st, .bad)
  | ["adv", k] =>
    match st.run, k.toNat? with
    | some r, some k => stepCall st r (.advance k) impl
    | _, _ => (st, .bad)
  | _ => (st, .bad)

def family : Family := { σ := St, init := {}, step := step }

end B6.Driver.C06

def main : IO Unit := B6.Driver.run B6.Driver.C06.family
