import B6.Driver.Common
import B6.Model.EvalGuards
/-!
Driver for C23.  Stateless: every line carries one request.

ops
  `grpc <world> <mut> <expr>`    the request went through `proto.Marshal/Unmarshal` and `service.Evaluate`
  `direct <world> - <expr>`      the same tree through `api.Evaluate` with `functions.NewContext`
answers
  `val <kind> [text]` | `err` | `panic <site> <kind>` | `crash <site> <kind>` | `hang` | `unmarshalable`

**Property predicate** (on the implementation's answer): the answer is a value or an error.  A panic, a
dead child (`crash`) or a timeout (`hang`) is `propfail no_panic …`; when the request is in one of the
recorded input classes (`classOf`: the panic site named by the answer **and** a syntactic condition on
the expression) the verdict carries `class=<name>`, any other failure is a new violation.

**Correspondence**: for requests inside the modelled fragment (`inFrag`: lambdas, calls, partial
applications over `add-ints pair first second keyed tagged typed and or`, literals int / string / the
five modelled query constructors; no wire damage) the answer must equal the model's
(`EvalGuards.evalDecoded` = C22's `Simplify` then C21's VM then `FromLiteral`, resp. the VM alone for
`direct`); a request without its expression (`mut = no-request`) and the version checks must answer
`err` as `EvalGuards.serviceEval … none` does.
-/
open B6.Driver B6.Model B6.Model.EvalGuards
namespace B6.Driver.C23

def fuel : Nat := 3000

/-- functions of the real table that mean what a builtin of the VM model means -/
def fragFns : List String := ["add-ints", "pair", "first", "second", "keyed", "tagged", "typed", "and", "or"]

def rename (s : String) : String := if s == "add-ints" then "add" else s

/-- names the model's table knows: a parameter called like one of them is outside the fragment -/
def reserved (s : String) : Bool := (Builtin.ofName s).isSome || fragFns.contains s

mutual
  def basicQuery : Query → Bool
    | .keyed _ => true
    | .tagged _ _ => true
    | .typed _ q => basicQuery q
    | .inter qs => basicQueries qs
    | .union qs => basicQueries qs
    | .other _ => false
  def basicQueries : List Query → Bool
    | [] => true
    | q :: qs => basicQuery q && basicQueries qs
end

mutual
  def inFrag (bound : List String) : Expr → Bool
    | .sym s => bound.contains s || fragFns.contains s
    | .lit (.int _) => true
    | .lit (.str _) => true
    | .lit (.query q) => basicQuery q
    | .lit (.other _ _) => false
    | .call f args _ =>
      (match f with
        | .sym s => fragFns.contains s || bound.contains s
        | .lit _ => true
        | .lam _ _ => inFrag bound f
        | .call _ _ _ => inFrag bound f) && inFrags bound args
    | .lam ps b => ps.all (fun p => !reserved p) && inFrag (ps ++ bound) b
  def inFrags (bound : List String) : List Expr → Bool
    | [] => true
    | a :: as => inFrag bound a && inFrags bound as
end

mutual
  def renameExpr : Expr → Expr
    | .sym s => .sym (rename s)
    | .lit l => .lit l
    | .call f args p => .call (renameExpr f) (renameExprs args) p
    | .lam ps b => .lam ps (renameExpr b)
  def renameExprs : List Expr → List Expr
    | [] => []
    | a :: as => renameExpr a :: renameExprs as
end

mutual
  /-- every symbol of the expression, in any position -/
  def syms : Expr → List String
    | .sym s => [s]
    | .lit _ => []
    | .call f args _ => syms f ++ symss args
    | .lam _ b => syms b
  def symss : List Expr → List String
    | [] => []
    | a :: as => syms a ++ symss as
end

mutual
  /-- the kinds of the opaque literals of the expression -/
  def litKinds : Expr → List String
    | .sym _ => []
    | .lit (.other k _) => [k]
    | .lit (.query _) => ["query"]
    | .lit _ => []
    | .call f args _ => litKinds f ++ litKindss args
    | .lam _ b => litKinds b
  def litKindss : List Expr → List String
    | [] => []
    | a :: as => litKinds a ++ litKindss as
end

def mentionsAny (e : Expr) (names : List String) : Bool := (syms e).any names.contains
def hasLit (e : Expr) (kinds : List String) : Bool := (litKinds e).any kinds.contains

def anyPrefix (s : String) (ps : List String) : Bool := ps.any (fun p => s.startsWith p)

/-! ### the recorded input classes (KNOWN_FINDINGS.txt, property C23) -/

/-- functions whose work and memory grow without bound in a numeric argument or in the extent of a
geometry (the generator's `heavy` list) -/
def heavyFns : List String :=
  ["s2-grid", "s2-covering", "s2-points", "sample-points", "sample-points-along-paths", "tile-paths"]

/-- sites where a geometry of the wrong kind, or an empty / degenerate one, is indexed or asserted -/
def geometrySites : List String :=
  ["b6.Geo.", "b6.area.", "b6.InvalidGeometry.", "b6.InvalidArea.", "b6.wrappedPhysicalFeature.", "b6.Centroid",
   "b6.multiPolygon", "b6.polyline", "b6.polygon", "geojson.", "api/functions.distanceToPointMeters", "api/functions.interpolate",
   "api/functions.Sightline", "api/functions.capPolygon", "api/functions.sightline", "ingest.areaFeature."]

/-- functions that take or make geometry -/
def geometryFns : List String :=
  ["length", "join", "ordered-join", "interpolate", "distance-meters", "distance-to-point-meters", "sightline", "centroid",
   "cap-polygon", "rectangle-polygon", "to-geojson", "to-geojson-collection", "map-geometries", "points", "sample-points",
   "collect-areas", "convex-hull", "area", "get-centroid", "entrance-approach", "snap-area-edges", "intersecting",
   "intersecting-cap", "within", "within-cap", "ll", "add-point", "closest", "closest-distance", "s2-polygon", "s2-center",
   "parse-geojson", "geojson-areas", "import-geojson", "find", "find-areas", "containing-areas", "tile-paths"]

/-- lookups that answer nil for what is not in the world -/
def nilSources : List String :=
  ["find-feature", "find-area", "find-relation", "find-collection", "closest", "evaluate-feature", "entrance-approach"]

/-- the VM itself and the argument conversion: a nil dereference there is never the `nil-feature` class -/
def vmCoreSites : List String :=
  ["api.(*VM)", "api.goCall", "api.(*goCall)", "api.(*lambdaCall)", "api.(*partialCall)", "api.Convert", "api.convert",
   "api.Evaluate", "api.newVM", "api.compile", "api.(*compilation)", "api.Simplify", "api.simplify"]

/-- iterators that panic when an item has no literal form -/
def unliterableSites : List String := ["b6.arrayIterator.", "ingest.collectionFeatureIterator.", "ingest.(*collectionFeatureIterator)."]

def classOf (e : Expr) (answer site kind : String) : Option String :=
  if answer == "hang" || (answer == "crash" && kind == "out-of-memory") then
    if mentionsAny e heavyFns then some "unbounded-work" else none
  else if anyPrefix site geometrySites then
    if mentionsAny e geometryFns || hasLit e ["point", "path", "area", "query"] then some "geometry-kind" else none
  else if anyPrefix site unliterableSites then
    if hasLit e ["coll", "query"] || mentionsAny e ["collection", "find-collection", "list-feature", "add-collection"] then
      some "unliterable-item" else none
  else if site == "b6.Typed.Compile" then
    if hasLit e ["query"] || mentionsAny e ["typed"] then some "typed-query-type" else none
  else if site == "api.(*VM).execute" && kind == "explicit" then
    if !e.regSafe then some "closure-registers" else none
  else if kind == "nil" && (site.startsWith "api/functions." || site.startsWith "api." || site.startsWith "b6.") && !anyPrefix site vmCoreSites then
    if mentionsAny e nilSources || hasLit e ["nil"] then some "nil-feature" else none
  else none

/-! ### model answers -/

def renderModel : Res Val → String
  | .ok (.int n) => "val int " ++ toString n
  | .ok (.str s) => "val str x:" ++ hexOfString s
  | .ok _ => "val other"
  | .error .error => "err"
  | .error .panic => "panic"
  | .error .fuel => "fuel"

/-- `api.Evaluate` + the literal conversion the harness applies to the direct path -/
def directEval (e : Expr) : Res Val :=
  match VM.run fuel e with
  | .error x => .error x
  | .ok v => if resultLiteral v then .ok v else .error .error

def step (_ : Unit) (op impl : String) : Unit × Verdict :=
  match words op with
  | mode :: _world :: dmg :: rest =>
    if mode != "grpc" && mode != "direct" then ((), .bad) else
    match Expr.parse (" ".intercalate rest) with
    | none => ((), .bad)
    | some e =>
      let ans := words impl
      let cls := ans.headD ""
      if cls == "unmarshalable" then ((), .ok)        -- not a request a client can put on the wire
      else if cls == "panic" || cls == "crash" || cls == "hang" then
        let site := (ans.drop 1).headD "?"
        let kind := (ans.drop 2).headD "?"
        match classOf e cls site kind with
        | some c => ((), .propfail ("no_panic " ++ site ++ " class=" ++ c))
        | none => ((), .propfail ("no_panic " ++ impl))
      else if cls != "val" && cls != "err" then ((), .bad)
      else
        -- the predicate holds; now the correspondence
        if dmg == "no-request" then
          let m := renderModel (serviceEval fuel none)
          ((), if impl == m then .ok else .diff m)
        else if dmg == "version-empty" || dmg == "version-major" || dmg == "version-garbage" then
          ((), if impl == "err" then .ok else .diff "err")
        else if dmg == "-" && inFrag [] e then
          let e' := renameExpr e
          let m := renderModel (if mode == "grpc" then evalDecoded fuel e' else directEval e')
          if m == "fuel" then ((), .ok)
          else if impl == m then ((), .ok)
          else ((), .diff m)
        else ((), .ok)
  | _ => ((), .bad)

def family : Family := { σ := Unit, init := (), step := step }

end B6.Driver.C23

def main : IO Unit := B6.Driver.run B6.Driver.C23.family
