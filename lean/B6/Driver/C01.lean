import B6.Driver.Common
import B6.Model.CompactIndex
/-!
Driver for C01 (compact index round trip).  One case = the `src` lines of a feature set, then what the real
`compact.BuildInMemory` + `compact.NewWorldFromData` produced for it:

  `src pt <id> [tags]` | `src pa <id> [tags] <n|v|c|i>` | `src ar <id> [tags] [polys]` | `src re <id> [tags] [members]`  => `-`
  `build`                    => `ok` | `err` | `crash` | `hang` (CPU runaway or blocked) | `inconclusive-timeout`
  `nss`                      => `[hex …]`            the namespace table of the header
  `strs`                     => `[hex …]`            the string table, in id order
  `blk <i> t=<t> nss=a,b,c,d bits=<b> tagbits=<k>` => `[id:tag:hex …]`   every entry of feature block i, in iteration order
  `blocks`                   => number of feature blocks
  `load`                     => `ok` | `err`
  `find <id>`                => `none` | `pt [tags]` | `pa [tags] [geom]` | `ar [tags] [polys]` | `re [tags] [members]` | `panic`
  `each`                     => `[id …]`             EachFeature, one goroutine, emission order
  `rels <id>`                => `[id …]`             FindRelationsByFeature (transitive referrers that are relations), sorted
  `reset`                    => `-`                  next corpus witness

The model index is `B6.Model.CompactIndex.build strs fs` with `strs` = the implementation's string table (the
string bijection is a parameter of the model and of the theorems); the driver checks that table against the
spec (duplicate free, exactly the strings of the source, count-sorted).  Predicates evaluated on the
implementation's answers: `build` must not fail when the model builds; `find` of every kept feature must be the
canonical form of the source feature (`canon`); `each` must be a duplicate free permutation of the kept ids;
`rels` of a kept feature must be the relations among its transitive referrers (paths of a point, areas of a path,
relations of any of them), each once.  Everything else is compared with the model
(`diff`).  Known finding classes (each the negation of a hypothesis of `Accepts`): `fid-tag-value` = `hasFidTag fs`,
`point-member-without-block` = `hasPointMemberWithoutBlock fs`, `list-tag-on-non-path` = `hasListTagOnNonPath fs`.
-/
open B6.Driver B6.Model.CompactIndex B6.Model.Records B6.Model.Varint
namespace B6.Driver.C01

/-! ## parsing -/

/-- split at spaces, keeping `[ … ]` groups together -/
def tokens (s : String) : List String :=
  let rec go (cs : List Char) (depth : Nat) (cur : List Char) (acc : List String) : List String :=
    match cs with
    | [] => (if cur.isEmpty then acc else String.ofList cur.reverse :: acc).reverse
    | c :: rest =>
      if c == ' ' && depth == 0 then go rest depth [] (if cur.isEmpty then acc else String.ofList cur.reverse :: acc)
      else if c == '[' then go rest (depth + 1) (c :: cur) acc
      else if c == ']' then go rest (depth - 1) (c :: cur) acc
      else go rest depth (c :: cur) acc
  go s.toList 0 [] []

def parseNat? (s : String) : Option Nat := if s.isEmpty then none else s.toNat?
def parseInt? (s : String) : Option Int :=
  if s.startsWith "-" then (parseNat? (sdrop s 1)).map fun n => -(n : Int) else (parseNat? s).map fun n => (n : Int)

def parseID (s : String) : Option FID :=
  match s.splitOn ":" with
  | [t, ns, v] => do
    let t ← parseNat? t
    let ns ← parseHex ns
    let v ← parseNat? v
    if v < 2 ^ 64 then pure ⟨t, ns, BitVec.ofNat 64 v⟩ else none
  | _ => none

def parseLL (s : String) : Option LatLng :=
  match s.splitOn "," with
  | [a, b] => do
    let a ← parseInt? a
    let b ← parseInt? b
    pure ⟨BitVec.ofInt 32 a, BitVec.ofInt 32 b⟩
  | _ => none

def parseElem (s : String) : Option Elem :=
  if s.startsWith "r" then (parseID (sdrop s 1)).map Elem.ref
  else if s.startsWith "p" then (parseLL (sdrop s 1)).map Elem.ll
  else none

def splitNonEmpty (s : String) (sep : String) : List String := if s.isEmpty then [] else s.splitOn sep

def parseVal (s : String) : Option Val :=
  let body := sdrop s 2
  if s.startsWith "s:" then (parseHex body).map Val.str
  else if s.startsWith "p:" then (parseLL body).map Val.pt
  else if s.startsWith "f:" then (parseID body).map Val.fid
  else if s.startsWith "x:" then ((splitNonEmpty body ";").mapM parseElem).map Val.list
  else none

def parseTag (s : String) : Option FTag :=
  match s.splitOn "=" with
  | [k, v] => do
    let k ← parseHex k
    let v ← parseVal v
    pure ⟨k, v⟩
  | _ => none

def parseTags (s : String) : Option (List FTag) := do (← parseBracket s).mapM parseTag

def parsePoly (s : String) : Option Poly :=
  let body := sdrop s 2
  if s.startsWith "r:" then ((splitNonEmpty body ";").mapM parseID).map Poly.paths
  else if s.startsWith "l:" then
    -- a loop marked `!` does not survive E7 quantisation (S2 oracle, `lastMarshalledLoopIsValid`): `FromS2Polygon`
    -- drops it, so the model never sees it
    (((splitNonEmpty body "|").filter fun l => !l.startsWith "!").mapM fun l => (splitNonEmpty l ";").mapM parseLL).map Poly.loops
  else none

def parseMember (s : String) : Option FMember :=
  match s.splitOn "@" with
  | [r, i] => do
    let r ← parseHex r
    let i ← parseID i
    pure ⟨r, i⟩
  | _ => none

def parseFeature (ws : List String) : Option Feature :=
  match ws with
  | ["pt", i, ts] => do
    let i ← parseID i
    let ts ← parseTags ts
    pure { id := i, tags := ts }
  | ["pa", i, ts, o] => do
    let i ← parseID i
    let ts ← parseTags ts
    let o ← (match o with
      | "n" => some 0
      | "v" => some 1
      | "c" => some 2
      | "i" => some 3
      | _ => none)
    pure { id := i, tags := ts, oracle := o }
  | ["ar", i, ts, ps] => do
    let i ← parseID i
    let ts ← parseTags ts
    let ps ← (← parseBracket ps).mapM parsePoly
    pure { id := i, tags := ts, polys := ps }
  | ["re", i, ts, ms] => do
    let i ← parseID i
    let ts ← parseTags ts
    let ms ← (← parseBracket ms).mapM parseMember
    pure { id := i, tags := ts, members := ms }
  | _ => none

/-! ## rendering (the harness's words) -/

def rID (i : FID) : String := s!"{i.typ}:{renderHex i.ns}:{i.val.toNat}"
def rLL (p : LatLng) : String := s!"{p.lat.toInt},{p.lng.toInt}"
def rElem : Elem → String
  | .ref i => "r" ++ rID i
  | .ll p => "p" ++ rLL p
def rVal : Val → String
  | .str s => "s:" ++ renderHex s
  | .pt p => "p:" ++ rLL p
  | .fid i => "f:" ++ rID i
  | .list xs => "x:" ++ ";".intercalate (xs.map rElem)
def rTags (ts : List FTag) : String := renderList (ts.map fun t => renderHex t.key ++ "=" ++ rVal t.val)
def rPoly : Poly → String
  | .paths ids => "r:" ++ ";".intercalate (ids.map rID)
  | .loops ls => "l:" ++ "|".intercalate (ls.map fun l => ";".intercalate (l.map rLL))
def rMembers (ms : List FMember) : String := renderList (ms.map fun m => renderHex m.role ++ "@" ++ rID m.id)

/-- the geometry words of a path read back: `Reference(i)` / `PointAt(i)` for `i < GeometryLen()` -/
def rGeom (loc : FID → Option LatLng) (ts : List FTag) : String :=
  let es := match getTag ts kPath with
    | some (.list xs) => xs
    | _ => []
  renderList (es.map fun e => match e with
    | .ref i => if i.valid then "r" ++ rID i ++ "@" ++ (match loc i with
        | some p => rLL p
        | none => "?") else "panic"
    | .ll p => "p" ++ rLL p)

def rFound (loc : FID → Option LatLng) (f : Feature) : String :=
  match f.id.typ with
  | 0 => "pt " ++ rTags f.tags
  | 1 => "pa " ++ rTags f.tags ++ " " ++ rGeom loc f.tags
  | 2 => "ar " ++ rTags f.tags ++ " " ++ renderList (f.polys.map rPoly)
  | _ => "re " ++ rTags f.tags ++ " " ++ rMembers f.members

def rEntry (e : B6.Model.Containers.Entry) : String := s!"{e.id.toNat}:{e.tag.toNat}:{renderHex e.data}"

/-! ## the string table spec -/

def countOf (all : List Str) (s : Str) : Nat := (all.filter (· == s)).length

def nonIncreasing : List Nat → Bool
  | a :: b :: rest => decide (b ≤ a) && nonIncreasing (b :: rest)
  | _ => true

/-- duplicate free, exactly the strings of the source, counts non-increasing (`sort.Sort` by count) -/
def stringsOk (fs : List Feature) (strs : List Str) : Bool :=
  let all := fs.flatMap stringsOf
  strs.eraseDups.length == strs.length && all.all (strs.contains ·) && strs.all (all.contains ·) &&
    nonIncreasing (strs.map (countOf all))

/-- a table for predicting the outcome of a build whose table we never saw -/
def defaultStrs (fs : List Feature) : List Str := (fs.flatMap stringsOf).eraseDups

/-! ## state -/

structure St where
  fs : List Feature := []          -- in source order
  implBuild : String := ""
  ix : Option Index := none        -- the model index (built with the implementation's string table)
  keptIds : List FID := []
  known : Bool := false            -- the case is in the known finding class

def insertSortFID (l : List FID) : List FID := l.foldr insertFIDdup []
where insertFIDdup (x : FID) : List FID → List FID
  | [] => [x]
  | y :: ys => if x.lt y then x :: y :: ys else y :: insertFIDdup x ys

/-- the direct referrers of `id` in the source, as far as the index records them: kept paths through a point
(closing visit excluded), kept areas over a path, relations listing the feature — for a path / area / relation
only if it is itself in the index -/
def specDirect (fs : List Feature) (keptIds : List FID) (id : FID) : List FID :=
  if id.typ != 0 && !keptIds.contains id then [] else
  let paths := if id.typ != 0 then [] else
    (fs.filter fun p => p.id.typ == 1 && keptIds.contains p.id &&
      (let es := geomElems p
       let stop := if closedPath (pathElems p) then geometryLen p - 1 else geometryLen p
       (es.take stop).any fun e => match e with
         | .ref r => r.valid && r.ns == id.ns && r.val == id.val
         | .ll _ => false)).map (·.id)
  let areas := if id.typ != 1 then [] else
    (fs.filter fun a => a.id.typ == 2 && keptIds.contains a.id && a.polys.any fun p => match p with
      | .paths ids => ids.contains id
      | .loops _ => false).map (·.id)
  let rels := (fs.filter fun r => r.id.typ == 3 && r.members.any fun m => m.id == id).map (·.id)
  paths ++ areas ++ rels

/-- the relations among the transitive referrers of `id` (what the repaired `FindRelationsByFeature` returns, as
the in-memory world does), sorted like the harness sorts them -/
def specRelations (fs : List Feature) (keptIds : List FID) (id : FID) : List FID :=
  insertSortFID ((referrersLoop (specDirect fs keptIds) (fs.length + 2) [id] []).filter (·.typ == 3))

def judge (impl model : String) (spec : Option String) (clause : String) (known : Bool) : Verdict :=
  match spec with
  | some s =>
    if impl == s then (if impl == model then .ok else .diff model)
    else .propfail (if known then clause ++ " class=fid-tag-value" else clause)
  | none => if impl == model then .ok else .diff model

def parseBlkHeader (ws : List String) : Option (Nat × Nat × List Nat × Nat × Nat) :=
  match ws with
  | [i, t, nss, bits, tb] => do
    let i ← parseNat? i
    let t ← parseNat? (sdrop t 2)
    let nss ← ((sdrop nss 4).splitOn ",").mapM parseNat?
    let bits ← parseNat? (sdrop bits 5)
    let tb ← parseNat? (sdrop tb 8)
    pure (i, t, nss, bits, tb)
  | _ => none

def step (st : St) (op impl : String) : St × Verdict :=
  match tokens op with
  | "src" :: rest =>
    match parseFeature rest with
    | some f => ({ st with fs := st.fs ++ [f] }, if impl == "-" then .ok else .bad)
    | none => (st, .bad)
  | ["reset"] => ({}, .ok)
  | ["build"] =>
    -- the harness could not decide within its wall-clock limit whether the build terminates (the child was still
    -- consuming CPU within its budget): counted in the harness histogram, no claim either way
    if impl == "inconclusive-timeout" then (st, .ok) else
    let st := { st with implBuild := impl, known := hasFidTag st.fs }
    match build (defaultStrs st.fs) st.fs with
    | .ok _ =>
      if impl == "ok" then (st, .ok) else (st, .propfail "build-fails-on-accepted-input")
    | .error .fidTag =>
      if impl == "ok" then (st, .ok) else (st, .propfail "build-fails-on-accepted-input class=fid-tag-value")
    | .error (.panic why) =>
      -- the model says the Go code panics on this input (outside `Accepts`): two documented classes are
      -- valid input by any reading of the property, the rest is only compared
      if impl == "ok" then (st, .diff ("panic " ++ why))
      else if hasPointMemberWithoutBlock st.fs then (st, .propfail "build-fails-on-accepted-input class=point-member-without-block")
      else if hasListTagOnNonPath st.fs then (st, .propfail "build-fails-on-accepted-input class=list-tag-on-non-path")
      else (st, .ok)
  | ["nss"] =>
    if st.known then (st, .ok) else
    (st, judge impl (renderList ((nsTable st.fs).map renderHex)) none "" false)
  | ["strs"] =>
    if st.known then (st, .ok) else
    match (parseBracket impl).bind (·.mapM parseHex) with
    | none => (st, .bad)
    | some strs =>
      if !stringsOk st.fs strs then (st, .propfail "string-table-not-a-count-sorted-bijection") else
      match build strs st.fs with
      | .ok ix => ({ st with ix := some ix, keptIds := (st.fs.filter (kept st.fs)).map (·.id) }, .ok)
      | .error _ => (st, .diff "model-build-fails")
  | "blk" :: rest =>
    if st.known then (st, .ok) else
    match parseBlkHeader rest, st.ix with
    | some (i, t, nss, bits, tb), some ix =>
      match ix.blocks[i]? with
      | none => (st, .diff "no-such-block")
      | some b =>
        let hdr := s!"t={b.typ} nss={b.hdr.point.toNat},{b.hdr.path.toNat},{b.hdr.area.toNat},{b.hdr.relation.toNat} bits={b.bits} tagbits={b.tagBits}"
        let mine := s!"t={t} nss={",".intercalate (nss.map toString)} bits={bits} tagbits={tb}"
        let model := renderList ((iterIds b).map rEntry)
        if hdr != mine then (st, .diff hdr) else (st, judge impl model none "" false)
    | _, _ => (st, .bad)
  | ["blocks"] =>
    if st.known then (st, .ok) else
    match st.ix with
    | some ix => (st, judge impl (toString ix.blocks.length) none "" false)
    | none => (st, .bad)
  | ["load"] => (st, if impl == "ok" then .ok else .propfail "load-fails")
  | ["find", i] =>
    match parseID i with
    | none => (st, .bad)
    | some id =>
      let src := st.fs.find? (·.id == id)
      let spec : Option String := match src with
        | some f => if kept st.fs f then some (rFound (sourceLocation st.fs) (canon st.fs f)) else none
        | none => none
      if st.known then
        -- only the predicate can be evaluated: the model has no index for this class
        match spec with
        | some s => (st, if impl == s then .ok else .propfail "find-differs-from-source class=fid-tag-value")
        | none => (st, .ok)
      else
      match st.ix with
      | none => (st, .bad)
      | some ix =>
        let model := match find ix id with
          | none => "none"
          | some none => "panic"
          | some (some f) => rFound (location ix) f
        (st, judge impl model spec "find-differs-from-source" false)
  | ["each"] =>
    match (parseBracket impl).bind (·.mapM parseID) with
    | none => (st, if st.known then .ok else .propfail "each-fails")
    | some ids =>
      let keptIds := if st.known then (st.fs.filter (kept st.fs)).map (·.id) else st.keptIds
      let okPerm := ids.eraseDups.length == ids.length && ids.length == keptIds.length && keptIds.all (ids.contains ·)
      if !okPerm then (st, .propfail (if st.known then "each-not-a-permutation-of-the-kept-ids class=fid-tag-value" else "each-not-a-permutation-of-the-kept-ids")) else
      if st.known then (st, .ok) else
      match st.ix with
      | some ix => (st, judge impl (renderList ((each ix).map rID)) none "" false)
      | none => (st, .bad)
  | ["rels", i] =>
    if st.known then (st, .ok) else
    match parseID i, st.ix with
    | some id, some ix =>
      let model := renderList ((insertSortFID (relationsOf ix id)).map rID)
      let spec := if st.keptIds.contains id then some (renderList ((specRelations st.fs st.keptIds id).map rID)) else none
      (st, judge impl model spec "relations-of-member-differ-from-source" false)
    | _, _ => (st, .bad)
  | _ => (st, .bad)

def family : Family := { σ := St, init := {}, step := step }

end B6.Driver.C01

def main : IO Unit := B6.Driver.run B6.Driver.C01.family
