import B6.Driver.Common
import B6.Model.FeatureSearch
/-!
Driver for C03.  One case = one world (its features as the world itself reports them), then queries.

ops:
  `world <kind>`                                 answer `ok`     kind ∈ basic | mutable | mutable-overlay | overlay
  `feat <type>/<ns>/<value> n=<ntags> [k=v …]`    answer `ok`     the listed tags are those with keys of the test
                                                                  alphabet, in order; `n` = len(AllTags())
  `find <q>`                                      answer `[id …]` in the order FindFeatures returned them | `panic`
  `matches <q>`                                   answer `[id …]` the dumped features (dump order) whose Go
                                                                  `Query.Matches` is true | `panic`
  `merge [id …] | [id …] | …`                     answer `[id …]` b6.MergeFeatures over these streams
  q ::= ( all ) | ( empty ) | ( tagged <key> '<value> ) | ( keyed <key> ) | ( typed <type> q ) | ( and q* ) | ( or q* )

`find`: the answer must be `Spec.Query.expected` (ids of the searchable features whose tags satisfy `denote q`,
strictly increasing) — `propfail find`.  Known class `tagged-at-key`: the query has a `tagged` node on an `@` key
and the implementation answers exactly what the model of the current code answers.
`matches`: must be the features with `denote q` — `propfail matches`.
-/
open B6.Driver B6.Spec.Cursor B6.Spec.SearchQuery B6.Spec.TagQuery B6.Model.Search B6.Model.FeatureSearch
namespace B6.Driver.C03

def typeNames : List (String × Nat) :=
  [("point", 0), ("path", 1), ("area", 2), ("relation", 3), ("collection", 5), ("expression", 6)]

/-- the namespaces the harness uses, in increasing (byte) order; index 0 is the invalid namespace -/
def namespaces : List String := ["nsa", "nsb", "nsc"]

def nsIndex (s : String) : Option Nat := (namespaces.idxOf? s).map (· + 1)

structure Feat where
  word : String
  f : Feature

def parseID (w : String) : Option (Nat × Nat × Nat) :=
  match w.splitOn "/" with
  | [t, ns, v] =>
    match typeNames.lookup t, nsIndex ns, v.toNat? with
    | some t, some ns, some v => some (t, ns, v)
    | _, _, _ => none
  | _ => none

def parseTag (w : String) : Option (Token × Token) :=
  match w.splitOn "=" with
  | [] => none
  | [_] => none
  | k :: rest => some (k.toList, ("=".intercalate rest).toList)

mutual
partial def parseQuery (ws : List String) : Option (Query × List String) :=
  match ws with
  | "(" :: "all" :: ")" :: rest => some (.all, rest)
  | "(" :: "empty" :: ")" :: rest => some (.empty, rest)
  | "(" :: "tagged" :: k :: v :: ")" :: rest =>
    match v.toList with
    | '\'' :: vs => some (.tagged k.toList vs, rest)
    | _ => none
  | "(" :: "keyed" :: k :: ")" :: rest => some (.keyed k.toList, rest)
  | "(" :: "typed" :: t :: rest =>
    match typeNames.lookup t, parseQuery rest with
    | some t, some (q, ")" :: rest') => some (.typed t q, rest')
    | _, _ => none
  | "(" :: "and" :: rest => (parseQueries rest []).map fun (qs, rest') => (.and qs, rest')
  | "(" :: "or" :: rest => (parseQueries rest []).map fun (qs, rest') => (.or qs, rest')
  | _ => none
partial def parseQueries (ws : List String) (acc : List Query) : Option (List Query × List String) :=
  match ws with
  | ")" :: rest => some (acc.reverse, rest)
  | _ =>
    match parseQuery ws with
    | some (q, rest) => parseQueries rest (q :: acc)
    | none => none
end

mutual
/-- the class of the known finding: a `tagged` node whose key starts with `@` (negation of `Query.OK`'s clause) -/
def hasTaggedAt : Query → Bool
  | .tagged ('@' :: _) _ => true
  | .typed _ q => hasTaggedAt q
  | .and qs => hasTaggedAtList qs
  | .or qs => hasTaggedAtList qs
  | _ => false
def hasTaggedAtList : List Query → Bool
  | [] => false
  | q :: qs => hasTaggedAt q || hasTaggedAtList qs
end

structure St where
  feats : List Feat := []     -- in dump order

def renderIDs (st : St) (ids : List Nat) : String :=
  renderList (ids.map fun i => match st.feats.find? (fun x => x.f.id == i) with | some x => x.word | none => s!"?{i}")

def pad (tags : List (Token × Token)) (n : Nat) : List (Token × Token) :=
  tags ++ (List.range (n - tags.length)).map (fun i => ('~' :: (toString i).toList, []))

def step (st : St) (op impl : String) : St × Verdict :=
  match words op with
  | ["world", _] => ({}, if impl == "ok" then .ok else .diff "ok")
  | "feat" :: idw :: nw :: rest =>
    match parseID idw, (sdrop nw 2).toNat?, parseBracket (" ".intercalate rest) with
    | some (t, ns, v), some n, some tagWords =>
      match tagWords.mapM parseTag with
      | some tags =>
        if nw.startsWith "n=" && tags.length ≤ n then
          ({ st with feats := st.feats ++ [⟨idw, ⟨t, ns, v, pad tags n⟩⟩] }, if impl == "ok" then .ok else .diff "ok")
        else (st, .bad)
      | none => (st, .bad)
    | _, _, _ => (st, .bad)
  | "find" :: rest =>
    match parseQuery rest with
    | some (q, []) =>
      let fs := st.feats.map (·.f)
      let spec := renderIDs st (expected fs q)
      let model := match findFeatures (buildIndex .array fs) q with
        | .ok ids => renderIDs st ids
        | .error .panic => "panic"
        | .error .fuel => "fuel"
      if impl == spec then (st, if impl == model then .ok else .diff model)
      else if hasTaggedAt q && impl == model then (st, .propfail "find class=tagged-at-key")
      else (st, .propfail "find")
    | _ => (st, .bad)
  | "matches" :: rest =>
    match parseQuery rest with
    | some (q, []) =>
      let spec := renderList ((st.feats.filter (fun x => denote q x.f)).map (·.word))
      (st, if impl == spec then .ok else .propfail "matches")
    | _ => (st, .bad)
  | "merge" :: _ =>
    let groups := if op == "merge -" then [] else (sdrop op 6).splitOn " | "
    match groups.mapM (fun g => (parseBracket g).bind (fun ws => ws.mapM fun w => (parseID w).map fun (t, ns, v) => (w, key t ns v))) with
    | some streams =>
      let lists := streams.map (·.map (·.2))
      if lists.all (fun l => decide (StrictSorted l)) then
        let word (i : Nat) : String :=
          match (streams.flatten.find? (fun p => p.2 == i)) with | some p => p.1 | none => s!"?{i}"
        let spec := renderList ((sortDedup lists.flatten).map word)
        let o : IterOps Leaf := Leaf.ops
        let st0 : UnionState Leaf := .fresh (lists.map fun l => ⟨.array, l, 0⟩)
        let n := lists.flatten.length + 1
        let rec go : Nat → UnionState Leaf → List Nat → Option (List Nat)
          | 0, _, _ => none
          | k + 1, s, acc =>
            match Merged.next o s with
            | .ok (true, s') => match Union.value s' with | some v => go k s' (v :: acc) | none => none
            | .ok (false, _) => some acc.reverse
            | .error _ => none
        let model := match go n st0 [] with | some ids => renderList (ids.map word) | none => "panic"
        (st, if impl == spec then (if impl == model then .ok else .diff model) else .propfail "merge")
      else (st, .bad)
    | none => (st, .bad)
  | _ => (st, .bad)

def family : Family := { σ := St, init := {}, step := step }

end B6.Driver.C03

def main : IO Unit := B6.Driver.run B6.Driver.C03.family
