import B6.Driver.Common
import B6.Model.Pbf
import B6.Driver.PbfTokens
/-!
Driver for C27 (token formats: see `harness/cmd/c27/main.go`, parsers in `B6/Driver/PbfTokens.lean`).

ops
  `write n element*`            answer `nb block*` | `err…` | `panic`     model: `writeAll`
  `read g`                      answer `ok|err g (n element*)*g [fl=0|1]`  stream per goroutine
  `rawread ABCD block`          answer `ok|err|panic n element*`            model: `readBlock` with options
  `enc nano off gran`           answer int | `panic`
  `dec angle off gran`          answer int

State: the elements of the last `write` and the blocks the implementation wrote (re-synchronised from
its answer), so the reader model runs on the blocks that are really in the file.

Property predicate (`read`): there is an assignment of the file's blocks (the input cut at the element
counts of the blocks that are really in the file) to goroutines such that every goroutine's stream is the
concatenation of its blocks in file order, every element equal to the written one except that node
coordinates may differ by at most one granularity step (100 nano-degrees); for one goroutine this is: the
same elements in the same order.
-/
open B6.Driver B6.Model.Pbf B6.Driver.PbfTokens
namespace B6.Driver.C27

/-! the property predicate -/

def natAbsDiff (a b : Int64) : Nat := (a.toInt - b.toInt).natAbs

/-- same element, node coordinates at most one granularity step (100 nano-degrees) apart (the theorem
`coord_within_step` gives strictly less for the code as it is) -/
def eqTol : Element → Element → Bool
  | .node i la lo ts, .node i' la' lo' ts' => i == i' && ts == ts' && natAbsDiff la la' ≤ 100 && natAbsDiff lo lo' ≤ 100
  | a, b => a == b

def isPrefixBy {α : Type} (eq : α → α → Bool) : List α → List α → Bool
  | [], _ => true
  | _ :: _, [] => false
  | a :: as, b :: bs => eq a b && isPrefixBy eq as bs

def setAt {α : Type} : List α → Nat → α → List α
  | [], _, _ => []
  | _ :: xs, 0, y => y :: xs
  | x :: xs, n + 1, y => x :: setAt xs n y

/-- is there an assignment of the chunks (in order) to the streams such that each stream is the
concatenation of its chunks? (depth-first; a chunk almost always fits one stream only) -/
def assignable {α : Type} (eq : α → α → Bool) : List (List α) → List (List α) → Bool
  | [], streams => streams.all List.isEmpty
  | c :: cs, streams =>
    (List.range streams.length).any fun k =>
      match streams[k]? with
      | none => false
      | some s => isPrefixBy eq c s && assignable eq cs (setAt streams k (s.drop c.length))

def splitBy {α : Type} : List Nat → List α → List (List α)
  | [], _ => []
  | n :: ns, xs => xs.take n :: splitBy ns (xs.drop n)

structure St where
  elems : List Element := []
  blocks : List Block := []
  /-- the input cut at the block boundaries of the model writer; `none` = the cut does not cover the input -/
  specChunks : Option (List (List Element)) := none
  /-- the reader model on each block that is in the file; `none` = some block fails -/
  modelChunks : Option (List (List Element)) := none

def mkSt (es : List Element) (model impl : List Block) : St :=
  let rs := impl.map (readBlock {})
  -- the property does not say where the file is cut into blocks: the cut is taken from the blocks that
  -- are in the file (element count of each, by the reader model); when they do not cover the input, from
  -- the model writer's blocks
  let implLens := rs.map (·.out.length)
  let modelLens := model.map fun b => (readBlock {} b).out.length
  let lens := if implLens.sum == es.length then implLens else modelLens
  { elems := es, blocks := impl,
    specChunks := if lens.sum == es.length then some (splitBy lens es) else none,
    modelChunks := if rs.all (fun r => r.fail.isNone) then some (rs.map (·.out)) else none }

def optsOf (s : String) : Option Opts :=
  match s.toList with
  | [a, b, c, d] =>
    if [a, b, c, d].all (fun x => x == '0' || x == '1') then
      some { skipTags := a == '1', skipNodes := b == '1', skipWays := c == '1', skipRels := d == '1' }
    else none
  | _ => none

/-- streams per goroutine, then (more than one goroutine) `o nruns (g len)*`: the goroutine of every callback
entry, in the order the callback was entered, run-length coded -/
def pStreams : P (List (List Element) × Option (List (Nat × Nat))) := do
  let g ← pNat
  let ss ← many g (counted pElement)
  let ts ← get
  match ts with
  | "o" :: _ => do
    let _ ← tok
    let runs ← counted (do let a ← pNat; let b ← pNat; pure (a, b))
    pure (ss, some runs)
  | _ => pure (ss, none)

/-- the order in which the callback saw the elements: take `len` elements from stream `g`, run by run;
`none` when the runs do not use up the streams exactly -/
def globalOrder : List (List Element) → List (Nat × Nat) → Option (List Element)
  | streams, [] => if streams.all List.isEmpty then some [] else none
  | streams, (g, n) :: runs =>
    match streams[g]? with
    | none => none
    | some s =>
      if s.length < n then none else
      (globalOrder (setAt streams g (s.drop n)) runs).map (s.take n ++ ·)

def step (st : St) (op impl : String) : St × Verdict :=
  match words op with
  | "write" :: rest =>
    match parseAll (counted pElement) rest with
    | none => (st, .bad)
    | some es =>
      let model := writeAll es
      let m := rBlocks model
      match parseAll (counted pBlock) (words impl) with
      | some bs => (mkSt es model bs, if impl == m then .ok else .diff m)
      | none => (mkSt es model model, .diff m)
  | ["read", gs] =>
    match gs.toNat? with
    | none => (st, .bad)
    | some g =>
      let (ws, fl) := match (words impl).reverse with
        | "fl=1" :: r => (r.reverse, true)
        | "fl=0" :: r => (r.reverse, false)
        | _ => (words impl, true)
      match ws with
      | status :: rest =>
        match parseAll pStreams rest with
        | none => (st, .bad)
        | some (streams, runs) =>
          if status != "ok" && status != "err" then (st, .bad) else
          -- the blocks the model writer makes for this input decide the chunk sizes
          let pred := status == "ok" && streams.length == g &&
            (match st.specChunks with | some cs => assignable eqTol cs streams | none => false)
          if !pred then (st, .propfail "roundtrip")
          else if !fl then (st, .propfail "coordinate-float")
          else
            -- the reader model on the blocks that are in the file
            let modelOK := match st.modelChunks with
              | some cs => assignable (fun (a b : Element) => a == b) cs streams
              | none => false
            if !modelOK then (st, .diff ("reader-model: " ++ rRes (readAll {} st.blocks))) else
            -- the statement as written: the callback sees the written order. The streams above are the
            -- strongest order the code guarantees; a callback order that is not the written order is the
            -- known class `crossBlockClass` (more than one goroutine and more than one block), anything else
            -- is reported unclassified
            match runs with
            | none => (st, if g ≤ 1 then .ok else .bad)
            | some runs =>
              match globalOrder streams runs with
              | none => (st, .bad)
              | some glob =>
                if isPrefixBy eqTol st.elems glob && glob.length == st.elems.length then (st, .ok)
                else if crossBlockClass g st.blocks.length then
                  (st, .propfail "total-order class=cores-gt1-cross-block-order")
                else (st, .propfail "total-order")
      | [] => (st, .bad)
  | "rawread" :: o :: rest =>
    match optsOf o, parseAll pBlock rest with
    | some opts, some b =>
      let m := rRes (readBlock opts b)
      (st, if impl == m then .ok else .diff m)
    | _, _ => (st, .bad)
  | ["enc", a, b, c] =>
    match parseAll pInt64 [a], parseAll pInt64 [b], parseAll pInt64 [c] with
    | some n, some off, some g =>
      let m := match encodeAngle? n off g with | some v => rI v | none => "panic"
      (st, if impl == m then .ok else .diff m)
    | _, _, _ => (st, .bad)
  | ["dec", a, b, c] =>
    match parseAll pInt64 [a], parseAll pInt64 [b], parseAll pInt64 [c] with
    | some q, some off, some g =>
      let m := rI (decodeAngle q off g)
      (st, if impl == m then .ok else .diff m)
    | _, _, _ => (st, .bad)
  | _ => (st, .bad)

def family : Family := { σ := St, init := {}, step := step }

end B6.Driver.C27

def main : IO Unit := B6.Driver.run B6.Driver.C27.family
