import B6.Driver.Common
import B6.Driver.SkelIO
import B6.Model.OverlayWorld
/-!
Driver for C16 — layered worlds.

feature  `<id>=<refs>;v=<version>[;t=<word>][;loc=<slot>|;noloc]`     (refs comma separated)
item     `<id>:<version>`

ops
  `merge base=[item…] ov=[item…] filter=[id…]`   the bare iterator `newOverlayFeatures` (verif hook)
       answer `[item…]` in iteration order | `panic`
  `overlay base=[feature…] ov=[feature…]`        `NewOverlayWorld(ov, base)` over two built basic worlds
  `mutable base=[feature…] adds=[feature…]`      `NewMutableOverlayWorld(base)` + `AddFeature` per feature
       answer `base=[feature…] ov=[feature…]`: the layers as built (`ov` = `EachModifiedFeature` for
       the mutable world); the driver resynchronises on them
  `get <id>` → version | `none`;  `has <id>` → `true|false`;  `loc <id>` → slot | `err`
  `each` → `[item…]` sorted by ID (with multiplicity)
  `search <q> base=[item…] ov=[item…]` → `[item…]` in iteration order; `base`/`ov` are what the two
       layers answer on their own (`ov=-` for the mutable world: the driver derives it from the layer)
       q = `all` | `t=<word>`
  `search <query> match=[id…] base=[item…] ov=[item…]|-` → `[item…]` in iteration order; `base`/`ov` = the layers'
       own answers to the query resolved in the layered world (leaf by leaf, by the harness); query = `if:<id>` (IntersectsFeature) | `t=<word>` |
       `all` | `U(q,q)` | `I(q,q)` | `T.<type>(q)`; `match` = the IDs of the layered world's current features whose
       current version satisfies the query (brute force in the harness: an oracle table for the driver)
  `refs <id> [type…]` | `rels <id>` | `cols <id>` | `areas <id>` → `[item…]` sorted by ID

Property predicate: every answer = the answer computed on the shadowed feature set (overlay ∪ base
without the IDs the overlay holds), the feature always taken from the upper layer; enumeration and
search yield each ID once, search in ID order.
-/
open B6.Driver B6.Driver.SkelIO B6.Model.OverlayWorld
namespace B6.Driver.C16
abbrev Id := B6.Model.OverlayWorld.Id

abbrev Item := Id × String

def parseItem (s : String) : Option Item :=
  match s.splitOn ":" with
  | [a, v] => do let id ← parseId a; some (id, v)
  | _ => none

def renderItem (x : Item) : String := renderId x.1 ++ ":" ++ x.2

def parseItems (s : String) : Option (List Item) := do
  let ws ← parseBracket s
  ws.mapM parseItem

def renderItems (xs : List Item) : String := renderList (xs.map renderItem)

def parseFeat (s : String) : Option Feat :=
  match s.splitOn ";" with
  | [] => none
  | head :: attrs =>
    match head.splitOn "=" with
    | [a, b] => do
      let id ← parseId a
      let refs ← parseIdsComma b
      let ver := (attrs.filterMap fun a => if a.startsWith "v=" then some (sdrop a 2) else none).head?
      let loc := (attrs.filterMap fun a => if a.startsWith "loc=" then parseNat? (sdrop a 4) else none).head?
      some { id := id, ver := ver.getD "-", refs := refs, loc := loc }
    | _ => none

def tagOf (s : String) : Option String :=
  ((s.splitOn ";").filterMap fun a => if a.startsWith "t=" then some (sdrop a 2) else none).head?

/-- `key=[…]` segments of an op / answer line: the text between `key=[` and the next `]` -/
def segment (line key : String) : Option String :=
  match line.splitOn (key ++ "=[") with
  | [_, rest] => match rest.splitOn "]" with
    | inner :: _ => some ("[" ++ inner ++ "]")
    | [] => none
  | _ => none

structure St where
  kind : String := ""
  w : OW := ⟨[], []⟩
  /-- search tag of every overlay feature (mutable kind: to derive the overlay's own search answer) -/
  ovTags : List (Id × String) := []

def itemsOf (fs : List Feat) : List Item := fs.map fun f => (f.id, f.ver)

def sortItems (xs : List Item) : List Item := sortBy (fun (a b : Item) => SkelIO.idLt a.1 b.1) xs

def judgeS (impl model spec clause : String) : Verdict :=
  if impl == spec then (if impl == model then .ok else .diff model) else .propfail clause

def strictlySorted : List Item → Bool
  | [] => true
  | [_] => true
  | a :: b :: rest => B6.Model.OverlayWorld.idLt a.1 b.1 && strictlySorted (b :: rest)

def renderMerge : Option (List (Id × String × Bool)) → String
  | some xs => renderItems (xs.map fun x => (x.1, x.2.1))
  | none => "panic"

def queryTypes (kind : String) (extra : List String) : Option (List Nat) :=
  if kind == "refs" then parseTypes extra
  else if extra != [] then none
  else if kind == "rels" then some [3] else if kind == "cols" then some [5] else if kind == "areas" then some [2]
  else none

def step (st : St) (op impl : String) : St × Verdict :=
  match words op with
  | "merge" :: _ =>
    match (segment op "base").bind parseItems, (segment op "ov").bind parseItems, (segment op "filter").bind parseIds with
    | some base, some ov, some filt =>
      let f : Id → Bool := fun i => filt.contains i
      let m := renderMerge (mergeIter f base ov)
      -- the property speaks about sorted duplicate-free inputs whose overlay IDs are all in the filter
      if strictlySorted base && strictlySorted ov && ov.all (fun x => f x.1) then
        let s := renderMerge (some (merge ov (base.filter fun x => !f x.1)))
        (st, judgeS impl m s "overlay_merge")
      else (st, if impl == m then .ok else .diff m)
    | _, _, _ => (st, .bad)
  | k :: _ =>
    if k == "overlay" || k == "mutable" then
      match (segment impl "base").bind (fun s => (parseBracket s).bind (·.mapM parseFeat)),
            (segment impl "ov").bind (fun s => (parseBracket s).bind (·.mapM parseFeat)),
            (segment impl "ov").bind parseBracket with
      | some b, some o, some otoks =>
        let tags := (otoks.zip o).filterMap fun (tok, f) => (tagOf tok).map fun t => (f.id, t)
        ({ kind := k, w := ⟨o, b⟩, ovTags := tags }, .ok)
      | _, _, _ => (st, .bad)
    else
    match words op with
    | ["get", ids] =>
      match parseId ids with
      | none => (st, .bad)
      | some id =>
        let m := match st.w.get id with | some f => f.ver | none => "none"
        (st, judgeS impl m m "lookup_shadow")
    | ["has", ids] =>
      match parseId ids with
      | none => (st, .bad)
      | some id => let m := toString (st.w.has id); (st, judgeS impl m m "has")
    | ["loc", ids] =>
      match parseId ids with
      | none => (st, .bad)
      | some id =>
        let m := match st.w.loc id with | some k => toString k | none => "err"
        (st, judgeS impl m m "location_shadow")
    | ["each"] =>
      let m := renderItems (sortItems (itemsOf st.w.each))
      (st, judgeS impl m m "each_once")
    | "search" :: q :: _ =>
      -- a query with spatial sub-queries: the harness passes the match set of the query on the layered
      -- world (brute force over its current features) as an oracle table; checked here: the merge / shadow
      -- logic on it — every current feature whose ID is in the table, once, in ID order, upper version
      if (op.splitOn "match=[").length == 2 then
        match (segment op "match").bind parseIds, (segment op "base").bind parseItems with
        | some matched, some baseRes =>
          let f : Id → Bool := fun i => st.w.overlay.has i
          let inTable := fun (x : Feat) => matched.contains x.id
          if st.kind == "mutable" then
            -- the overlay part cannot be observed on its own: it is read off the answer, and must consist of
            -- current overlay features that satisfy the query; the base part and the merge are checked exactly
            match parseItems impl with
            | none => (st, .propfail "overlay_search no-answer")
            | some ans =>
              let ovPart := ans.filter fun x => f x.1
              let ovSound := ovPart.all fun x => matched.contains x.1 && (st.w.overlay.any fun g => g.id == x.1 && g.ver == x.2)
              let m := renderMerge (mergeIter f baseRes ovPart)
              if ovSound && strictlySorted ovPart then (st, judgeS impl m m "overlay_search")
              else (st, .propfail "overlay_search overlay-part")
          else
            match (segment op "ov").bind parseItems with
            | none => (st, .bad)
            | some ovRes =>
              let m := renderMerge (mergeIter f baseRes ovRes)
              let s := renderItems (sortItems (itemsOf (st.w.merged.filter inTable)))
              (st, judgeS impl m s "overlay_search")
        | _, _ => (st, .bad)
      else
      match (segment op "base").bind parseItems with
      | none => (st, .bad)
      | some baseRes =>
        let ovRes : Option (List Item) :=
          if st.kind == "mutable" then
            -- the overlay's own answer: its features carrying the tag, in ID order
            if q.startsWith "t=" then
              let t := sdrop q 2
              some (sortItems ((st.w.overlay.filter fun f => st.ovTags.contains (f.id, t)).map fun f => (f.id, f.ver)))
            else none
          else (segment op "ov").bind parseItems
        match ovRes with
        | none => (st, .bad)
        | some ovRes =>
          let f : Id → Bool := fun i => st.w.overlay.has i
          let m := renderMerge (mergeIter f baseRes ovRes)
          let s := renderMerge (some (merge ovRes (baseRes.filter fun x => !f x.1)))
          (st, judgeS impl m s "overlay_merge")
    | q :: ids :: extra =>
      match parseId ids, queryTypes q extra with
      | some id, some typed =>
        let render := fun (r : Option (List Feat)) => match r with
          | some fs => renderItems (sortItems (itemsOf fs))
          | none => "hang"
        match st.w.specRefs id typed with
        | none => (st, .bad)
        | some s =>
          let m := render (st.w.findRefs id typed)
          let sp := render (some s)
          if impl == sp then (st, if impl == m then .ok else .diff m)
          else (st, .propfail "union_refs")
      | _, _ => (st, .bad)
    | _ => (st, .bad)
  | _ => (st, .bad)

def family : Family := { σ := St, init := {}, step := step }

end B6.Driver.C16

def main : IO Unit := B6.Driver.run B6.Driver.C16.family
