import B6.Driver.Common
import B6.Model.Shell
/-!
Driver for C20.  Stateless.  Byte strings are `x<hex>`; an ID is the word `type:nshex:value`.

expression  K = `(sym x)` `(str x)` `(int n)` `(float xTEXT)` `(pt xLAT xLNG)` `(id ID)` `(tag xK xV)` `(query Q)`
                `(call 0|1 K K*)` `(lam (x*) K)`          Q = `(keyed x)` `(tagged x x)` `(and Q*)` `(or Q*)`
parsed      `(E begin end K')` with K' as K but children `(E …)` and points as `(pt latE7 lngE7)`

ops
  `up K`     answer `U | P` : U = `x<hex of UnparseExpression's text>` | `fail` | `panic`; P = ParseExpression of that text,
             `(E …)` | `err` | `-`
  `ws xTEXT` answer `P`     : ParseExpression of a text (printed text with extra white space, damaged text, …)

The model prints (tokens → text) and lexes + parses the implementation's text.  The property predicate is evaluated on
the implementation's answers: for a printable expression the text must parse, the parsed tree without positions must be
the normal form of the expression (points at E7), every node's span must lie inside its parent's, and every leaf's span
must hold exactly the tokens of that leaf.
-/
open B6.Driver B6.Model.Shell B6.Model.FeatureID
namespace B6.Driver.C20

/-! ### S-expressions -/

inductive SExp where
  | atom (s : String)
  | list (xs : List SExp)
  deriving Inhabited

def tokenize (s : String) : List String :=
  let padded := String.ofList (s.toList.flatMap fun c =>
    if c == '(' || c == ')' then [' ', c, ' '] else [c])
  words padded

partial def parseSExp : List String → Option (SExp × List String)
  | [] => none
  | "(" :: rest =>
    let rec go (ts : List String) (acc : List SExp) : Option (SExp × List String) :=
      match ts with
      | [] => none
      | ")" :: rest => some (.list acc.reverse, rest)
      | _ =>
        match parseSExp ts with
        | some (x, rest) => go rest (x :: acc)
        | none => none
    go rest []
  | ")" :: _ => none
  | t :: rest => some (.atom t, rest)

def readSExp (s : String) : Option SExp :=
  match parseSExp (tokenize s) with
  | some (x, []) => some x
  | _ => none

def paren (xs : List String) : String := "(" ++ " ".intercalate xs ++ ")"

def aBytes : SExp → Option Bytes
  | .atom s => if s.startsWith "x" then (parseHex (if s.length == 1 then "-" else sdrop s 1)).map (·.map UInt8.toNat) else none
  | _ => none
def rBytes (b : Bytes) : String := "x" ++ (if b.isEmpty then "" else renderHex (b.map UInt8.ofNat))
def aNat : SExp → Option Nat
  | .atom s => s.toNat?
  | _ => none
def aInt : SExp → Option Int
  | .atom s => s.toInt?
  | _ => none
def aBool : SExp → Option Bool
  | .atom "0" => some false
  | .atom "1" => some true
  | _ => none

def typeName : FType → String
  | .point => "point" | .path => "path" | .area => "area" | .relation => "relation"
  | .invalid => "invalid" | .collection => "collection" | .expression => "expression"
def parseType : String → Option FType
  | "point" => some .point | "path" => some .path | "area" => some .area
  | "relation" => some .relation | "invalid" => some .invalid
  | "collection" => some .collection | "expression" => some .expression | _ => none

def aID : SExp → Option FeatureID
  | .atom s =>
    match s.splitOn ":" with
    | [t, ns, v] => do
      let t ← parseType t
      let ns ← (parseHex ns).map (·.map UInt8.toNat)
      let v ← v.toNat?
      pure ⟨t, ns, v⟩
    | _ => none
  | _ => none
def rID (f : FeatureID) : String := s!"{typeName f.type}:{renderHex (f.ns.map UInt8.ofNat)}:{f.value}"

/-! ### decimal text → E7 (exact; round half away from zero) -/

def digitsVal (ds : Bytes) : Nat := ds.foldl (fun a c => a * 10 + (c - 48)) 0

def e7OfText (t : Bytes) : Int :=
  let (neg, body) := match t with
    | 45 :: r => (true, r)
    | _ => (false, t)
  let ip := body.takeWhile (· ≠ 46)
  let fp := (body.dropWhile (· ≠ 46)).drop 1
  let num := digitsVal ip * 10 ^ fp.length + digitsVal fp       -- value = num / 10^|fp|
  let den := 10 ^ fp.length
  let r := (2 * num * 10000000 + den) / (2 * den)
  if neg then -(r : Int) else (r : Int)

/-! ### reading / writing trees -/

mutual
partial def decQ : SExp → Option Q
  | .list [.atom "keyed", k] => do pure (.keyed (← aBytes k))
  | .list [.atom "tagged", k, v] => do pure (.tagged (← aBytes k) (← aBytes v))
  | .list (.atom "and" :: qs) => do pure (.and (← decQL qs))
  | .list (.atom "or" :: qs) => do pure (.or (← decQL qs))
  | _ => none
partial def decQL : List SExp → Option QL
  | [] => some .nil
  | q :: qs => do pure (.cons (← decQ q) (← decQL qs))
end

mutual
partial def rQ : Q → String
  | .keyed k => paren ["keyed", rBytes k]
  | .tagged k v => paren ["tagged", rBytes k, rBytes v]
  | .and qs => paren ("and" :: rQL qs)
  | .or qs => paren ("or" :: rQL qs)
partial def rQL : QL → List String
  | .nil => []
  | .cons q qs => rQ q :: rQL qs
end

/-- literals; points are written at E7 -/
def rLit : Lit → String
  | .str s => paren ["str", rBytes s]
  | .int i => paren ["int", toString i]
  | .float t => paren ["float", rBytes t]
  | .point lat lng => paren ["pt", toString (e7OfText lat), toString (e7OfText lng)]
  | .id f => paren ["id", rID f]
  | .tag k v => paren ["tag", rBytes k, rBytes v]
  | .query q => paren ["query", rQ q]

def decLit : SExp → Option Lit
  | .list [.atom "str", s] => do pure (.str (← aBytes s))
  | .list [.atom "int", i] => do pure (.int (← aInt i))
  | .list [.atom "float", t] => do pure (.float (← aBytes t))
  | .list [.atom "pt", a, b] => do pure (.point (← aBytes a) (← aBytes b))
  | .list [.atom "id", f] => do pure (.id (← aID f))
  | .list [.atom "tag", k, v] => do pure (.tag (← aBytes k) (← aBytes v))
  | .list [.atom "query", q] => do pure (.query (← decQ q))
  | _ => none

mutual
partial def decSE : SExp → Option SE
  | .list [.atom "sym", s] => do pure (.sym (← aBytes s))
  | .list (.atom "call" :: p :: f :: args) => do pure (.call (← decSE f) (← decSEL args) (← aBool p))
  | .list [.atom "lam", .list ps, body] => do pure (.lambda (← ps.mapM aBytes) (← decSE body))
  | x => (decLit x).map .lit
partial def decSEL : List SExp → Option SEL
  | [] => some .nil
  | e :: es => do pure (.cons (← decSE e) (← decSEL es))
end

mutual
partial def rSE : SE → String
  | .sym s => paren ["sym", rBytes s]
  | .lit l => rLit l
  | .call f args p => paren ("call" :: (if p then "1" else "0") :: rSE f :: rSEL args)
  | .lambda ps body => paren ["lam", paren (ps.map rBytes), rSE body]
partial def rSEL : SEL → List String
  | .nil => []
  | .cons e es => rSE e :: rSEL es
end

mutual
partial def rPE : PE → String
  | .mk k b e => paren ["E", toString b, toString e, rPK k]
partial def rPK : PK → String
  | .sym s => paren ["sym", rBytes s]
  | .lit l => rLit l
  | .call f args p => paren ("call" :: (if p then "1" else "0") :: rPE f :: rPEL args)
  | .lambda ps body => paren ["lam", paren (ps.map rBytes), rPE body]
partial def rPEL : PEL → List String
  | .nil => []
  | .cons e es => rPE e :: rPEL es
end

/-! the implementation's parsed tree is read into a spanned tree whose points are already E7 pairs: keep those
as a separate light structure for the checks -/

inductive IT where
  | node (b e : Nat) (kind : String) (leaf : Option (List String)) (children : List IT)
  deriving Inhabited

/-- read `(E b e K')`: `kind` is K' rendered without positions (children stripped), `leaf` the words of a leaf -/
partial def decIT : SExp → Option (IT × String)
  | .list [.atom "E", b, e, k] => do
    let b ← aNat b
    let e ← aNat e
    match k with
    | .list (.atom "call" :: .atom p :: f :: args) =>
      let (fi, fs) ← decIT f
      let as ← args.mapM decIT
      let s := paren ("call" :: p :: fs :: as.map (·.2))
      pure (.node b e "call" none (fi :: as.map (·.1)), s)
    | .list [.atom "lam", .list ps, body] =>
      let (bi, bs) ← decIT body
      let pws ← ps.mapM fun x => match x with | .atom a => some a | _ => none
      pure (.node b e "lam" none [bi], paren ["lam", paren pws, bs])
    | other =>
      let rec flat : SExp → String
        | .atom a => a
        | .list xs => paren (xs.map flat)
      let s := flat other
      pure (.node b e "leaf" (some (tokenize s)) [], s)
  | _ => none

partial def nested : IT → Bool
  | .node b e _ _ children =>
    b ≤ e && children.all fun c =>
      match c with
      | .node cb ce _ _ _ => b ≤ cb && ce ≤ e && nested c

/-- the parsed tree holds a `lat, lng` literal (the executable form of `¬ PE.noPoint`) -/
partial def hasPoint : IT → Bool
  | .node _ _ _ (some ("(" :: "pt" :: _)) _ => true
  | .node _ _ _ _ children => children.any hasPoint

/-- the tokens a leaf is printed with -/
def leafToks (words : List String) : Option (List Tok) :=
  match (parseSExp words).bind fun (x, _) => decLit x with
  | some l =>
    -- a parsed point carries E7 values, not texts: only its shape (FLOAT , FLOAT) is checked
    some l.toks
  | none =>
    match (parseSExp words).bind fun (x, _) => decSE x with
    | some (.sym s) => some [.sym s]
    | _ => none

def sameTok (a b : Tok) : Bool :=
  match a, b with
  | .float _, .float _ => true          -- a parsed point / float has no text to compare at this level
  | _, _ => a == b

/-- every leaf's span holds exactly that leaf's tokens -/
partial def covers (lexed : List PTok) : IT → Bool
  | .node b e _ (some ws) _ =>
    let inside := (lexed.filter fun t => b ≤ t.b && t.e ≤ e).map (·.tok)
    let notBracket (t : Tok) : Bool := t != Tok.p 91 && t != Tok.p 93
    match ws with
    | "(" :: "pt" :: _ => inside.length == 3 && (inside.zip [Tok.float [], .p 44, .float []]).all fun (x, y) => sameTok x y
    | "(" :: "query" :: _ =>
      -- a parsed query is nested to the right and printed with more brackets than the text had: compare without them
      match leafToks ws with
      | some ts =>
        let a := inside.filter notBracket
        let b := ts.filter notBracket
        a.length == b.length && (a.zip b).all fun (x, y) => sameTok x y
      | none => false
    | _ =>
      match leafToks ws with
      | some ts => inside.length == ts.length && (inside.zip ts).all fun (x, y) => sameTok x y
      | none => false
  | .node _ _ _ none children => children.all (covers lexed)

def parseFuel (ts : List PTok) : Nat := 4 * ts.length + 16

/-- model: lex and parse a text -/
def modelParse (text : Bytes) : String × Option (List PTok) :=
  match lex text with
  | .err => ("err", none)
  | .unsupported => ("unsupported", none)
  | .ok ts =>
    match parseTop (parseFuel ts) ts with
    | .ok e => (rPE e, some ts)
    | .err => ("err", some ts)
    | .unsupported => ("unsupported", some ts)
    | .fuel => ("fuel", some ts)

def isTree (s : String) : Bool := s.startsWith "("

def step (_ : Unit) (op impl : String) : Unit × Verdict :=
  let v : Verdict :=
    if op.startsWith "up " then
      match (readSExp (sdrop op 3)).bind decSE, (impl.splitOn " | ").map strim with
      | some e, [u, p] =>
        let mu := match e.toks true with
          | .ok ts => rBytes (render ts)
          | .fail => "fail"
          | .panic => "panic"
        -- the text the implementation printed, parsed by the model
        let implText := if u.startsWith "x" then aBytes (.atom u) else none
        let (mp, lexed) := match implText with
          | some t => modelParse t
          | none => ("-", none)
        -- the property, on the implementation's answers
        -- (shape = the normal form, spans nest and cover, the tree holds a lat,lng literal)
        let (shapeOK, spansOK, point) :=
          match implText, (readSExp p).bind decIT, lexed with
          | some _, some (it, stripped), some ts => (stripped == rSE e.normC, nested it && covers ts it, hasPoint it)
          | _, _, _ => (false, false, false)
        if e.printable false && !shapeOK then .propfail "print-parse-roundtrip"
        else if !e.printable false && e.printable true && !shapeOK then
          .propfail "print-parse-roundtrip class=string-needs-escape"
        else if e.printable true && shapeOK && !spansOK then
          (if point then .propfail "span-nesting class=latlng-span" else .propfail "span-nesting")
        else if u != mu then .diff s!"U:{mu}"
        else if mp == "unsupported" then .bad
        else if p != mp then .diff s!"P:{mp}"
        else .ok
      | _, _ => .bad
    else if op.startsWith "ws " then
      match aBytes (.atom (sdrop op 3)) with
      | some text =>
        let (mp, lexed) := modelParse text
        let (holds, point) :=
          if !isTree impl then (true, false) else
            match (readSExp impl).bind decIT, lexed with
            | some (it, _), some ts => (nested it && covers ts it, hasPoint it)
            | _, _ => (false, false)
        if mp == "unsupported" then .bad
        else if !holds then (if point then .propfail "span-nesting class=latlng-span" else .propfail "span-nesting")
        else if impl != mp then .diff s!"P:{mp}"
        else .ok
      | none => .bad
    else .bad
  ((), v)

def family : Family := { σ := Unit, init := (), step := step }

end B6.Driver.C20

def main : IO Unit := B6.Driver.run B6.Driver.C20.family
