import B6.Driver.Common
import B6.Model.TileEncoder
/-!
Driver for C33 (vector tile geometry codec).  Three groups of operations; the state is reset at every `case`.

zigzag (hooks `VerifC33ZigzagEncode/Decode`)
  `zz <int64 v>`                        answer `<uint32 enc> <int dec>`  (enc = zigzagEncode v, dec = zigzagDecode enc)
  `unzz <uint32 w>`                     answer `<int dec> <uint32 enc>`  (dec = zigzagDecode w, enc = zigzagEncode dec)

Encoder API (one `renderer.Encoder`)
  `new <ox> <oy>`                       answer `ok`
  `start`                               answer `ok`
  `mv <n>` `ln <n>` `cp` `xy <x> <y>`   answer `g=[words]` | `panic`
  `id <n>`                              answer `id=<n>` | `panic`
  `tag <key> <s:str|i:int64|n:int|f:other>`  answer `t=[words] keys=[..] values=[s:..|i:..]` | `panic`

EncodeTile
  `tile <z> <x> <y> [name:nfeatures …]` answer `[layer names of the encoded tile]`
  `bg`                                  answer `v=2 e=4096 keys=[] values=[] n=1 type=3 id=- t=[] g=[…]`
  `layer <name>`                        answer `v=<version> e=<extent> n=<features>`
  `feat id=<id> tags=[k=v …] <geom>`    answer `type=<t> id=<id|-> t=[words] g=[words]`
        geom = `P x,y` | `L x,y;x,y…` | `G o:x,y;x,y;…|h:x,y;…` | `G -`   (projected integers dumped by the harness)
  `tables`                              answer `keys=[…] values=[s:…]`

For `feat` the model re-encodes the geometry from the projected integers (exact comparison of the command
stream), and the property predicate is evaluated on the implementation's stream: it must decode, by the MVT 2.1
grammar, to the expected coordinates (`geometry`), and every decoded ring must have the signed area of its loop,
negated for holes (`winding`).  Tag words are judged at `tables`: through the implementation's tables they must
decode to the feature's tags (`tags`); the order in which Go iterated the tag map is taken from the
implementation's answer and the model's interning is replayed in that order (exact comparison of tables and words).
-/
open B6.Driver B6.Model.TileEncoder
namespace B6.Driver.C33

def parseInt (s : String) : Option Int := s.toInt?
def parseNat (s : String) : Option Nat := s.toNat?

def parsePt (s : String) : Option Pt :=
  match s.splitOn "," with
  | [a, b] => do some ((← parseInt a), (← parseInt b))
  | _ => none

def parsePts (s : String) : Option (List Pt) :=
  if s == "-" then some [] else (s.splitOn ";").mapM parsePt

def parseLoop (s : String) : Option (Bool × List Pt) :=
  if s.startsWith "o:" then (parsePts (sdrop s 2)).map fun p => (false, p)
  else if s.startsWith "h:" then (parsePts (sdrop s 2)).map fun p => (true, p)
  else none

def parseGeom (kind body : String) : Option Geom :=
  match kind with
  | "P" => (parsePt body).map .point
  | "L" => (parsePts body).map .line
  | "G" => if body == "-" then some (.polygon []) else ((body.splitOn "|").mapM parseLoop).map .polygon
  | _ => none

def renderWords (ws : List UInt32) : String := renderList (ws.map fun w => toString w.toNat)

def parseWords (s : String) : Option (List UInt32) := do
  let ws ← parseBracket s
  ws.mapM fun w => (parseNat w).bind fun n => if n < 4294967296 then some (UInt32.ofNat n) else none

def renderVal : Val → String
  | .str s => "s:" ++ s
  | .int i => "i:" ++ toString i

def parseVal (s : String) : Option Val :=
  if s.startsWith "s:" then some (.str (sdrop s 2))
  else if s.startsWith "i:" then (parseInt (sdrop s 2)).map .int
  else none

/-- `k=<field>` lookup in a space-separated answer such as `type=3 id=- t=[1 2] g=[9 2 2]` (bracket groups may
contain spaces) -/
def field (ans key : String) : Option String :=
  let pat := key ++ "="
  match (" " ++ ans).splitOn (" " ++ pat) with
  | _ :: rest :: _ =>
    if rest.startsWith "[" then
      match rest.splitOn "]" with
      | body :: _ => some (body ++ "]")
      | [] => none
    else
      match rest.splitOn " " with
      | w :: _ => some w
      | [] => none
  | _ => none

structure Pending where
  expected : List (String × String)
  words : String                    -- the implementation's tag words, as text

structure St where
  enc : Option Enc := none          -- Encoder API group / current layer of the tile group
  origin : Pt := (0, 0)
  pending : List Pending := []      -- features of the current layer, newest first
  tileLayers : List (String × Nat) := []

def renderTables (e : Enc) : String :=
  s!"keys={renderList e.keys} values={renderList (e.values.map renderVal)}"

def curGeom (e : Enc) : String :=
  match e.cur with
  | some f => "g=" ++ renderWords f.geometry
  | none => "panic"

def simple (impl model : String) : Verdict := if impl == model then .ok else .diff model

/-- Encoder API op: new state and the model's answer -/
def apiOp (st : St) (o : Option Enc) (render : Enc → String) : St × String :=
  match o with
  | some e => ({ st with enc := some e }, render e)
  | none => (st, "panic")

def wellFormedB : Geom → Bool
  | .point _ => true
  | .line pts => 2 ≤ pts.length && pts.length ≤ 2 ^ 29
  | .polygon loops => loops.all fun l => l.2.length != 2 && l.2.length ≤ 2 ^ 29

def sortPairs (l : List (String × String)) : List (String × String) :=
  (l.toArray.qsort fun a b => a.1 < b.1 || (a.1 == b.1 && a.2 < b.2)).toList

/-- signed areas of the drawn loops, as a reader must see them -/
def expectedAreas (loops : List (Bool × List Pt)) : List Int :=
  (loops.filter fun l => l.2.length > 1).map fun l => if l.1 then - area2 l.2 else area2 l.2

def judgeFeat (st : St) (idN : Nat) (g : Geom) (impl : String) : St × Verdict :=
  match st.enc with
  | none => (st, .bad)
  | some e =>
    let o := (e.ox, e.oy)
    -- the model (geometry and id; tags are replayed at `tables`)
    let me := (encodeGeom e g).bind fun e1 => if idN ≠ 0 then setID e1 idN else some e1
    let implT := (field impl "t").getD "[]"
    let model :=
      match me with
      | none => "panic"
      | some e1 =>
        match e1.cur with
        | none => "panic"
        | some f =>
          let idS := match f.id with | some i => toString i | none => "-"
          s!"type={f.ftype} id={idS} t={implT} g={renderWords f.geometry}"
    let st' : St := match me with
      | some e1 => { st with enc := some e1 }
      | none => { st with enc := some (startFeature e) }
    -- the property predicate on the implementation's own stream
    let applicable := wellFormedB g && decide (DeltasOk o g.visited)
    let verdict : Verdict :=
      if impl == "panic" then
        (if applicable then .propfail "geometry" else simple impl model)
      else
        match (field impl "type").bind parseNat, (field impl "g").bind parseWords with
        | some t, some ws =>
          if !applicable then simple impl model
          else if t ≠ g.ftype then .propfail "geometry-type"
          else
            match decodeGeometry t ws with
            | none => .propfail "geometry"
            | some d =>
              if d ≠ g.expected o then .propfail "geometry"
              else
                let windingOk := match g, d with
                  | .polygon loops, .rings rs => rs.map area2 == expectedAreas loops
                  | _, _ => true
                if !windingOk then .propfail "winding" else simple impl model
        | _, _ => .bad
    (st', verdict)

def parseTagsList (s : String) : Option (List (String × String)) := do
  let ws ← parseBracket s
  ws.mapM fun w => match w.splitOn "=" with
    | [k, v] => some (k, v)
    | _ => none

/-- replay the interning for the features of a layer in the given per-feature orders -/
def replayTags (orders : List (List (String × String))) : Option Enc :=
  orders.foldlM (fun e ts => tags (startFeature e) (ts.map fun (k, v) => (k, TagArg.str v))) (newEncoder 0 0)

def judgeTables (st : St) (impl : String) : St × Verdict :=
  let feats := st.pending.reverse
  let st' := { st with pending := [] }
  match (field impl "keys").bind parseBracket, (field impl "values").bind parseBracket with
  | some keys, some valWs =>
    match valWs.mapM parseVal with
    | none => (st', .bad)
    | some values =>
      -- decode every feature through the implementation's tables
      let decoded := feats.map fun p =>
        (parseWords p.words).bind fun ws => decodeTags keys values ws
      let asStr (l : List (String × Val)) : Option (List (String × String)) :=
        l.mapM fun (k, v) => match v with | .str s => some (k, s) | .int _ => none
      let okAll := (feats.zip decoded).all fun (p, d) =>
        match d.bind asStr with
        | some pairs => sortPairs pairs == sortPairs p.expected
        | none => false
      if !okAll then (st', .propfail "tags")
      else
        let orders := (feats.zip decoded).map fun (p, d) => ((d.bind asStr).getD p.expected)
        match replayTags orders with
        | none => (st', .diff "panic")
        | some e =>
          let modelWords := e.features.map fun f => renderWords f.tags
          let model := renderTables e
          if modelWords == feats.map (·.words) then (st', simple impl model)
          else (st', .diff (model ++ " words=" ++ " ".intercalate modelWords))
  | _, _ => (st', .bad)

def backgroundAnswer : String :=
  match backgroundLayer with
  | some e =>
    match e.cur with
    | some f => s!"v=2 e=4096 {renderTables e} n={e.features.length} type={f.ftype} id=- t={renderWords f.tags} g={renderWords f.geometry}"
    | none => "panic"
  | none => "panic"

def step (st : St) (op impl : String) : St × Verdict :=
  match words op with
  | ["zz", v] =>
    match parseInt v with
    | none => (st, .bad)
    | some d =>
      let enc := zigzagEncode d
      let model := s!"{enc.toNat} {zigzagDecode enc}"
      -- predicate: an int32 delta must come back from the implementation's own decode of its own encoding
      let v := match words impl with
        | [_, dec] => if decide (inInt32 d) && parseInt dec != some d then Verdict.propfail "zigzag" else simple impl model
        | _ => if impl == "panic" then (if decide (inInt32 d) then .propfail "zigzag" else simple impl model) else .bad
      (st, v)
  | ["unzz", w] =>
    match parseNat w with
    | none => (st, .bad)
    | some n =>
      let dec := zigzagDecode (UInt32.ofNat n)
      let model := s!"{dec} {(zigzagEncode dec).toNat}"
      let v := match words impl with
        | [_, enc] => if parseNat enc != some n then Verdict.propfail "zigzag-onto" else simple impl model
        | _ => .bad
      (st, v)
  | ["new", ox, oy] =>
    match parseInt ox, parseInt oy with
    | some x, some y => ({ st with enc := some (newEncoder x y) }, simple impl "ok")
    | _, _ => (st, .bad)
  | ["start"] =>
    match st.enc with
    | some e => ({ st with enc := some (startFeature e) }, simple impl "ok")
    | none => (st, .bad)
  | ["mv", n] =>
    match st.enc, parseNat n with
    | some e, some k => let (s, m) := apiOp st (moveTo e k) curGeom; (s, simple impl m)
    | _, _ => (st, .bad)
  | ["ln", n] =>
    match st.enc, parseNat n with
    | some e, some k => let (s, m) := apiOp st (lineTo e k) curGeom; (s, simple impl m)
    | _, _ => (st, .bad)
  | ["cp"] =>
    match st.enc with
    | some e => let (s, m) := apiOp st (closePath e) curGeom; (s, simple impl m)
    | none => (st, .bad)
  | ["xy", x, y] =>
    match st.enc, parseInt x, parseInt y with
    | some e, some a, some b => let (s, m) := apiOp st (xy e a b) curGeom; (s, simple impl m)
    | _, _, _ => (st, .bad)
  | ["id", n] =>
    match st.enc, parseNat n with
    | some e, some k => let (s, m) := apiOp st (setID e k) (fun _ => s!"id={k}"); (s, simple impl m)
    | _, _ => (st, .bad)
  | ["tag", k, v] =>
    let arg : Option TagArg :=
      if v.startsWith "s:" then some (.str (sdrop v 2))
      else if v.startsWith "i:" then (parseInt (sdrop v 2)).map .i64
      else if v.startsWith "n:" then (parseInt (sdrop v 2)).map .int
      else if v.startsWith "f:" then some .other
      else none
    match st.enc, arg with
    | some e, some a =>
      let (s, m) := apiOp st (tag e k a) fun e' =>
        match e'.cur with
        | some f => s!"t={renderWords f.tags} {renderTables e'}"
        | none => "panic"
      (s, simple impl m)
    | _, _ => (st, .bad)
  | "tile" :: _z :: _x :: _y :: _ =>
    match parseNat _x, parseNat _y, parseBracket (" ".intercalate ((words op).drop 4)) with
    | some x, some y, some ls =>
      let layers := ls.filterMap fun w => match w.splitOn ":" with
        | [n, c] => (parseNat c).map fun k => (n, k)
        | _ => none
      if layers.length ≠ ls.length then (st, .bad) else
      let model := renderList ("background" :: (layers.filter fun l => l.2 ≠ 0).map (·.1))
      ({ st with origin := tileOrigin x y, tileLayers := layers, enc := none, pending := [] }, simple impl model)
    | _, _, _ => (st, .bad)
  | ["bg"] => (st, simple impl backgroundAnswer)
  | ["layer", name] =>
    match st.tileLayers.find? fun l => l.1 == name with
    | some (_, n) =>
      ({ st with enc := some (newEncoder st.origin.1 st.origin.2), pending := [] }, simple impl s!"v=2 e=4096 n={n}")
    | none => (st, .bad)
  | "feat" :: idw :: rest =>
    -- rest = tags=[…] <kind> <body>
    let restS := " ".intercalate rest
    match (if idw.startsWith "id=" then parseNat (sdrop idw 3) else none), field restS "tags" with
    | some idN, some tagsS =>
      match parseTagsList tagsS, rest.reverse with
      | some tgs, body :: kind :: _ =>
        match parseGeom kind body with
        | some g =>
          let (st1, v) := judgeFeat st idN g impl
          ({ st1 with pending := { expected := tgs, words := (field impl "t").getD "[]" } :: st1.pending }, v)
        | none => (st, .bad)
      | _, _ => (st, .bad)
    | _, _ => (st, .bad)
  | ["tables"] => judgeTables st impl
  | _ => (st, .bad)

def family : Family := { σ := St, init := {}, step := step }

end B6.Driver.C33

def main : IO Unit := B6.Driver.run B6.Driver.C33.family
