import B6.Driver.Common
/-! Driver for C22 — stub (the check for this property is not built yet). -/
def main : IO Unit := B6.Driver.run { σ := Unit, init := (), step := fun s _ _ => (s, .bad) }
