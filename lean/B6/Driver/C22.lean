import B6.Driver.Common
import B6.Model.VM
import B6.Model.Simplify
/-!
Driver for C22.  Stateless: every line carries a whole program.

ops
  `simplify <expr>`  answer `<returned tree> ;; <argument tree afterwards>` | `panic` | `crash` | `hang`
        model: `Simplify.simplifyBoth` (both trees).  Property clause evaluated on the implementation's
        returned tree: `Simplify.scopeOK` (no lambda parameter left without its binder, no value moved
        into function position) else `propfail scope`.  Otherwise a difference is `diff`.
  `evalpair <expr>`  answer `<outcome of Evaluate e> ;; <outcome of Evaluate (Simplify e)>`
        outcomes as in C21, query values in canonical (flattened) form on both sides (`Query.canon`,
        `canon_denote`).
        property predicate: the two outcomes are equal.  `ok` when they also equal the VM model's
        outcomes for `e` and for the model's simplified tree, else `diff`.
        When the predicate fails:
        * the reference interpreter gives `e` and the simplified tree the same meaning, the VM model
          predicts both implementation outcomes, and one of the trees has a closure: the difference
          is C21's finding seen through Simplify — `class=vm-closure-registers`;
        * the interpreter gives them different meanings and some lambda parameter is named like a
          global function — `class=shadowed-global`;
        * anything else is reported without a class.
        The variadic functions `collection` / `call` of the table are in the models (`Builtin.variadic`).
-/
open B6.Driver B6.Model
namespace B6.Driver.C22

def fuel : Nat := 4000

def renderFlat : Res Val → String
  | .ok v => Res.render (.ok (Simplify.canonVal v))
  | r => Res.render r

def splitTwo (s : String) : Option (String × String) :=
  match s.splitOn " ;; " with
  | [a, b] => some (a, b)
  | _ => none

def step (_ : Unit) (op impl : String) : Unit × Verdict :=
  match words op with
  | "simplify" :: _ =>
    match Expr.parse (sdrop op 9) with
    | none => ((), .bad)
    | some e =>
      match Simplify.simplifyBoth Simplify.tableArgcV (e.size + 1) e with
      | none => ((), .bad)
      | some (s, m) =>
        let model := s.render ++ " ;; " ++ m.render
        match splitTwo impl with
        | none => ((), .propfail ("simplify outcome=" ++ impl))
        | some (is, _) =>
          match Expr.parse is with
          | none => ((), .bad)
          | some si =>
            if !Simplify.scopeOK Simplify.tableArgcV e si then ((), .propfail "scope")
            else if impl == model then ((), .ok) else ((), .diff model)
  | "evalpair" :: _ =>
    match Expr.parse (sdrop op 9) with
    | none => ((), .bad)
    | some e =>
      match simplify e, splitTwo impl with
      | some s, some (ae, as) =>
        let ie := renderFlat (interp fuel e)
        let is := renderFlat (interp fuel s)
        let me := renderFlat (VM.run fuel e)
        let ms := renderFlat (VM.run fuel s)
        if ie == "fuel" || is == "fuel" || me == "fuel" || ms == "fuel" then ((), .bad)
        else if ae == as then
          ((), if ae == me && as == ms then .ok else .diff (me ++ " ;; " ++ ms))
        else if ie == is then
          if ae == me && as == ms && (!e.regSafe || !s.regSafe) then
            ((), .propfail "evalpair class=vm-closure-registers")
          else ((), .propfail ("evalpair language-agrees vm-model=" ++ me ++ " ;; " ++ ms))
        else if Simplify.shadowsGlobal e then ((), .propfail "evalpair class=shadowed-global")
        else ((), .propfail ("evalpair meaning-changed want=" ++ ie ++ " simplified-means=" ++ is))
      | _, _ => ((), .bad)
  | _ => ((), .bad)

def family : Family := { σ := Unit, init := (), step := step }

end B6.Driver.C22

def main : IO Unit := B6.Driver.run B6.Driver.C22.family
