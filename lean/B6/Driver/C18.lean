import B6.Driver.Common
import B6.Model.ChangeExport
/-!
Driver for C18 (see `harness/cmd/c18/main.go` for the line protocol, `wire.go` for the encodings).

State: the base features, the model's overlay state after the history so far, the model's state of the
re-imported world, the first observation.  Per line the model recomputes the answer; the predicate is
* `export`: the implementation's ranks rise strictly along every reference between two exported features and
  the file was sorted by rank (so every reference precedes its referrer) — `propfail export-order`;
* `import`: `Apply` succeeds — `propfail import-fails`. The driver evaluates the model's
  `applyGetsThrough` (validation = the structural skeleton + `planarLoopOK` for S2, exact on the harness's small
  integer coordinates) on the SOURCE world and the order used: the answer must be `ok` iff it holds, `err@<id>`
  of the first rejected document otherwise (a disagreement is a `diff`). `class=import-intermediate-state` is
  literally its negation with the rejected feature's own references present; `propfail
  import-missing-reference` when one of them is missing (the ordering lemma would be violated);
* `obs2`: the whole observation equals `obs1` — `propfail reimport-differs`.
-/
open B6.Driver B6.Model.ChangeExport
open B6.Model.Mutable (Key)
namespace B6.Driver.C18

/-! ### wire -> model -/

def unhex (s : String) : Option String := do
  let bs ← parseHex s
  String.fromUTF8? (ByteArray.mk bs.toArray)

def hexOf (s : String) : String := renderHex s.toUTF8.toList

def parseNat (s : String) : Option Nat := s.toNat?
def parseInt (s : String) : Option Int := s.toInt?

/-- split at the first occurrence of a character -/
def cut (c : Char) (s : String) : Option (String × String) :=
  let rec go : List Char → List Char → Option (String × String)
    | [], _ => none
    | x :: r, acc => if x == c then some (String.ofList acc.reverse, String.ofList r) else go r (x :: acc)
  go s.toList []

def parseAtom (w : String) : Option Atom := do
  let (kind, rest) ← cut ':' w
  match kind with
  | "s" => (unhex rest).map Atom.str
  | "i" => (parseInt rest).map Atom.int
  | "f" => some (.flt rest)
  | "p" => match rest.splitOn ":" with
    | [a, b] => some (.pt a b)
    | _ => none
  | "id" => match rest.splitOn ":" with
    | [t, ns, v] => do
      let t ← parseNat t
      let ns ← unhex ns
      let v ← parseNat v
      pure (.fid t ns v)
    | _ => none
  | "x" => (unhex rest).map Atom.other
  | _ => none

def parseV (w : String) : Option V :=
  if w.startsWith "l:" then
    let rest := sdrop w 2
    if rest.isEmpty then some (.list []) else (rest.splitOn "|").mapM parseAtom |>.map V.list
  else (parseAtom w).map V.atom

def parseTag (w : String) : Option Tag := do
  let (k, v) ← cut '=' w
  let v ← parseV v
  pure (k, v)

def parseTags (w : String) : Option (List Tag) :=
  if w.isEmpty then some [] else (w.splitOn "&").mapM parseTag

def parseIds (w : String) : Option (List Nat) :=
  if w.isEmpty then some [] else (w.splitOn "+").mapM parseNat

def parsePoly (w : String) : Option Poly :=
  if w.startsWith "i" then (parseIds (sdrop w 1)).map Poly.ids
  else if w.startsWith "p" then
    ((sdrop w 1).splitOn "/").mapM (fun (l : String) => (l.splitOn "~").mapM fun (v : String) =>
      match v.splitOn "_" with
      | [a, b] => some (a, b)
      | _ => none) |>.map Poly.lit
  else none

def parseBody (w : String) : Option Body :=
  if w == "g" then some .generic
  else if w.startsWith "a:" then
    let rest := sdrop w 2
    if rest.isEmpty then some (.area []) else (rest.splitOn ";").mapM parsePoly |>.map Body.area
  else if w.startsWith "r:" then
    let rest := sdrop w 2
    if rest.isEmpty then some (.relation []) else
      (rest.splitOn ",").mapM (fun m => do
        let (id, role) ← cut '~' m
        let id ← parseNat id
        let role ← unhex role
        pure (id, role)) |>.map Body.relation
  else if w.startsWith "c:" || w.startsWith "cs:" then
    -- (`cs:` = built and then `Sort()`ed by the harness; the entries are listed in key order)
    let rest := if w.startsWith "cs:" then sdrop w 3 else sdrop w 2
    if rest.isEmpty then some (.collection []) else
      (rest.splitOn ",").mapM (fun e => do
        let (k, v) ← cut '>' e
        let k ← parseAtom k
        let v ← parseAtom v
        pure (k, v)) |>.map Body.collection
  else none

def parseFeat (w : String) : Option Feat :=
  match w.splitOn "!" with
  | [id, body, tags] => do
    let id ← parseNat id
    let body ← parseBody body
    let tags ← parseTags tags
    pure ⟨id, tags, body⟩
  | _ => none

/-! ### model -> wire -/

def atomW : Atom → String
  | .str s => "s:" ++ hexOf s
  | .int n => "i:" ++ toString n
  | .flt b => "f:" ++ b
  | .pt a b => "p:" ++ a ++ ":" ++ b
  | .fid t ns v => s!"id:{t}:{hexOf ns}:{v}"
  | .other s => "x:" ++ hexOf s

def valW : V → String
  | .atom a => atomW a
  | .list as => "l:" ++ "|".intercalate (as.map atomW)

def insertTag (t : Tag) : List Tag → List Tag
  | [] => [t]
  | u :: r => if t.1 < u.1 then t :: u :: r else u :: insertTag t r

/-- stable sort by key (`sort.SliceStable`) -/
def sortTags (ts : List Tag) : List Tag := ts.reverse.foldl (fun acc t => insertTag t acc) []

def tagsW (ts : List Tag) : String := "&".intercalate ((sortTags ts).map fun t => t.1 ++ "=" ++ valW t.2)

def polyW : Poly → String
  | .ids l => "i" ++ "+".intercalate (l.map toString)
  | .lit loops => "p" ++ "/".intercalate (loops.map fun l => "~".intercalate (l.map fun v => v.1 ++ "_" ++ v.2))

def bodyW : Body → String
  | .generic => "g"
  | .area ps => "a:" ++ ";".intercalate (ps.map polyW)
  | .relation ms => "r:" ++ ",".intercalate (ms.map fun m => s!"{m.1}~{hexOf m.2}")
  | .collection es => "c:" ++ ",".intercalate (es.map fun e => atomW e.1 ++ ">" ++ atomW e.2)

def featW (f : Feat) : String := s!"{f.id}!{bodyW f.body}!{tagsW f.tags}"

def insertNat (x : Nat) : List Nat → List Nat
  | [] => [x]
  | y :: r => if x ≤ y then x :: y :: r else y :: insertNat x r

def sortNats (l : List Nat) : List Nat := l.foldl (fun acc x => insertNat x acc) []

def insertStr (x : String) : List String → List String
  | [] => [x]
  | y :: r => if x ≤ y then x :: y :: r else y :: insertStr x r

def sortStrs (l : List String) : List String := l.foldl (fun acc x => insertStr x acc) []

def modW (e : Key × VMod) : String :=
  match e.2 with
  | .set v => e.1 ++ "=" ++ valW v
  | .del => e.1 ++ "=-"

def stateW (s : St) : String :=
  let ids := sortNats (Model.Mutable.AMap.keys s.mods)
  let ms := ids.filterMap fun id =>
    let m := modsOf s.mods id
    if m.isEmpty then none else some (s!"{id}!" ++ "&".intercalate (sortStrs (m.map modW)))
  let fs := (sortNats (Model.Mutable.AMap.keys s.feats)).filterMap fun id => (Model.Mutable.AMap.get s.feats id).map featW
  "mods:" ++ renderList ms ++ " feats:" ++ renderList fs

def isUnknown : Except TextErr Doc → Bool
  | .error .unknown => true
  | _ => false

def docW : Doc → String
  | .mods id add rm => s!"M{id}!{tagsW add}!" ++ "&".intercalate (sortStrs rm)
  | .feat f => "F" ++ featW f

/-! ### S2 on the harness's coordinates: planar integer predicates -/

def cross (o a b : Int × Int) : Int := (a.1 - o.1) * (b.2 - o.2) - (a.2 - o.2) * (b.1 - o.1)

def sgn (x : Int) : Int := if x > 0 then 1 else if x < 0 then -1 else 0

def onSeg (p q r : Int × Int) : Bool :=
  min p.1 r.1 ≤ q.1 && q.1 ≤ max p.1 r.1 && min p.2 r.2 ≤ q.2 && q.2 ≤ max p.2 r.2

/-- closed segments p1p2 and p3p4 share a point -/
def segsMeet (p1 p2 p3 p4 : Int × Int) : Bool :=
  let d1 := sgn (cross p3 p4 p1)
  let d2 := sgn (cross p3 p4 p2)
  let d3 := sgn (cross p1 p2 p3)
  let d4 := sgn (cross p1 p2 p4)
  (d1 != d2 && d3 != d4 && d1 * d2 ≤ 0 && d3 * d4 ≤ 0 && !(d1 == 0 && d2 == 0)) ||
  (d1 == 0 && onSeg p3 p1 p4) || (d2 == 0 && onSeg p3 p2 p4) || (d3 == 0 && onSeg p1 p3 p2) || (d4 == 0 && onSeg p1 p4 p2)

def area2 (ps : List (Int × Int)) : Int :=
  match ps with
  | [] => 0
  | p0 :: _ => ((ps.zip (ps.drop 1 ++ [p0])).map fun (a, b) => a.1 * b.2 - b.1 * a.2).foldl (· + ·) 0

/-- `loop.Validate() == nil && loop.Area() <= 2π` for a loop through (lat, lng) E7 vertices: at least three
distinct vertices, no two non-adjacent edges meet, counter-clockwise (x = lng, y = lat); a path `[a, literal]`
counts as closed for `Tags.ClosedPath` and gives the one-vertex loop -/
def planarLoopOK (cs : List (String × String)) : Bool :=
  match cs.mapM (fun c => do
    let la ← c.1.toInt?
    let lo ← c.2.toInt?
    pure ((lo, la) : Int × Int)) with
  | none => false
  | some ps =>
    let n := ps.length
    let arr := ps.toArray
    let edge := fun (i : Nat) => (arr[i]!, arr[(i + 1) % n]!)
    let idx := List.range n
    -- a single vertex is S2's empty (northern hemisphere) or full loop; two vertices are never valid
    if n == 1 then ps.all (fun p => p.2 > 0) else
    n ≥ 3 && ps.eraseDups.length == n &&
    idx.all (fun i => idx.all fun j =>
      if i < j && j != i + 1 && !(i == 0 && j == n - 1) then
        !(segsMeet (edge i).1 (edge i).2 (edge j).1 (edge j).2)
      else true) &&
    area2 ps > 0

/-! ### the family -/

structure S where
  base : List Feat := []
  st : St := St.empty
  imp : St := St.empty
  obs1 : String := ""
  /-- the known class of the import failure of this case, if any -/
  cls : Option String := none
  /-- the features the import added through their own document, in the import run of this case -/
  importedDocs : List Nat := []

def judge (impl model : String) : Verdict := if impl == model then .ok else .diff model

def ansOf (err : Bool) : String := if err then "err" else "ok"

/-- the A part of an observation: for the ids the implementation lists, what the model's world shows -/
def obsA (b : Base) (s : St) (implA : String) (baseIds : List Nat) : String :=
  let toks := words implA
  let each := sortNats ((baseIds ++ Model.Mutable.AMap.keys s.feats).eraseDups.filter fun id => (s.find b id).isSome)
  let parts := toks.filterMap fun t =>
    if t.startsWith "each:" then some ("each:" ++ ",".intercalate (each.map toString))
    else
      let idStr := String.ofList (t.toList.takeWhile Char.isDigit)
      match idStr.toNat? with
      | none => none
      | some id => match s.find b id with
        | some f => some (featW f)
        | none => some s!"{id}-"
  " ".intercalate parts

/-- model documents (after the text layer) in the canonical order of the harness; `none` in the list =
undecodable from there -/
def modelDocs (s : St) (ord : List Nat) : List (Except TextErr Doc) :=
  let ms := sortNats (Model.Mutable.AMap.keys s.mods)
  let mdocs := exportMods (ms.filterMap fun id => (Model.Mutable.AMap.get s.mods id).map fun m => (id, m))
  (mdocs ++ exportFeats s ord).map textDoc

def parseRanks (w : String) : Option (List (Nat × Nat)) := do
  let ws ← parseBracket w
  ws.mapM fun e => do
    let (a, b) ← cut ':' e
    let a ← parseNat a
    let b ← parseNat b
    pure (a, b)

def step (σ : S) (op impl : String) : S × Verdict :=
  let b := baseOf σ.base
  match words op with
  | ["reset"] => ({}, judge impl "ok")
  | ["base", w] =>
    match parseFeat w with
    | none => (σ, .bad)
    | some f => if impl == "ok" then ({ σ with base := σ.base ++ [f] }, .ok) else (σ, judge impl "ok")
  | ["addtag", id, kv] =>
    match parseNat id, parseTag kv with
    | some id, some t =>
      let model := ansOf (σ.st.tagErr b id)
      ({ σ with st := if impl == "ok" then σ.st.addTag b id t else σ.st }, judge impl model)
    | _, _ => (σ, .bad)
  | ["rmtag", id, k] =>
    match parseNat id with
    | some id =>
      let model := ansOf (σ.st.tagErr b id)
      ({ σ with st := if impl == "ok" then σ.st.removeTag b id k else σ.st }, judge impl model)
    | none => (σ, .bad)
  | ["addfeature", w] =>
    match parseFeat w with
    | none => (σ, .bad)
    | some f =>
      let v := σ.st.validateAddO planarLoopOK b f
      let σ' := { σ with st := if impl == "ok" then σ.st.addFeature b f else σ.st }
      (σ', judge impl (if v == .ok then "ok" else "err"))
  | ["state1"] => (σ, judge impl (stateW σ.st))
  | "export" :: _ =>
    match parseRanks (sdrop op 7) with
    | none => (σ, .bad)
    | some ranks =>
      let ord := ranks.map (·.1)
      -- predicate on the implementation's ranks: strictly larger for the referenced feature
      let rankOf := fun id => (Model.Mutable.AMap.get ranks id).getD 0
      -- (a feature that is its own transitive referrer — relations / collections containing each other —
      -- cannot be ordered and is never validated)
      let bad := ord.any fun id => match Model.Mutable.AMap.get σ.st.feats id with
        | some f => !(closure σ.st σ.st.fuel id).contains id &&
            (refsOf f).any fun r => Model.Mutable.AMap.contains ranks r && !(rankOf r > rankOf id)
        | none => false
      if bad || impl.endsWith "unsorted" then (σ, .propfail "export-order") else
      let docs := modelDocs σ.st ord
      if docs.any isUnknown then (σ, .bad) else
      let good := docs.takeWhile (fun d => match d with
        | .ok _ => true
        | .error _ => false)
      let text := renderList (good.filterMap fun d => match d with
        | .ok d => some (docW d)
        | .error _ => none) ++ (if good.length < docs.length then " undecodable" else "")
      -- the model's ranks and the set of exported features
      let mranks := ord.map fun id => (id, rank σ.st id)
      let mset := sortNats (Model.Mutable.AMap.keys σ.st.feats)
      if mset != sortNats ord then (σ, .diff ("feats " ++ toString mset))
      else if mranks != ranks then (σ, .diff ("ranks " ++ toString mranks))
      else (σ, judge impl text)
  | "import" :: ordW =>
    match ordW.mapM parseNat with
    | none => (σ, .bad)
    | some ord =>
      let ms := sortNats (Model.Mutable.AMap.keys σ.st.mods)
      let mdocs := exportMods (ms.filterMap fun id => (Model.Mutable.AMap.get σ.st.mods id).map fun m => (id, m))
      let nm := mdocs.length
      let docs := (mdocs ++ exportFeats σ.st ord).map textDoc
      if docs.any isUnknown then (σ, .bad) else
      let acc := St.accepts planarLoopOK b
      -- the first document the model's import stops at, and why
      let rec run (s : St) (k : Nat) : List (Except TextErr Doc) → St × Option (String × Verd)
        | [] => (s, none)
        | .error _ :: _ =>
          let at_ := if k < nm then s!"mod{k}" else toString (ord.getD (k - nm) 0)
          (s, some (at_, .fail))
        | .ok d :: rest =>
          match d with
          | .mods .. => run (rebuildDoc b s d) (k + 1) rest
          | .feat f =>
            let v := s.validateAddO planarLoopOK b f
            if v == .ok then run (s.addFeature b f) (k + 1) rest else (s, some (toString f.id, v))
      let (s', stop) := run St.empty 0 docs
      -- the predicate of `apply_gets_through_of_valid`, on the source world
      let decodable := docs.all (fun d => match d with
        | .ok _ => true
        | .error _ => false)
      let gets := decodable && applyGetsThrough b acc σ.st ord
      match stop with
      | none =>
        if !gets then ({ σ with imp := s', cls := none }, .bad)
        else ({ σ with imp := s', cls := none, importedDocs := ord }, judge impl "ok")
      | some (at_, why) =>
        let done := ord.takeWhile (fun id => toString id != at_ && !at_.startsWith "mod")
        let σ := { σ with importedDocs := done }
        if gets then ({ σ with imp := s' }, .bad)
        else if impl != "err@" ++ at_ then ({ σ with imp := s' }, .diff ("err@" ++ at_))
        else
          let cls := if decodable && why != .missing then some "import-intermediate-state" else none
          let clause := if why == .missing then "import-missing-reference" else "import-fails"
          ({ σ with imp := s', cls := cls },
            .propfail (clause ++ (match cls with
              | some c => " class=" ++ c
              | none => "")))
  | ["state2"] => (σ, judge impl (stateW σ.imp))
  | ["obs1"] =>
    let a := (impl.splitOn " || ").headD ""
    ({ σ with obs1 := impl }, judge a (obsA b σ.st a (σ.base.map (·.id))))
  | ["obs2"] =>
    if impl != σ.obs1 then
      (σ, .propfail ("reimport-differs" ++ (match σ.cls with
        | some c => " class=" ++ c
        | none => "")))
    else
      let a := (impl.splitOn " || ").headD ""
      (σ, judge a (obsA b σ.imp a (σ.base.map (·.id))))
  | ["flags2"] =>
    -- the `sorted` flag `newCollectionFeatureFromYAML` computes for every collection the import added;
    -- collections that only live in the base keep what the harness built them with (never sorted)
    let ids := sortNats ((σ.base.map (·.id) ++ Model.Mutable.AMap.keys σ.imp.feats).eraseDups)
    let flags := ids.filterMap fun id => match σ.imp.find b id with
      | some f => match f.body with
        | .collection es =>
          let imported := σ.importedDocs.contains id
          some s!"{id}:{if imported && keysSorted (es.map (·.1)) then 1 else 0}"
        | _ => none
      | none => none
    (σ, judge impl (renderList flags))
  | ["infer", h] =>
    match unhex h with
    | none => (σ, .bad)
    | some s => match infer s with
      | .ok v => (σ, judge impl (valW v))
      | _ => (σ, .bad)
  | ["roundtrip", w] =>
    match parseV w with
    | none => (σ, .bad)
    | some v => match reinfer v with
      | none => (σ, judge impl "err")
      | some (.ok v') => (σ, judge impl (valW v'))
      | some _ => (σ, .bad)
  | _ => (σ, .bad)

def family : Family := { σ := S, init := {}, step := step }

end B6.Driver.C18

def main : IO Unit := B6.Driver.run B6.Driver.C18.family
