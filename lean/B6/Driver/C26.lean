import B6.Driver.Common
import B6.Model.Service
import B6.Spec.ChangeSpec
/-!
Driver for C26.  State = the model worlds under the two roots (gRPC: `g`, UI evaluator: `u`), resynchronised
from every `world` line, plus what the last response told the caller.

ids: `p<n>` point, `w<n>` path, `x0` the invalid ID; feature = `id|k=v,k=v|ref,ref` (`-` = empty)
  kind ro|rw                      => ro|rw        (read-only worlds, `ingest.ReadOnlyWorlds`, or mutable ones)
  base [feature …]                => [feature …]
  grpc <change> / ui <change>     => err | ids [id …] | plain | panic | …
  grpc-plain / ui-plain           => plain
  grpc-evalerr / ui-evalerr       => err
  grpc-badver <change>            => err
  world g / world u               => [feature …]
change: `af N feature…` | `at N id:k=v …` | `rt N id:k …` | `mg N change…`

Property predicate (evaluated on the implementation's answers, against `B6.Spec.ChangeSpec`):
* `error-iff-apply-failed`: the answer is `err` exactly when `specApply` says the change is not applicable
  to the world the implementation reported before the request;
* `ids-are-the-modified-features`: an `ids` answer carries, as a set, `targets change`;
* `told-applied-but-world-differs`: after an `ids` answer the dumped world is the reference world.
Everything else (partial application behind an error, repetitions in the ID list, non-change requests) is
compared with the model only (`diff`).
-/
open B6.Driver B6.Model.Service B6.Spec.ChangeSpec
namespace B6.Driver.C26

def kindRank : Kind → Nat
  | .invalid => 0 | .point => 1 | .path => 2

def idLe (a b : FId) : Bool :=
  kindRank a.kind < kindRank b.kind || (kindRank a.kind == kindRank b.kind && a.val ≤ b.val)

def renderId (i : FId) : String :=
  match i.kind with
  | .invalid => "x0"
  | .point => "p" ++ toString i.val
  | .path => "w" ++ toString i.val

def parseId (s : String) : Option FId :=
  match s.toList with
  | 'x' :: _ => some ⟨.invalid, 0⟩
  | 'p' :: rest => (String.ofList rest).toNat?.map (⟨.point, ·⟩)
  | 'w' :: rest => (String.ofList rest).toNat?.map (⟨.path, ·⟩)
  | _ => none

def dashList (s : String) (sep : String) : List String :=
  if s == "-" then [] else (s.splitOn sep).filter (· ≠ "")

def parseKV (s : String) : Option (String × String) :=
  match s.splitOn "=" with
  | [k, v] => some (k, v)
  | _ => none

def parseFeature (s : String) : Option Feature :=
  match s.splitOn "|" with
  | [i, ts, rs] => do
    let id ← parseId i
    let tags ← (dashList ts ",").mapM parseKV
    let refs ← (dashList rs ",").mapM parseId
    some ⟨id, tags, refs⟩
  | _ => none

def sortTags (t : Tags) : Tags := t.mergeSort (fun a b => a.1 ≤ b.1)

def renderFeature (f : Feature) : String :=
  let ts := (sortTags f.tags).map fun (k, v) => k ++ "=" ++ v
  let rs := f.refs.map renderId
  let dash := fun (xs : List String) => if xs.isEmpty then "-" else ",".intercalate xs
  renderId f.id ++ "|" ++ dash ts ++ "|" ++ dash rs

def renderWorld (w : World) : String :=
  renderList ((w.mergeSort (fun a b => idLe a.id b.id)).map renderFeature)

def parseWorld (s : String) : Option World := do
  let ws ← parseBracket s
  ws.mapM parseFeature

def sortIds (xs : List FId) : List FId := xs.mergeSort idLe

def renderIds (xs : List FId) : String := "ids " ++ renderList ((sortIds xs).map renderId)

def idSet (xs : List FId) : List FId := (sortIds xs).eraseDups

/-- `id:k=v` -/
def parseTagOp (s : String) : Option (FId × String × String) :=
  match s.splitOn ":" with
  | [i, kv] => do
    let id ← parseId i
    let (k, v) ← parseKV kv
    some (id, k, v)
  | _ => none

/-- `id:k` -/
def parseKeyOp (s : String) : Option (FId × String) :=
  match s.splitOn ":" with
  | [i, k] => do
    let id ← parseId i
    some (id, k)
  | _ => none

def takeN {α} (f : String → Option α) : Nat → List String → Option (List α × List String)
  | 0, ws => some ([], ws)
  | n + 1, w :: ws => do
    let a ← f w
    let (as, rest) ← takeN f n ws
    some (a :: as, rest)
  | _ + 1, [] => none

mutual
/-- prefix-form change parser; `fuel` bounds the nesting (the word count is enough) -/
def parseChange : Nat → List String → Option (Change × List String)
  | 0, _ => none
  | fuel + 1, kind :: n :: ws => do
    let n ← n.toNat?
    match kind with
    | "af" => do let (fs, rest) ← takeN parseFeature n ws; some (.addFeatures fs, rest)
    | "at" => do let (ts, rest) ← takeN parseTagOp n ws; some (.addTags ts, rest)
    | "rt" => do let (ts, rest) ← takeN parseKeyOp n ws; some (.removeTags ts, rest)
    | "mg" => do let (cs, rest) ← parseChanges fuel n ws; some (.merged cs, rest)
    | _ => none
  | _ + 1, _ => none
def parseChanges : Nat → Nat → List String → Option (Changes × List String)
  | _, 0, ws => some (.nil, ws)
  | 0, _ + 1, _ => none
  | fuel + 1, n + 1, ws => do
    let (c, rest) ← parseChange fuel ws
    let (cs, rest') ← parseChanges fuel n rest
    some (.cons c cs, rest')
end

def parseWholeChange (ws : List String) : Option Change :=
  match parseChange (ws.length + 2) ws with
  | some (c, []) => some c
  | _ => none

structure St where
  ro : Bool := false
  g : World := []
  u : World := []
  gTold : Option World := none
  uTold : Option World := none

def renderResp : Resp → String
  | .error => "err"
  | .plain => "plain"
  | .ids xs => renderIds xs

/-- the verdict for a change request: predicate first, then the comparison with the model -/
def judgeChange (ro : Bool) (w : World) (c : Change) (model : World × Resp) (impl : String) : Verdict × Option World :=
  let spec := specApplyR ro w c
  let m := renderResp model.2
  if impl == "err" then
    if spec.isNone then (if impl == m then .ok else .diff m, none)
    else (.propfail "error-iff-apply-failed", none)
  else if impl.startsWith "ids " then
    match spec with
    | none => (.propfail "error-iff-apply-failed", none)
    | some ws =>
      match (parseBracket (sdrop impl 4)).bind (·.mapM parseId) with
      | none => (.propfail "ids-are-the-modified-features", some ws)
      | some xs =>
        if idSet xs == idSet (if ro then [] else targets c) then (if impl == m then .ok else .diff m, some ws)
        else (.propfail "ids-are-the-modified-features", some ws)
  else (.propfail "error-iff-apply-failed", none)

def plainVerdict (impl model : String) : Verdict := if impl == model then .ok else .diff model

def step (st : St) (op impl : String) : St × Verdict :=
  match words op with
  | ["kind", k] =>
    if k == "ro" then ({ st with ro := true }, plainVerdict impl k)
    else if k == "rw" then ({ st with ro := false }, plainVerdict impl k)
    else (st, .bad)
  | "base" :: _ =>
    match parseWorld (sdrop op 5) with
    | some w => ({ st with g := w, u := w, gTold := none, uTold := none }, plainVerdict impl (renderWorld w))
    | none => (st, .bad)
  | "grpc" :: ws =>
    match parseWholeChange ws with
    | none => (st, .bad)
    | some c =>
      let m := grpcEvaluate true st.ro st.g (.change c)
      let (v, told) := judgeChange st.ro st.g c m impl
      ({ st with g := m.1, gTold := told }, v)
  | "ui" :: ws =>
    match parseWholeChange ws with
    | none => (st, .bad)
    | some c =>
      let m := uiEvaluate st.ro st.u (.change c)
      let (v, told) := judgeChange st.ro st.u c m impl
      ({ st with u := m.1, uTold := told }, v)
  | ["grpc-plain"] => ({ st with gTold := none }, plainVerdict impl (renderResp (grpcEvaluate true st.ro st.g .plain).2))
  | ["ui-plain"] => ({ st with uTold := none }, plainVerdict impl (renderResp (uiEvaluate st.ro st.u .plain).2))
  | ["grpc-evalerr"] => ({ st with gTold := none }, plainVerdict impl (renderResp (grpcEvaluate true st.ro st.g .error).2))
  | ["ui-evalerr"] => ({ st with uTold := none }, plainVerdict impl (renderResp (uiEvaluate st.ro st.u .error).2))
  | "grpc-badver" :: ws =>
    match parseWholeChange ws with
    | none => (st, .bad)
    | some c =>
      let m := grpcEvaluate false st.ro st.g (.change c)
      ({ st with g := m.1, gTold := none }, plainVerdict impl (renderResp m.2))
  | ["world", which] =>
    if which != "g" && which != "u" then (st, .bad) else
    let (cur, told) := if which == "g" then (st.g, st.gTold) else (st.u, st.uTold)
    match parseWorld impl with
    | none => (st, .diff (renderWorld cur))
    | some wi =>
      let ci := renderWorld wi
      let v : Verdict :=
        match told with
        | some ws =>
          if ci != renderWorld ws then .propfail "told-applied-but-world-differs"
          else if ci != renderWorld cur then .diff (renderWorld cur) else .ok
        | none => if ci != renderWorld cur then .diff (renderWorld cur) else .ok
      (if which == "g" then { st with g := wi, gTold := none } else { st with u := wi, uTold := none }, v)
  | _ => (st, .bad)

def family : Family := { σ := St, init := {}, step := step }

end B6.Driver.C26

def main : IO Unit := B6.Driver.run B6.Driver.C26.family
