import B6.Driver.Common
import B6.Driver.C02Common
import B6.Model.WorldRead
import B6.Model.Validator
/-!
Driver for C36.

  `src <feature description>`     answer `-`   the source, in the order a 1-goroutine read delivers it
  `build`                         answer `-`   end of the source
  `reset`                         answer `-`   next input of the corpus case
  `obs basic|compact <query>`     answer = that world's (1-goroutine build) answer; the model recomputes it
                                  (ids through the *validator fold* over the arrival order and through
                                  `WorldRead.build`, which must agree), and the line is hashed
  `par basic|compact g=K`         answer = FNV-1a 64 of the whole dump of the world built with K goroutines;
                                  property predicate: it equals the hash of the `obs` lines of that world
-/
open B6.Driver B6.Model.WorldRead B6.Driver.C02Common
namespace B6.Driver.C36

def fnvOffset : UInt64 := 0xcbf29ce484222325
def fnvPrime : UInt64 := 0x00000100000001b3

def fnvAdd (h : UInt64) (s : String) : UInt64 :=
  s.toUTF8.foldl (fun h b => (h ^^^ b.toUInt64) * fnvPrime) h

def hex16 (h : UInt64) : String :=
  String.ofList ((List.range 16).map fun i => hexOfNibble ((h >>> (UInt64.ofNat (60 - 4 * i))).toNat % 16))

structure St where
  src : List Feature := []     -- reversed
  world : Option World := none
  idsViaValidator : Option String := none
  hb : UInt64 := fnvOffset
  hc : UInt64 := fnvOffset

/-- the arrivals the compact validator sees for a source (paths and areas, in order) -/
def arrivals (src : Source) : List B6.Model.Validator.Arrival :=
  let pts := srcPoints src
  src.filterMap fun f =>
    match f with
    | .path p =>
      some (.path p.id.v (if pathValid pts p then (if isLoop pts p then .valid else .validNotLoop) else .invalid))
    | .area a => some (.area (a.id.v * 2 + (if a.id.ns = 1 then 1 else 0)) (a.polys.flatMap fun ids => ids.map (·.v)))
    | _ => none

/-- ids of the compact world from the validator fold: points, emitted paths and areas, relations -/
def idsFromValidator (src : Source) : List Id :=
  let outs := B6.Model.Validator.run (arrivals src)
  (srcPoints src).map (·.id) ++
  outs.map (fun o => match o with
    | .path v => (⟨.path, 2, v⟩ : Id)
    | .area a _ => ⟨.area, if a % 2 = 1 then 1 else 2, a / 2⟩) ++
  (srcRelations src).map (·.id)

def step (st : St) (op impl : String) : St × Verdict :=
  match words op with
  | "src" :: _ =>
    match parseFeature (sdrop op 4) with
    | some f => ({ st with src := f :: st.src }, if impl == "-" then .ok else .diff "-")
    | none => (st, .bad)
  | ["reset"] => ({}, .ok)
  | ["build"] =>
    if impl == "-" then
      let src := st.src.reverse
      ({ st with world := some (build src), idsViaValidator := some (renderIds (idsFromValidator src)) }, .ok)
    else (st, .propfail ("build " ++ impl))
  | "obs" :: which :: key =>
    match st.world with
    | none => (st, .bad)
    | some w =>
      let basic := which == "basic"
      if !basic && which != "compact" then (st, .bad) else
      let line := " ".intercalate key ++ " => " ++ impl ++ "\n"
      let st' := if basic then { st with hb := fnvAdd st.hb line } else { st with hc := fnvAdd st.hc line }
      match answer w basic key with
      | some m =>
        if key == ["ids"] && st.idsViaValidator != some m then (st', .bad)   -- the two models of the build disagree
        else (st', if m == impl then .ok else .diff m)
      | none => (st', if isKnownKey key then .bad else .ok)
  | ["par", which, g] =>
    if !(g.startsWith "g=") then (st, .bad) else
    let h := if which == "basic" then some st.hb else if which == "compact" then some st.hc else none
    match h with
    | none => (st, .bad)
    | some h => (st, if impl == hex16 h then .ok else .propfail ("parallelism-" ++ which ++ " " ++ g ++ " expected=" ++ hex16 h))
  | _ => (st, .bad)

def family : Family := { σ := St, init := {}, step := step }

end B6.Driver.C36

def main : IO Unit := B6.Driver.run B6.Driver.C36.family
