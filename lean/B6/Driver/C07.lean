import B6.Driver.Common
import B6.Model.Avl
import B6.Spec.SortedMap
import B6.Spec.IterClauses
/-!
Driver for C07.

State: the model `World` (tree as last reported by the implementation + model iterator states), the
reference sorted map `ref` (driven by the op texts only), one property tracker per iterator, and the
same three things for a `TreeIndex`.

  `@d <op>`             the op applied to the state saved at trie depth `d` (see `dstep`); answer as for `<op>`
  `reset`               answer `ok`                           (fresh state inside a case; corpus only)
ops on a treeList (`k`, `g`, `i` are decimal numbers):
  `ins k g` / `del k`   answer `len=<n> par=<0|1> ok=<0|1> [<preorder: k:g:bal | .>]`
  `get k`               answer `some g` | `none`
  `drain`               answer `[k:g …]`                      (a fresh iterator run to the end)
  `begin`               answer `i=<index>`
  `next i` / `adv i k`  answer `<true k:g | false> node=<k|nil> del=<0|1> started=<0|1> done=<0|1>` | `crash` | `hang` | `panic`
ops on a TreeIndex (tokens are `tNN`):
  `xadd k g [tok …]` / `xrm k [tok …]`   answer `tokens=[tNN:bal | . …] par= ok= len= | tNN len= par= ok= [tree] | …`
  `xtokens`             answer `[tNN …]`
  `xnum`                answer `<n>`
  `xbegin tNN`          answer `i=<index>` | `i=<index> empty`
  `xnext i` / `xadv i k`  as `next` / `adv` (`false empty` for the empty iterator)

Property predicate (evaluated on the implementation's answer): the dumped tree satisfies `Inv`
(order, stored balance = height difference, |balance| ≤ 1), parent pointers and `Validate()` are fine,
its in-order contents equal the reference map, `len` equals its size; for iterator calls the
trace-level clauses of the property — returned keys increase (strictly for `Next`), the returned key is
in the reference map now, no key that has been in the map ever since `begin` is skipped.
-/
open B6.Driver B6.Model.Avl B6.Spec B6.Spec.IterClauses
namespace B6.Driver.C07

/-! ### rendering / parsing -/

def valTree (t : Tree Nat) : String :=
  renderList (go t)
where go : Tree Nat → List String
  | .nil => ["."]
  | .node l k p b r => (toString k ++ ":" ++ toString p ++ ":" ++ toString b) :: (go l ++ go r)

def pad2 (n : Nat) : String := if n < 10 then "0" ++ toString n else toString n
def tokName (n : Nat) : String := "t" ++ pad2 n
def parseTok (s : String) : Option Nat := if s.startsWith "t" then (sdrop s 1).toNat? else none

def tokTree (t : Tree α) : String :=
  renderList (go t)
where go : Tree α → List String
  | .nil => ["."]
  | .node l k _ b r => (tokName k ++ ":" ++ toString b) :: (go l ++ go r)

/-- parse a preorder word list; `node` turns a word into (key, payload, balance) -/
def parsePre (node : String → Option (Nat × α × Int)) : Nat → List String → Option (Tree α × List String)
  | 0, _ => none
  | _, [] => none
  | fuel + 1, w :: rest =>
    if w == "." then some (.nil, rest) else
    match node w with
    | none => none
    | some (k, p, b) =>
      match parsePre node fuel rest with
      | none => none
      | some (l, rest1) =>
        match parsePre node fuel rest1 with
        | none => none
        | some (r, rest2) => some (.node l k p b r, rest2)

def parseWhole (node : String → Option (Nat × α × Int)) (s : String) : Option (Tree α) :=
  match parseBracket s with
  | none => none
  | some ws =>
    match parsePre node (ws.length + 1) ws with
    | some (t, []) => some t
    | _ => none

def valNode (w : String) : Option (Nat × Nat × Int) :=
  match w.splitOn ":" with
  | [k, g, b] => do some ((← k.toNat?), (← g.toNat?), (← b.toInt?))
  | _ => none

def tokNode (w : String) : Option (Nat × Unit × Int) :=
  match w.splitOn ":" with
  | [t, b] => do some ((← parseTok t), (), (← b.toInt?))
  | _ => none

/-- value of `key=` in a word list -/
def field (ws : List String) (key : String) : Option String :=
  (ws.find? (fun w => w.startsWith (key ++ "="))).map (fun w => sdrop w (key.length + 1))

def renderSMap (m : SortedMap.SMap Nat) : String :=
  renderList (m.map fun (k, g) => toString k ++ ":" ++ toString g)

def b01 (b : Bool) : String := if b then "1" else "0"

/-- answer of `ins`/`del` -/
def renderListState (t : TreeList Nat) : String :=
  s!"len={t.length} par=1 ok=1 {valTree t.root}"

structure ListAnswer where
  len : Int
  par : Bool
  ok : Bool
  tree : Tree Nat

def parseListState (s : String) : Option ListAnswer :=
  match s.splitOn " [" with
  | [hd, tl] => do
    let ws := words hd
    let len ← (← field ws "len").toInt?
    let par ← field ws "par"
    let ok ← field ws "ok"
    let tree ← parseWhole valNode ("[" ++ tl)
    some ⟨len, par == "1", ok == "1", tree⟩
  | _ => none

def renderIter (it : Iter) : String :=
  let node := match it.node with | some (k, _) => toString k | none => "nil"
  let del := match it.node with | some (_, d) => b01 d | none => "0"
  s!"node={node} del={del} started={b01 it.started} done={b01 it.done}"

def renderIterAnswer (t : Tree Nat) (it : Iter) (ok : Bool) : String :=
  let hd := if ok then
      match it.node with
      | some (k, _) => match t.lookup k with
        | some g => s!"true {k}:{g}"
        | none => s!"true {k}:?"
      | none => "true nil"
    else "false"
  hd ++ " " ++ renderIter it

structure IterAnswer where
  ret : Option (Nat × Nat)     -- `true k:g`
  it : Iter

def parseIterAnswer (s : String) : Option IterAnswer := do
  let ws := words s
  let (ret, rest) ← match ws with
    | "true" :: kg :: rest =>
      match kg.splitOn ":" with
      | [k, g] => do some (some ((← k.toNat?), (← g.toNat?)), rest)
      | _ => none
    | "false" :: rest => some (none, rest)
    | _ => none
  let node ← field rest "node"
  let del ← field rest "del"
  let started ← field rest "started"
  let done ← field rest "done"
  let n : Option (Nat × Bool) ← if node == "nil" then some none else do some (some ((← node.toNat?), del == "1"))
  some ⟨ret, { started := started == "1", node := n, done := done == "1" }⟩

/-! ### property trackers

`B6.Spec.IterClauses`: one `Cur` per iterator (last key returned, keys in the map ever since `begin`,
finished?) and `clause`, the iterator clauses of the property on one answer — the function
`B6.Props.C07.trace_ok` is about.  The payload the implementation reports must also be the current one. -/

def iterClause (ref : SortedMap.SMap Nat) (c : Cur) (target : Option Nat) (ret : Option (Nat × Nat)) : Option String :=
  match clause (ref.map (·.1)) c target (ret.map (·.1)) with
  | some cl => some cl
  | none =>
    match ret with
    | some (k, g) => if !c.dead && SortedMap.lookup ref k != some g then some "iter-deleted" else none
    | none => none

/-! ### state -/

structure St where
  w : World Nat := World.empty
  ref : SortedMap.SMap Nat := []
  curs : List Cur := []
  ix : Index := Index.empty
  ixRef : SortedMap.SMap (SortedMap.SMap Nat) := []
  ixIters : List (Option Nat × Iter) := []     -- token (none = the empty iterator), state
  ixCurs : List Cur := []

def verdictOf (impl model : String) (clause : Option String) : Verdict :=
  match clause with
  | some c => .propfail c
  | none => if impl == model then .ok else .diff model

/-- property clauses for the answer of `ins`/`del` -/
def listClause (a : ListAnswer) (ref' : SortedMap.SMap Nat) : Option String :=
  if !a.par then some "parent-pointers"
  else if !decide (Tree.Inv a.tree) then some "avl-invariant"
  else if !a.ok then some "validate"
  else if a.tree.toList != ref' then some "content"
  else if a.len != (ref'.length : Int) then some "length"
  else none

def stepMut (st : St) (impl : String) (ref' : SortedMap.SMap Nat) (model : Option (World Nat)) : St × Verdict :=
  let m := match model with | some w => renderListState w.list | none => "panic"
  match parseListState impl with
  | none =>
    -- `panic` etc.: not a tree any more; the property demands a valid tree
    (match model with | some w => { st with w := w, ref := ref' } | none => { st with ref := ref' },
      if impl == m then .ok else .propfail "no-tree")
  | some a =>
    let clause := listClause a ref'
    let iters := match model with | some w => w.iters | none => st.w.iters
    let st' := { st with w := ⟨⟨a.tree, a.len⟩, iters⟩, ref := if clause.isSome then a.tree.toList else ref' }
    (st', verdictOf impl m clause)

def stepIter (st : St) (i : Nat) (target : Option Nat) (impl : String) : St × Verdict :=
  match st.w.iters[i]?, st.curs[i]? with
  | some it, some c =>
    let (it', ok) := match target with
      | none => it.next st.w.list.root
      | some k => it.advance st.w.list.root k
    let m := renderIterAnswer st.w.list.root it' ok
    match parseIterAnswer impl with
    | none => (st, .propfail ("iter-" ++ impl))       -- crash / hang / panic: never acceptable
    | some a =>
      let clause := iterClause st.ref c target a.ret
      ({ st with w := { st.w with iters := st.w.iters.set i a.it }, curs := st.curs.set i (c.update (a.ret.map (·.1))) },
        verdictOf impl m clause)
  | _, _ => (st, .bad)

/-! ### TreeIndex -/

def renderIndex (ix : Index) : String :=
  let hd := s!"tokens={tokTree ix.lists.root} par=1 ok=1 len={ix.lists.length}"
  let segs := ix.lists.root.toList.map fun (tok, l) => s!"{tokName tok} len={l.length} par=1 ok=1 {valTree l.root}"
  " | ".intercalate (hd :: segs)

structure IndexAnswer where
  tokens : Tree Unit
  par : Bool
  ok : Bool
  len : Int
  segs : List (Nat × ListAnswer)

def parseSeg (s : String) : Option (Nat × ListAnswer) :=
  match words s with
  | tok :: _ => do
    let t ← parseTok tok
    let a ← parseListState (sdrop s (tok.length + 1))
    some (t, a)
  | [] => none

def parseIndex (s : String) : Option IndexAnswer :=
  match s.splitOn " | " with
  | [] => none
  | hd :: segs =>
    match (sdrop hd 7).splitOn "] " with     -- after `tokens=`
    | [tr, rest] => do
      let tokens ← parseWhole tokNode (tr ++ "]")
      let ws := words rest
      let par ← field ws "par"
      let ok ← field ws "ok"
      let len ← (← field ws "len").toInt?
      let segs ← segs.mapM parseSeg
      some ⟨tokens, par == "1", ok == "1", len, segs⟩
    | _ => none

def fillTokens (segs : List (Nat × ListAnswer)) : Tree Unit → Option (Tree (TreeList Nat))
  | .nil => some .nil
  | .node l k _ b r => do
    let l' ← fillTokens segs l
    let r' ← fillTokens segs r
    let a ← (segs.find? (fun s => s.1 == k)).map (·.2)
    some (.node l' k ⟨a.tree, a.len⟩ b r')

def indexClause (a : IndexAnswer) (ref' : SortedMap.SMap (SortedMap.SMap Nat)) : Option String :=
  if !a.par then some "parent-pointers"
  else if !decide (Tree.Inv a.tokens) then some "avl-invariant"
  else if !a.ok then some "validate"
  else if a.tokens.keys != ref'.map (·.1) || a.segs.map (·.1) != ref'.map (·.1) then some "tokens"
  else if a.len != (ref'.length : Int) then some "length"
  else
    (List.zip a.segs ref').findSome? fun (s, r) => listClause s.2 r.2

def refAdd (ref : SortedMap.SMap (SortedMap.SMap Nat)) (k g : Nat) : List Nat → SortedMap.SMap (SortedMap.SMap Nat)
  | [] => ref
  | tok :: rest =>
    let cur := (SortedMap.lookup ref tok).getD []
    refAdd (SortedMap.insert ref tok (SortedMap.insert cur k g)) k g rest

def refRemove (ref : SortedMap.SMap (SortedMap.SMap Nat)) (k : Nat) : List Nat → SortedMap.SMap (SortedMap.SMap Nat)
  | [] => ref
  | tok :: rest =>
    match SortedMap.lookup ref tok with
    | some cur => refRemove (SortedMap.insert ref tok (SortedMap.erase cur k)) k rest
    | none => refRemove ref k rest

def stepIndexMut (st : St) (impl : String) (ref' : SortedMap.SMap (SortedMap.SMap Nat)) (model : Option Index)
    (iters : List (Option Nat × Iter)) (curs : List Cur) : St × Verdict :=
  let m := match model with | some ix => renderIndex ix | none => "panic"
  let st := { st with ixIters := iters, ixCurs := curs }
  match parseIndex impl with
  | none => ({ st with ixRef := ref', ix := model.getD st.ix }, if impl == m then .ok else .propfail "no-tree")
  | some a =>
    let clause := indexClause a ref'
    let resync : Option Index := (fillTokens a.segs a.tokens).map fun t => ⟨⟨t, a.len⟩⟩
    let ix' := match resync with | some ix => ix | none => model.getD st.ix
    let ref'' := if clause.isSome then a.segs.map (fun s => (s.1, s.2.tree.toList)) else ref'
    ({ st with ix := ix', ixRef := ref'' }, verdictOf impl m clause)

def parseToks (s : String) : Option (List Nat) := do
  let ws ← parseBracket s
  ws.mapM parseTok

def stepIndexIter (st : St) (i : Nat) (target : Option Nat) (impl : String) : St × Verdict :=
  match st.ixIters[i]?, st.ixCurs[i]? with
  | some (none, _), some _ =>
    -- the empty iterator
    (st, if impl == "false empty" then .ok else .diff "false empty")
  | some (some tok, it), some c =>
    match st.ix.lists.root.lookup tok with
    | none => (st, .bad)
    | some lst =>
      let (it', ok) := match target with
        | none => it.next lst.root
        | some k => it.advance lst.root k
      let m := renderIterAnswer lst.root it' ok
      match parseIterAnswer impl with
      | none => (st, .propfail ("iter-" ++ impl))       -- crash / hang / panic: never acceptable
      | some a =>
        let ref := (SortedMap.lookup st.ixRef tok).getD []
        let clause := iterClause ref c target a.ret
        ({ st with ixIters := st.ixIters.set i (some tok, a.it), ixCurs := st.ixCurs.set i (c.update (a.ret.map (·.1))) },
          verdictOf impl m clause)
  | _, _ => (st, .bad)

/-! ### the step function -/

def step (st : St) (op impl : String) : St × Verdict :=
  match words op with
  | ["reset"] => ({}, if impl == "ok" then .ok else .diff "ok")
  | ["ins", k, g] =>
    match k.toNat?, g.toNat? with
    | some k, some g =>
      let model := match st.w.step (.ins k g) with | some (w, _) => some w | none => none
      stepMut st impl (SortedMap.insert st.ref k g) model
    | _, _ => (st, .bad)
  | ["del", k] =>
    match k.toNat? with
    | some k =>
      let model := match st.w.step (.del k) with | some (w, _) => some w | none => none
      let st := { st with curs := st.curs.map (·.onDelete k) }
      stepMut st impl (SortedMap.erase st.ref k) model
    | none => (st, .bad)
  | ["get", k] =>
    match k.toNat? with
    | some k =>
      let show_ : Option Nat → String := fun | some g => s!"some {g}" | none => "none"
      let m := show_ (st.w.list.root.lookup k)
      let s := show_ (SortedMap.lookup st.ref k)
      (st, if impl == s then (if impl == m then .ok else .diff m) else .propfail "lookup")
    | none => (st, .bad)
  | ["drain"] =>
    let m := renderSMap st.w.list.root.toList
    let s := renderSMap st.ref
    (st, if impl == s then (if impl == m then .ok else .diff m) else .propfail "content")
  | ["begin"] =>
    let i := st.w.iters.length
    let m := s!"i={i}"
    ({ st with w := { st.w with iters := st.w.iters ++ [{}] }, curs := st.curs ++ [Cur.begin (st.ref.map (·.1))] },
      if impl == m then .ok else .diff m)
  | ["next", i] =>
    match i.toNat? with
    | some i => stepIter st i none impl
    | none => (st, .bad)
  | ["adv", i, k] =>
    match i.toNat?, k.toNat? with
    | some i, some k => stepIter st i (some k) impl
    | _, _ => (st, .bad)
  | "xadd" :: k :: g :: _ =>
    match k.toNat?, g.toNat?, parseToks (" ".intercalate ((words op).drop 3)) with
    | some k, some g, some toks =>
      stepIndexMut st impl (refAdd st.ixRef k g toks) (st.ix.add k g toks) st.ixIters st.ixCurs
    | _, _, _ => (st, .bad)
  | "xrm" :: k :: _ =>
    match k.toNat?, parseToks (" ".intercalate ((words op).drop 2)) with
    | some k, some toks =>
      -- iterators on a token whose list holds `k` see their node marked deleted; owed sets shrink
      let hit : Nat → Bool := fun tok =>
        toks.contains tok && ((SortedMap.lookup st.ixRef tok).bind (SortedMap.lookup · k)).isSome
      let iters := st.ixIters.map fun (tok, it) =>
        match tok with
        | some t => if hit t then (tok, it.onDelete k) else (tok, it)
        | none => (tok, it)
      let curs := (List.zip st.ixIters st.ixCurs).map fun ((tok, _), c) =>
        match tok with
        | some t => if hit t then c.onDelete k else c
        | none => c
      stepIndexMut st impl (refRemove st.ixRef k toks) (st.ix.remove k toks) iters curs
    | _, _ => (st, .bad)
  | ["xtokens"] =>
    let m := renderList (st.ix.lists.root.keys.map tokName)
    let s := renderList (st.ixRef.map (tokName ·.1))
    (st, if impl == s then (if impl == m then .ok else .diff m) else .propfail "tokens")
  | ["xnum"] =>
    let m := toString st.ix.lists.length
    let s := toString st.ixRef.length
    (st, if impl == s then (if impl == m then .ok else .diff m) else .propfail "length")
  | ["xbegin", tok] =>
    match parseTok tok with
    | some t =>
      let i := st.ixIters.length
      match st.ix.lists.root.lookup t with
      | some _ =>
        let m := s!"i={i}"
        let owed := ((SortedMap.lookup st.ixRef t).getD []).map (·.1)
        ({ st with ixIters := st.ixIters ++ [(some t, {})], ixCurs := st.ixCurs ++ [Cur.begin owed] },
          if impl == m then .ok else .diff m)
      | none =>
        let m := s!"i={i} empty"
        ({ st with ixIters := st.ixIters ++ [(none, {})], ixCurs := st.ixCurs ++ [{}] },
          if impl == m then .ok else .diff m)
    | none => (st, .bad)
  | ["xnext", i] =>
    match i.toNat? with
    | some i => stepIndexIter st i none impl
    | none => (st, .bad)
  | ["xadv", i, k] =>
    match i.toNat?, k.toNat? with
    | some i, some k => stepIndexIter st i (some k) impl
    | _, _ => (st, .bad)
  | _ => (st, .bad)

/-! ### histories enumerated as a trie

`@d <op>`: take the state reached by the line that was written at depth `d` (depth 0 = the state after the
last plain line), apply `<op>`, remember the result as depth `d+1`.  The exhaustive part of the thorough
tier writes every prefix of every history once instead of every history in full. -/

structure DSt where
  cur : St := {}
  saved : Array St := #[{}]

def dstep (ds : DSt) (op impl : String) : DSt × Verdict :=
  if op.startsWith "@" then
    match words op with
    | dw :: rest =>
      match (sdrop dw 1).toNat? with
      | some d =>
        match ds.saved[d]? with
        | some base =>
          let (st', v) := step base (" ".intercalate rest) impl
          ({ cur := st', saved := (ds.saved.extract 0 (d + 1)).push st' }, v)
        | none => (ds, .bad)
      | none => (ds, .bad)
    | [] => (ds, .bad)
  else
    let (st', v) := step ds.cur op impl
    ({ cur := st', saved := #[st'] }, v)

def family : Family := { σ := DSt, init := {}, step := dstep }

end B6.Driver.C07

def main : IO Unit := B6.Driver.run B6.Driver.C07.family
