import B6.Driver.Common
import B6.Driver.SkelIO
import B6.Model.Validate
/-!
Driver for C37 — every feature in a world is valid.

feature  `p1=;loc=3` | `p1=;noloc` | `w10=p1,@7,p3,p1` (`@7` inline point at slot 7) |
         `a20=w10,w11|*|w12` (polygons separated by `|`, `*` explicit polygon) | `r1=p1,w10` | `c1=…`
ops
  `oracle [<slots>=<v|i><c|w> …]`   what S2 says about the loop through the slots (`1.2.3`): valid /
                                    invalid, counter-clockwise / clockwise; answer `ok`. The table
                                    covers every closed path of the case (in both directions).
  `build basic invert=<0|1> src=[feature…]`   `BasicWorldBuilder.Finish` (FailClockwisePaths = !invert)
        answer `[feature…]` (the built world, sorted by ID) | `crash`
  `validator pts=[feature…] src=[feature…]`   `compact.Validator` fed in the order of `src`
        answer `[feature…]` in emission order
  `mw.new` → `ok`; `mw.add <feature>` → `ok [feature…]` | `err [feature…]` (the world afterwards)

Property predicate (evaluated on the implementation's answer): every feature of the built / edited
world is `valid` in that world; for the validator: in the world of its points and emitted features.
-/
open B6.Driver B6.Driver.SkelIO B6.Model.Validate
namespace B6.Driver.C37
abbrev Id := B6.Model.Validate.Id

/-- a path element: `p3` (point reference) or `@5` (inline point at slot 5 = pseudo-ID `(9, 5)`) -/
def parseElem (s : String) : Option Id :=
  if s.startsWith "@" then (parseNat? (sdrop s 1)).map fun k => (9, k) else parseId s

def renderElem (i : Id) : String := if i.1 == 9 then "@" ++ toString i.2 else renderId i

/-- an area's polygons: `w10,w11|*|w12` (`*` = explicit polygon, no path IDs) -/
def parsePolys (s : String) : Option (List (List Id)) :=
  (s.splitOn "|").mapM fun p => if p == "*" then some [] else (splitComma p).mapM parseId

def parseFeat (s : String) : Option Feat :=
  match s.splitOn ";" with
  | [] => none
  | head :: attrs =>
    match head.splitOn "=" with
    | [a, b] => do
      let id ← parseId a
      let loc := (attrs.filterMap fun a => if a.startsWith "loc=" then parseNat? (sdrop a 4) else none).head?
      if id.1 == 0 then some ⟨id, .point loc⟩
      else if id.1 == 1 then do let es ← (splitComma b).mapM parseElem; some ⟨id, .path es⟩
      else if id.1 == 2 then do let ps ← parsePolys b; some ⟨id, .area ps⟩
      else do let refs ← parseIdsComma b; some ⟨id, .other refs⟩
    | _ => none

def renderFeat (f : Feat) : String :=
  let ids := fun (xs : List Id) => ",".intercalate (xs.map renderId)
  match f.geo with
  | .point (some k) => renderId f.id ++ "=;loc=" ++ toString k
  | .point none => renderId f.id ++ "=;noloc"
  | .path refs => renderId f.id ++ "=" ++ ",".intercalate (refs.map renderElem)
  | .area polys => renderId f.id ++ "=" ++ "|".intercalate (polys.map fun p => if p.isEmpty then "*" else ids p)
  | .other refs => renderId f.id ++ "=" ++ ids refs

def parseFeats (s : String) : Option (List Feat) := do
  let ws ← parseBracket s
  ws.mapM parseFeat

def sortFeats (fs : List Feat) : List Feat := sortBy (fun (a b : Feat) => idLt a.id b.id) fs

def renderFeats (fs : List Feat) : String := renderList (fs.map renderFeat)

def segment (line key : String) : Option String :=
  match line.splitOn (key ++ "=[") with
  | [_, rest] => match rest.splitOn "]" with
    | inner :: _ => some ("[" ++ inner ++ "]")
    | [] => none
  | _ => none

abbrev Table := List (List Nat × Bool × Bool)

def parseTable (s : String) : Option Table := do
  let ws ← parseBracket s
  ws.mapM fun w => match w.splitOn "=" with
    | [k, v] => do
      let slots ← (k.splitOn ".").mapM parseNat?
      match v.toList with
      | [a, b] => some (slots, a == 'v', b == 'c')
      | _ => none
    | _ => none

/-- the oracle read from the table; loops the table does not know answer `dflt` -/
def oracleOf (t : Table) (dflt : Bool) : Oracle :=
  { loopValid := fun l => match t.find? (fun e => e.1 == l) with | some e => e.2.1 | none => dflt,
    ccw := fun l => match t.find? (fun e => e.1 == l) with | some e => e.2.2 | none => dflt }

structure St where
  table : Table := []
  mw : World := []

/-- run `f` with the table's oracle under both defaults: a difference means a loop the table does not
cover mattered -/
def withOracle {β : Type} [BEq β] (t : Table) (f : Oracle → β) : Option β :=
  let a := f (oracleOf t true)
  let b := f (oracleOf t false)
  if a == b then some a else none

def step (st : St) (op impl : String) : St × Verdict :=
  match words op with
  | "oracle" :: _ =>
    match parseTable (sdrop op 7) with
    | some t => ({ st with table := t }, if impl == "ok" then .ok else .diff "ok")
    | none => (st, .bad)
  | "build" :: "basic" :: inv :: _ =>
    match (segment op "src").bind parseFeats with
    | none => (st, .bad)
    | some src =>
      let invert := inv == "invert=1"
      let model := withOracle st.table fun O => (finish O invert src).map fun w => renderFeats (sortFeats w)
      match model with
      | none => (st, .bad)
      | some m =>
        let ms := match m with | some s => s | none => "crash"
        match parseFeats impl with
        | none => (st, .propfail "build-crashed")
        | some w =>
          match withOracle st.table fun O => allValid O w with
          | none => (st, .bad)
          | some true => (st, if impl == ms then .ok else .diff ms)
          | some false =>
            if invert && (withOracle st.table fun O => invertContract O src src) != some true then
              (st, .propfail "build_all_valid class=degenerate_loop")
            else (st, .propfail "build_all_valid")
  | "validator" :: _ =>
    match (segment op "pts").bind parseFeats, (segment op "src").bind parseFeats with
    | some pts, some src =>
      let model := withOracle st.table fun O => renderFeats ((Validator.run O ⟨pts, [], []⟩ src).2)
      match model, parseFeats impl with
      | some m, some out =>
        match withOracle st.table fun O => out.all (valid O (pts ++ out)) with
        | none => (st, .bad)
        | some true => (st, if impl == m then .ok else .diff m)
        | some false =>
          if (withOracle st.table fun O => invertContract O pts src) != some true then
            (st, .propfail "validator_all_valid class=degenerate_loop")
          else (st, .propfail "validator_all_valid")
      | some _, none => (st, .propfail "validator-crashed")
      | none, _ => (st, .bad)
    | _, _ => (st, .bad)
  | ["mw.new"] => ({ st with mw := [] }, if impl == "ok" then .ok else .diff "ok")
  | ["mw.add", fs] =>
    match parseFeat fs with
    | none => (st, .bad)
    | some f =>
      let model := withOracle st.table fun O => match addFeature O st.mw f with
        | .ok w => "ok " ++ renderFeats (sortFeats w)
        | .rejected => "err " ++ renderFeats (sortFeats st.mw)
        | .panic => "panic"
      let implWorld := match impl.splitOn " [" with
        | [_, rest] => parseFeats ("[" ++ rest)
        | _ => none
      match model, implWorld with
      | some m, some w =>
        -- resynchronise on the implementation's world (in the model's order where possible)
        let st' := { st with mw := w }
        match withOracle st.table fun O => allValid O w with
        | none => (st', .bad)
        | some true => (st', if impl == m then .ok else .diff m)
        | some false => (st', .propfail "edits_preserve_valid")
      | some _, none => (st, .propfail "add-crashed")
      | none, _ => (st, .bad)
  | _ => (st, .bad)

def family : Family := { σ := St, init := {}, step := step }

end B6.Driver.C37

def main : IO Unit := B6.Driver.run B6.Driver.C37.family
