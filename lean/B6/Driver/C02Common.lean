import B6.Driver.Common
import B6.Model.WorldRead
/-!
Parsing of the source-description lines and rendering of the model's answers, shared by the C02 and C36
drivers (both harnesses print worlds with `harness/cmd/c02/wd`).

  point n1 <lat,lng> [k=v …]
  path w10 [n1 n2 n3] loop=ok|bad|na cw=0|1 [k=v …]
  area aw10 [(w10) (w11;w12)] [k=v …]
  relation r50 [n1:role w10:role] [k=v …]
-/
open B6.Driver B6.Model.WorldRead
namespace B6.Driver.C02Common

def parseNat? (s : String) : Option Nat := if s.isEmpty then none else s.toNat?

/-- n<v> point, w<v> path, aw<v>/ar<v> area (way / relation namespace), r<v> relation -/
def parseId (s : String) : Option Id :=
  match s.toList with
  | 'n' :: r => (parseNat? (String.ofList r)).map fun v => ⟨.point, 0, v⟩
  | 'w' :: r => (parseNat? (String.ofList r)).map fun v => ⟨.path, 2, v⟩
  | 'a' :: 'w' :: r => (parseNat? (String.ofList r)).map fun v => ⟨.area, 2, v⟩
  | 'a' :: 'r' :: r => (parseNat? (String.ofList r)).map fun v => ⟨.area, 1, v⟩
  | 'r' :: r => (parseNat? (String.ofList r)).map fun v => ⟨.relation, 1, v⟩
  | _ => none

def renderId (i : Id) : String :=
  match i.t, i.ns with
  | .point, _ => s!"n{i.v}"
  | .path, _ => s!"w{i.v}"
  | .area, 1 => s!"ar{i.v}"
  | .area, _ => s!"aw{i.v}"
  | .relation, _ => s!"r{i.v}"

/-- top-level tokens of a line; a `[...]` group (no nesting) is one token, brackets included -/
def tokens (s : String) : List String :=
  let rec go (cs : List Char) (cur : List Char) (inB : Bool) (acc : List String) : List String :=
    match cs with
    | [] => (if cur.isEmpty then acc else String.ofList cur.reverse :: acc).reverse
    | c :: r =>
      if inB then
        if c == ']' then go r [] false (String.ofList (c :: cur).reverse :: acc) else go r (c :: cur) true acc
      else if c == '[' then go r [c] true (if cur.isEmpty then acc else String.ofList cur.reverse :: acc)
      else if c == ' ' then go r [] false (if cur.isEmpty then acc else String.ofList cur.reverse :: acc)
      else go r (c :: cur) false acc
  go s.toList [] false []

def splitFirst (s : String) (c : Char) : Option (String × String) :=
  let cs := s.toList
  match cs.span (· != c) with
  | (a, _ :: b) => some (String.ofList a, String.ofList b)
  | _ => none

def parseTags (s : String) : Option Tags := do
  let ws ← parseBracket s
  ws.mapM fun w => splitFirst w '='

def renderTags (t : Tags) : String := renderList (t.map fun (k, v) => k ++ "=" ++ v)

def splitOnChar (s : String) (c : Char) : List String := (s.splitOn (String.singleton c)).filter (· ≠ "")

/-- `(a;b;c)` → ids -/
def parseParenIds (s : String) : Option (List Id) :=
  if s.startsWith "(" && s.endsWith ")" then (splitOnChar (sdropEnd (sdrop s 1) 1) ';').mapM parseId else none

def parseFeature (line : String) : Option Feature :=
  match tokens line with
  | ["point", id, loc, tags] => do
    let i ← parseId id
    let t ← parseTags tags
    some (.point { id := i, loc := loc, tags := t })
  | ["path", id, refs, loop, cw, tags] => do
    let i ← parseId id
    let rs ← (← parseBracket refs).mapM parseId
    let t ← parseTags tags
    let lo ← (if loop == "loop=ok" then some true else if loop == "loop=bad" || loop == "loop=na" then some false else none)
    let c ← (if cw == "cw=1" then some true else if cw == "cw=0" then some false else none)
    some (.path { id := i, refs := rs, loopOk := lo, cw := c, tags := t })
  | ["area", id, polys, tags] => do
    let i ← parseId id
    let ps ← (← parseBracket polys).mapM parseParenIds
    let t ← parseTags tags
    some (.area { id := i, polys := ps, tags := t })
  | ["relation", id, members, tags] => do
    let i ← parseId id
    let ms ← (← parseBracket members).mapM fun w => do
      let (a, b) ← splitFirst w ':'
      let mid ← parseId a
      some (mid, b)
    let t ← parseTags tags
    some (.relation { id := i, members := ms, tags := t })
  | _ => none

/-! ## rendering the answers -/

def renderIds (l : List Id) : String := renderList ((sortIds l).map renderId)

def segLt (a b : Seg) : Bool :=
  if a.path = b.path then (if a.first = b.first then a.last < b.last else a.first < b.first) else a.path.lt b.path

def insertSeg (x : Seg) : List Seg → List Seg
  | [] => [x]
  | y :: r => if segLt x y then x :: y :: r else y :: insertSeg x r

def renderSegs (l : List Seg) : String :=
  renderList ((l.foldr insertSeg []).map fun s => s!"{renderId s.path}:{s.first}>{s.last}")

def pathTagValue (refs : List Id) : String := "(" ++ ";".intercalate (refs.map renderId) ++ ")"

/-- a looked-up feature with its tags and geometry skeleton -/
def findAnswer (w : World) (r : Option Rec) : String :=
  match r with
  | none => "nil"
  | some (.point p) => s!"{renderId p.id} {renderTags p.tags} pt:{p.loc}"
  | some (.path q) =>
    let tags := q.tags.map fun (k, v) => if k == "path" then (k, pathTagValue q.refs) else (k, v)
    let g := ";".intercalate (q.refs.map fun r => renderId r ++ "@" ++ ((locOf w.points r).getD "?"))
    s!"{renderId q.id} {renderTags tags} path:{g}"
  | some (.area a) =>
    let g := "|".intercalate (a.polys.map fun ids => "(" ++ ";".intercalate (ids.map renderId) ++ ")")
    s!"{renderId a.id} {renderTags a.tags} area:{g}"
  | some (.relation r) =>
    let g := ";".intercalate (r.members.map fun (m, role) => renderId m ++ ":" ++ role)
    s!"{renderId r.id} {renderTags r.tags} rel:{g}"

/-- the model's answer to one observation of the world dump; `none` = not predicted by the model
(search results, tokens, polygon vertices) -/
def answer (w : World) (basic : Bool) (key : List String) : Option String :=
  match key with
  | ["ids"] => some (renderIds (if basic then idsB w else idsC w 4))
  | ["find", x] => (parseId x).map fun i => findAnswer w (if basic then findB w i else findC w i)
  | ["has", x] => (parseId x).map fun i => toString (if basic then hasB w i else hasC w i)
  | ["loc", x] => (parseId x).map fun i => (if basic then locB w i else locC w i).getD "err"
  | ["refs", x] => (parseId x).map fun i => renderIds (if basic then refsB w i [] else refsC w i [])
  | ["refsp", x] => (parseId x).map fun i => renderIds (if basic then refsB w i [.path] else refsC w i [.path])
  | ["rels", x] => (parseId x).map fun i => renderIds (if basic then relsB w i else relsC w i)
  | ["areas", x] => (parseId x).map fun i => renderIds (if basic then areasB w i else areasC w i)
  | ["trav", x] => (parseId x).map fun i => renderSegs (if basic then traverseB w i else traverseC w i)
  | _ => none

def isKnownKey (key : List String) : Bool :=
  match key with
  | [k, _] => k == "refs" || k == "rels" || k == "refsp" || k == "areas" || k == "trav" || k == "find" || k == "has" || k == "loc"
  | ["ids"] => true
  | _ => false

end B6.Driver.C02Common
