import B6.Driver.Common
import B6.Model.Locksets
/-!
Driver for C35 (exploration).  One line per workload run in the race-detector worker:

  workload build-basic|build-compact cores=K n=N cw=C seed=S      => ok | mismatch:<query> | race | fatal | hang | crash
  workload query-basic|query-compact|query-overlay g=G n=N q=Q seed=S  => (same)
  workload parse g=G n=N q=Q seed=S                                    => (same)

The model's answer is always `ok`: the lock-discipline theorems (`B6.Props.C35`) say the cache cells are
race-free and transparent, the stage theorem that the two-stage `Finish` has no conflicting workers, so a
parallel build equals the sequential one and every concurrent query answers what it answers alone.  The
predicate on the implementation's answer: no data-race report (`data-race`), every concurrent answer equal to
the sequential one (`concurrent-answer-differs`), the run ends (`hang`) and does not die (`crash`).
-/
open B6.Driver
namespace B6.Driver.C35

def knownWorkloads : List String :=
  ["build-basic", "build-compact", "query-basic", "query-compact", "query-overlay", "parse"]

def wellFormed (ws : List String) : Bool :=
  match ws with
  | "workload" :: kind :: rest =>
    knownWorkloads.contains kind && rest.all (fun w => (w.splitOn "=").length == 2) && rest.length ≥ 3
  | _ => false

def step (_ : Unit) (op impl : String) : Unit × Verdict :=
  if !wellFormed (words op) then ((), .bad) else
  if impl == "ok" then ((), .ok)
  else if impl == "race" then ((), .propfail "data-race")
  else if impl.startsWith "mismatch:" then ((), .propfail ("concurrent-answer-differs " ++ sdrop impl 9))
  else if impl == "hang" then ((), .propfail "hang")
  else ((), .propfail ("crash:" ++ impl))

def family : Family := { σ := Unit, init := (), step := step }

end B6.Driver.C35

def main : IO Unit := B6.Driver.run B6.Driver.C35.family
