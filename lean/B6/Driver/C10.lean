import B6.Driver.Common
import B6.Model.Bits
/-!
Driver for C10 (stateless).  Numbers are unsigned decimal 64-bit words (Go ints as two's-complement bits),
strings are hex of their bytes.  For every op the model answer is recomputed with `B6.Model.Bits` /
`B6.Model.Varint`, and — when the inputs are inside the domain stated by the corresponding theorem of
`B6/Props/C10.lean` — the round-trip predicate is evaluated on the implementation's own answer.

  `zz64 x`            => `enc dec`                 ZigzagEncode(int64 x), ZigzagDecode(enc)        pred: dec = x
  `zd64 v`            => `dec enc`                 ZigzagDecode(v), ZigzagEncode(dec)              pred: enc = v
  `zz32 x`            => `enc dec`                 renderer zigzag (x an int32 as 64-bit int)      pred: dec = x
  `zd32 v`            => `dec enc`                                                                 pred: enc = v
  `tns t ns`          => `c t' ns'`                Combine, Split        pred (t<8, ns<2^13): (t',ns') = (t,ns)
  `tnsd c`            => `t ns`
  `vt t v`            => `e v' t'` | `panic`       pred (t<4, v<2^62): no panic, (v',t') = (v,t)
  `geo e l`           => `v l' e'` | `panic`       pred (e<3, l<2^62): no panic, (l',e') = (l,e)
  `geod v`            => `l e`
  `hdr b t id tag len`=> `bytes bucket id' tag' len' n`   pred (t ≤ b ≤ 63, tag < 2^t, len < 2^63): (id',tag',len') = (id,tag,len)
  `lay b t`           => `b' t'`                   NewUint64MapBuilder(b,t).Layout  pred: layoutOK b' t' ∧ t' = t
  `blay count type`   => `b' t'`                   layout of a feature block        pred: layoutOK b' t' ∧ t' = tagBits[type]
  `bbits count`       => `bits`                    bucketBitsForCount (float) vs the integer model: exact below 2^29, ±1 above
  `bbsweep lo hi`     => `[n:bits …]`              change points over [lo,hi): must equal the model's exactly
  `tile x y z`        => `id x' y' z'`             pred (z ≤ 29, x,y < 2^z): (x',y',z') = (x,y,z)
  `tiled id`          => `x y z`
  `ll lat lng`        => `id lat' lng'`            (uint32 bits of the E7 ints)     pred: (lat',lng') = (lat,lng)
  `pc hex`            => `id hex'` | `id none` | `invalid`   pred (normal form is 5–7 of [0-9A-Z]): valid, hex' = normal form
  `pcd v`             => `hex` | `none`
  `ons hex year`      => `v hex' year'` | `invalid`          pred (ASCII letter + 8 digits, 1900 ≤ year ≤ 2155): round trip
  `onsd v`            => `hex year`
-/
open B6.Driver B6.Model.Bits B6.Model.Varint
namespace B6.Driver.C10

def u64? (s : String) : Option (BitVec 64) :=
  match s.toNat? with
  | some n => if n < 2 ^ 64 then some (BitVec.ofNat 64 n) else none
  | none => none

def nat? (s : String) : Option Nat := s.toNat?

def int? (s : String) : Option Int :=
  if s.startsWith "-" then (sdrop s 1).toNat?.map fun n => -(n : Int) else s.toNat?.map fun n => (n : Int)

def r64 (v : BitVec 64) : String := toString v.toNat
def r32 (v : BitVec 32) : String := toString v.toNat
def r16 (v : BitVec 16) : String := toString v.toNat
def r8 (v : BitVec 8) : String := toString v.toNat

/-- ASCII bytes → chars; `none` if a byte is ≥ 0x80 (the harness never sends one). -/
def asciiChars (bs : List UInt8) : Option (List Char) :=
  bs.mapM fun b => if b.toNat < 128 then some (Char.ofNat b.toNat) else none

def hexOfChars (cs : List Char) : String := renderHex (String.ofList cs).toUTF8.toList

/-- verdict from: the model answer, and the predicate (`none` = inputs outside the theorem's domain). -/
def judge (impl model : String) (pred : Option Bool) (clause : String) : Verdict :=
  match pred with
  | some false => .propfail clause
  | _ => if impl == model then .ok else .diff model

/-- `bucketBitsForCount` (model) over `[lo, hi)` as change points `n:bits`, like the harness prints them. -/
def sweep (lo hi : Nat) : String :=
  let rec go (fuel n last : Nat) (acc : List String) : List String :=
    match fuel with
    | 0 => acc.reverse
    | fuel + 1 =>
      let b := bucketBitsForCount n
      if b == last then go fuel (n + 1) last acc else go fuel (n + 1) b (s!"{n}:{b}" :: acc)
  renderList (go (hi - lo) lo (2 ^ 64) [])

def step (_ : Unit) (op impl : String) : Unit × Verdict :=
  let ans := words impl
  let v : Verdict :=
    match words op with
    | ["zz64", xs] =>
      match u64? xs with
      | none => .bad
      | some x =>
        let e := zigzagEncode x
        let m := s!"{r64 e} {r64 (zigzagDecode e)}"
        let pred := match ans with | [_, d] => some (d == r64 x) | _ => some false
        judge impl m pred "zigzag64"
    | ["zd64", vs] =>
      match u64? vs with
      | none => .bad
      | some v =>
        let d := zigzagDecode v
        let m := s!"{r64 d} {r64 (zigzagEncode d)}"
        let pred := match ans with | [_, e] => some (e == r64 v) | _ => some false
        judge impl m pred "zigzag64-onto"
    | ["zz32", xs] =>
      match u64? xs with
      | none => .bad
      | some x =>
        let e := rendererZigzagEncode x
        let m := s!"{r32 e} {r64 (rendererZigzagDecode e)}"
        let inDom := (x.setWidth 32).signExtend 64 == x
        let pred := if inDom then (match ans with | [_, d] => some (d == r64 x) | _ => some false) else none
        judge impl m pred "zigzag32"
    | ["zd32", vs] =>
      match nat? vs with
      | none => .bad
      | some n =>
        let v := BitVec.ofNat 32 n
        let d := rendererZigzagDecode v
        let m := s!"{r64 d} {r32 (rendererZigzagEncode d)}"
        let pred := match ans with | [_, e] => some (e == r32 v) | _ => some false
        judge impl m pred "zigzag32-onto"
    | ["tns", ts, nss] =>
      match u64? ts, nat? nss with
      | some t, some n =>
        let ns := BitVec.ofNat 16 n
        let c := combineTypeNs t ns
        let (t', ns') := splitTypeNs c
        let m := s!"{r16 c} {r64 t'} {r16 ns'}"
        let inDom := decide (t < 8#64) && decide (ns < 8192#16)
        let pred := if inDom then (match ans with | [_, a, b] => some (a == r64 t && b == r16 ns) | _ => some false) else none
        judge impl m pred "type_ns"
      | _, _ => .bad
    | ["tnsd", cs] =>
      match nat? cs with
      | some n =>
        let (t', ns') := splitTypeNs (BitVec.ofNat 16 n)
        judge impl s!"{r64 t'} {r16 ns'}" none ""
      | none => .bad
    | ["vt", ts, vs] =>
      match u64? ts, u64? vs with
      | some t, some v =>
        let m := match encodeValueType t v with
          | none => "panic"
          | some e => s!"{r64 e} {r64 (decodeValue e)} {r64 (decodeValueType e)}"
        let inDom := decide (t < 4#64) && decide (v < 0x4000000000000000#64)
        let pred := if inDom then (match ans with | [_, a, b] => some (a == r64 v && b == r64 t) | _ => some false) else none
        judge impl m pred "value_type"
      | _, _ => .bad
    | ["geo", es, ls] =>
      match nat? es, u64? ls with
      | some en, some l =>
        let e := BitVec.ofNat 8 en
        let m := match encodeGeometry e l with
          | none => "panic"
          | some w => s!"{r64 w} {r64 (decodeGeometryLen w)} {r8 (decodeGeometryEncoding w)}"
        let inDom := decide (en < 3) && decide (l < 0x4000000000000000#64)
        let pred := if inDom then (match ans with | [_, a, b] => some (a == r64 l && b == r8 e) | _ => some false) else none
        judge impl m pred "geometry_len"
      | _, _ => .bad
    | ["geod", vs] =>
      match u64? vs with
      | some w => judge impl s!"{r64 (decodeGeometryLen w)} {r8 (decodeGeometryEncoding w)}" none ""
      | none => .bad
    | ["hdr", bs, ts, ids, tags, lens] =>
      match u64? bs, u64? ts, u64? ids, u64? tags, u64? lens with
      | some b, some t, some id, some tag, some len =>
        let w := headerPack id tag b t
        let bytes := putUvarint w.toNat ++ putUvarint len.toNat
        let bucket := bucketForID id b
        let m := s!"{renderHex bytes} {r64 bucket} {r64 (headerUnpackID bucket w b t)} {r64 (headerUnpackTag w t)} {r64 len} {bytes.length}"
        let inDom := layoutOK b t && decide (tag < (1#64 <<< t)) && decide (len < 0x8000000000000000#64)
        let pred := if inDom then
            (match ans with | [_, _, a, c, d, _] => some (a == r64 id && c == r64 tag && d == r64 len) | _ => some false)
          else none
        judge impl m pred "header_roundtrip"
      | _, _, _, _, _ => .bad
    | ["lay", bs, ts] =>
      match u64? bs, u64? ts with
      | some b, some t =>
        let (b', t') := builderLayout b t
        let pred := match ans with
          | [a, c] => (match u64? a, u64? c with
            | some ib, some it => some (layoutOK ib it && it == t)
            | _, _ => some false)
          | _ => some false
        judge impl s!"{r64 b'} {r64 t'}" pred "builder_layouts_ok"
      | _, _ => .bad
    | ["blay", cs, tys] =>
      -- model: builderLayout (bucketBitsForCount count) tagBits[type]; the float code may be one off next to
      -- powers of two ≥ 2^29 (`bucketBitsClose`), which is accepted; the predicate is `layoutOK` + the table's tag bits
      match nat? cs, nat? tys with
      | some cnt, some ty =>
        match tagBitsOfType ty, ans with
        | some tb, [a, c] =>
          (match u64? a, u64? c with
            | some ib, some it =>
              if !(layoutOK ib it && it.toNat == tb) then .propfail "builder_layouts_ok"
              else
                let (mb, mt) := builderLayout (BitVec.ofNat 64 (bucketBitsForCount cnt)) (BitVec.ofNat 64 tb)
                let close := (List.range 64).any fun g => bucketBitsClose cnt g &&
                  (builderLayout (BitVec.ofNat 64 g) (BitVec.ofNat 64 tb)) == (ib, it)
                if close then .ok else .diff s!"{mb.toNat} {mt.toNat}"
            | _, _ => .propfail "builder_layouts_ok")
        | some _, _ => .propfail "builder_layouts_ok"
        | none, _ => .bad
      | _, _ => .bad
    | ["bbits", ns] =>
      match nat? ns, ans with
      | some n, [g] =>
        (match nat? g with
          | some gv => if bucketBitsClose n gv then .ok else .diff (toString (bucketBitsForCount n))
          | none => .bad)
      | _, _ => .bad
    | ["bbsweep", los, his] =>
      match nat? los, nat? his with
      | some lo, some hi => if impl == sweep lo hi then .ok else .diff (sweep lo hi)
      | _, _ => .bad
    | ["tile", xs, ys, zs] =>
      match u64? xs, u64? ys, u64? zs with
      | some x, some y, some z =>
        let id := tileIDFromXYZ x y z
        let (x', y', z') := tileIDToXYZ id
        let m := s!"{r64 id} {r64 x'} {r64 y'} {r64 z'}"
        let inDom := decide (z ≤ 29#64) && decide (x < 1#64 <<< z) && decide (y < 1#64 <<< z)
        let pred := if inDom then
            (match ans with | [_, a, b, c] => some (a == r64 x && b == r64 y && c == r64 z) | _ => some false)
          else none
        judge impl m pred "tile_id"
      | _, _, _ => .bad
    | ["tiled", ids] =>
      match u64? ids with
      | some id =>
        let (x', y', z') := tileIDToXYZ id
        judge impl s!"{r64 x'} {r64 y'} {r64 z'}" none ""
      | none => .bad
    | ["ll", las, los] =>
      match nat? las, nat? los with
      | some la, some lo =>
        if la < 2 ^ 32 && lo < 2 ^ 32 then
          let lat := BitVec.ofNat 32 la
          let lng := BitVec.ofNat 32 lo
          let id := newLatLngID lat lng
          let (lat', lng') := latLngFromID id
          let m := s!"{r64 id} {r32 lat'} {r32 lng'}"
          let pred := match ans with | [_, a, b] => some (a == r32 lat && b == r32 lng) | _ => some false
          judge impl m pred "latlng_id"
        else .bad
      | _, _ => .bad
    | ["pc", hs] =>
      match (parseHex hs).bind asciiChars with
      | none => .bad
      | some s =>
        let p := normalizePostcode s
        let m := match pointIDFromGBPostcode s with
          | none => "invalid"
          | some id => match postcodeFromPointID id with
            | none => s!"{id} none"
            | some back => s!"{id} {hexOfChars back}"
        let inDom := decide (5 ≤ p.length) && decide (p.length ≤ 7) && p.all fun c => (postcodeCharValue c).isSome
        let pred := if inDom then (match ans with | [_, back] => some (back == hexOfChars p) | _ => some false) else none
        judge impl m pred "postcode_roundtrip"
    | ["pcd", vs] =>
      match u64? vs with
      | some v =>
        let m := match postcodeFromPointID v.toNat with | none => "none" | some back => hexOfChars back
        judge impl m none ""
      | none => .bad
    | ["ons", hs, ys] =>
      match (parseHex hs).bind asciiChars, int? ys with
      | some code, some year =>
        let m := match featureIDFromUKONSCode code year with
          | none => "invalid"
          | some v => let (back, y) := ukONSCodeFromFeatureID v; s!"{r64 v} {hexOfChars back} {y}"
        let inDom := match code with
          | _ :: ds => decide (ds.length = 8) && (ds.all fun c => (digitValue c).isSome) && decide (1900 ≤ year) && decide (year ≤ 2155)
          | [] => false
        let pred := if inDom then
            (match ans with | [_, back, y] => some (back == hexOfChars code && y == toString year) | _ => some false)
          else none
        judge impl m pred "ons_roundtrip"
      | _, _ => .bad
    | ["onsd", vs] =>
      match u64? vs with
      | some v => let (back, y) := ukONSCodeFromFeatureID v; judge impl s!"{hexOfChars back} {y}" none ""
      | none => .bad
    | _ => .bad
  ((), v)

def family : Family := { σ := Unit, init := (), step := step }

end B6.Driver.C10

def main : IO Unit := B6.Driver.run B6.Driver.C10.family
