import B6.Driver.Common
import B6.Model.Merged
/-!
Driver for C17 — worlds merged from several compact index files.

The harness describes every built file as the real decoders see it (namespace table, feature blocks with
their entries, what each entry answers when its file is loaded alone, the stream of its search index for
each query), then merges the files into one `compact.World` and asks it questions.  The driver rebuilds the
merged world with `B6.Model.Merged` from the per-file facts, recomputes every answer with the model, and
evaluates the property on the implementation's answer: the merged world answers like the one-file build of
the union of the features (second half of an answer, `-` when the case duplicates ids on purpose).

ids are `<type>/<namespace rank>/<value>`.

  `nss [..]`                                 namespaces in byte order (`~` is the empty namespace); checked
  `file k plain|overlay table=[ranks]`       namespace table of file k (codes → ranks); checked duplicate-free
  `block k t nsenc=[a b c d]`  => `[v:kind[:path,path] ..]`   kind ∈ c f r x; points: paths recorded against them
  `feat k id`                  => `content|nil`    file k alone: FindFeatureByID
  `ploc k id`                  => `e7|err`         file k alone: FindLocationByID
  `load [k ..]`                => `ok`
  `idx k q`                    => `[ids]`          per-index stream in the merged world; checked ascending
  `find id` `has id` `loc id` `prefs id` `pts id` `each` `search q`   => `merged ## union`
  `hasid id`                   => `true|false`     FeaturesByID.HasFeatureWithID
  `istart cap=n` `imerge k` `iidx k q` `ifind id` `ihas id` `ieach` `isearch q`   an incremental history: the world after
                                             each merge is the model's append of that file's blocks; same answers expected
  `reset`
  `build`                      => `builder-crash`  the child died inside the builder (accepted); `crash` / `hang` (rejected)
-/
open B6.Driver B6.Model.Merged
namespace B6.Driver.C17

abbrev Blk := Block String String
abbrev Fl := File String String String

structure FileSt where
  table : List Nat
  overlay : Bool := false
  /-- incremental history: the stream of this file's index for a query in the world merged so far (`none`: it panicked) -/
  istreams : List (String × Option (List ID)) := []
  blocks : Array Blk := #[]
  streams : List (String × List ID) := []

/-- one source feature of a case the builder died on: file, type, namespace, namespaces of its path points and
of its point members -/
structure Src where
  file : Nat
  typ : Nat
  ns : String
  refs : List String
  pts : List String

/-- finding C01 `point-member-without-block`: a relation lists a point in a namespace in which its file has neither
a point nor a path point — `compact.Build` dies ("No builder for type point in namespace N") -/
def pointMemberWithoutBlock (srcs : List Src) : Bool :=
  srcs.any fun r => r.typ == 3 && r.pts.any fun ns =>
    !(srcs.any fun p => p.file == r.file && ((p.typ == 0 && p.ns == ns) || p.refs.contains ns))

structure St where
  nss : Nat := 0
  files : Array FileSt := #[]
  order : List Nat := []
  world : List Blk := []
  chain : List Blk := []
  /-- incremental history: files merged so far, and their blocks -/
  incFiles : List Nat := []
  inc : List Blk := []
  srcs : List Src := []

def renderID (i : ID) : String := s!"{i.typ}/{i.ns}/{i.val}"

def parseID (s : String) : Option ID :=
  match s.splitOn "/" with
  | [t, n, v] => do
    let t ← t.toNat?
    let n ← n.toNat?
    let v ← v.toNat?
    pure ⟨t, n, v⟩
  | _ => none

def parseIDs (s : String) : Option (List ID) := do
  let ws ← parseBracket s
  ws.mapM parseID

def renderIDs (l : List ID) : String := renderList (l.map renderID)

def parseNats (s : String) : Option (List Nat) := do
  let ws ← parseBracket s
  ws.mapM (·.toNat?)

def parseKind : String → Option Kind
  | "c" => some .common
  | "f" => some .full
  | "r" => some .refOnly
  | "x" => some .plain
  | _ => none

def parseEntry (s : String) : Option (Entry String String) :=
  match s.splitOn ":" with
  | [v, k] => do
    let v ← v.toNat?
    let k ← parseKind k
    pure ⟨v, k, "", none, []⟩
  | [v, k, ps] => do
    let v ← v.toNat?
    let k ← parseKind k
    let ps ← (ps.splitOn ",").mapM parseID
    pure ⟨v, k, "", none, ps⟩
  | _ => none

def strictlyAscending : List String → Bool
  | a :: b :: rest => decide (a < b) && strictlyAscending (b :: rest)
  | _ => true

def sortedIDs : List ID → Bool
  | a :: b :: rest => !decide (b < a) && sortedIDs (b :: rest)
  | _ => true

def strictIDs : List ID → Bool
  | a :: b :: rest => decide (a < b) && strictIDs (b :: rest)
  | _ => true

def insertID (x : ID) : List ID → List ID
  | [] => [x]
  | y :: ys => if x < y then x :: y :: ys else y :: insertID x ys

def sortIDs (l : List ID) : List ID := l.foldr insertID []

/-- split `merged ## union` -/
def splitBoth (impl : String) : String × String :=
  match impl.splitOn " ## " with
  | [a, b] => (a, b)
  | _ => (impl, "-")

/-- impl vs union build (the property) first, then impl vs model -/
def judge (m u model clause : String) : Verdict :=
  if u != "-" && m != u then .propfail clause
  else if m != model then .diff model
  else .ok

/-- update the entry `id` of file `k` (first block of the file that matches the id and has the value) -/
def updateEntry (f : FileSt) (id : ID) (upd : Entry String String → Entry String String) :
    Option (FileSt × Entry String String) := do
  let i ← f.blocks.findIdx? (fun b => b.matchesID id && (b.findFirst id.val).isSome)
  let b ← f.blocks[i]?
  let e ← b.findFirst id.val
  let b' : Blk := { b with entries := b.entries.map (fun x => if x.val == id.val then upd x else x) }
  pure ({ f with blocks := f.blocks.set! i b' }, e)

/-- the references of a path from its content word `id|tags|path:a;b;c` (`@lat,lng` is a literal location) -/
def refsOfContent (content : String) : Option (List String) :=
  match content.splitOn "|path:" with
  | [_, r] => some (if r == "" then [] else r.splitOn ";")
  | _ => none

def modelPts (w : List Blk) (content : String) : String :=
  match refsOfContent content with
  | none => "not-a-path"
  | some rs =>
    let step (r : String) : Option String :=
      if r.startsWith "@" then some (sdrop r 1) else (parseID r).bind (loc w)
    match rs.mapM step with
    | some ls => renderList ls
    | none => "panic"

def toFile (f : FileSt) : Fl :=
  { table := f.table, blocks := f.blocks.toList,
    index := fun q => match f.streams.lookup q with | some l => l | none => [] }

def step (s : St) (op impl : String) : St × Verdict :=
  match words op with
  | ["reset"] => ({}, .ok)
  | "src" :: k :: t :: ns :: _ =>
    match k.toNat?, t.toNat?, op.splitOn " refs=" with
    | some k, some t, [_, rest] =>
      match rest.splitOn " pts=" with
      | [r, p] =>
        match parseBracket r, parseBracket p with
        | some rs, some ps => ({ s with srcs := ⟨k, t, ns, rs, ps⟩ :: s.srcs }, .ok)
        | _, _ => (s, .bad)
      | _ => (s, .bad)
    | _, _, _ => (s, .bad)
  | ["build"] =>
    -- the child died inside compact.Build*: accepted only for an input class known to kill the builder (C01's
    -- findings), recognised on the source the harness describes; any other builder death is reported, and a
    -- death outside the builder (`crash`, `hang`) is rejected
    if impl == "builder-crash" then
      (s, if pointMemberWithoutBlock s.srcs then .ok else .propfail "build-crash")
    else (s, .bad)
  | "istart" :: _ =>
    ({ s with incFiles := [], inc := [], files := s.files.map (fun f => { f with istreams := [] }) }, .ok)
  | ["imerge", k] =>
    match k.toNat? with
    | some k =>
      match s.files[k]? with
      | some f =>
        -- Merge appends the file's blocks (and index) to the world as it is
        ({ s with incFiles := s.incFiles ++ [k], inc := s.inc ++ f.blocks.toList,
                  files := s.files.map (fun f => { f with istreams := [] }) },
         if impl == "ok" then .ok else .diff "ok")
      | none => (s, .bad)
    | none => (s, .bad)
  | ["iidx", k, q] =>
    match k.toNat? with
    | some k =>
      match s.files[k]? with
      | some f =>
        if impl == "panic" then
          -- an overlay's index cannot resolve base points while a file it was built against is still missing
          let s' := { s with files := s.files.set! k { f with istreams := (q, none) :: f.istreams } }
          -- (any stream can meet such a path: a duplicated id resolves to the first merged file's version)
          let pending := s.incFiles.any fun o =>
            (match s.files[o]? with | some fo => fo.overlay | none => false) &&
              (List.range o).any (fun j => !s.incFiles.contains j)
          if pending then (s', .ok) else (s', .diff "[…]")
        else
          match parseIDs impl with
          | some ids =>
            let s' := { s with files := s.files.set! k { f with istreams := (q, some ids) :: f.istreams } }
            if sortedIDs ids then (s', .ok) else (s', .propfail "index-stream-ascending")
          | none => (s, .bad)
      | none => (s, .bad)
    | none => (s, .bad)
  | ["ifind", id] =>
    match parseID id with
    | some id =>
      -- `merged_lookup` after every step: the model's answer is the property's (first hit over the files merged so far)
      let model := (find s.inc id).getD "nil"
      (s, if impl == model then .ok else .propfail ("incremental-lookup expected=" ++ model))
    | none => (s, .bad)
  | ["ihas", id] =>
    match parseID id with
    | some id =>
      let model := toString (has s.inc id)
      (s, if impl == model then .ok else .propfail ("incremental-exists expected=" ++ model))
    | none => (s, .bad)
  | ["ieach"] =>
    (s, judge impl "-" (match each s.inc with | some ids => renderIDs ids | none => "panic") "incremental-each")
  | ["isearch", q] =>
    let fs := s.incFiles.filterMap (fun k => s.files[k]?)
    let streams := fs.map (fun f => f.istreams.lookup q)
    if streams.any (·.isNone) then (s, .bad)
    else if streams.any (· == some none) then (s, judge impl "-" "panic" "incremental-search")
    else
      let cs := streams.filterMap (fun o => o.join)
      -- every id comes with its feature (`!nil` marks an id whose lookup failed)
      (s, judge impl "-" (renderIDs (merged cs)) "incremental-search")
  | "chain" :: _ =>
    match (sdrop op 6).splitOn "] [" with
    | [a, b] =>
      match parseNats (a ++ "]"), parseNats ("[" ++ b) with
      | some tops, some bases =>
        let blocksOf (ks : List Nat) := mergeBlocks ((ks.filterMap (fun k => s.files[k]?)).map toFile)
        -- the chain's own blocks are scanned first, then `f.base`
        ({ s with chain := blocksOf tops ++ blocksOf bases }, if impl == "ok" then .ok else .diff "ok")
      | _, _ => (s, .bad)
    | _ => (s, .bad)
  | ["cfind", id] =>
    match parseID id with
    | some id => (s, judge impl "-" ((find s.chain id).getD "nil") "chain-lookup")
    | none => (s, .bad)
  | ["cloc", id] =>
    match parseID id with
    | some id => (s, judge impl "-" ((loc s.chain id).getD "err") "chain-location")
    | none => (s, .bad)
  | "nss" :: _ =>
    match parseBracket (sdrop op 4) with
    | some (w :: ws) => if w == "~" && strictlyAscending ws && !ws.contains "~" then ({ s with nss := ws.length + 1 }, .ok) else (s, .bad)
    | _ => (s, .bad)
  | "file" :: k :: _ :: _ =>
    match op.splitOn " table=", k.toNat? with
    | [_, t], some k =>
      match parseNats t with
      | some table =>
        if k == s.files.size && table.all (· < s.nss) && table.eraseDups.length == table.length then
          ({ s with files := s.files.push { table := table, overlay := (words op)[2]? == some "overlay" } }, .ok)
        else (s, .bad)
      | none => (s, .bad)
    | _, _ => (s, .bad)
  | "block" :: k :: t :: _ =>
    match op.splitOn " nsenc=", k.toNat?, t.toNat?, (parseBracket impl).bind (·.mapM parseEntry) with
    | [_, ne], some k, some t, some es =>
      match parseNats ne, s.files[k]? with
      | some nsenc, some f =>
        let b : Blk := ⟨t, nsenc, f.table, es⟩
        if nsenc.length == 4 && t < numTypes && b.ns?.isSome then
          ({ s with files := s.files.set! k { f with blocks := f.blocks.push b } }, .ok)
        else (s, .bad)
      | _, _ => (s, .bad)
    | _, _, _, _ => (s, .bad)
  | ["feat", k, id] =>
    match k.toNat?, parseID id with
    | some k, some id =>
      match s.files[k]? with
      | some f =>
        -- the file alone: the model's lookup decides nil / non-nil; a found feature carries its id
        let expectFound := (find f.blocks.toList id).isSome
        match updateEntry f id (fun e => { e with content := impl }) with
        | some (f', _) =>
          let s' := { s with files := s.files.set! k f' }
          if expectFound then
            if impl == "nil" then (s', .diff "non-nil")
            else if !impl.startsWith (renderID id ++ "|") then (s', .diff (renderID id ++ "|…"))
            else (s', .ok)
          else if impl == "nil" then (s', .ok) else (s', .diff "nil")
        | none => (s, .bad)
      | none => (s, .bad)
    | _, _ => (s, .bad)
  | ["ploc", k, id] =>
    match k.toNat?, parseID id with
    | some k, some id =>
      match s.files[k]? with
      | some f =>
        match updateEntry f id (fun e => { e with loc := if impl == "err" then none else some impl }) with
        | some (f', e) =>
          let s' := { s with files := s.files.set! k f' }
          if !e.real && impl != "err" then (s', .diff "err") else (s', .ok)
        | none => (s, .bad)
      | none => (s, .bad)
    | _, _ => (s, .bad)
  | "load" :: _ =>
    match parseNats (sdrop op 5) with
    | some order =>
      if order.all (· < s.files.size) then
        let fs := order.filterMap (fun k => s.files[k]?)
        let s' := { s with order := order, world := mergeBlocks (fs.map toFile) }
        (s', if impl == "ok" then .ok else .diff "ok")
      else (s, .bad)
    | none => (s, .bad)
  | ["idx", k, q] =>
    match k.toNat?, parseIDs impl with
    | some k, some ids =>
      match s.files[k]? with
      | some f =>
        let s' := { s with files := s.files.set! k { f with streams := (q, ids) :: f.streams } }
        -- the hypothesis of `merged_search`: every per-index stream is ascending
        if sortedIDs ids then (s', .ok) else (s', .propfail "index-stream-ascending")
      | none => (s, .bad)
    | _, _ => if impl == "panic" then (s, .diff "[…]") else (s, .bad)
  | ["find", id] =>
    match parseID id with
    | some id =>
      let (m, u) := splitBoth impl
      (s, judge m u ((find s.world id).getD "nil") "lookup-union")
    | none => (s, .bad)
  | ["has", id] =>
    match parseID id with
    | some id =>
      let (m, u) := splitBoth impl
      (s, judge m u (toString (has s.world id)) "exists-union")
    | none => (s, .bad)
  | ["hasid", id] =>
    match parseID id with
    | some id =>
      -- `has_eq_find`: the repaired function agrees with the lookup; anything else breaks the property
      if impl == toString (find s.world id).isSome then
        (s, if impl == toString (hasByID s.world id) then .ok else .diff (toString (hasByID s.world id)))
      else (s, .propfail "exists-agrees-with-lookup")
    | none => (s, .bad)
  | ["loc", id] =>
    match parseID id with
    | some id =>
      let (m, u) := splitBoth impl
      (s, judge m u ((loc s.world id).getD "err") "location-union")
    | none => (s, .bad)
  | ["prefs", id] =>
    match parseID id with
    | some id =>
      let (m, u) := splitBoth impl
      let model := renderIDs (B6.Model.Merged.pathRefs s.world id)
      -- the union build lists the paths in its own order: compare as sorted lists
      match parseIDs m with
      | some ids =>
        if u != "-" && renderIDs (sortIDs ids) != u then (s, .propfail "paths-by-point-union")
        else (s, if m == model then .ok else .diff model)
      | none => (s, if u != "-" then .propfail "paths-by-point-union" else .diff model)
    | none => (s, .bad)
  | ["pts", id] =>
    match parseID id with
    | some id =>
      let (m, u) := splitBoth impl
      let model := match find s.world id with
        | none => "nil"
        | some c => modelPts s.world c
      (s, judge m u model "path-points-union")
    | none => (s, .bad)
  | ["each"] =>
    let (m, u) := splitBoth impl
    let model := match each s.world with
      | some ids => renderIDs ids
      | none => "panic"
    -- the union build lists its features in its own block order: compare as sorted lists
    match parseIDs m with
    | some ids =>
      if u != "-" && renderIDs (sortIDs ids) != u then (s, .propfail "each-union")
      else (s, if m == model then .ok else .diff model)
    | none => (s, if u != "-" then .propfail "each-union" else .diff model)
  | ["search", q] =>
    let (m, u) := splitBoth impl
    let fs := s.order.filterMap (fun k => s.files[k]?)
    if fs.any (fun f => (f.streams.lookup q).isNone) then (s, .bad) else
    let model := renderIDs (search (fs.map toFile) q)
    match parseIDs m with
    | some ids =>
      if !strictIDs ids then (s, .propfail "search-id-order-no-duplicates")
      else (s, judge m u model "search-union")
    | none => (s, if u != "-" then .propfail "search-union" else .diff model)
  | [k, id] =>
    if k == "rels" || k == "refs" || k == "areas" || k == "trav" then
      let (m, u) := splitBoth impl
      if u == "-" || m == u then (s, .ok)
      else if k == "rels" || k == "refs" then
        -- no model answer: merged vs union; the known class is recognised on the files' contents
        let fs := (s.order.filterMap (fun k => s.files[k]?)).map toFile
        match parseID id, parseIDs m, parseIDs u with
        | some id, some ms, some us =>
          if crossFileOnly fs id ms us then (s, .propfail "references-union class=cross-file-referrer")
          else (s, .propfail "references-union")
        | _, _, _ => (s, .propfail "references-union")
      else (s, .propfail "references-union")
    else (s, .bad)
  | _ => (s, .bad)

def family : Family := { σ := St, init := {}, step := step }

end B6.Driver.C17

def main : IO Unit := B6.Driver.run B6.Driver.C17.family
