import B6.Driver.Common
import B6.Model.Mutable
import B6.Spec.World
/-!
Shared driver of C12 / C13 / C14 (the three executables run the same family; the harnesses differ).

ops (written by `harness/cmd/c12/mw`):
  `root <feature>`                      `ok|err`      feature added to the BasicMutableWorld root
  `world`                               `ok`          NewMutableOverlayWorld(root)
  `addfeature <feature>`                `ok|err`
  `addtag <id> <k=kind:str>`            `ok|err`
  `rmtag <id> <key>`                    `ok|err`
  `chg af|at|rt` / `elt …` / `mapply`   `ok` / `ok` / `ok|err|partial`     MergedChange
  `snapshot`                            `h<k>`
  `reads live|s<k>`                     spec-level dump      `geom live|s<k>`   model-level dump
  `spatial live|s<k>`                   `<query>|<found>|<matching> …`: spatial search vs brute force on the real world → `propfail spatial-search-complete`
  `tworld` / `taddtag <id> <k=v>` / `tsnapshot` / `treads t|ts<k>`   MutableTagsOverlayWorld
  `<feature>` = `<id> pt:<lat>:<lng>|path:<ids>|area:<ids>|rel:<ids>|col:<ids> [k=kind:str …]`

Verdicts.  `reads` of the live world: implementation ≠ per-feature map spec → `propfail reads-differ-from-map`;
after a rejected AddFeature / failed MergedChange any difference to the dump before the call →
`propfail rejected-changed-world`; `partial` → `propfail merged-partially-applied`; the hypothesis `canaryRefsAgree` of
`merged_atomic_of_refs` is evaluated on every merged change and reported with that propfail (a false hypothesis alone is no failure); a snapshot's dump that
differs from the first dump taken of it (or from the spec map frozen with it) → `propfail snapshot-changed`.
Anything else that differs from the Lean model's answer → `diff`.
-/
open B6.Driver B6.Model.Mutable
namespace B6.Driver.Mutable

/-! ### the universe (must agree with harness/cmd/c12/mw) -/
def allIds : List Id := [1, 2, 3, 4, 7, 8, 9, 1005, 1009, 1011, 2006, 2010, 3012, 3013, 5014]
def tokenNames : List Token :=
  ["amenity=cafe", "amenity=pub", "amenity=5", "amenity=7", "highway=cafe", "highway=pub", "highway=5",
   "highway=7", "lit"]

/-! ### the oracle instance: planar predicates on E7 coordinates (x = lng, y = lat).  For the
harness's irregular, pairwise distinct positions this is what S2 answers (the golang/geo version in
go.mod only rejects loops with < 3 vertices or a degenerate edge). -/
def shoelace (pts : List Pt) : Int :=
  match pts with
  | [] => 0
  | p0 :: _ =>
    let rec go : List Pt → Int
      | [] => 0
      | [a] => a.2 * p0.1 - p0.2 * a.1
      | a :: b :: r => a.2 * b.1 - b.2 * a.1 + go (b :: r)
    go pts

def adjacentDistinct (pts : List Pt) : Bool :=
  match pts with
  | [] => true
  | p0 :: _ =>
    let rec go : List Pt → Bool
      | [] => true
      | [a] => a != p0
      | a :: b :: r => a != b && go (b :: r)
    go pts

def planar : Oracle :=
  { loopValid := fun pts => decide (pts.length ≥ 3) && adjacentDistinct pts,
    clockwise := fun pts => decide (shoelace pts < 0) }

/-! ### parsing -/
def parseIds (s : String) : Option (List Id) :=
  if s.isEmpty then some [] else (s.splitOn ",").mapM String.toNat?

def parseTag (s : String) : Option Tag :=
  match s.splitOn "=" with
  | [k, v] =>
    match v.splitOn ":" with
    | [kind, str] => some (k, ⟨kind, str⟩)
    | _ => none
  | _ => none

def parseGeom (s : String) : Option Geom :=
  match s.splitOn ":" with
  | ["pt", lat, lng] => do
    let a ← lat.toInt?
    let b ← lng.toInt?
    some (.point (a, b))
  | ["path", ids] => (parseIds ids).map .path
  | ["area", ids] => (parseIds ids).map .area
  | ["rel", ids] => (parseIds ids).map .relation
  | ["col", ids] => (parseIds ids).map .collection
  | _ => none

/-- `<id> <geom> [tags]` -/
def parseFeature (ws : List String) : Option Feature :=
  match ws with
  | id :: g :: rest => do
    let id ← id.toNat?
    let g ← parseGeom g
    let ts ← parseBracket (" ".intercalate rest)
    let tags ← ts.mapM parseTag
    some ⟨id, tags, g⟩
  | _ => none

/-! ### rendering -/
def valText (v : Val) : String := v.kind ++ ":" ++ v.str

def insertStr (x : String) : List String → List String
  | [] => [x]
  | y :: r => if x < y then x :: y :: r else y :: insertStr x r

def sortStrs (xs : List String) : List String := xs.foldl (fun acc x => insertStr x acc) []

def tagsText (ts : List Tag) : String :=
  "{" ++ ",".intercalate (sortStrs (ts.map fun t => t.1 ++ "=" ++ valText t.2)) ++ "}"

def idsText (xs : List Id) : String := ",".intercalate (xs.map toString)
def idList (xs : List Id) : String := "[" ++ " ".intercalate (xs.map toString) ++ "]"
def sortIds (xs : List Id) : List Id := xs.foldl (fun acc x => insertSorted x acc) []

def ptText (p : Pt) : String := toString p.1 ++ ":" ++ toString p.2

def geomText (fv : FV) : String :=
  match fv.f.geom with
  | .point p => "pt:" ++ ptText p
  | .path ps => "path:" ++ idsText ps ++ "@" ++
      (match fv.pts with
       | some pts => ";".intercalate (pts.map ptText)
       | none => "panic")
  | .area ps => "area:" ++ idsText ps
  | .relation ms => "rel:" ++ idsText ms
  | .collection ks => "col:" ++ idsText ks

/-- the spec-level dump computed from a view -/
def readsOfView (v : View) : String :=
  let per := allIds.map fun id =>
    match v.find id with
    | some fv => toString id ++ tagsText fv.f.tags
    | none => toString id ++ "-"
  let toks := tokenNames.map fun t => t ++ ":" ++ idList (v.search t)
  let each := sortIds v.ids
  " ".intercalate per ++ " | " ++ " ".intercalate toks ++ " | each:" ++ idList each

/-- the spec-level dump computed from the per-feature map -/
def readsOfSpec (w : B6.Spec.World.World) : String :=
  let per := allIds.map fun id =>
    match B6.Spec.World.find w id with
    | some m => toString id ++ tagsText m
    | none => toString id ++ "-"
  let toks := tokenNames.map fun t => t ++ ":" ++ idList (B6.Spec.World.matching w t)
  let each := sortIds (B6.Spec.World.ids w)
  " ".intercalate per ++ " | " ++ " ".intercalate toks ++ " | each:" ++ idList each

/-- `EachModifiedTag`: every recorded plain-tag modification, by id then key -/
def mtagsText (mods : List (Id × Mods)) : String :=
  renderList ((sortIds (AMap.keys mods)).flatMap fun id =>
    sortStrs ((modsOf mods id).map fun e =>
      match e.2 with
      | .set v => toString id ++ ":" ++ e.1 ++ "=" ++ valText v
      | .del => toString id ++ ":" ++ e.1 ++ "-"))

def geomOfView (v : View) (mods : Option (List Id × List (Id × Mods))) : String :=
  let per := allIds.map fun id =>
    match v.find id with
    | some fv => toString id ++ ":" ++ geomText fv
    | none => toString id ++ "-"
  let toks := tokenNames.map fun t => t ++ ":" ++ renderList ((v.search t).map fun id =>
    match v.hitFV id with
    | some fv => toString id ++ tagsText fv.f.tags ++ geomText fv
    | none => toString id ++ "?")
  let each := (sortIds v.ids).map fun id =>
    match v.find id with
    | some fv => toString id ++ tagsText fv.f.tags
    | none => toString id ++ "?"
  let refs := allIds.map fun id => toString id ++ "<" ++ idsText (sortIds (v.refs id))
  let base := " ".intercalate per ++ " | " ++ " ".intercalate toks ++ " | each:" ++ renderList each
    ++ " | refs:" ++ " ".intercalate refs
  match mods with
  | some m => base ++ " | mod:" ++ idList (sortIds m.1) ++ " | mtags:" ++ mtagsText m.2
  | none => base

/-- parse the per-id part of a `reads` dump back into a spec map (resynchronisation) -/
def parseReads (s : String) : Option B6.Spec.World.World :=
  match s.splitOn " | " with
  | per :: _ =>
    (words per).foldlM (fun (w : B6.Spec.World.World) word =>
      if word.endsWith "-" || word.endsWith "!has" then some w else
      match word.splitOn "{" with
      | [id, rest] => do
        let id ← id.toNat?
        let body := sdropEnd rest 1
        let tags ← (if body.isEmpty then some [] else (body.splitOn ",").mapM parseTag)
        some (w ++ [(id, tags)])
      | _ => none) []
  | _ => none

/-! ### state -/
structure St where
  rootFeats : List Feature := []
  store : Option Store := none
  spec : B6.Spec.World.World := []
  snapSpecs : List B6.Spec.World.World := []
  /-- first dumps seen of each snapshot: reads, geom -/
  snapObs : List (Option String × Option String) := []
  prevReads : Option String := none
  prevGeom : Option String := none
  /-- the last mutating call was rejected: the next dumps must equal the previous ones -/
  rejected : Bool := false
  checkReads : Bool := false
  checkGeom : Bool := false
  pending : List Change := []
  tstore : Option TagsStore := none
  tsnapObs : List (Option String) := []

def St.root (s : St) : View := rootView s.rootFeats

def setNth {α} (xs : List α) (i : Nat) (x : α) : List α :=
  xs.mapIdx fun j y => if j = i then x else y

def ansOf : Option Err → String
  | none => "ok"
  | some .partiallyApplied => "partial"
  | some _ => "err"

/-- a mutating op on the live world: run the model, update the spec according to the
implementation's answer -/
def mutate (st : St) (op : Op) (impl : String) (specStep : B6.Spec.World.World → B6.Spec.World.World) : St × Verdict :=
  match st.store with
  | none => (st, .bad)
  | some s =>
    let (s', e) := s.step planar op
    let m := ansOf e
    let st := { st with store := some s', rejected := impl != "ok", checkReads := impl != "ok", checkGeom := impl != "ok",
                        spec := if impl == "ok" then specStep st.spec else st.spec }
    if impl == "partial" then (st, .propfail "merged-partially-applied")
    else if impl == m then (st, .ok) else (st, .diff m)

def worldOf (st : St) (name : String) : Option (View × Option (List Id × List (Id × Mods)) × Option Nat) :=
  match st.store with
  | none => none
  | some s =>
    if name == "live" then
      some (s.live, (s.layers.head?.map fun l => (AMap.keys l.feats, l.mods)), none)
    else if name.startsWith "s" then
      match (sdrop name 1).toNat? with
      | some k =>
        if k ≥ 1 ∧ k ≤ s.layers.length - 1 then
          -- the k-th snapshot froze the k oldest layers
          let ls := s.layers.drop (s.layers.length - k)
          some (s.snap k, (ls.head?.map fun l => (AMap.keys l.feats, l.mods)), some (k - 1))
        else none
      | none => none
    else none

def step (st : St) (op impl : String) : St × Verdict :=
  match words op with
  | "root" :: ws =>
    -- a root line after a world was created starts a new world (several worlds in one corpus block)
    let st : St := if st.store.isSome || st.tstore.isSome then {} else st
    match parseFeature ws with
    | none => (st, .bad)
    | some f =>
      let m := if validate st.root planar f then "ok" else "err"
      let st := if impl == "ok" then { st with rootFeats := st.rootFeats ++ [f] } else st
      (st, if impl == m then .ok else .diff m)
  | ["world"] =>
    let spec : B6.Spec.World.World := (AMap.keys (rootFeats st.rootFeats)).filterMap fun id =>
      (AMap.get (rootFeats st.rootFeats) id).map fun f => (id, f.tags)
    ({ st with store := some ⟨st.root, [Layer.empty]⟩, spec := spec }, if impl == "ok" then .ok else .diff "ok")
  | "addfeature" :: ws =>
    match parseFeature ws with
    | none => (st, .bad)
    | some f => mutate st (.addFeature f) impl (fun w => B6.Spec.World.addFeature w f.id f.tags)
  | ["addtag", id, t] =>
    match id.toNat?, parseTag t with
    | some id, some t => mutate st (.addTag id t) impl (fun w => B6.Spec.World.addTag w id t)
    | _, _ => (st, .bad)
  | ["rmtag", id, k] =>
    match id.toNat? with
    | some id => mutate st (.removeTag id k) impl (fun w => B6.Spec.World.removeTag w id k)
    | none => (st, .bad)
  | ["chg", kind] =>
    let c? : Option Change := match kind with
      | "af" => some (.addFeatures [])
      | "at" => some (.addTags [])
      | "rt" => some (.removeTags [])
      | _ => none
    match c? with
    | some c => ({ st with pending := st.pending ++ [c] }, if impl == "ok" then .ok else .diff "ok")
    | none => (st, .bad)
  | "elt" :: ws =>
    match st.pending.getLast? with
    | none => (st, .bad)
    | some c =>
      let c'? : Option Change := match c, ws with
        | .addFeatures fs, ws => (parseFeature ws).map fun f => .addFeatures (fs ++ [f])
        | .addTags ts, [id, t] => do
          let id ← id.toNat?
          let t ← parseTag t
          some (.addTags (ts ++ [(id, t)]))
        | .removeTags ts, [id, k] => do
          let id ← id.toNat?
          some (.removeTags (ts ++ [(id, k)]))
        | _, _ => none
      match c'? with
      | some c' => ({ st with pending := st.pending.dropLast ++ [c'] }, if impl == "ok" then .ok else .diff "ok")
      | none => (st, .bad)
  | ["mapply"] =>
    let cs := st.pending
    -- the executable hypothesis of C13 `merged_atomic_of_refs`, evaluated on the state before the call
    let hyp := match st.store with
      | some s => (match s.layers with
        | l :: _ => canaryRefsAgree s.baseView planar l cs
        | [] => true)
      | none => true
    let (st, v) := mutate st (.merged cs) impl (fun w => B6.Spec.World.applyOp w (.merged cs))
    -- a false hypothesis alone is not a failure of the property (the theorem just does not cover the
    -- case); it is reported when atomicity itself fails, to say whether the theorem covered the case
    let v := match v with
      | .propfail c => .propfail (c ++ (if hyp then " (canaryRefsAgree=true: inside merged_atomic_of_refs)"
                                               else " (canaryRefsAgree=false: outside merged_atomic_of_refs)"))
      | other => other
    ({ st with pending := [] }, v)
  | ["snapshot"] =>
    match st.store with
    | none => (st, .bad)
    | some s =>
      let (s', h) := s.snapshot
      let m := "h" ++ toString h
      ({ st with store := some s', snapSpecs := st.snapSpecs ++ [st.spec], snapObs := st.snapObs ++ [(none, none)],
                 rejected := false, checkReads := false, checkGeom := false },
       if impl == m then .ok else .diff m)
  | ["reads", name] =>
    match worldOf st name with
    | none => (st, .bad)
    | some (v, _, none) =>
      -- the live world
      let m := readsOfView v
      let sp := readsOfSpec st.spec
      let changed := st.checkReads && st.prevReads != some impl
      let st' := { st with prevReads := some impl, checkReads := false }
      if changed then (st', .propfail "rejected-changed-world")
      else if impl != sp then
        -- resynchronise the spec map on what the implementation shows
        let st' := match parseReads impl with
          | some w => { st' with spec := w }
          | none => st'
        (st', .propfail "reads-differ-from-map")
      else if impl != m then (st', .diff m) else (st', .ok)
    | some (v, _, some i) =>
      let m := readsOfView v
      let sp := match st.snapSpecs[i]? with
        | some w => readsOfSpec w
        | none => m
      match st.snapObs[i]? with
      | none => (st, .bad)
      | some (none, g) =>
        let st' := { st with snapObs := setNth st.snapObs i (some impl, g) }
        if impl != sp then (st', .propfail "snapshot-changed reads-differ-from-frozen-map")
        else if impl != m then (st', .diff m) else (st', .ok)
      | some (some first, _) =>
        if impl != first then (st, .propfail "snapshot-changed reads")
        else if impl != sp then (st, .propfail "snapshot-changed reads-differ-from-frozen-map")
        else if impl != m then (st, .diff m) else (st, .ok)
  | ["geom", name] =>
    match worldOf st name with
    | none => (st, .bad)
    | some (v, mods, none) =>
      let m := geomOfView v mods
      let changed := st.checkGeom && st.prevGeom != some impl
      let st' := { st with prevGeom := some impl, checkGeom := false }
      if changed then (st', .propfail "rejected-changed-world geom")
      else if impl != m then (st', .diff m) else (st', .ok)
    | some (v, mods, some i) =>
      let m := geomOfView v mods
      match st.snapObs[i]? with
      | none => (st, .bad)
      | some (r, none) =>
        ({ st with snapObs := setNth st.snapObs i (r, some impl) }, if impl != m then .diff m else .ok)
      | some (_, some first) =>
        if impl != first then (st, .propfail "snapshot-changed geom")
        else if impl != m then (st, .diff m) else (st, .ok)
  | ["spatial", _] =>
    -- real code only (the model carries tag tokens, not S2 cell tokens): every word is
    -- `<query>|<ids the search found>|<ids that match by brute force>`; the search must be complete,
    -- and (as the iterators filter by `Matches`) return nothing else
    let parse (w : String) : Option (String × List Id × List Id) :=
      match w.splitOn "|" with
      | [n, r, b] => do
        let r ← parseIds r
        let b ← parseIds b
        some (n, r, b)
      | _ => none
    match (words impl).mapM parse with
    | none => (st, if impl == "panic" then .propfail "spatial-search-complete (panic)" else .bad)
    | some qs =>
      match qs.find? (fun q => q.2.2.any (fun x => !q.2.1.contains x)) with
      | some q => (st, .propfail ("spatial-search-complete: " ++ q.1 ++ " misses " ++
          idList (q.2.2.filter (fun x => !q.2.1.contains x))))
      | none =>
        match qs.find? (fun q => q.2.1.any (fun x => !q.2.2.contains x)) with
        | some q => (st, .propfail ("spatial-search-exact: " ++ q.1 ++ " returns non-matching " ++
            idList (q.2.1.filter (fun x => !q.2.2.contains x))))
        | none => (st, .ok)
  | ["tworld"] =>
    ({ st with tstore := some ⟨st.root, [[]]⟩ }, if impl == "ok" then .ok else .diff "ok")
  | ["taddtag", id, t] =>
    match st.tstore, id.toNat?, parseTag t with
    | some ts, some id, some t => ({ st with tstore := some (ts.addTag id t) }, if impl == "ok" then .ok else .diff "ok")
    | _, _, _ => (st, .bad)
  | ["tsnapshot"] =>
    match st.tstore with
    | none => (st, .bad)
    | some ts =>
      let (ts', h) := ts.snapshot
      let m := "h" ++ toString h
      ({ st with tstore := some ts', tsnapObs := st.tsnapObs ++ [none] }, if impl == m then .ok else .diff m)
  | ["treads", name] =>
    match st.tstore with
    | none => (st, .bad)
    | some ts =>
      let render (find : Id → Option FV) : String :=
        " ".intercalate (allIds.map fun id =>
          match find id with
          | some fv => toString id ++ tagsText fv.f.tags ++ geomText fv
          | none => toString id ++ "-")
        ++ " | " ++ " ".intercalate (tokenNames.map fun t => t ++ ":" ++ renderList ((ts.root.search t).map fun id =>
          match find id with
          | some fv => toString id ++ tagsText fv.f.tags
          | none => toString id ++ "?"))
      if name == "t" then
        let m := render ts.live
        (st, if impl != m then .diff m else .ok)
      else if name.startsWith "ts" then
        match (sdrop name 2).toNat? with
        | some k =>
          if k ≥ 1 ∧ k ≤ ts.layers.length - 1 then
            let m := render (ts.snap k)
            match st.tsnapObs[k - 1]? with
            | some none =>
              ({ st with tsnapObs := setNth st.tsnapObs (k - 1) (some impl) }, if impl != m then .diff m else .ok)
            | some (some first) =>
              if impl != first then (st, .propfail "snapshot-changed tags-world")
              else if impl != m then (st, .diff m) else (st, .ok)
            | none => (st, .bad)
          else (st, .bad)
        | none => (st, .bad)
      else (st, .bad)
  | _ => (st, .bad)

def family : Family := { σ := St, init := {}, step := step }

end B6.Driver.Mutable
