/-!
Line-protocol plumbing shared by every driver executable (core Lean only).

Input  : one line per operation, `<op text> => <implementation answer>` (the harness wrote both).
         `case …` lines start a new case (the family state is reset); `#…` lines are comments.
Output : exactly one line per input line:
         `ok` | `diff <model answer>` | `propfail <clause> [class=<known class>]` | `bad-op` | `-` (case/comment).
-/
namespace B6.Driver

inductive Verdict where
  | ok
  | diff (model : String)
  | propfail (clause : String)
  | bad
  | skip

def Verdict.render : Verdict → String
  | .ok => "ok"
  | .diff m => "diff " ++ m
  | .propfail c => "propfail " ++ c
  | .bad => "bad-op"
  | .skip => "-"

/-- A property family: a state, reset at every `case` line, and a step function that sees the operation
text and the implementation's canonical answer. -/
structure Family where
  σ : Type
  init : σ
  step : σ → (op : String) → (impl : String) → σ × Verdict

/-- split `a => b` at the LAST ` => ` (operation texts never contain it; answers never need to). -/
def splitArrow (line : String) : Option (String × String) :=
  match line.splitOn " => " with
  | [] => none
  | [_] => none
  | parts =>
    let op := " => ".intercalate parts.dropLast
    some (op, parts.getLast!)

/-! String helpers on `List Char` (Lean 4.33's `String.drop/take/trim` return `String.Slice`; these
stay plain `String → String` so drivers do not depend on that API). -/
def sdrop (s : String) (n : Nat) : String := String.ofList (s.toList.drop n)
def stake (s : String) (n : Nat) : String := String.ofList (s.toList.take n)
def sdropEnd (s : String) (n : Nat) : String := String.ofList (s.toList.take (s.length - n))
def isWs (c : Char) : Bool := c == ' ' || c == '\t' || c == '\n' || c == '\r'
def strim (s : String) : String :=
  String.ofList ((s.toList.dropWhile isWs).reverse.dropWhile isWs).reverse

def trimNL (s : String) : String :=
  String.ofList ((s.toList.reverse.dropWhile (fun c => c == '\n' || c == '\r')).reverse)

partial def loop (f : Family) (h : IO.FS.Stream) (out : IO.FS.Stream) (s : f.σ) : IO Unit := do
  let line ← h.getLine
  if line.isEmpty then return ()
  let line := trimNL line
  if line.startsWith "case" then
    out.putStrLn "-"
    loop f h out f.init
  else if line.startsWith "#" || line.isEmpty then
    out.putStrLn "-"
    loop f h out s
  else
    match splitArrow line with
    | none =>
      out.putStrLn "bad-op"
      loop f h out s
    | some (op, impl) =>
      let (s', v) := f.step s op impl
      out.putStrLn v.render
      loop f h out s'

def run (f : Family) : IO Unit := do
  let stdin ← IO.getStdin
  let stdout ← IO.getStdout
  loop f stdin stdout f.init
  stdout.flush

/-! Small parsing helpers. -/

def words (s : String) : List String := (s.splitOn " ").filter (· ≠ "")

/-- `[a b c]` or `[]` → list of words; `none` when brackets are missing. -/
def parseBracket (s : String) : Option (List String) :=
  let s := strim s
  if s.startsWith "[" && s.endsWith "]" then
    some (words (sdropEnd (sdrop s 1) 1))
  else none

def renderList (xs : List String) : String := "[" ++ " ".intercalate xs ++ "]"

def hexDigit? (c : Char) : Option Nat :=
  if '0' ≤ c && c ≤ '9' then some (c.toNat - '0'.toNat)
  else if 'a' ≤ c && c ≤ 'f' then some (c.toNat - 'a'.toNat + 10)
  else if 'A' ≤ c && c ≤ 'F' then some (c.toNat - 'A'.toNat + 10)
  else none

/-- hex string (even length, possibly empty, written `-` when empty) → bytes -/
def parseHex (s : String) : Option (List UInt8) :=
  if s == "-" then some [] else
  let rec go : List Char → List UInt8 → Option (List UInt8)
    | [], acc => some acc.reverse
    | [_], _ => none
    | a :: b :: rest, acc =>
      match hexDigit? a, hexDigit? b with
      | some x, some y => go rest (UInt8.ofNat (x * 16 + y) :: acc)
      | _, _ => none
  go s.toList []

def hexOfNibble (n : Nat) : Char :=
  if n < 10 then Char.ofNat ('0'.toNat + n) else Char.ofNat ('a'.toNat + n - 10)

def renderHex (bs : List UInt8) : String :=
  if bs.isEmpty then "-" else
  String.ofList (bs.flatMap fun b => [hexOfNibble (b.toNat / 16), hexOfNibble (b.toNat % 16)])

end B6.Driver
