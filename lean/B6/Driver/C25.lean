import B6.Driver.Common
import B6.Model.Proto.MapParallel
/-!
Driver for C25.  One op line = one evaluation of the real `map-parallel` (and of `map`) over the collection
`0 … N-1` with a logging / failing function:

  `run n=<cores> mp=<GOMAXPROCS> N=<items> fail=[k …] y=<seed>`
  answer `<ok|hang|panic> [ev …] map=<count>:<nil|k|other>`
     ev: `n` consumer calls Next() · `c<k>` f entered on item k · `t<k>` Next() returned item k (`t<k>!`: wrong key/value)
         · `e:nil` | `e:<k>` | `e:other` Next() returned false with no error / item k's error / another error

Property predicate on the implementation's answer alone (`propfail <clause>`):
  `terminates`  the evaluation did not end (`hang`);  `panic`
  `order`       the values handed to the consumer are not items 0, 1, 2, … in this order with their own keys
  `complete`    nothing fails, yet not all N values were yielded or an error was reported
  `error`       something fails (f on an item, or the lazy SOURCE collection's own function at position `sfail`), yet
                the evaluation ended without an error, with an error that is neither a failing item's nor the
                source's, or yielded the value of an item at or after the first failure
Model conformance (`diff …`): the event log is REPLAYED through the protocol model (`MapParallel.step`; every
transition taken is checked to be a member of `step s`).  Hidden steps (dispatcher sends, channel receives,
result sends, the consumer's receive between its `n` and `t` events, errgroup returns, closes) are inserted on
demand, as late as possible; after `e:` the model must run down to a terminal state with the same error
(for more than 1024 cores the replay is skipped: only the property predicate and `map` are checked).
`map` itself must yield the values before the first failing item and then that item's error.
For `n = 1` the real code falls back to `map`; its traces are checked against the model with one lane.
-/
open B6.Driver B6.Model.Proto B6.Model.Proto.MapParallel
namespace B6.Driver.C25

inductive Ev where
  | next
  | call (k : Nat)
  | take (k : Nat) (good : Bool)
  | fin (e : Option (Option Nat))      -- none = `other`
deriving Repr

structure Run where
  n : Nat
  N : Nat                      -- items the source yields: the literal's length, or the position at which the source fails
  fail : List Nat
  srcFails : Bool := false     -- the source collection is lazy and its own function fails at position `N`

def field (op key : String) : Option String :=
  match op.splitOn (" " ++ key ++ "=") with
  | [_, rest] =>
    if rest.startsWith "[" then
      match rest.splitOn "]" with
      | first :: _ :: _ => some (first ++ "]")
      | _ => none
    else (rest.splitOn " ").head?
  | _ => none

def parseRun (op : String) : Option Run := do
  guard (op.startsWith "run ")
  let n ← (← field op "n").toNat?
  let N ← (← field op "N").toNat?
  let fail ← (← parseBracket (← field op "fail")).mapM (·.toNat?)
  match field op "sfail" with
  | none => some { n := n, N := N, fail := fail }
  | some "-" => some { n := n, N := N, fail := fail }
  | some t => do
    let k ← t.toNat?
    guard (k < N)
    some { n := n, N := k, fail := fail, srcFails := true }

/-- the source's error is written as this index by the parser and replaced by `N` (what the model calls it) -/
def srcMark : Nat := 1000000007

def parseEnd (s : String) : Option (Option (Option Nat)) :=
  if s == "s" then some (some (some srcMark))
  else if s == "nil" then some (some none)
  else if s == "other" then some none
  else (s.toNat?).map fun k => some (some k)

def parseEv (s : String) : Option Ev :=
  if s == "n" then some .next
  else if s.startsWith "e:" then (parseEnd (sdrop s 2)).map .fin
  else if s.startsWith "c" then (sdrop s 1).toNat?.map .call
  else if s.startsWith "t" then
    if s.endsWith "!" then (sdropEnd (sdrop s 1) 1).toNat?.map (.take · false)
    else (sdrop s 1).toNat?.map (.take · true)
  else none

structure Answer where
  outcome : String
  evs : List Ev
  mapCount : Nat
  mapEnd : Option (Option Nat)

def parseAnswer (a : String) : Option Answer :=
  match words a with
  | [o] => if o == "hang" || o == "panic" then some { outcome := o, evs := [], mapCount := 0, mapEnd := none } else none
  | "ok" :: _ =>
    match a.splitOn "] map=" with
    | [left, right] => do
      let evs ← (← parseBracket (sdrop left 3 ++ "]")).mapM parseEv
      let (cnt, e) ← (match right.splitOn ":" with | [x, y] => some (x, y) | _ => none)
      some { outcome := "ok", evs := evs, mapCount := (← cnt.toNat?), mapEnd := (← parseEnd e) }
    | _ => none
  | _ => none

def minFail (r : Run) : Option Nat := (r.fail.filter (· < r.N)).foldl (fun m k => match m with | none => some k | some x => some (min x k)) none

/-! ### the property predicate -/

def takes : List Ev → List (Nat × Bool)
  | [] => []
  | .take k g :: es => (k, g) :: takes es
  | _ :: es => takes es

def finOf (evs : List Ev) : Option (Option (Option Nat)) :=
  match evs.getLast? with
  | some (.fin e) => some e
  | _ => none

def inOrder : List (Nat × Bool) → Nat → Bool
  | [], _ => true
  | (k, g) :: ts, i => k == i && g && inOrder ts (i + 1)

def propertyClause (r : Run) (a : Answer) : Option String :=
  if a.outcome == "hang" then some "terminates"
  else if a.outcome == "panic" then some "panic"
  else
    let ts := takes a.evs
    if !inOrder ts 0 then some "order"
    else match finOf a.evs, minFail r with
      | none, _ => some "terminates"
      | some e, none =>
        if r.srcFails then (if e == some (some srcMark) && ts.length ≤ r.N then none else some "error")
        else if e == some none && ts.length == r.N then none else some "complete"
      | some e, some m =>
        match e with
        | some (some k) =>
          if ((r.fail.contains k && k < r.N) || (r.srcFails && k == srcMark)) && ts.length ≤ m then none else some "error"
        | _ => some "error"

/-! ### replay through the model -/

abbrev M := Except String

structure RS where
  s : St
  nexts : Nat        -- Next() calls seen so far

/-- `t` must be a step of the model from `s`: a member of `stepsAt c s j` ⊆ `step c s` (`mem_stepsAt`), `j` = the
lane whose worker moves (any lane for the other goroutines) — O(lanes) instead of O(lanes²) per step -/
def follow (c : Cfg) (s t : St) (j : Nat := 0) : M St :=
  if (stepsAt c s j).any (· == t) then pure t else throw "not-a-step-of-the-model"

def lane (s : St) (j : Nat) : M Lane :=
  match s.lanes[j]? with
  | some l => pure l
  | none => throw s!"no-lane-{j}"

inductive Goal where
  | takeUpTo (x : Nat)   -- the consumer has taken item x
  | push (j : Nat)       -- worker j has put its result into out[j]
  | idle (j : Nat)       -- worker j is back in `range in[j]`
  | recv (j : Nat)       -- worker j has taken the item in in[j]
  | send                 -- the dispatcher has sent item `write`

def demand (c : Cfg) : Nat → Goal → RS → M RS
  | 0, _, _ => throw "out-of-fuel"
  | f + 1, .takeUpTo x, rs =>
    if rs.s.read > x then pure rs
    else if !(rs.s.read < rs.nexts) then throw s!"item-{rs.s.read}-needed-before-the-consumer-asked-for-it"
    else do
      let r := rs.s.read % c.n
      let l ← lane rs.s r
      let rs ← (if l.outq.isNone then demand c f (.push r) rs else pure rs)
      let l ← lane rs.s r
      match l.outq with
      | none => throw "nothing-to-take"
      | some k =>
        let t ← follow c rs.s { rs.s with lanes := rs.s.lanes.set r { l with outq := none }, out := rs.s.out ++ [k], read := rs.s.read + 1 }
        demand c f (.takeUpTo x) { rs with s := t }
  | f + 1, .push j, rs => do
    let l ← lane rs.s j
    match l.wk with
    | .holding k =>
      let rs ← (match l.outq with
        | some x => demand c f (.takeUpTo x) rs
        | none => pure rs)
      let l ← lane rs.s j
      let t ← follow c rs.s (setLane rs.s j { l with wk := Wk.idle, outq := some k }) j
      pure { rs with s := t }
    | _ => throw s!"worker-{j}-has-no-result-to-send"
  | f + 1, .idle j, rs => do
    let l ← lane rs.s j
    match l.wk with
    | .idle => pure rs
    | .holding _ => demand c f (.push j) rs
    | .busy k => throw s!"worker-{j}-has-not-called-f-on-item-{k}-yet"
    | _ => throw s!"worker-{j}-has-returned"
  | f + 1, .recv j, rs => do
    let rs ← demand c f (.idle j) rs
    let l ← lane rs.s j
    match l.inq with
    | some k =>
      let t ← follow c rs.s (setLane rs.s j { l with inq := none, wk := Wk.busy k }) j
      pure { rs with s := t }
    | none => throw s!"in[{j}]-is-empty"
  | f + 1, .send, rs => do
    let j := rs.s.write % c.n
    let l ← lane rs.s j
    let rs ← (if l.inq.isSome then demand c f (.recv j) rs else pure rs)
    let l ← lane rs.s j
    let t ← follow c rs.s { rs.s with lanes := rs.s.lanes.set j { l with inq := some rs.s.write }, write := rs.s.write + 1 }
    pure { rs with s := t }

def sendUpTo (c : Cfg) (k : Nat) : Nat → RS → M RS
  | 0, _ => throw "out-of-fuel"
  | f + 1, rs =>
    if rs.s.write > k then pure rs
    else do
      let rs ← demand c (4 * (c.n + c.N) + 8) .send rs
      sendUpTo c k f rs

def findLane (p : Lane → Bool) (s : St) : Option (Nat × Lane) :=
  let rec go : List Lane → Nat → Option (Nat × Lane)
    | [], _ => none
    | l :: ls, i => if p l then some (i, l) else go ls (i + 1)
  go s.lanes 0

/-- one step of the run-down after the consumer's last Next(); `none` = the model is terminal -/
def silent (c : Cfg) (want : Option Nat) (s : St) : M (Option (St × Nat)) :=
  if s.fin.isSome then pure none else
  -- errgroup returns: the error the implementation reported goes first
  let failing := match want with
    | some e => (findLane (fun l => l.wk == Wk.failing e) s).orElse fun _ => findLane (fun l => match l.wk with | .failing _ => true | _ => false) s
    | none => findLane (fun l => match l.wk with | .failing _ => true | _ => false) s
  match failing with
  | some (j, l) =>
    (match l.wk with
      | .failing k => pure (some ({ s with lanes := s.lanes.set j { l with wk := Wk.exited }, gerr := if s.gerr.isSome then s.gerr else some k }, j))
      | _ => throw "unreachable")
  | none =>
  match findLane (fun l => match l.wk with | .busy _ => true | _ => false) s with
  | some (j, _) => throw s!"worker-{j}-holds-an-item-f-was-never-called-on"
  | none =>
  match s.disp with
  | .running =>
    if s.write < c.N then
      if s.gerr.isSome then pure (some ({ s with disp := D.closing }, 0))
      else throw s!"item-{s.write}-never-passed-to-f-though-nothing-failed"
    else pure (some ({ s with disp := D.closing }, 0))
  | .closing =>
    let g' : Option Nat := if s.gerr.isSome then s.gerr else (if c.srcFails then some c.N else none)
    pure (some ({ s with disp := D.exited, inClosed := true, gerr := g' }, 0))
  | .exited =>
    match findLane (fun l => l.wk != Wk.exited) s with
    | some (j, l) =>
      (match l.wk with
        | .holding k =>
          if s.gerr.isSome then pure (some (setLane s j { l with wk := Wk.exited }, j))
          else throw s!"item-{k}-computed-but-never-handed-to-the-consumer"
        | .idle =>
          if l.inq.isSome then throw s!"worker-{j}-never-called-f-on-the-item-in-in[{j}]"
          else pure (some (setLane s j { l with wk := Wk.exited }, j))
        | _ => throw "unreachable")
    | none =>
      if !s.stored then pure (some ({ s with merr := s.gerr, stored := true }, 0))
      else if !s.outClosed then pure (some ({ s with outClosed := true }, 0))
      else pure (some ({ s with fin := some s.merr }, 0))

def runDown (c : Cfg) (want : Option Nat) : Nat → St → M St
  | 0, _ => throw "run-down-out-of-fuel"
  | f + 1, s => do
    match ← silent c want s with
    | none => pure s
    | some (t, j) =>
      let t ← follow c s t j
      runDown c want f t

def replay (c : Cfg) : List Ev → Nat → RS → M Unit
  | [], _, _ => throw "no-final-event"
  | .next :: es, ti, rs => replay c es ti { rs with nexts := rs.nexts + 1 }
  | .call k :: es, ti, rs => do
    if k ≥ c.N then throw s!"no-item-{k}"
    let rs ← sendUpTo c k (c.N + 2) rs
    let j := k % c.n
    let l ← lane rs.s j
    let rs ← (if l.wk == Wk.busy k then pure rs else
      if l.inq == some k then demand c (4 * (c.n + c.N) + 8) (.recv j) rs else throw s!"item-{k}-cannot-reach-worker-{j}-here")
    let l ← lane rs.s j
    if l.wk != Wk.busy k then throw s!"worker-{j}-is-not-about-to-call-f-on-item-{k}"
    let t ← follow c rs.s (setLane rs.s j { l with wk := if c.fails k then Wk.failing k else Wk.holding k }) j
    replay c es ti { rs with s := t }
  | .take k _ :: es, ti, rs => do
    if k != ti then throw "takes-out-of-order"
    let rs ← demand c (4 * (c.n + c.N) + 8) (.takeUpTo ti) rs
    replay c es (ti + 1) rs
  | .fin e :: es, _, rs => do
    if !es.isEmpty then throw "events-after-the-end"
    match e with
    | none => throw "an-error-that-is-not-an-item's"
    | some want0 =>
      let want := if want0 == some srcMark then some c.N else want0
      -- the source's error can only be the group's first error if the dispatcher got to the end of the source
      -- before anything was cancelled: send what is left, leave the loop, close, return — before any worker returns
      let rs ← (if want == some c.N && c.srcFails then do
          let rs ← (if c.N > 0 then sendUpTo c (c.N - 1) (c.N + 2) rs else pure rs)
          let t ← follow c rs.s { rs.s with disp := D.closing }
          let g' : Option Nat := if t.gerr.isSome then t.gerr else (if c.srcFails then some c.N else none)
          let t ← follow c t { t with disp := D.exited, inClosed := true, gerr := g' }
          pure { rs with s := t }
        else pure rs)
      let s ← runDown c want (6 * (c.n + c.N) + 16) rs.s
      if s.fin != some want then
        throw (match s.fin with
          | some (some k) => s!"model-ends-with-the-error-of-item-{k}"
          | some none => "model-ends-without-an-error"
          | none => "model-not-terminal")

def conform (r : Run) (a : Answer) : M Unit := do
  let c : Cfg := { n := r.n, N := r.N, fails := fun k => r.fail.contains k, srcFails := r.srcFails }
  -- `map`: the values before the first failing item, then its error
  let (wantCount, wantEnd) : Nat × Option (Option Nat) := match minFail r with
    | some m => (m, some (some m))
    | none => if r.srcFails then (r.N, some (some srcMark)) else (r.N, some none)
  if a.mapCount != wantCount || a.mapEnd != wantEnd then throw "map-itself-differs-from-its-spec"
  -- the replay costs O(lanes²) (every worker returns in a step of its own): above 1024 cores only the property
  -- predicate and `map` are checked
  if r.n ≤ 1024 then replay c a.evs 0 { s := init c, nexts := 0 }

def step (_ : Unit) (op impl : String) : Unit × Verdict :=
  match parseRun op, parseAnswer impl with
  | some r, some a =>
    if r.n == 0 then ((), .bad) else
    match propertyClause r a with
    | some clause => ((), .propfail clause)
    | none =>
      match conform r a with
      | .ok () => ((), .ok)
      | .error e => ((), .diff ("model-rejects:" ++ e))
  | _, _ => ((), .bad)

def family : Family := { σ := Unit, init := (), step := step }

end B6.Driver.C25

def main : IO Unit := B6.Driver.run B6.Driver.C25.family
