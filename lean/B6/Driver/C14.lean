import B6.Driver.Mutable
/-! Driver for C14 — the family shared by C12 / C13 / C14 (see `B6/Driver/Mutable.lean`). -/
def main : IO Unit := B6.Driver.run B6.Driver.Mutable.family
