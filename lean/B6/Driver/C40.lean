import B6.Driver.Common
import B6.Model.Proto.Service
import Std.Data.HashSet
/-!
Driver for C40.  State = the content of a fresh world (`base`) and the worlds as last reported by the
implementation (resynchronised after every round).

keys and values are numbers (key = feature*8 + tag index); a world is `{k=v,k=v}` sorted by key; a view is
`[wid:{…} wid:{…}]` sorted by world ID.
  base {k=v,…}           => {k=v,…}
  worlds [wid:{…} …]     => [wid:{…} …]          (the view the next round starts from)
  round [req …]          => [wid:{…} …] ## resp … | hang | race | crash | fatal
                            (resp per request: `e` error · `i<f.f>` modified features · `n<k>` query count ·
                             `w<id.id>` / `wd` list-worlds · `-` delete-world)
  round-addworld [req …] => the same; `a<wid>t<target>(rules)` = add-world-with-change (outside the model)
requests: `q<wid>` evaluate (non-change) · `d<wid>` delete-world · `l` list-worlds ·
          `c<wid>(rule;rule;…)` evaluate to a change, rule = [`<k>?` present | `<k>!` absent] (`+k=v` | `-k` | `~k`);
          `~k` is an element that FAILS when applied (add-tag / remove-tag on a missing feature, an invalid
          feature): `Apply` stops there with an error, what was applied before stays (a merged change with a
          failing part applies nothing and is written with the failing rule first)

All requests of a round are issued concurrently.  Predicate: ONE serial order explains the final view and the
response of every request (`serialRunResp`; `serializable` / `serializable-responses`), and the round ends (`no-deadlock`), without a crash or a data race
report.  A non-serial outcome of a round that is not `conflictFree` (some request's change reads a key that
another request of the round writes in the same world — exactly the hypothesis `serializable_blind` needs) and
that the lock-protocol model can produce is the documented class `write-skew`.
-/
open B6.Driver B6.Model.Proto B6.Model.Proto.Service
namespace B6.Driver.C40

def parseKV (s : String) : Option (Nat × Nat) :=
  match s.splitOn "=" with
  | [k, v] => do some ((← k.toNat?), (← v.toNat?))
  | _ => none

/-- `{k=v,k=v}` -/
def parseWorldText (s : String) : Option World :=
  if s.startsWith "{" && s.endsWith "}" then
    let inner := sdropEnd (sdrop s 1) 1
    if inner.isEmpty then some [] else (inner.splitOn ",").mapM parseKV
  else none

def sortWorld (w : World) : World := w.mergeSort (fun a b => a.1 ≤ b.1)

def renderWorldText (w : World) : String :=
  "{" ++ ",".intercalate ((sortWorld w).map fun (k, v) => s!"{k}={v}") ++ "}"

/-- `wid:{…}` -/
def parseEntry (s : String) : Option (Nat × World) :=
  match s.splitOn ":" with
  | [i, w] => do some ((← i.toNat?), (← parseWorldText w))
  | _ => none

def parseView (s : String) : Option View := do
  let ws ← parseBracket s
  ws.mapM parseEntry

def renderView (v : View) : String :=
  renderList ((v.mergeSort (fun a b => a.1 ≤ b.1)).map fun (i, w) => s!"{i}:{renderWorldText w}")

def parseWrite (s : String) : Option Write :=
  match s.toList with
  | '+' :: rest => (parseKV (String.ofList rest)).map fun (k, v) => Write.set k v
  | '-' :: rest => (String.ofList rest).toNat?.map Write.del
  | '~' :: rest => (String.ofList rest).toNat?.map Write.fail
  | _ => none

def parseRule (s : String) : Option Rule :=
  let cs := s.toList
  let g := cs.takeWhile (fun c => c != '+' && c != '-' && c != '~')
  let w := cs.dropWhile (fun c => c != '+' && c != '-' && c != '~')
  match parseWrite (String.ofList w) with
  | none => none
  | some wr =>
    if g.isEmpty then some ⟨none, wr⟩ else
    match g.getLast?, (String.ofList g.dropLast).toNat? with
    | some '?', some k => some ⟨some (k, true), wr⟩
    | some '!', some k => some ⟨some (k, false), wr⟩
    | _, _ => none

def parseReq (s : String) : Option Req :=
  match s.toList with
  | ['l'] => some .list
  | 'q' :: rest => (String.ofList rest).toNat?.map Req.query
  | 'd' :: rest => (String.ofList rest).toNat?.map Req.delete
  | 'c' :: rest =>
    let r := String.ofList rest
    match r.splitOn "(" with
    | [wid, rules] =>
      if rules.endsWith ")" then
        let inner := sdropEnd rules 1
        match wid.toNat?, (if inner.isEmpty then some [] else (inner.splitOn ";").mapM parseRule) with
        | some w, some rs => some (.change w rs)
        | _, _ => none
      else none
    | _ => none
  | _ => none

def insertAll {α} (x : α) : List α → List (List α)
  | [] => [[x]]
  | y :: ys => (x :: y :: ys) :: (insertAll x ys).map (y :: ·)

def perms {α} : List α → List (List α)
  | [] => [[]]
  | x :: xs => (perms xs).flatMap (insertAll x)

def renderResp : Resp → String
  | .nothing => "-"
  | .err => "e"
  | .ids fs => "i" ++ ".".intercalate (fs.map toString)
  | .count n => "n" ++ toString n
  | .worlds [] => "wd"
  | .worlds ws => "w" ++ ".".intercalate ((ws.mergeSort (· ≤ ·)).map toString)

/-- one serial order (a permutation of the request indices): the final view and the answer of every request,
put back at the request's own index -/
def serialOutcome (base : World) (v : View) (reqs : List Req) (order : List Nat) : String × List String :=
  let rs := order.filterMap (fun i => reqs[i]?)
  let out := serialRunResp base v rs
  let pairs := order.zip (out.2.map renderResp)
  (renderView out.1, (List.range reqs.length).map fun i => ((pairs.find? (·.1 == i)).map (·.2)).getD "?")

/-- canonical texts of the views the requests can produce one at a time, in any order -/
def serialOutcomes (base : World) (v : View) (reqs : List Req) : List String :=
  ((perms reqs).map fun p => renderView (serialRun base v p)).eraseDups

/-- every final view the lock-protocol model can reach (exhaustive, de-duplicated; small rounds only) -/
partial def explore (todo : List State) (seen : Std.HashSet State) (acc : List String) : List String :=
  match todo with
  | [] => acc
  | s :: rest =>
    if seen.contains s then explore rest seen acc else
    let seen := seen.insert s
    if terminal s then
      let t := renderView (viewOf s)
      explore rest seen (if acc.contains t then acc else t :: acc)
    else
      -- ghost fields are reset so that they do not multiply states
      let succ := (step false s).map fun s' => { s' with log := [], clients := s'.clients.map fun c => { c with logged := false } }
      explore (succ ++ rest) seen acc

def modelOutcomes (base : World) (v : View) (reqs : List Req) : List String :=
  explore [init base v reqs] {} []

structure St where
  base : World := []
  view : View := []

def step (st : St) (op impl : String) : St × Verdict :=
  match words op with
  | ["base", w] =>
    match parseWorldText w with
    | some b => ({ st with base := b }, if impl == renderWorldText b then .ok else .diff (renderWorldText b))
    | none => (st, .bad)
  | "worlds" :: _ =>
    match parseView (sdrop op 7) with
    | some v => ({ st with view := v }, if impl == renderView v then .ok else .diff (renderView v))
    | none => (st, .bad)
  | "round" :: _ =>
    match (parseBracket (sdrop op 6)).bind (·.mapM parseReq) with
    | none => (st, .bad)
    | some reqs =>
      if reqs.length > 5 then (st, .bad) else
      let (viewText, respWords) := match impl.splitOn " ## " with
        | [a, b] => (a, words b)
        | _ => (impl, [])
      match parseView viewText with
      | none =>
        -- no final view: the round did not end, or the process died
        if impl == "hang" then (st, .propfail "no-deadlock")
        else if impl == "race" then (st, .propfail "data-race")
        else (st, .propfail ("crash:" ++ impl))
      | some vi =>
        let got := renderView vi
        let st' := { st with view := vi }
        let wids : List Nat := vi.map (·.1)
        if wids.eraseDups.length != wids.length then (st', .propfail "one-world-per-id") else
        if respWords.length != reqs.length then (st', .bad) else
        let outcomes := (perms (List.range reqs.length)).map (serialOutcome st.base st.view reqs)
        -- one serial order must explain the final worlds AND every response
        if outcomes.any (fun o => o.1 == got && o.2 == respWords) then (st', .ok)
        else if conflictFree reqs then
          if outcomes.any (fun o => o.1 == got) then (st', .propfail "serializable-responses")
          else (st', .propfail "serializable")
        else if reqs.length ≤ 3 && (modelOutcomes st.base st.view reqs).contains got then
          (st', .propfail "serializable class=write-skew")
        else (st', .propfail "serializable-and-not-explained-by-the-model")
  | "round-addworld" :: _ =>
    -- rounds containing add-world-with-change (not a client of the model: it deletes, re-creates and writes a
    -- world inside the read phase): only the absence of a race report / crash is asked for
    if impl == "race" then (st, .propfail "data-race class=add-world-under-read-lock")
    else if impl == "hang" then (st, .propfail "no-deadlock")
    else match parseView ((impl.splitOn " ## ").headD impl) with
      | some vi => ({ st with view := vi }, .ok)
      | none => (st, .propfail ("crash:" ++ impl))
  | _ => (st, .bad)

def family : Family := { σ := St, init := {}, step := step }

end B6.Driver.C40

def main : IO Unit := B6.Driver.run B6.Driver.C40.family
