import B6.Driver.Common
import B6.Model.Proto.EachItem
import B6.Model.Proto.Feed
import B6.Model.Proto.Pbf
/-!
Driver for C28.  One op line = one run of one streaming API with a failing callback:

  `run p=<eachitem|memread|pbf|eachfeature|modtags> g=<n> mp=<n> sizes=[s0 s1 …] fail=[k.j …] mode=<persist|once> multi=<0|1> y=<n>`
      (+ ` kinds=[…]` for pbf — the element kind of every blob, not read by the model —, ` w=<direct|basic|overlay|compact>
      kinds=[…] ph=[…]` for eachfeature)
  answer `<err|err-other|nil|hang|panic> [k.j@w+/t k.j@w!/t …]`   (`err-other`: an error that is not (errors.Is) the one
      the callback returned — the op's ` ev=<new|wrapped|canceled|deadline|eof>` says which value that is; callback entries in order; `!` = this call returned an error; t = tagged entries)
      (+ ` lay=[…]` for a compact world: the buckets of every feature block as found in the built index)

Property predicate, evaluated on the implementation's answer alone (`propfail <clause>`):
  `no_deadlock`     the run did not return (`hang`)
  `panic`           the run panicked
  `error_reported`  some callback returned an error but the function returned nil
  `worker_stops`    a goroutine ran another callback after one of its callbacks had returned an error
Model conformance (`diff …`): the answer must be a run of the protocol model — the trace is REPLAYED through the
model's `step` relation (every transition taken is checked to be a member of `step s`; the hidden feeder /
channel / exit steps are inserted as late as possible), the model must reach a terminal state without any
callback the trace does not contain, and its return value must be the implementation's.  For `eachfeature` and
`modtags` the feed order is Go map order, so items are renumbered by the order of their callbacks.  An overlay
world's `EachFeature` is two such runs in sequence (own features, then the base world's), a compact world's one
`EachItem` run per feature block (points, paths, areas, relations) with the bucket layout reported by the harness;
a phase that returns an error ends the run.  `cancel=<i>` (memread): the harness cancels the caller's context inside
the `i`-th callback; the model may then take its environment step (`Feed.Cfg.ext`).
-/
open B6.Driver B6.Model.Proto
namespace B6.Driver.C28

structure Ev where
  k : Nat
  j : Nat
  w : Nat
  fail : Bool
  tags : Nat
deriving Repr

structure Run where
  proto : String
  g : Nat
  sizes : List Nat
  fail : List (Nat × Nat)
  multi : Bool
  world : String := ""          -- eachfeature: direct | basic | overlay | compact
  ph : List Nat := []           -- eachfeature: phase of every feature (overlay: 0 = the overlay's own, 1 = the base world's)
  cancel : Option Nat := none   -- memread: the harness cancels the caller's context inside the callback with this index

/-- `key=value` field of an op text; a value that starts with `[` extends to the matching `]` -/
def field (op key : String) : Option String :=
  match op.splitOn (" " ++ key ++ "=") with
  | [_, rest] =>
    if rest.startsWith "[" then
      match rest.splitOn "]" with
      | first :: _ :: _ => some (first ++ "]")
      | _ => none
    else (rest.splitOn " ").head?
  | _ => none

def parsePair (sep : String) (s : String) : Option (Nat × Nat) :=
  match s.splitOn sep with
  | [a, b] => do some ((← a.toNat?), (← b.toNat?))
  | _ => none

def parseRun (op : String) : Option Run := do
  guard (op.startsWith "run ")
  let p ← field op "p"
  let g ← (← field op "g").toNat?
  let sizes ← (← parseBracket (← field op "sizes")).mapM (·.toNat?)
  let fail ← (← parseBracket (← field op "fail")).mapM (parsePair ".")
  let multi ← field op "multi"
  guard (multi == "0" || multi == "1")
  guard (["eachitem", "memread", "pbf", "eachfeature", "modtags"].contains p)
  let world := (field op "w").getD ""
  let ph ← (match field op "ph" with
    | some t => (parseBracket t).bind fun ws => ws.mapM (·.toNat?)
    | none => some [])
  if p == "eachfeature" then
    guard (["direct", "basic", "overlay", "compact"].contains world && ph.length == sizes.length)
  let cancel ← (match field op "cancel" with
    | some t => t.toNat?.map some
    | none => some none)
  some { proto := p, g := g, sizes := sizes, fail := fail, multi := multi == "1", world := world, ph := ph, cancel := cancel }

/-- `k.j@w+/t` -/
def parseEv (s : String) : Option Ev := do
  let (kj, rest) ← (match s.splitOn "@" with | [a, b] => some (a, b) | _ => none)
  let (k, j) ← parsePair "." kj
  let (wm, t) ← (match rest.splitOn "/" with | [a, b] => some (a, b) | _ => none)
  let tags ← t.toNat?
  let fail ← (if wm.endsWith "!" then some true else if wm.endsWith "+" then some false else none)
  let w ← (sdropEnd wm 1).toNat?
  some { k := k, j := j, w := w, fail := fail, tags := tags }

/-- `0,4|1|- -|3` … : blocks separated by blanks, buckets by `|`, features by `,`, `-` = empty bucket -/
def parseLayout (t : String) : Option (List (List (List Nat))) := do
  let blocks ← parseBracket t
  blocks.mapM fun b => (b.splitOn "|").mapM fun bucket =>
    if bucket == "-" then some [] else (bucket.splitOn ",").mapM (·.toNat?)

def parseAnswer (a : String) : Option (String × List Ev × Option (List (List (List Nat)))) :=
  match words a with
  | [o] => if o == "hang" || o == "panic" then some (o, [], none) else none
  | o :: _ =>
    if o == "err" || o == "nil" || o == "err-other" then
      match (sdrop a (o.length + 1)).splitOn " lay=" with
      | [e] => do
        let evs ← (← parseBracket e).mapM parseEv
        some (o, evs, none)
      | [e, l] => do
        let evs ← (← parseBracket e).mapM parseEv
        some (o, evs, some (← parseLayout l))
      | _ => none
    else none
  | [] => none

/-! ### the property predicate on the implementation's answer -/

/-- does some goroutine run a callback after one of its callbacks failed? -/
def workerContinues : List Ev → List Nat → Bool
  | [], _ => false
  | e :: es, dead => dead.contains e.w || workerContinues es (if e.fail then e.w :: dead else dead)

def propertyClause (outcome : String) (evs : List Ev) : Option String :=
  if outcome == "hang" then some "no_deadlock"
  else if outcome == "panic" then some "panic"
  else if evs.any (·.fail) && outcome == "nil" then some "error_reported"
  else if workerContinues evs [] then some "worker_stops"
  else none

/-! ### replay through a model -/

/-- what the replay needs to know about a model -/
structure Engine (σ : Type) where
  step : σ → List σ
  beq : σ → σ → Bool
  next : σ → Nat
  n : Nat
  size : Nat → Nat
  /-- worker `w` is about to call the callback on sub-item `j` of item `k` -/
  isBusy : σ → Nat → Nat → Nat → Bool
  isIdle : σ → Nat → Bool
  /-- the states the model passes through when the feeder delivers item `next` to worker `w` -/
  deliver : σ → Nat → List σ
  /-- the callback step of worker `w` -/
  call : σ → Nat → Option σ
  /-- the next step of the run-down after the last callback (`none` = terminal), or why there is none -/
  silent : σ → Except String (Option σ)
  ret : σ → Option Bool

/-- take the transitions `s → t₁ → t₂ …`, each of which must be a step of the model -/
def follow {σ : Type} (E : Engine σ) (s : σ) : List σ → Except String σ
  | [] => .ok s
  | t :: ts => if (E.step s).any (E.beq t) then follow E t ts else .error "not-a-step-of-the-model"

/-- first goroutine that calls sub-item 0 of item `b` later in the trace -/
def owner (evs : List Ev) (b : Nat) : Option Nat := (evs.find? fun e => e.k == b && e.j == 0).map (·.w)

/-- make the feeder advance until item `k` has been delivered to worker `w` -/
def deliverUpTo {σ : Type} (E : Engine σ) (evs : List Ev) (k w : Nat) : Nat → σ → Except String σ
  | 0, _ => .error "out-of-fuel"
  | fuel + 1, s =>
    let b := E.next s
    if b > k then .ok s
    else if b ≥ E.n then .error s!"item-{k}-does-not-exist"
    else
      let tgt : Except String Nat :=
        if b == k then .ok w
        else if E.size b == 0 then .ok w
        else match owner evs b with
          | some o => .ok o
          | none => .error s!"item-{b}-never-called-but-item-{k}-was"
      match tgt with
      | .error e => .error e
      | .ok o =>
        if !E.isIdle s o then .error s!"goroutine-{o}-not-free-for-item-{b}"
        else match follow E s (E.deliver s o) with
          | .error e => .error e
          | .ok s' => if E.next s' == b + 1 then deliverUpTo E evs k w fuel s' else .error "feeder-did-not-advance"

def replayEvents {σ : Type} (E : Engine σ) : List Ev → σ → Except String σ
  | [], s => .ok s
  | e :: es, s => do
    let s ← (if e.j == 0 && !E.isBusy s e.w e.k 0 then deliverUpTo E (e :: es) e.k e.w (E.n + 2) s else .ok s)
    if !E.isBusy s e.w e.k e.j then .error s!"goroutine-{e.w}-cannot-call-{e.k}.{e.j}-here"
    else match E.call s e.w with
      | none => .error "no-callback-step"
      | some t => do
        let s ← follow E s [t]
        replayEvents E es s

def runDown {σ : Type} (E : Engine σ) : Nat → σ → Except String σ
  | 0, _ => .error "run-down-out-of-fuel"
  | fuel + 1, s =>
    match E.silent s with
    | .error e => .error e
    | .ok none => .ok s
    | .ok (some t) => do
      let s ← follow E s [t]
      runDown E fuel s

/-- replay the whole answer; the result is the model's return value -/
def replay {σ : Type} (E : Engine σ) (init : σ) (g : Nat) (evs : List Ev) : Except String Bool := do
  let s ← replayEvents E evs init
  let s ← runDown E (4 * (E.n + g) + 16) s
  match E.ret s with
  | some r => .ok r
  | none => .error "model-not-terminal"

def findIdx {α : Type} (p : α → Bool) (l : List α) : Option Nat :=
  let rec go : List α → Nat → Option Nat
    | [], _ => none
    | x :: xs, i => if p x then some i else go xs (i + 1)
  go l 0

/-! #### EachItem -/
namespace EI
open B6.Model.Proto.EachItem

def engine (c : Cfg) : Engine St where
  step := step c
  beq := fun a b => a == b
  next := (·.next)
  n := c.n
  size := c.size
  isBusy := fun s w k j => s.ws[w]? == some (W.busy k j)
  isIdle := fun s w => s.ws[w]? == some W.idle
  deliver := fun s w => [hand c s w]
  call := fun s w => match s.ws[w]? with
    | some x => (workerStep c s w x).head?
    | none => none
  silent := fun s =>
    if s.ret.isSome then .ok none
    else match findIdx (· == W.failing) s.ws with
    | some i => .ok ((workerStep c s i W.failing).head?)
    | none =>
      match findIdx (fun x => match x with | W.busy _ _ => true | _ => false) s.ws with
      | some i => .error s!"goroutine-{i}-holds-a-bucket-whose-callbacks-are-missing"
      | none =>
        if s.closed == false && s.stopped == false && s.next < c.n then
          if s.tokens > 0 then .ok (some { s with tokens := s.tokens - 1, stopped := true })
          else if c.size s.next == 0 then
            match findIdx (· == W.idle) s.ws with
            | some i => .ok (some (hand c s i))
            | none => .error "nobody-to-take-an-empty-bucket"
          else .error s!"bucket-{s.next}-never-called-though-nothing-was-cancelled"
        else if s.closed == false then .ok (some { s with closed := true })
        else match findIdx (· == W.idle) s.ws with
          | some i => .ok ((workerStep c s i W.idle).head?)
          | none => .ok (some { s with ret := some s.cause })
  ret := (·.ret)

end EI

/-! #### Feed (memread: watch = true; eachfeature, modtags: watch = false) -/
namespace FD
open B6.Model.Proto.Feed

def engine (c : Cfg) : Engine St where
  step := step c
  beq := fun a b => a == b
  next := (·.next)
  n := c.n
  size := fun _ => 1
  isBusy := fun s w k j => j == 0 && s.ws[w]? == some (W.busy k)
  isIdle := fun s w => s.ws[w]? == some W.idle
  deliver := fun s w =>
    let s1 : St := { s with queue := s.queue ++ [s.next], next := s.next + 1 }
    s1 :: (recv s1 w)
  call := fun s w => match s.ws[w]? with
    | some x => (workerStep c s w x).head?
    | none => none
  silent := fun s =>
    if s.ret.isSome then .ok none
    else match findIdx (· == W.failing) s.ws with
    | some i => .ok ((workerStep c s i W.failing).head?)
    | none =>
      match findIdx (fun x => match x with | W.busy _ => true | _ => false) s.ws with
      | some i => .error s!"goroutine-{i}-holds-an-item-whose-callback-is-missing"
      | none =>
        if s.closed == false && s.stopped == false && s.next < c.n then
          if s.cancelled then .ok (some { s with stopped := true })
          else if c.ext then .ok (some { s with cancelled := true })       -- the caller cancelled its context
          else .error s!"item-{s.next}-never-called-though-nothing-was-cancelled"
        else if s.closed == false then .ok (some { s with closed := true })
        else match findIdx (· == W.idle) s.ws with
          | some i => .ok (some { s with ws := s.ws.set i W.exited })
          | none => .ok (some { s with ret := some s.cause })
  ret := (·.ret)

end FD

/-! #### Pbf -/
namespace PB
open B6.Model.Proto.Pbf

def engine (c : Cfg) : Engine St where
  step := step c
  beq := fun a b => a == b
  next := (·.next)
  n := c.n
  size := c.size
  isBusy := fun s w k j => s.ws[w]? == some (W.busy k j)
  isIdle := fun s w => s.ws[w]? == some W.idle
  deliver := fun s w =>
    let s1 : St := { s with queue := s.queue ++ [Msg.data s.next], next := s.next + 1 }
    s1 :: (recv c s1 w)
  call := fun s w => match s.ws[w]? with
    | some x => (workerStep c s w x).head?
    | none => none
  silent := fun s =>
    if s.ret.isSome then .ok none
    else match findIdx (· == W.failing) s.ws with
    | some i => .ok ((workerStep c s i W.failing).head?)
    | none =>
      match findIdx (fun x => match x with | W.busy _ _ => true | _ => false) s.ws with
      | some i => .error s!"goroutine-{i}-holds-a-blob-whose-callbacks-are-missing"
      | none =>
        let idle := findIdx (· == W.idle) s.ws
        -- whatever is in the channel is taken first (only empty blobs and done-blobs get there during the run-down)
        match s.queue, idle with
        | Msg.data k :: _, some i =>
          if c.size k == 0 then .ok ((recv c s i).head?) else .error s!"blob-{k}-left-in-the-channel"
        | Msg.done :: _, some i => .ok ((recv c s i).head?)
        | _, _ =>
          match s.rd with
          | R.reading =>
            if s.next < c.n then
              if s.cancelled then .ok (some { s with rd := R.sending 0, stopped := true })
              else if c.size s.next == 0 then
                .ok (some { s with queue := s.queue ++ [Msg.data s.next], next := s.next + 1 })
              else .error s!"blob-{s.next}-never-called-though-nothing-was-cancelled"
            else .ok (some { s with rd := R.sending 0 })
          | R.sending j =>
            if j < c.g then
              if s.cancelled then .ok (some { s with rd := R.sending (j + 1) })
              else .ok (some { s with queue := s.queue ++ [Msg.done], rd := R.sending (j + 1) })
            else .ok (some { s with rd := R.finished })
          | R.finished =>
            match idle with
            | some i => if s.cancelled then .ok (some { s with ws := s.ws.set i W.exited }) else .error "worker-without-a-done-blob"
            | none => .ok (some { s with ret := some s.oerr })
  ret := (·.ret)

end PB

/-! ### one op line -/

def memPair (l : List (Nat × Nat)) (k j : Nat) : Bool := l.any fun p => p.1 == k && p.2 == j

/-- renumber items by the order of their callbacks (feed order unknown: Go map iteration) -/
def renumber (n : Nat) (evs : List Ev) : Nat → Option Nat :=
  let seen := evs.map (·.k)
  let rest := (List.range n).filter fun k => !seen.contains k
  let order := seen ++ rest
  fun k => findIdx (· == k) order

def expectedTags (r : Run) (k j : Nat) : Nat :=
  if r.proto == "eachitem" && r.multi then 1 + (k + j) % 2 else 1

/-- replay one protocol run; the result is the model's return value.  `maporder` = `Feed` without `watch` whose
feed order is Go map order: items are renumbered by the order of their callbacks. -/
def replayProto (proto : String) (g : Nat) (sizes : List Nat) (fail : List (Nat × Nat)) (evs : List Ev)
    (ext : Bool := false) : Except String Bool :=
  let n := sizes.length
  let size : Nat → Nat := fun k => (sizes[k]?).getD 0
  if proto == "eachitem" then
    let c : EachItem.Cfg := { g := g, n := n, size := size, fails := fun k j => memPair fail k j }
    replay (EI.engine c) (EachItem.init c) g evs
  else if proto == "pbf" then
    let c : Pbf.Cfg := { g := g, n := n, size := size, fails := fun k j => memPair fail k j }
    replay (PB.engine c) (Pbf.init c) g evs
  else if proto == "memread" then
    let c : Feed.Cfg := { g := g, n := n, fails := fun k => memPair fail k 0, watch := true, ext := ext }
    replay (FD.engine c) (Feed.init c) g evs
  else do
    if evs.any (fun e => (evs.filter (·.k == e.k)).length > 1) then throw "item-called-twice"
    let ren := renumber n evs
    let evs' ← evs.mapM fun e => match ren e.k with
      | some k' => pure { e with k := k' }
      | none => throw "renumbering"
    let failing : List Nat := (List.range n).filter fun k => memPair fail k 0
    let failing' := failing.filterMap ren
    let c : Feed.Cfg := { g := g, n := n, fails := fun k => failing'.contains k, watch := false }
    replay (FD.engine c) (Feed.init c) g evs'

/-- one phase of a run that is a sequence of protocol runs: its protocol, the sizes of its items, and where the
global sub-item `(k, j)` sits in it -/
structure Phase where
  proto : String
  sizes : List Nat
  loc : Nat → Nat → Option (Nat × Nat)

/-- `MutableOverlayWorld.EachFeature`: eachIngestFeature over the overlay's own features, then (if that returned
nil) the base world's EachFeature; the compact world: one `EachItem` per feature block, in order, until one fails. -/
def phasesOf (r : Run) (lay : Option (List (List (List Nat)))) : Except String (List Phase) :=
  if r.proto == "eachfeature" && r.world == "compact" then
    match lay with
    | none => throw "no-layout"
    | some blocks =>
      let all := blocks.flatten.flatten
      if all.length != r.sizes.length || (List.range r.sizes.length).any (fun i => !all.contains i) then
        throw "layout-is-not-a-partition-of-the-features"
      else pure (blocks.map fun buckets =>
        { proto := "eachitem", sizes := buckets.map (·.length),
          loc := fun k _ => (findIdx (·.contains k) buckets).bind fun b =>
            (buckets[b]?).bind fun ids => (findIdx (· == k) ids).map fun rank => (b, rank) })
  else if r.proto == "eachfeature" && r.world == "overlay" then
    let members (p : Nat) : List Nat := (List.range r.sizes.length).filter fun i => (r.ph[i]?).getD 0 == p
    pure ([0, 1].map fun p =>
      { proto := "maporder", sizes := (members p).map fun _ => 1,
        loc := fun k j => (findIdx (· == k) (members p)).map fun i => (i, j) })
  else
    let proto := if r.proto == "eachfeature" || r.proto == "modtags" then "maporder" else r.proto
    pure [{ proto := proto, sizes := r.sizes, loc := fun k j => some (k, j) }]

/-- replay the phases in order; a phase that returns an error ends the run -/
def replayPhases (g : Nat) (fail : List (Nat × Nat)) (ext : Bool := false) : List Phase → List Ev → Except String Bool
  | [], evs => if evs.isEmpty then pure false else throw "callbacks-after-the-last-phase"
  | ph :: rest, evs => do
    -- the callbacks of this phase are a prefix of what is left
    let mine := evs.takeWhile fun e => (ph.loc e.k e.j).isSome
    let later := evs.drop mine.length
    if later.any (fun e => (ph.loc e.k e.j).isSome) then throw "callbacks-of-two-phases-interleaved"
    let locEvs ← mine.mapM fun e => match ph.loc e.k e.j with
      | some (k, j) => pure { e with k := k, j := j }
      | none => throw "unreachable"
    let lfail := fail.filterMap fun (k, j) => ph.loc k j
    let ret ← replayProto ph.proto g ph.sizes lfail locEvs ext
    if ret then
      if later.isEmpty then pure true else throw "callbacks-after-a-phase-returned-an-error"
    else replayPhases g fail ext rest later

/-- the model's verdict on an answer whose outcome is `err` or `nil` -/
def conform (r : Run) (outcome : String) (evs : List Ev) (lay : Option (List (List (List Nat)))) :
    Except String Unit := do
  let n := r.sizes.length
  let size : Nat → Nat := fun k => (r.sizes[k]?).getD 0
  -- event sanity against the op
  for e in evs do
    if e.w ≥ r.g then throw s!"goroutine-{e.w}-out-of-range"
    if e.k ≥ n || e.j ≥ size e.k then throw s!"no-such-sub-item-{e.k}.{e.j}"
    if e.fail != memPair r.fail e.k e.j then throw s!"callback-result-of-{e.k}.{e.j}-differs-from-the-plan"
    if e.tags != expectedTags r e.k e.j then throw s!"{e.k}.{e.j}-called-with-{e.tags}-tagged-entries"
  let phases ← phasesOf r lay
  -- the caller's context was cancelled iff the callback with that index was entered
  let ext := match r.cancel with | some i => decide (i < evs.length) | none => false
  let ret ← replayPhases r.g r.fail ext phases evs
  let model := if ret then "err" else "nil"
  if outcome == "err-other" then
    if ret then throw "an-error-is-returned-but-not-the-callback's" else throw s!"model-returns-{model}"
  if model != outcome then throw s!"model-returns-{model}"

def step (_ : Unit) (op impl : String) : Unit × Verdict :=
  match parseRun op, parseAnswer impl with
  | some r, some (outcome, evs, lay) =>
    if r.g == 0 then ((), .bad) else
    match propertyClause outcome evs with
    | some clause => ((), .propfail clause)
    | none =>
      match conform r outcome evs lay with
      | .ok () => ((), .ok)
      | .error e => ((), .diff ("model-rejects:" ++ e))
  | _, _ => ((), .bad)

def family : Family := { σ := Unit, init := (), step := step }

end B6.Driver.C28

def main : IO Unit := B6.Driver.run B6.Driver.C28.family
