import B6.Driver.Common
import B6.Driver.PbfTokens
import B6.Model.Osm
import B6.Model.OsmRings
/-!
Driver for C29 (formats: `harness/cmd/c29/main.go`).

  `source mem n element*`        answer `ok nf feature*` | `panic` | `err`    model: `ingest`, same order
  `source pbf cores`             same input through a PBF file; `cores > 1`: compared as multisets;
                                 `point` values may differ by one E7 unit (the file's granularity)
  `world mem|pbf|compact c k id*` answer `ok nf feature*` sorted by ID          model: `world cw (ingest es)`
  `key k`                        answer `k'`                                    model: `keyForOSMKey`
  `rings nw (id nn node*)* nm member*`  answer `ok nl (n way*)* (n node*)*nl` | `err` | `panic`
                                 model: `B6.Model.OsmRings.rings`, `loopNodes` (a loop's nodes may come back reversed:
                                 S2 inverts clockwise loops). For inputs in the class `disjointCycles` the
                                 property predicate is evaluated on the implementation's loops: every loop is
                                 a closed ring and the loops use every member way exactly once.

The model is the rule set of the property (it mirrors the repaired code), so a feature that differs from
the model's breaks the property: `propfail member-id` when a relation's members differ, `propfail rules`
otherwise; a difference in the order of a feature's tags only is reported as `diff`.
-/
open B6.Driver B6.Model.Pbf B6.Model.Osm B6.Driver.PbfTokens
namespace B6.Driver.C29

def pFID : P FID := do
  let t ← tok
  match t.splitOn "/" with
  | [ty, ns, v] =>
    let ty ← (match ty with
      | "pt" => pure FType.point | "pa" => pure FType.path | "ar" => pure FType.area | "re" => pure FType.relation
      | _ => failure : P FType)
    let ns ← (match ns with
      | "n" => pure NS.node | "w" => pure NS.way | "r" => pure NS.relation
      | _ => failure : P NS)
    match v.toNat? with
    | some n => if n < 18446744073709551616 then pure ⟨ty, ns, UInt64.ofNat n⟩ else failure
    | none => failure
  | _ => failure

def pFTag : P FTag := do
  let k ← pStr
  let t ← tok
  match t with
  | "S" => do let s ← pStr; pure ⟨k, .str s⟩
  | "P" => do let la ← pInt64; let lo ← pInt64; pure ⟨k, .point la lo⟩
  | "I" => do let l ← counted pFID; pure ⟨k, .ids l⟩
  | _ => failure

def pFeature : P Feature := do
  let t ← tok
  match t with
  | "G" => do let id ← pFID; let ts ← counted pFTag; pure (.generic id ts)
  | "A" => do let id ← pFID; let ts ← counted pFTag; let ps ← counted (counted pFID); pure (.area id ts ps)
  | "L" => do
    let id ← pFID; let ts ← counted pFTag
    let ms ← counted (do let m ← pFID; let r ← pStr; pure (m, r))
    pure (.relation id ts ms)
  | _ => failure

def rFID (f : FID) : String :=
  (match f.type with | .point => "pt" | .path => "pa" | .area => "ar" | .relation => "re") ++ "/" ++
  (match f.ns with | .node => "n" | .way => "w" | .relation => "r") ++ "/" ++ toString f.value.toNat

def rFTags (ts : List FTag) : List String :=
  rCounted (fun t => rS t.key :: match t.value with
    | .str s => ["S", rS s]
    | .point la lo => ["P", rI la, rI lo]
    | .ids l => "I" :: rCounted (fun i => [rFID i]) l) ts

def rFeature : Feature → List String
  | .generic id ts => ["G", rFID id] ++ rFTags ts
  | .area id ts ps => ["A", rFID id] ++ rFTags ts ++ rCounted (fun p => rCounted (fun i => [rFID i]) p) ps
  | .relation id ts ms => ["L", rFID id] ++ rFTags ts ++ rCounted (fun m => [rFID m.1, rS m.2]) ms

def rFeatures (fs : List Feature) : String := " ".intercalate ("ok" :: rCounted rFeature fs)

/-! comparison -/

def near (tol : Nat) (a b : Int64) : Bool := (a.toInt - b.toInt).natAbs ≤ tol

def tagEq (tol : Nat) (a b : FTag) : Bool :=
  a.key == b.key && match a.value, b.value with
    | .point la lo, .point la' lo' => near tol la la' && near tol lo lo'
    | x, y => x == y

def listEq {α : Type} (eq : α → α → Bool) : List α → List α → Bool
  | [], [] => true
  | a :: as, b :: bs => eq a b && listEq eq as bs
  | _, _ => false

/-- remove the first element matching `p` -/
def removeFirst {α : Type} (p : α → Bool) : List α → Option (List α)
  | [] => none
  | x :: xs => if p x then some xs else (removeFirst p xs).map (x :: ·)

def permEq {α : Type} (eq : α → α → Bool) : List α → List α → Bool
  | [], bs => bs.isEmpty
  | a :: as, bs =>
    match removeFirst (eq a) bs with
    | none => false
    | some bs' => permEq eq as bs'

/-- equality of features; `tagCmp` compares the tag lists -/
def featEq (tagCmp : List FTag → List FTag → Bool) : Feature → Feature → Bool
  | .generic i t, .generic i' t' => i == i' && tagCmp t t'
  | .area i t p, .area i' t' p' => i == i' && tagCmp t t' && p == p'
  | .relation i t m, .relation i' t' m' => i == i' && tagCmp t t' && m == m'
  | _, _ => false

def exact (tol : Nat) : Feature → Feature → Bool := featEq (listEq (tagEq tol))
def modTagOrder (tol : Nat) : Feature → Feature → Bool := featEq (permEq (tagEq tol))

/-- some relation feature of the implementation has no counterpart with the same ID and members in the model -/
def memberMismatch (impl model : List Feature) : Bool :=
  impl.any fun f => match f with
    | .relation i _ m => !(model.any fun g => match g with
        | .relation i' _ m' => i == i' && m == m'
        | _ => false)
    | _ => false

def insertBy {α : Type} (lt : α → α → Bool) (x : α) : List α → List α
  | [] => [x]
  | y :: ys => if lt y x then y :: insertBy lt x ys else x :: y :: ys

def sortBy {α : Type} (lt : α → α → Bool) (xs : List α) : List α := xs.foldr (insertBy lt) []

/-- the first model feature without an equal implementation feature at the same place (ordered) / anywhere -/
def firstMissing (ordered : Bool) (tol : Nat) (impl model : List Feature) : String :=
  let rec go : List Feature → List Feature → String
    | m :: ms, i :: is => if exact tol i m then go ms is else "model=[" ++ " ".intercalate (rFeature m) ++ "] impl=[" ++ " ".intercalate (rFeature i) ++ "]"
    | m :: _, [] => "model=[" ++ " ".intercalate (rFeature m) ++ "] impl=[]"
    | [], i :: _ => "model=[] impl=[" ++ " ".intercalate (rFeature i) ++ "]"
    | [], [] => "?"
  if ordered then go model impl else
    match model.find? (fun m => !(impl.any fun i => exact tol i m)) with
    | some m => "model=[" ++ " ".intercalate (rFeature m) ++ "] impl=none"
    | none => match impl.find? (fun i => !(model.any fun m => exact tol i m)) with
      | some i => "model=none impl=[" ++ " ".intercalate (rFeature i) ++ "]"
      | none => "multiplicity"

def judge (ordered : Bool) (tol : Nat) (impl model : List Feature) : Verdict :=
  let cmp (eq : Feature → Feature → Bool) := if ordered then listEq eq impl model else permEq eq model impl
  if cmp (exact tol) then .ok
  else if cmp (modTagOrder tol) then .diff (rFeatures model)
  else if memberMismatch impl model then .propfail ("member-id " ++ firstMissing ordered tol impl model)
  else .propfail ("rules " ++ firstMissing ordered tol impl model)

structure St where
  es : List Element := []

def parseImpl (impl : String) : Option (List Feature) :=
  match words impl with
  | "ok" :: rest => parseAll (counted pFeature) rest
  | _ => none

def modelAnswer : Except Fail (List Feature) → String
  | .ok fs => rFeatures fs
  | .error .panic => "panic"
  | .error .err => "err"

def step (st : St) (op impl : String) : St × Verdict :=
  match words op with
  | "source" :: "mem" :: rest =>
    match parseAll (counted pElement) rest with
    | none => (st, .bad)
    | some es =>
      let st := { st with es := es }
      match ingest es with
      | .ok fs =>
        match parseImpl impl with
        | some ifs => (st, judge true 0 ifs fs)
        | none => (st, .propfail "rules")
      | .error e => (st, if impl == modelAnswer (.error e) then .ok else .diff (modelAnswer (.error e)))
  | ["source", "pbf", cs] =>
    match cs.toNat?, ingest st.es with
    | some c, .ok fs =>
      match parseImpl impl with
      | some ifs => (st, judge (c == 1) 1 ifs fs)
      | none => (st, .propfail "rules")
    | _, _ => (st, .bad)
  | "world" :: kind :: _cores :: rest =>
    match parseAll (counted pInt64) rest, ingest st.es with
    | some cw, .ok fs =>
      let model := sortBy (fun a b => rFID a.id < rFID b.id) (world (cw.map u) fs)
      let tol := if kind == "mem" then 0 else 1
      match parseImpl impl with
      | some ifs => (st, judge true tol ifs model)
      | none => (st, .propfail "rules")
    | _, _ => (st, .bad)
  | "rings" :: rest =>
    let pWay : P B6.Model.OsmRings.Way := do let id ← pInt64; let ns ← counted pInt64; pure ⟨id, ns⟩
    match parseAll (do let ws ← counted pWay; let ms ← counted pInt64; pure (ws, ms)) rest with
    | none => (st, .bad)
    | some (ws, ms) =>
      let model := B6.Model.OsmRings.rings ws ms
      let rLoops (ls : List (List Int64)) (seqs : List (List Int64)) : String :=
        " ".intercalate ("ok" :: rCounted (fun l => rCounted (fun i => [rI i]) l) ls ++ seqs.flatMap (fun q => rCounted (fun i => [rI i]) q))
      match model with
      | .error e => (st, if impl == modelAnswer (.error e) then .ok else .diff (modelAnswer (.error e)))
      | .ok loops =>
        let seqs := loops.map fun l => (B6.Model.OsmRings.loopNodes ws l).getD []
        match words impl with
        | "ok" :: r =>
          match parseAll (do
              let ls ← counted (counted pInt64)
              let qs ← many ls.length (counted pInt64)
              pure (ls, qs)) r with
          | none => (st, .bad)
          | some (ils, iqs) =>
            let inClass := B6.Model.OsmRings.disjointCycles ws ms
            let pred := !inClass ||
              (ils.all (B6.Model.OsmRings.isClosedRing ws) && permEq (fun (a b : Int64) => a == b) ils.flatten ms)
            if !pred then (st, .propfail "rings")
            else
              let seqOK := listEq (fun (a b : List Int64) => a == b || a == b.reverse) iqs seqs
              (st, if ils == loops && seqOK then .ok else .diff (rLoops loops seqs))
        | _ => (st, .diff (rLoops loops seqs))
  | ["key", k] =>
    match unhex k with
    | some k =>
      let m := rS (keyForOSMKey k)
      (st, if impl == m then .ok else .propfail "key-mapping")
    | none => (st, .bad)
  | _ => (st, .bad)

def family : Family := { σ := St, init := {}, step := step }

end B6.Driver.C29

def main : IO Unit := B6.Driver.run B6.Driver.C29.family
