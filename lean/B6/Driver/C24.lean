import B6.Driver.Common
import B6.Model.Collections
import B6.Model.CollectionsExpr
import B6.Spec.Collections
/-!
Driver for C24 (stateless: every line is self-contained).

values   `i<int>` | `f<code>` (order-preserving float code) | `s<ascii word, may be empty>` |
         `p<type>/<namespace>/<value>` | `b0` `b1`;   items `key:value`
expr     `(arr it …)` | `(take E n)` (n an int, or `f<code>`: a float literal converted by the VM) | `(filter E FN1)` | `(map E FN1)` | `(mapitems E FN2)` |
         `(flatten E …)` | `(join E E)`        (tokens separated by blanks, `)` is its own token)
FN1      `gtc=<val>` `cgt=<val>` `addc=<int>` `tostr` `id` `konst=<val>`;   FN2  `swap` `incv=<int>` `first`

ops
  `ev id E`              answer `count=<n|-> items=[it …] end=<done|err>` | `error` | `panic`
  `ev count E`           answer `<int>` | `error` | `panic`                       (library function `count`)
  `ev top=<n> E`         answer as `ev id` (order matters)
  `ev sumbykey|countvalues|countkeys|countvalidkeys E`   answer as `ev id`, items sorted by key token
  `fv <0|1> [k …] [v …] <probe>`    answer `some <v>` | `none`      (CollectionFeature.FindValue; 1 = Sort()ed)
  `fvs <0|1> [k …] [v …] <probe>`   answer `[v …]`                  (FindValues)
  world histories (state = the collection feature the world holds under one fixed ID, reset by `case`):
  `wnew` / `woverlay`                      answer `ok`   (fresh BasicMutableWorld / MutableOverlayWorld on top of it)
  `wadd <0|1> [k …] [v …]`                 answer `<0|1> [k …] [v …]` = IsSortedByKey, keys, values read back from the
                                           world after AddFeature of a feature with these keys (1 = after Sort()) | `err`
  `wfv <probe>` / `wfvs <probe>`           FindValue / FindValues on the feature read back from the world

Verdict: the implementation's answer is compared with the list reference (`Spec.Collections`) — a mismatch
is `propfail <function>`; `count_agrees` fails when a reported count differs from the number of items
yielded; `top` answers are judged by `isTopOfB` (ties leave the keys open).  Then the answer is compared
with the iterator-style model (`diff`).
-/
open B6.Driver B6.Model.Collections B6.Spec.Collections
namespace B6.Driver.C24

/-! ### parsing -/

def parseInt (s : String) : Option Int := s.toInt?

/-- the count argument of take / top: an int literal, or a float literal `f<code>` that `api.Convert` turns
into an int -/
def parseCount (s : String) : Option Int :=
  match s.toList with
  | 'f' :: r => (parseInt (String.ofList r)).map floatToInt
  | _ => parseInt s

def parseVal (s : String) : Option Val :=
  match s.toList with
  | 'i' :: r => (parseInt (String.ofList r)).map .int
  | 'f' :: r => (parseInt (String.ofList r)).map .float
  | 's' :: r => some (.str (String.ofList r))
  | 'b' :: r => if r == ['1'] then some (.bool true) else if r == ['0'] then some (.bool false) else none
  | 'p' :: r =>
    match (String.ofList r).splitOn "/" with
    | [t, ns, v] => do
      let t ← t.toNat?
      let v ← v.toNat?
      pure (.fid t ns v)
    | _ => none
  | _ => none

def parseItem (s : String) : Option Item :=
  match s.splitOn ":" with
  | [k, v] => do
    let k ← parseVal k
    let v ← parseVal v
    pure (k, v)
  | _ => none

def parseFn1 (s : String) : Option Fn1 :=
  match s.splitOn "=" with
  | ["tostr"] => some .tostr
  | ["id"] => some .ident
  | ["gtc", v] => (parseVal v).map .gtc
  | ["cgt", v] => (parseVal v).map .cgt
  | ["addc", v] => (parseInt v).map .addc
  | ["konst", v] => (parseVal v).map .konst
  | _ => none

def parseFn2 (s : String) : Option Fn2 :=
  match s.splitOn "=" with
  | ["swap"] => some .swap
  | ["first"] => some .first
  | ["incv", v] => (parseInt v).map .incv
  | _ => none

/-- items up to the closing `)` -/
def parseItems : List String → List Item → Option (List Item × List String)
  | ")" :: rest, acc => some (acc.reverse, rest)
  | t :: rest, acc => match parseItem t with
    | some it => parseItems rest (it :: acc)
    | none => none
  | [], _ => none

def close : List String → Option (List String)
  | ")" :: rest => some rest
  | _ => none

mutual
def parseCo : Nat → List String → Option (Co × List String)
  | 0, _ => none
  | f + 1, toks =>
    match toks with
    | "(arr" :: rest => (parseItems rest []).map fun (its, r) => (.arr its, r)
    | "(take" :: rest => do
      let (c, r) ← parseCo f rest
      match r with
      | n :: r => do
        let n ← parseCount n
        let r ← close r
        pure (.take c n, r)
      | [] => none
    | "(filter" :: rest => do
      let (c, r) ← parseCo f rest
      match r with
      | p :: r => do
        let p ← parseFn1 p
        let r ← close r
        pure (.filter c p, r)
      | [] => none
    | "(map" :: rest => do
      let (c, r) ← parseCo f rest
      match r with
      | p :: r => do
        let p ← parseFn1 p
        let r ← close r
        pure (.map c p, r)
      | [] => none
    | "(mapitems" :: rest => do
      let (c, r) ← parseCo f rest
      match r with
      | p :: r => do
        let p ← parseFn2 p
        let r ← close r
        pure (.mapItems c p, r)
      | [] => none
    | "(flatten" :: rest => (parseCoList f rest).map fun (cs, r) => (.flatten cs, r)
    | "(join" :: rest => do
      let (b, r) ← parseCo f rest
      let (j, r) ← parseCo f r
      let r ← close r
      pure (.join b j, r)
    | _ => none
def parseCoList : Nat → List String → Option (CoList × List String)
  | 0, _ => none
  | f + 1, toks =>
    match toks with
    | ")" :: rest => some (.nil, rest)
    | _ => do
      let (c, r) ← parseCo f toks
      let (cs, r) ← parseCoList f r
      pure (.cons c cs, r)
end

/-! ### rendering -/

def renderVal : Val → String
  | .int i => s!"i{i}"
  | .float c => s!"f{c}"
  | .str s => "s" ++ s
  | .fid t ns v => s!"p{t}/{ns}/{v}"
  | .bool b => if b then "b1" else "b0"

def renderItem (it : Item) : String := renderVal it.1 ++ ":" ++ renderVal it.2

def renderFin : Fin → String
  | .done => "done"
  | .err => "err"
  | .nofuel => "hang"

def renderDen (d : Den) : String :=
  let c := match d.count with
    | some n => toString n
    | none => "-"
  s!"count={c} items={renderList (d.items.map renderItem)} end={renderFin d.fin}"

/-- eager results come out of a Go map: both sides sort by the key token -/
def renderCounts (l : List (Val × Int)) : String :=
  let a := (l.map fun (k, c) => (renderVal k, renderVal (.int c))).toArray.qsort (fun a b => a.1 < b.1)
  s!"count={a.size} items={renderList (a.toList.map fun (k, c) => k ++ ":" ++ c)} end=done"

def dedupKeys (ks : List Val) : List Val :=
  ks.foldl (fun acc k => if acc.contains k then acc else acc ++ [k]) []

/-- parse `count=… items=[…] end=…` back -/
def parseAnswer (s : String) : Option (Option Int × List Item × String) :=
  match s.splitOn " items=[" with
  | [c, rest] =>
    match rest.splitOn "] end=" with
    | [its, e] => do
      let cnt ← if c == "count=-" then some none else (parseInt (sdrop c 6)).map some
      let its ← (words its).mapM parseItem
      pure (cnt, its, e)
    | _ => none
  | _ => none

def judge (impl spec model clause : String) : Verdict :=
  if impl != spec then .propfail clause
  else if impl != model then .diff model
  else .ok

/-- `count_agrees` on the implementation's own answer -/
def countAgrees (impl : String) : Bool :=
  match parseAnswer impl with
  | some (some n, its, "done") => n == its.length
  | _ => true

def rootClause : Co → String
  | .arr _ => "collection"
  | .take .. => "take"
  | .filter .. => "filter"
  | .map .. => "map"
  | .mapItems .. => "map_items"
  | .flatten .. => "flatten"
  | .join .. => "join_missing"

def endOfFin? (f : Fin) : Option End := f.toEnd?

def evalRoot (root : String) (c : Co) (impl : String) : Verdict :=
  let m := denote c
  let s := specDen c
  if root == "id" then
    if !countAgrees impl then .propfail "count_agrees"
    else judge impl (renderDen s) (renderDen m) (rootClause c)
  else if root == "count" then
    -- documented: the number of items in the collection.  When iterating the collection ends in an error the
    -- property demands nothing (a reported count is returned without iterating): model comparison only.
    let modelAns := match goCount m.count m.items m.fin with
      | some n => toString n
      | none => "error"
    let specAns := match s.fin with
      | .done => toString s.items.length
      | _ => modelAns
    judge impl specAns modelAns "count_agrees"
  else
    match s.fin.toEnd?, m.fin.toEnd? with
    | some se, some me =>
      match root.splitOn "=" with
      | ["top", n] =>
        match parseCount n with
        | none => .bad
        | some n =>
          let modelAns := match top goHeap m.items me n with
            | .ok its => renderDen ⟨its, .done, some its.length⟩
            | .error => "error"
            | .panic => "panic"
          -- the reference: an error for non-numeric / mixed values or a failing inner iteration, else IsTopOf
          let kindsOk := match s.items with
            | [] => true
            | (_, v) :: _ => (valNum v).isSome && s.items.all fun it => sameKind v it.2
          if se == .err || !kindsOk then judge impl "error" modelAns "top"
          else match parseAnswer impl with
            | some (cnt, its, "done") =>
              if cnt != some (its.length : Int) then .propfail "count_agrees"
              else if !isTopOfB n s.items its then .propfail "top"
              else if impl != modelAns then .diff modelAns else .ok
            | _ => .propfail "top"
      | ["sumbykey"] =>
        let modelAns := match sumByKey m.items me with
          | some l => renderCounts l
          | none => "error"
        let ok := se == .done && s.items.all fun it => match it.2 with
          | .int _ => true
          | _ => false
        let specAns := if ok then
            renderCounts ((dedupKeys (s.items.map (·.1))).map fun k => (k, wrap64 (sumFor k s.items)))
          else "error"
        judge impl specAns modelAns "sum_by_key"
      | ["countvalues"] =>
        let modelAns := match countValues m.items me with
          | some l => renderCounts l
          | none => "error"
        let specAns := if se == .done then
            renderCounts ((dedupKeys (s.items.map (·.2))).map fun k => (k, weightFor (·.2) (fun _ => 1) k s.items))
          else "error"
        judge impl specAns modelAns "count_values"
      | ["countkeys"] =>
        let modelAns := match countKeys m.items me with
          | some l => renderCounts l
          | none => "error"
        let specAns := if se == .done then
            renderCounts ((dedupKeys (s.items.map (·.1))).map fun k => (k, weightFor (·.1) (fun _ => 1) k s.items))
          else "error"
        judge impl specAns modelAns "count_keys"
      | ["countvalidkeys"] =>
        let modelAns := match countValidKeys m.items me with
          | some l => renderCounts l
          | none => "error"
        let specAns := if se == .done then
            renderCounts ((dedupKeys (s.items.map (·.1))).map fun k => (k, weightFor (·.1) validDelta k s.items))
          else "error"
        judge impl specAns modelAns "count_valid_keys"
      | _ => .bad
    | _, _ => .diff "model-out-of-fuel"

def parseVals (s : String) : Option (List Val) := do
  let ws ← parseBracket s
  ws.mapM parseVal

def parseCF (flag rest : String) : Option CF :=
  match rest.splitOn "[" with
  | [_, ks, vs] =>
    match parseVals ("[" ++ ks), parseVals ("[" ++ vs) with
    | some ks, some vs => some { keys := ks.toArray, vals := vs.toArray, sorted := flag == "1" }
    | _, _ => none
  | _ => none

def renderCF (c : CF) : String :=
  s!"{if c.sorted then 1 else 0} {renderList (c.keys.toList.map renderVal)} {renderList (c.vals.toList.map renderVal)}"

def optVal (o : Option Val) : String :=
  match o with
  | some v => "some " ++ renderVal v
  | none => "none"

def step (st : Option CF) (op impl : String) : Option CF × Verdict :=
  match words op with
  | ["wnew"] => (none, if impl == "ok" then .ok else .diff "ok")
  | ["woverlay"] => (st, if impl == "ok" then .ok else .diff "ok")
  | "wadd" :: flag :: _ =>
    match parseCF flag op with
    | none => (st, .bad)
    | some f =>
      let m := worldAdd st f
      let modelAns := match m with
        | some c => renderCF c
        | none => "err"
      -- resynchronise on what the world reports
      let st' := match impl.splitOn " " with
        | fl :: _ => (parseCF fl impl).orElse fun _ => m
        | [] => m
      (st', if impl == modelAns then .ok else .diff modelAns)
  | ["wfv", probe] =>
    match st, parseVal probe with
    | some c, some p =>
      (st, judge impl (optVal (scanFirst c.keys c.vals p)) (optVal (c.findValue p)) "find_value")
    | _, _ => (st, .bad)
  | ["wfvs", probe] =>
    match st, parseVal probe with
    | some c, some p =>
      (st, judge impl (renderList ((scanAll c.keys c.vals p).map renderVal))
        (renderList ((c.findValues p).map renderVal)) "find_values")
    | _, _ => (st, .bad)
  | "ev" :: root :: toks =>
    match parseCo (toks.length + 1) toks with
    | some (c, []) => (st, evalRoot root c impl)
    | _ => (st, .bad)
  | kind :: sorted :: _ =>
    if kind != "fv" && kind != "fvs" then (st, .bad) else
    match op.splitOn "[" with
    | [_, ks, rest] =>
      match rest.splitOn "]" with
      | [vs, probe] =>
        match parseVals ("[" ++ ks), parseVals ("[" ++ vs ++ "]"), parseVal (strim probe) with
        | some ks, some vs, some probe =>
          let sorted := sorted == "1"
          if kind == "fv" then
            (st, judge impl (optVal (scanFirst ks.toArray vs.toArray probe))
              (optVal (findValue sorted ks.toArray vs.toArray probe)) "find_value")
          else
            (st, judge impl (renderList ((scanAll ks.toArray vs.toArray probe).map renderVal))
              (renderList ((findValues sorted ks.toArray vs.toArray probe).map renderVal)) "find_values")
        | _, _, _ => (st, .bad)
      | _ => (st, .bad)
    | _ => (st, .bad)
  | _ => (st, .bad)

def family : Family := { σ := Option CF, init := none, step := step }

end B6.Driver.C24

def main : IO Unit := B6.Driver.run B6.Driver.C24.family
