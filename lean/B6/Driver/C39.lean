import B6.Driver.Common
import B6.Model.Tags
import B6.Spec.OrderedMap
/-!
Driver for C39.  State = the tag list as last reported by the implementation (the model is re-synchronised
after every line, so one disagreement does not cascade).

ops (keys/values are `[A-Za-z0-9_]+` words; a tag is `k=v`):
  `init [k=v …]`             answer `[k=v …]`
  `get k`                    answer `some v` | `none`
  `set k=v`                  answer `<modified:bool> <old|-> [list]`
  `add k=v`                  answer `[list]`                      (AddTag; the generator only adds fresh keys)
  `rm k`                     answer `[list]` | `panic`
  `rms [k …]`                answer `[list]` | `panic`
  `merge [k=v …]`            answer `[list]`
-/
open B6.Driver B6.Model.Tags
namespace B6.Driver.C39

def parseTag (s : String) : Option Tag :=
  match s.splitOn "=" with
  | [k, v] => some (k, v)
  | _ => none

def parseTags (s : String) : Option Tags := do
  let ws ← parseBracket s
  ws.mapM parseTag

def renderTags (t : Tags) : String := renderList (t.map fun (k, v) => k ++ "=" ++ v)

/-- compare, giving the property predicate (spec answer) priority over the model answer -/
def judge (impl model spec clause : String) : Verdict :=
  if impl == spec then (if impl == model then .ok else .diff model)
  else .propfail clause

def optTags : Option Tags → String
  | some t => renderTags t
  | none => "panic"

def step (st : Tags) (op impl : String) : Tags × Verdict :=
  -- resynchronise on the list the implementation reports (last bracket group of its answer)
  let resync : Tags :=
    match impl.splitOn "[" with
    | [] => st
    | parts => match parseTags ("[" ++ parts.getLast!) with
      | some t => t
      | none => st
  let distinct := decide ((st.map (·.1)).Nodup)
  match words op with
  | "init" :: _ =>
    match parseTags (sdrop op 5) with
    | some t => (t, if impl == renderTags t then .ok else .diff (renderTags t))
    | none => (st, .bad)
  | ["get", k] =>
    let m := match get st k with | some v => "some " ++ v | none => "none"
    let s := match B6.Spec.OrderedMap.lookup st k with | some v => "some " ++ v | none => "none"
    (st, judge impl m s "get")
  | ["set", kv] =>
    match parseTag kv with
    | none => (st, .bad)
    | some tag =>
      let (t', modified, old) := modifyOrAddTag st tag
      let m := s!"{modified} {if modified then old else "-"} {renderTags t'}"
      let specOld := B6.Spec.OrderedMap.lookup st tag.1
      let s := s!"{specOld.isSome} {specOld.getD "-"} {renderTags (B6.Spec.OrderedMap.set st tag)}"
      (resync, if distinct then judge impl m s "set" else (if impl == m then .ok else .diff m))
  | ["add", kv] =>
    match parseTag kv with
    | none => (st, .bad)
    | some tag =>
      let m := renderTags (addTag st tag)
      (resync, judge impl m m "add")
  | ["rm", k] =>
    let m := optTags (removeTag st k)
    let s := renderTags (B6.Spec.OrderedMap.remove st k)
    (resync, if distinct then judge impl m s "remove" else (if impl == m then .ok else .diff m))
  | "rms" :: _ =>
    match parseBracket (sdrop op 4) with
    | none => (st, .bad)
    | some ks =>
      let m := optTags (removeTags st ks)
      let s := renderTags (B6.Spec.OrderedMap.removeAll st ks)
      (resync, if distinct then judge impl m s "removeAll" else (if impl == m then .ok else .diff m))
  | "merge" :: _ =>
    match parseTags (sdrop op 6) with
    | none => (st, .bad)
    | some o =>
      let m := renderTags (mergeFrom st o)
      (resync, judge impl m (renderTags o) "merge")
  | _ => (st, .bad)

def family : Family := { σ := Tags, init := [], step := step }

end B6.Driver.C39

def main : IO Unit := B6.Driver.run B6.Driver.C39.family
