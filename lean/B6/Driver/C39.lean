import B6.Driver.Common
import B6.Model.Tags
import B6.Spec.OrderedMap
/-!
Driver for C39.  State = the tag list as last reported by the implementation (the model is re-synchronised
after every line, so one disagreement does not cascade) + a second list held aside (`snap`), used to check
that `Clone`/`MergeFrom` leave no aliasing between two lists.

Every API op is parsed into a `B6.Spec.OrderedMap.Op` and answered by `B6.Model.Tags.step` (the model the
theorems of `B6.Props.C39` are about) and by `B6.Spec.OrderedMap.step` (the property predicate).  The
predicate is applied exactly on the property's domain: current list key-distinct and `Op.ok` (the hypotheses
of `ops_refine`); outside it (lists with repeated keys — generated on purpose to tie the Go-slice model of
`RemoveTag`) only the model answer is compared.

ops (keys/values are `[A-Za-z0-9_]+` words; a tag is `k=v`):
  `init [k=v …]`             answer `[k=v …]`
  `get k`                    answer `some v` | `none`
  `set k=v`                  answer `<modified:bool> <old|-> [list]` | `panic`
  `add k=v`                  answer `[list]`                      (AddTag)
  `rm k`                     answer `[list]` | `panic`
  `rms [k …]`                answer `[list]` | `panic`
  `merge [k=v …]`            answer `[list]`      t.MergeFrom(arg); other := arg (the very slice passed)
  `clone`                    answer `[list]`                      (t = t.Clone())
  `snap`                     answer `[list]`      other := t.Clone(); answer = other
  `mergeo`                   answer `[list]`      t.MergeFrom(other); answer = t        (needs a `snap` before)
  `swap`                     answer `[list]`      t, other := other, t; answer = new t
  `chk`                      answer `[list]`      answer = other — must be exactly what it was when set aside
-/
open B6.Driver B6.Model.Tags
open B6.Spec.OrderedMap (Op Out)
namespace B6.Driver.C39

def parseTag (s : String) : Option Tag :=
  match s.splitOn "=" with
  | [k, v] => some (k, v)
  | _ => none

def parseTags (s : String) : Option Tags := do
  let ws ← parseBracket s
  ws.mapM parseTag

def renderTags (t : Tags) : String := renderList (t.map fun (k, v) => k ++ "=" ++ v)

/-- compare, giving the property predicate (spec answer) priority over the model answer -/
def judge (impl model spec clause : String) : Verdict :=
  if impl == spec then (if impl == model then .ok else .diff model)
  else .propfail clause

/-- canonical answer text of one call -/
def renderAns : Tags × Out → String
  | (t, .unit) => renderTags t
  | (_, .found (some v)) => "some " ++ v
  | (_, .found none) => "none"
  | (t, .modified true old) => s!"true {old} {renderTags t}"
  | (t, .modified false _) => s!"false - {renderTags t}"

def parseOp (op : String) : Option (Op × String) :=
  match words op with
  | ["get", k] => some (.get k, "get")
  | ["set", kv] => (parseTag kv).map (fun t => (.set t, "set"))
  | ["add", kv] => (parseTag kv).map (fun t => (.add t, "add"))
  | ["rm", k] => some (.rm k, "remove")
  | "rms" :: _ => (parseBracket (sdrop op 4)).map (fun ks => (.rms ks, "removeAll"))
  | "merge" :: _ => (parseTags (sdrop op 6)).map (fun o => (.merge o, "merge"))
  | ["clone"] => some (.clone, "clone")
  | _ => none

structure St where
  cur : Tags := []
  other : Option Tags := none

def step (st : St) (op impl : String) : St × Verdict :=
  -- resynchronise on the list the implementation reports (last bracket group of its answer)
  let resync : Tags :=
    match impl.splitOn "[" with
    | [] => st.cur
    | parts => match parseTags ("[" ++ parts.getLast!) with
      | some t => t
      | none => st.cur
  match words op with
  | "init" :: _ =>
    match parseTags (sdrop op 5) with
    | some t => ({ cur := t, other := none }, if impl == renderTags t then .ok else .diff (renderTags t))
    | none => (st, .bad)
  | ["snap"] =>
    let m := renderTags (clone st.cur)
    ({ st with other := some (clone st.cur) }, judge impl m m "clone")
  | ["swap"] =>
    match st.other with
    | none => (st, .bad)
    | some o => ({ cur := o, other := some st.cur }, judge impl (renderTags o) (renderTags o) "isolation")
  | ["chk"] =>
    match st.other with
    | none => (st, .bad)
    | some o => (st, judge impl (renderTags o) (renderTags o) "isolation")
  | ["mergeo"] =>
    match st.other with
    | none => (st, .bad)
    | some o =>
      let m := renderTags (mergeFrom st.cur o)
      ({ st with cur := resync }, judge impl m (renderTags o) "merge")
  | _ =>
    match parseOp op with
    | none => (st, .bad)
    | some (o, clause) =>
      let m := match B6.Model.Tags.step st.cur o with
        | some r => renderAns r
        | none => "panic"
      let inDomain := decide (B6.Spec.OrderedMap.Distinct st.cur) && o.ok st.cur
      let v :=
        if inDomain then judge impl m (renderAns (B6.Spec.OrderedMap.step st.cur o)) clause
        else if impl == m then .ok else .diff m
      -- the argument of `merge` becomes the list held aside (later `chk`s: it must stay what was passed)
      let other := match o with | .merge arg => some arg | _ => st.other
      ({ cur := resync, other := other }, v)

def family : Family := { σ := St, init := {}, step := step }

end B6.Driver.C39

def main : IO Unit := B6.Driver.run B6.Driver.C39.family
