import B6.Driver.Common
import B6.Model.Pbf
/-!
Token-level parsing and rendering of OSM elements and primitive blocks, shared by the C27 and C29
drivers (formats: see `harness/cmd/c27/main.go`). Strings travel as lowercase hex words (`-` = empty) and
become Lean strings with one `Char` per byte.
-/
open B6.Driver B6.Model.Pbf
namespace B6.Driver.PbfTokens

abbrev P := StateT (List String) Option

def tok : P String := fun ts => match ts with
  | [] => none
  | t :: r => some (t, r)

def pInt64 : P Int64 := do
  let t ← tok
  match t.toInt? with
  | some i => if -9223372036854775808 ≤ i ∧ i ≤ 9223372036854775807 then pure (Int64.ofInt i) else failure
  | none => failure

def pNat : P Nat := do
  let t ← tok
  match t.toNat? with
  | some n => pure n
  | none => failure

/-- hex word → string, one `Char` per byte (code point = byte value): injective, identity on ASCII -/
def unhex (t : String) : Option String :=
  (parseHex t).map fun bs => String.ofList (bs.map fun b => Char.ofNat b.toNat)

def pStr : P Str := do
  let t ← tok
  match unhex t with
  | some s => pure s
  | none => failure

def manyAux {α : Type} (p : P α) : Nat → List α → P (List α)
  | 0, acc => pure acc.reverse
  | n + 1, acc => do let x ← p; manyAux p n (x :: acc)

def many {α : Type} (n : Nat) (p : P α) : P (List α) := manyAux p n []

/-- `n x*` -/
def counted {α : Type} (p : P α) : P (List α) := do let n ← pNat; many n p

def pTag : P Tag := do let k ← pStr; let v ← pStr; pure ⟨k, v⟩

def pMember : P Member := do
  let t ← tok
  let ty ← (match t with
    | "n" => pure MType.node
    | "w" => pure MType.way
    | "r" => pure MType.relation
    | _ => failure : P MType)
  let id ← pInt64
  let role ← pStr
  pure ⟨ty, id, role⟩

def pElement : P Element := do
  let t ← tok
  match t with
  | "N" => do
    let id ← pInt64; let lat ← pInt64; let lon ← pInt64; let tags ← counted pTag
    pure (.node id lat lon tags)
  | "W" => do
    let id ← pInt64; let ns ← counted pInt64; let tags ← counted pTag
    pure (.way id ns tags)
  | "R" => do
    let id ← pInt64; let ms ← counted pMember; let tags ← counted pTag
    pure (.relation id ms tags)
  | _ => failure

def pPNode : P PNode := do
  let id ← pInt64; let lat ← pInt64; let lon ← pInt64; let ks ← counted pNat; let vs ← counted pNat
  pure ⟨id, lat, lon, ks, vs⟩

def pPWay : P PWay := do
  let id ← pInt64; let refs ← counted pInt64; let ks ← counted pNat; let vs ← counted pNat
  pure ⟨id, refs, ks, vs⟩

def pPRel : P PRel := do
  let id ← pInt64; let ms ← counted pInt64; let ts ← counted pNat; let rs ← counted pNat
  let ks ← counted pNat; let vs ← counted pNat
  pure ⟨id, ms, ts, rs, ks, vs⟩

def pDense : P (Option Dense) := do
  let t ← tok
  match t with
  | "D0" => pure none
  | "D1" => do
    let ids ← counted pInt64; let lats ← counted pInt64; let lons ← counted pInt64; let kv ← counted pNat
    pure (some ⟨ids, lats, lons, kv⟩)
  | _ => failure

def pGroup : P Group := do
  let t ← tok
  if t != "G" then failure
  let ns ← counted pPNode; let d ← pDense; let ws ← counted pPWay; let rs ← counted pPRel
  pure ⟨ns, d, ws, rs⟩

def pBlock : P Block := do
  let t ← tok
  if t != "B" then failure
  let ss ← counted pStr
  let g ← pInt64; let la ← pInt64; let lo ← pInt64
  let gs ← counted pGroup
  pure ⟨ss, g, la, lo, gs⟩

/-- run a parser on a whole token list; all tokens must be consumed -/
def parseAll {α : Type} (p : P α) (ts : List String) : Option α :=
  match p ts with
  | some (x, []) => some x
  | _ => none

/-! rendering (mirror of the harness) -/

def rI (i : Int64) : String := toString i.toInt
def rS (s : Str) : String := renderHex (s.toList.map fun c => UInt8.ofNat c.toNat)
def rCounted {α : Type} (f : α → List String) (xs : List α) : List String := toString xs.length :: xs.flatMap f

def rTags (ts : List Tag) : List String := rCounted (fun t => [rS t.key, rS t.value]) ts

def rElement : Element → List String
  | .node id lat lon tags => ["N", rI id, rI lat, rI lon] ++ rTags tags
  | .way id ns tags => ["W", rI id] ++ rCounted (fun n => [rI n]) ns ++ rTags tags
  | .relation id ms tags =>
    ["R", rI id] ++ rCounted (fun m => [match m.type with | .node => "n" | .way => "w" | .relation => "r", rI m.id, rS m.role]) ms ++ rTags tags

def rNats (xs : List Nat) : List String := rCounted (fun n => [toString n]) xs
def rInts (xs : List Int64) : List String := rCounted (fun n => [rI n]) xs

def rGroup (g : Group) : List String :=
  ["G"] ++ rCounted (fun n => [rI n.id, rI n.lat, rI n.lon] ++ rNats n.keys ++ rNats n.vals) g.nodes ++
  (match g.dense with
   | none => ["D0"]
   | some d => ["D1"] ++ rInts d.id ++ rInts d.lat ++ rInts d.lon ++ rNats d.keysVals) ++
  rCounted (fun w => [rI w.id] ++ rInts w.refs ++ rNats w.keys ++ rNats w.vals) g.ways ++
  rCounted (fun r => [rI r.id] ++ rInts r.memids ++ rNats r.types ++ rNats r.roles ++ rNats r.keys ++ rNats r.vals) g.rels

def rBlock (b : Block) : List String :=
  ["B"] ++ rCounted (fun s => [rS s]) b.strings ++ [rI b.granularity, rI b.latOffset, rI b.lonOffset] ++
  rCounted rGroup b.groups

def rBlocks (bs : List Block) : String := " ".intercalate (rCounted rBlock bs)

def rRes (r : Res) : String :=
  let e := match r.fail with | none => "ok" | some .err => "err" | some .panic => "panic"
  " ".intercalate (e :: rCounted rElement r.out)

end B6.Driver.PbfTokens
