import B6.Model.Pbf
import B6.Lemmas.Pbf
/-!
C27 — OSM PBF files read back what was written.

The theorems are about the model `B6/Model/Pbf.lean` of `osm/pbf.go` (writer state machine, block
structure, reader). `writeAll es` = the data blocks `NewWriter` + `WriteElement`* + `Flush` put into the
file, `readAll` = `ReadPBFWithOptions` with one reader goroutine, `readCores … assign g` = with `g`
goroutines when the scheduler hands block `i` to goroutine `assign[i]`.

Coordinates: a node enters the model with `int64(angle/.000000001)` nano-degrees and leaves it with the
integer that `decodeAngle` multiplies by `.000000001`; the two float conversions are the stated boundary
(`coord_within_step_of_contract` carries the contract `|int64(x/1e-9) − x/1e-9| < 1` as a hypothesis).
-/
namespace B6.Props.C27
open B6.Model.Pbf B6.Lemmas.Pbf

/-- Round trip, one reader goroutine: any sequence of nodes, ways and relations — any interleaving of the
three types, any length (the induction over the element list goes through every type switch and every
`elementsPerGroup` flush) — reads back without error as the same sequence, in the same order, each element
`quantise`d. -/
theorem pbf_roundtrip (es : List Element) : readAll {} (writeAll es) = ⟨es.map quantise, none⟩ :=
  (writeAll_spec es).1

/-- `quantise` keeps IDs, tags, way nodes, members (type, ID, role) and their order; it only replaces the
two coordinates of a node by `quantCoord`. -/
theorem quantise_spec (e : Element) :
    match e with
    | .node id lat lon tags => quantise e = .node id (quantCoord lat) (quantCoord lon) tags
    | .way id nodes tags => quantise e = .way id nodes tags
    | .relation id members tags => quantise e = .relation id members tags := by
  cases e <;> rfl

/-- a coordinate read back is less than one granularity step (100 nano-degrees) from the `int64`
nano-degree value that was written, for every `int64` (no overflow anywhere: `100 * (n / 100)` never
leaves the range) -/
theorem coord_within_step (n : Int64) : ((quantCoord n).toInt - n.toInt).natAbs < 100 :=
  quantCoord_within_step n

/-- …and less than one step from the real coordinate `X` (in nano-degrees, a rational) under the
conversion contract `|int64(X) − X| < 1` of the float → `int64` boundary. -/
theorem coord_within_step_of_contract (X : Rat) (n : Int64)
    (h1 : (n.toInt : Rat) - X < 1) (h2 : -1 < (n.toInt : Rat) - X) :
    ((quantCoord n).toInt : Rat) - X < 100 ∧ -100 < ((quantCoord n).toInt : Rat) - X := by
  have h := quantCoord_within_step n
  have h3 : (quantCoord n).toInt - n.toInt ≤ 99 := by omega
  have h4 : -99 ≤ (quantCoord n).toInt - n.toInt := by omega
  have h3' : (((quantCoord n).toInt - n.toInt : Int) : Rat) ≤ ((99 : Int) : Rat) := by exact_mod_cast h3
  have h4' : (((-99 : Int)) : Rat) ≤ (((quantCoord n).toInt - n.toInt : Int) : Rat) := by exact_mod_cast h4
  constructor <;> grind

/-- Any number of reader goroutines, any schedule: the file consists of blocks that each read without
error, block by block they give back the written sequence (`quantise`d) in order, and goroutine `k`
emits exactly the blocks it received, whole and in file order. (So: per goroutine the order is the
written order; across goroutines there is no order, `emit` is called concurrently.) -/
theorem pbf_roundtrip_cores (es : List Element) (assign : List Nat) (g : Nat) :
    let bs := writeAll es
    let chunks := bs.map fun b => (readBlock {} b).out
    chunks.flatten = es.map quantise ∧ (∀ b ∈ bs, (readBlock {} b).fail = none) ∧
    readCores {} bs assign g =
      (List.range g).map fun k => ((chunks.zip assign).filter (fun p => p.2 == k)).flatMap (·.1) := by
  obtain ⟨h1, h2⟩ := readAll_chunks (pbf_roundtrip es)
  refine ⟨h1, h2, ?_⟩
  simp only [readCores, List.zip_map_left, List.filter_map, List.flatMap_map]
  rfl

/-- with one goroutine every block goes to goroutine 0: its stream is the written sequence -/
theorem pbf_roundtrip_one_core (es : List Element) :
    readCores {} (writeAll es) (List.replicate (writeAll es).length 0) 1 = [es.map quantise] := by
  obtain ⟨h1, _⟩ := readAll_chunks (pbf_roundtrip es)
  have hz : ∀ (bs : List Block), ((bs.zip (List.replicate bs.length 0)).filter (fun p => p.2 == 0)).flatMap
      (fun p => (readBlock {} p.1).out) = (bs.map fun b => (readBlock {} b).out).flatten := by
    intro bs
    induction bs with
    | nil => rfl
    | cons b bs ih => simp [List.replicate_succ, ih]
  simp [readCores, hz, h1]

/-! ### The order across goroutines (finding `cores-gt1-cross-block-order`)

The property says "in the same order … for any number of reader cores". What the callback of
`ReadPBFWithOptions` sees is an interleaving (`Shuffle`) of the per-goroutine streams; nothing orders the
`emit` calls of different goroutines. -/

/-- the statement as written: whatever the schedule, the callback sees the written order -/
def total_order_statement : Prop :=
  ∀ (es : List Element) (g : Nat) (assign : List Nat) (glob : List Element),
    assign.length = (writeAll es).length → (∀ a ∈ assign, a < g) →
    Shuffle (readCores {} (writeAll es) assign g) glob → glob = es.map quantise

/-- It holds outside the class `crossBlockClass` (at most one goroutine, or at most one block): then every
order in which the callback can see the elements is the written order. -/
theorem total_order_partial (es : List Element) (g : Nat) (assign : List Nat) (glob : List Element)
    (hlen : assign.length = (writeAll es).length) (hlt : ∀ a ∈ assign, a < g)
    (hc : crossBlockClass g (writeAll es).length = false)
    (h : Shuffle (readCores {} (writeAll es) assign g) glob) : glob = es.map quantise :=
  total_order_of_single es g assign glob hlen hlt hc (pbf_roundtrip_cores es assign g).1 h

def orderWitness : List Element := [.node 1 0 0 [], .node 2 0 0 [], .way 3 [] []]

/-- …and fails inside it: two nodes and a way are two blocks; with two goroutines (block 0 → goroutine 0, block
1 → goroutine 1) the callback may see node 1, the way, node 2. -/
theorem total_order_counterexample : ¬ total_order_statement := by
  intro h
  have hs : Shuffle (readCores {} (writeAll orderWitness) [0, 1] 2)
      [.node 1 0 0 [], .way 3 [] [], .node 2 0 0 []] :=
    Shuffle.cons (k := 0) (rest := [.node 2 0 0 []]) (by decide)
      (Shuffle.cons (k := 1) (rest := []) (by decide)
        (Shuffle.cons (k := 0) (rest := []) (by decide) (Shuffle.nil (by decide))))
  have := h orderWitness 2 [0, 1] _ (by decide) (by decide) hs
  exact absurd this (by decide)

example : crossBlockClass 2 (writeAll orderWitness).length = true := by decide

/-- `lookupString` never hands out index 0 (the reserved entry), whatever the string — the empty string
included — and the index it returns resolves to the string in the table. -/
theorem string_index (S : List Str) (s : Str) :
    (lookup S s).1 ≠ 0 ∧ ("" :: (lookup S s).2)[(lookup S s).1]? = some s :=
  ⟨(lookup_spec S s).2.2, (lookup_spec S s).2.1⟩

/-- In every dense group the writer produces, `KeysVals` is one segment per node (`segs.length` = number of
IDs), and the reader's cursor after the tag loop has run for `k` nodes stands exactly at the start of
segment `k` (what is left is the segments from `k` on) — for every `k` up to the node count. -/
theorem dense_tags_aligned (es : List Element) (b : Block) (hb : b ∈ writeAll es) (g : Group) (hg : g ∈ b.groups)
    (d : Dense) (hd : g.dense = some d) :
    ∃ segs : List (List Nat), segs.length = d.id.length ∧ d.keysVals = segs.flatten ∧
      ∀ k, k ≤ segs.length → restAfter b.strings k d.keysVals = .ok (segs.drop k).flatten := by
  obtain ⟨ns, rfl, hok⟩ := (writeAll_spec es).2 b hb g hg d hd
  refine ⟨ns.map seg, by simp [encDense_id_length], encDense_keysVals 0 0 0 ns, ?_⟩
  intro k hk
  rw [encDense_keysVals, restAfter_segs b.strings ns hok k (by simpa using hk), List.map_drop]

/-! Non-vacuity: a concrete sequence with all three types, a type switch back to nodes, the empty string
as key / value / role, and negative IDs; its file has four blocks, the first one with a dense group. -/

def sample : List Element :=
  [ .node (-5) 515353621 (-1243072) [⟨"", ""⟩, ⟨"a", ""⟩],
    .node 7 (-99) 199 [],
    .way 3 [7, -5, 7] [⟨"a", "b"⟩],
    .relation (-1) [⟨.way, 3, ""⟩, ⟨.node, -5, "a"⟩] [⟨"type", "x"⟩],
    .node 9 0 0 [⟨"a", "a"⟩] ]

example : (writeAll sample).length = 4 := by decide
example : ((((writeAll sample).head?.bind (·.groups.head?)).bind (·.dense)).map (·.keysVals)) =
    some [1, 1, 2, 1, 0, 0] := by decide
example : readAll {} (writeAll sample) = ⟨sample.map quantise, none⟩ := pbf_roundtrip sample
example : quantCoord (-99) = 0 ∧ quantCoord 199 = 100 ∧ quantCoord 515353621 = 515353600 := by decide
example : ∃ X : Rat, ∃ n : Int64, (n.toInt : Rat) - X < 1 ∧ -1 < (n.toInt : Rat) - X := ⟨0, 0, by simp; grind, by simp; grind⟩

end B6.Props.C27
