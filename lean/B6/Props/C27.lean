/-! C27 — property theorems (stub: nothing proved yet). -/
