/-! C15 — property theorems (stub: nothing proved yet). -/
