import B6.Lemmas.RefOverlay
import B6.Lemmas.RefWorld
/-!
# C15 — Reference queries return the current referrers and always terminate

Model: `B6.Model.RefIndex` (ingest/features.go `FeatureReferencesByID`, ingest/mutable.go
`BasicMutableWorld` / `MutableOverlayWorld` reference maintenance and queries), mirroring the code
*after* the three repairs in /verif/fixes/C15-*.patch.  Spec: `B6.Spec.Referrers.ReachPlus`.

* `refs_index_inv`          the index is the inverse of `References()` after ANY disciplined history
                            of `AddFeature` / `RemoveFeature` (the in-loop slice deletion never panics)
* `find_refs_terminates`    `FindReferences` terminates on EVERY index (cycles, self references)
* `find_refs_spec`          … and returns exactly the transitive referrers in the current feature set,
                            on every graph (not only acyclic ones), each once at the world level
* `overlay_find_refs_spec`  the same for `MutableOverlayWorld.FindReferences` over a base world,
                            under the copy discipline of `AddFeature` (`UpClosed`)
* `world_history_query`, `overlay_history_query`  the two composed with the proofs that
                            `ModifiedFeatures.Update` / `MutableOverlayWorld.AddFeature` / `Snapshot` keep the
                            invariants: every edit history, no assumption left
* `cycle_diverges`          the code BEFORE the repair: no fuel suffices on a 2-cycle of relations
* `stale_base_referrer_counterexample`  the code BEFORE the second repair returns a base referrer
                            that the overlay replaced
-/
namespace B6.Props.C15
open B6.Model.RefIndex B6.Spec.Referrers B6.Lemmas.RefIndex B6.Lemmas.RefDfs B6.Lemmas.RefOverlay B6.Lemmas.RefWorld

/-! ## histories of the bare index -/

inductive Op where
  | add (f : Feature)
  | rm (f : Feature)

def run : Index × List Feature → List Op → Option (Index × List Feature)
  | st, [] => some st
  | (ix, fs), .add f :: ops => run (addFeature ix f, f :: fs) ops
  | (ix, fs), .rm f :: ops =>
    match removeFeature ix f with
    | some ix' => run (ix', fs.filter fun g => decide (g.id ≠ f.id)) ops
    | none => none

/-- the discipline of `ModifiedFeatures.Update`: a feature is added when its ID is not indexed, and the
version removed is the version that was added. -/
def Disciplined : List Feature → List Op → Prop
  | _, [] => True
  | fs, .add f :: ops => hasFeature fs f.id = false ∧ Disciplined (f :: fs) ops
  | fs, .rm f :: ops => f ∈ fs ∧ Disciplined (fs.filter fun g => decide (g.id ≠ f.id)) ops

def UniqueIds (fs : List Feature) : Prop := ∀ g ∈ fs, ∀ h ∈ fs, g.id = h.id → g = h

theorem run_inv : ∀ (ops : List Op) (ix : Index) (fs : List Feature), Inv ix fs → UniqueIds fs →
    Disciplined fs ops → ∃ ix' fs', run (ix, fs) ops = some (ix', fs') ∧ Inv ix' fs' ∧ UniqueIds fs' := by
  intro ops
  induction ops with
  | nil => intro ix fs hi hu _; exact ⟨ix, fs, rfl, hi, hu⟩
  | cons op ops ih =>
    intro ix fs hi hu hd
    cases op with
    | add f =>
      obtain ⟨hfresh, hd⟩ := hd
      simp only [run]
      apply ih _ _ (Inv_add hi f) _ hd
      intro g hg h hh e
      have hno : ∀ x ∈ fs, x.id ≠ f.id := by
        intro x hx ex
        have := (hasFeature_iff fs f.id).mpr ⟨x, hx, ex⟩
        rw [hfresh] at this; cases this
      rcases List.mem_cons.mp hg with hg1 | hg1
      · rcases List.mem_cons.mp hh with hh1 | hh1
        · rw [hg1, hh1]
        · rw [hg1] at e; exact absurd e.symm (hno h hh1)
      · rcases List.mem_cons.mp hh with hh1 | hh1
        · rw [hh1] at e; exact absurd e (hno g hg1)
        · exact hu g hg1 h hh1 e
    | rm f =>
      obtain ⟨hmem, hd⟩ := hd
      obtain ⟨ix', h1, h2⟩ := Inv_remove hi f (fun g hg e => hu g hg f hmem e)
      simp only [run, h1]
      apply ih _ _ h2 _ hd
      intro g hg h hh e
      exact hu g (List.mem_filter.mp hg).1 h (List.mem_filter.mp hh).1 e

/-- **refs_index_inv.** After any disciplined history of `AddFeature`/`RemoveFeature` on an empty
index, `RemoveFeature` never panicked, and the index holds, for every target, exactly the IDs of the
current features whose `References()` contain the target — one entry each. -/
theorem refs_index_inv (ops : List Op) (hd : Disciplined [] ops) :
    ∃ ix fs, run ([], []) ops = some (ix, fs) ∧
      (∀ t s, s ∈ (entries ix t).map (·.src) ↔ Refers fs t s) ∧
      (∀ t, ((entries ix t).map (·.src)).Nodup) := by
  obtain ⟨ix, fs, h, hi, _⟩ := run_inv ops [] [] Inv_empty (by intro g hg; cases hg) hd
  exact ⟨ix, fs, h, hi.1, hi.2⟩

/-- non-vacuity: add a closed path, an area over it, replace the path by another version -/
example : Disciplined [] [.add ⟨(1, 10), [(0, 1), (0, 2), (0, 3), (0, 1)]⟩, .add ⟨(2, 20), [(1, 10)]⟩,
    .rm ⟨(1, 10), [(0, 1), (0, 2), (0, 3), (0, 1)]⟩, .add ⟨(1, 10), [(0, 2), (0, 3), (0, 4), (0, 2)]⟩] :=
  ⟨by decide, by decide, by decide, by decide, trivial⟩

/-! ## queries -/

/-- **find_refs_terminates.** `FeatureReferencesByID.FindReferences` (with the visited test) answers
on every index whatsoever — cyclic or not, whatever its history. -/
theorem find_refs_terminates (ix : Index) (id : Id) (typed : List Nat) :
    ∃ L, findReferences ix id typed = some L := by
  obtain ⟨L, h, _⟩ := findReferences_spec ix id typed
  exact ⟨L, h⟩

/-- **find_refs_spec.** If the index is the inverse of the current features (which `refs_index_inv`
maintains), the world-level `FindReferences(id, typed…)` returns each feature that references `id`
directly or through a chain of current features, of a requested type, exactly once — on every
reference graph, including self references and cycles. -/
theorem find_refs_spec (ix : Index) (fs : List Feature) (hi : Inv ix fs) (id : Id) (typed : List Nat) :
    ∃ L, basicFind fs ix id typed = some L ∧ L.Nodup ∧
      ∀ s, s ∈ L ↔ (ReachPlus fs id s ∧ typeOk typed s = true) :=
  basicFind_spec hi id typed

/-- the two composed: any disciplined history, then any query -/
theorem history_then_query (ops : List Op) (hd : Disciplined [] ops) (id : Id) (typed : List Nat) :
    ∃ ix fs L, run ([], []) ops = some (ix, fs) ∧ basicFind fs ix id typed = some L ∧ L.Nodup ∧
      ∀ s, s ∈ L ↔ (ReachPlus fs id s ∧ typeOk typed s = true) := by
  obtain ⟨ix, fs, h, hi, _⟩ := run_inv ops [] [] Inv_empty (by intro g hg; cases hg) hd
  obtain ⟨L, h1, h2, h3⟩ := basicFind_spec hi id typed
  exact ⟨ix, fs, L, h, h1, h2, h3⟩

/-- **overlay_find_refs_spec.** `MutableOverlayWorld.FindReferences` over a basic base world, when the
overlay's index is the inverse of the overlay's features and every base feature that references an
overlay ID has been copied into the overlay (what `AddFeature` does): the answer is exactly the
referrers among the CURRENT features of the layered world, each once. -/
theorem overlay_find_refs_spec (o : Overlay) (hi : Inv o.ix o.feats) (hup : UpClosed o) (id : Id) (typed : List Nat) :
    ∃ L, o.find id typed = some L ∧ L.Nodup ∧
      ∀ s, s ∈ L ↔ (ReachPlus o.merged id s ∧ typeOk typed s = true) :=
  overlay_find_spec o hi hup id typed

/-! ### concrete witnesses -/

def r1 : Id := (3, 1)
def r2 : Id := (3, 2)
def p1 : Id := (0, 1)
def p2 : Id := (0, 2)
def p3 : Id := (0, 3)
def w10 : Id := (1, 10)

/-- relations 1 ∋ 2 and 2 ∋ 1 -/
def cyc : Index := addFeature (addFeature [] ⟨r1, [r2]⟩) ⟨r2, [r1]⟩

/-- the repaired code answers on the cycle … -/
example : findReferences cyc r1 [] = some [r1, r2] := by decide

/-- … and the hypotheses of `find_refs_spec` hold for it (non-vacuity). -/
example : Inv cyc [⟨r2, [r1]⟩, ⟨r1, [r2]⟩] := Inv_add (Inv_add Inv_empty _) _

theorem dfsOld_cyc_none : ∀ (fuel : Nat) (stack : List (Id × Ref)) (vis : List Key), stack ≠ [] →
    (∀ p ∈ stack, p.2.src = r1 ∨ p.2.src = r2) → dfsOld cyc fuel stack vis = none := by
  intro fuel
  induction fuel with
  | zero =>
    intro stack vis hne _
    cases stack with
    | nil => exact absurd rfl hne
    | cons p rest => rfl
  | succ fuel ih =>
    intro stack vis _ hall
    cases stack with
    | nil => contradiction
    | cons p rest =>
      obtain ⟨t, r⟩ := p
      simp only [dfsOld]
      have hr := hall (t, r) List.mem_cons_self
      have hw1 : work cyc r1 = [(r1, ⟨r2, none⟩)] := by decide
      have hw2 : work cyc r2 = [(r2, ⟨r1, none⟩)] := by decide
      apply ih
      · rcases hr with hr | hr <;> simp only at hr <;> rw [hr] <;> simp [hw1, hw2]
      · intro q hq
        rcases List.mem_append.mp hq with hq | hq
        · rcases hr with hr | hr <;> simp only at hr <;> rw [hr] at hq
          · rw [hw1] at hq; simp only [List.mem_singleton] at hq; subst hq; exact Or.inr rfl
          · rw [hw2] at hq; simp only [List.mem_singleton] at hq; subst hq; exact Or.inl rfl
        · exact hall q (List.mem_cons_of_mem _ hq)

/-- **cycle_diverges.** The code before `fixes/C15-find-references-visited.patch` (no visited test):
on relations 1 ∋ 2, 2 ∋ 1 no amount of fuel makes `findReferences` return — the real code died with
a fatal stack overflow. -/
theorem cycle_diverges : ∀ fuel, findReferencesOld fuel cyc r1 [] = none := by
  intro fuel
  have hw1 : work cyc r1 = [(r1, ⟨r2, none⟩)] := by decide
  simp only [findReferencesOld, hw1]
  rw [dfsOld_cyc_none fuel _ [] (by simp) (by intro p hp; simp only [List.mem_singleton] at hp; subst hp; exact Or.inr rfl)]

/-- base: points 1,2,3 and path 10 = [1,2]; the overlay replaced path 10 by [2,3]. -/
def staleWorld : Overlay :=
  { base := [⟨p1, []⟩, ⟨p2, []⟩, ⟨p3, []⟩, ⟨w10, [p1, p2]⟩],
    feats := [⟨w10, [p2, p3]⟩],
    ix := addFeature [] ⟨w10, [p2, p3]⟩ }

/-- **stale_base_referrer_counterexample.** The code before
`fixes/C15-overlay-skip-shadowed-base-referrers.patch` returns path 10 as a referrer of point 1 although
no current feature references point 1; the repaired code returns nothing. -/
theorem stale_base_referrer_counterexample :
    staleWorld.findStale p1 [] = some [w10] ∧ referrers staleWorld.merged p1 = some [] ∧
    staleWorld.find p1 [] = some [] := by decide

/-- the hypotheses of `overlay_find_refs_spec` hold for that world (non-vacuity) -/
example : Inv staleWorld.ix staleWorld.feats ∧ UpClosed staleWorld :=
  ⟨Inv_add Inv_empty _, by unfold UpClosed; decide⟩

/-! ## every edit history of the real worlds (no assumption left) -/

/-- **world_history_query.** Any sequence of `BasicMutableWorld.AddFeature` calls (additions and
replacements, any reference graph) never panics in the reference maintenance of
`ModifiedFeatures.Update`, and afterwards every `FindReferences` returns exactly the transitive
referrers among the current features, each once. -/
theorem world_history_query (adds : List Feature) (id : Id) (typed : List Nat) :
    ∃ w L, runWorldAdds World.empty adds = some w ∧ basicFind w.feats w.ix id typed = some L ∧ L.Nodup ∧
      ∀ s, s ∈ L ↔ (ReachPlus w.feats id s ∧ typeOk typed s = true) := by
  obtain ⟨w, hw, hinv⟩ := runWorldAdds_inv adds World.empty ⟨Inv_empty, by simp [Uniq, World.empty]⟩
  obtain ⟨L, h1, h2, h3⟩ := basicFind_spec hinv.1 id typed
  exact ⟨w, L, hw, h1, h2, h3⟩

/-- **overlay_history_query.** A `MutableOverlayWorld` over any base world with distinct IDs, after
any history of `AddFeature` (with its copies of referrers) and `Snapshot`: the overlay's index is the
inverse of the overlay's features, the copy discipline holds, and every `FindReferences` returns
exactly the referrers among the current features of the layered world, each once. -/
theorem overlay_history_query (base : List Feature) (hb : (base.map (·.id)).Nodup) (ops : List OOp)
    (id : Id) (typed : List Nat) :
    ∃ o L, runOOps ⟨base, [], []⟩ ops = some o ∧ o.find id typed = some L ∧ L.Nodup ∧
      ∀ s, s ∈ L ↔ (ReachPlus o.merged id s ∧ typeOk typed s = true) := by
  obtain ⟨o, ho, hinv⟩ := runOOps_inv ops ⟨base, [], []⟩ (oinv_init base hb)
  obtain ⟨L, h1, h2, h3⟩ := overlay_find_spec o hinv.1 hinv.2.2.2 id typed
  exact ⟨o, L, ho, h1, h2, h3⟩

/-- **overlay_index_inv_all_histories.** Histories that also contain the tag edits which copy a base-only
feature into the overlay (`AddTag` / `RemoveTag` of a searchable tag: copy, `m.references.AddFeature`):
after ANY history of `AddFeature`, `Snapshot` and such copy-ups the overlay's index is the inverse of
the overlay's features (one entry per target and source), and every `FindReferences` terminates
without repetitions. (The copy discipline `UpClosed` — hence `overlay_history_query` — does NOT
survive a copy-up: the copy's referrers stay in the base; see the example below. That the query is
nevertheless exact there — the copy has the base version's references — is tied by the
correspondence run, not proved.) -/
theorem overlay_index_inv_all_histories (base : List Feature) (hb : (base.map (·.id)).Nodup) (ops : List TOp) :
    ∃ o, runTOps ⟨base, [], []⟩ ops = some o ∧
      (∀ t s, s ∈ (entries o.ix t).map (·.src) ↔ Refers o.feats t s) ∧
      (∀ t, ((entries o.ix t).map (·.src)).Nodup) ∧
      ∀ id typed, ∃ L, o.find id typed = some L ∧ L.Nodup := by
  obtain ⟨o, ho, hi, _, _⟩ := runTOps_index ops ⟨base, [], []⟩ Inv_empty (by simp [Uniq]) hb
  exact ⟨o, ho, hi.1, hi.2, fun id typed => find_terminates o id typed⟩

/-- a copy-up breaks `UpClosed` (area 20 stays in the base while its path 10 is copied), yet the query is
still exact on this state -/
example : let o : Overlay := (⟨[⟨p1, []⟩, ⟨w10, [p1]⟩, ⟨(2, 20), [w10]⟩], [], []⟩ : Overlay).copyUp w10
    ¬ UpClosed o ∧ o.find p1 [] = some [(2, 20), w10] ∧ referrers o.merged p1 = some [w10, (2, 20)] := by
  refine ⟨by unfold UpClosed; decide, by decide, by decide⟩

/-- non-vacuity: a base path replaced in the overlay, then a snapshot, then an area over it -/
example : (runOOps ⟨[⟨p1, []⟩, ⟨p2, []⟩, ⟨p3, []⟩, ⟨w10, [p1, p2, p3, p1]⟩], [], []⟩
    [.add ⟨w10, [p2, p3, p1, p2]⟩, .snap, .add ⟨(2, 20), [w10]⟩]).isSome = true := by decide


end B6.Props.C15
