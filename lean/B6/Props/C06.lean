import B6.Lemmas.SearchCompile
import B6.Lemmas.SearchPosting
/-!
# C06 — Search iterators implement sorted-set algebra under any call sequence

The model is `B6.Model.Search` (array / tree leaves, `union`, `intersection`, `keyRange`, `tokenPrefix`,
`empty`, and `Query.Compile`), the spec `B6.Spec.Cursor` (strictly increasing list + position) and
`B6.Spec.SearchQuery` (`denote`).  `Refines ops s xs` = the implementation started in `s` answers **every**
finite sequence of `Next` / `Advance(k)` calls, with arbitrary keys, exactly like the spec cursor over `xs`
(same `Bool`, same value on `true`), up to the first `false` (`RefinesAt.run` turns it into transcripts).

All theorems are for all inputs: any lists, any number of children, any query depth, any call sequence.
Proofs are in `B6/Lemmas/Search*.lean`.
-/
namespace B6.Props.C06
open B6.Spec.Cursor B6.Spec.SearchQuery B6.Model.Search B6.Lemmas.Search

/-! ## The spec cursor is the sorted-set cursor the property talks about -/

/-- A plain `Next` loop over the spec cursor yields exactly the list, in order, then `false`. -/
theorem spec_drain (c : Cursor) :
    runSpec c (List.replicate (c.rest.length + 1) Call.next) =
      c.rest.map (fun x => (true, some x)) ++ [(false, none)] := by
  obtain ⟨b, r⟩ := c
  induction r generalizing b with
  | nil => simp [runSpec, Cursor.next]
  | cons x r ih =>
    have := ih (b ++ [x])
    simp only [List.length_cons, List.replicate_succ, runSpec, Cursor.next, ↓reduceIte, List.map_cons,
      List.cons_append, List.cons.injEq, Prod.mk.injEq, true_and] at this ⊢
    refine ⟨by simp [Cursor.cur], ?_⟩
    simpa [List.replicate_succ, runSpec] using this

/-- `advance k` never moves backwards, never skips: on `true` the new current element is the least
element of the list that is `≥ k` and not before the old current element (so it stays put when the current
element is already `≥ k`); on `false` no element `≥ k` exists. -/
theorem spec_advance_first_ge (c : Cursor) (hw : c.WF) (k : Nat) :
    ((c.advance k).1 = true →
      c.pos ≤ (c.advance k).2.pos ∧ (c.advance k).2.xs = c.xs ∧
      ∃ x, (c.advance k).2.cur = some x ∧ x ∈ c.xs ∧ k ≤ x ∧ (∀ v, c.cur = some v → v ≤ x) ∧
        ∀ y ∈ c.xs, k ≤ y → (∀ v, c.cur = some v → v ≤ y) → x ≤ y) ∧
    ((c.advance k).1 = false → ∀ y ∈ c.xs, y < k) := by
  obtain ⟨h1, h2⟩ := Cursor.advance_spec hw k
  exact ⟨fun ht => by obtain ⟨_, a, b, c⟩ := h1 ht; exact ⟨b, a, c⟩, h2⟩

/-- `next` moves to the least element above the current one (strictly increasing output). -/
theorem spec_next_least_above (c : Cursor) (hw : c.WF) :
    (c.next.1 = true →
      ∃ x, c.next.2.cur = some x ∧ x ∈ c.xs ∧ (∀ v, c.cur = some v → v < x) ∧
        ∀ y ∈ c.xs, (∀ v, c.cur = some v → v < y) → x ≤ y) ∧
    (c.next.1 = false → ∀ y ∈ c.xs, ∃ v, c.cur = some v ∧ y ≤ v) := by
  obtain ⟨h1, h2⟩ := Cursor.next_spec hw
  constructor
  · intro ht
    obtain ⟨_, _, _, x, hx, hxm, hlo, hleast⟩ := h1 ht
    refine ⟨x, hx, hxm, ?_, ?_⟩
    · intro v hv; simp [Cursor.lo, hv] at hlo; omega
    · intro y hy hvy
      apply hleast y hy
      cases hc : c.cur with
      | none => simp [Cursor.lo, hc]
      | some v => have := hvy v hc; simp [Cursor.lo, hc]; omega
  · intro hf y hy
    have := h2 hf y hy
    cases hc : c.cur with
    | none => simp [Cursor.lo, hc] at this
    | some v => simp [Cursor.lo, hc] at this; exact ⟨v, rfl, by omega⟩

/-! ## Leaves and combinators: each one is a simulation when its children are -/

/-- `arrayIndexIterator` over a strictly increasing posting list (and the tree-index leaf). -/
theorem array_refines (kind : LeafKind) (xs : List Nat) (h : StrictSorted xs) :
    Refines Leaf.ops ⟨kind, xs, 0⟩ xs :=
  leaf_refines kind xs h

/-- `union` (any number of children, any heap tie-breaking by first minimum): refines the cursor of any
strictly increasing `ys` whose elements are exactly those of the children's lists. -/
theorem union_refines {σ : Type} (o : IterOps σ) (children : List (σ × List Nat)) (ys : List Nat)
    (hch : ∀ p ∈ children, Refines o p.1 p.2) (hys : StrictSorted ys)
    (hmem : ∀ x, x ∈ ys ↔ ∃ p ∈ children, x ∈ p.2) :
    Refines (Union.ops o) (.fresh (children.map (·.1))) ys :=
  B6.Lemmas.Search.union_refines o children ys hch hys hmem

/-- `intersection` (at least one child; any order the stable sort by `EstimateLength` produces). -/
theorem intersection_refines {σ : Type} (o : IterOps σ) (fuel : Nat) (children : List (σ × List Nat))
    (ys : List Nat) (hne : children ≠ [])
    (hch : ∀ p ∈ children, Refines o p.1 p.2 ∧ p.2.length < fuel) (hys : StrictSorted ys)
    (hmem : ∀ x, x ∈ ys ↔ ∀ p ∈ children, x ∈ p.2) (hdom : ∀ p ∈ children, ∀ x ∈ p.2, o.dom x) :
    Refines (Inter.ops o fuel) (Inter.new o (children.map (·.1))) ys :=
  inter_refines o fuel o.estimate children ys hne hch hys hmem hdom

/-- The leapfrog loop terminates: in every state reachable by calls that returned `true` (`InterRel`),
`Next` and `Advance k` finish within the fuel (they never answer `Err.fuel`), for every `k`. -/
theorem intersection_terminates {σ : Type} (o : IterOps σ) (fuel : Nat) (its : List σ) (C : Cursor)
    (h : InterRel o fuel its C) :
    Inter.next o fuel its ≠ .error .fuel ∧ ∀ k, o.dom k → Inter.advance o fuel k its ≠ .error .fuel :=
  inter_terminates o fuel its C h

/-- `keyRange`: lazy `Advance(begin)`, end clamp. -/
theorem keyRange_refines {σ : Type} (o : IterOps σ) (it : σ) (xs : List Nat) (b e : Nat)
    (h : Refines o it xs) (hb : o.dom b) : Refines (Range.ops o) ⟨it, b, e, false⟩ (rangeList b e xs) :=
  range_refines o b e h hb

/-! ## Compiled query trees -/

/-- **Main theorem.** For every valid index of any kind — `ArrayIndex`, `TreeIndex`, or a compact index whose posting
lists are the bytes `PostingList.Fill` writes (`CompactOK`: sorted namespace table, decodable non-zero
`TypeAndNamespace`s) — and every well-formed query tree of `empty / all / union / intersection / key-range /
token-prefix` (no bound on depth or width) whose key-range bounds are in the index's key domain, the compiled iterator
refines the spec cursor over the list the query denotes.  (`Index.dom` is everything for the in-memory kinds, and
"namespace in the file's table" for compact ones, where `Advance` panics otherwise.) -/
theorem compile_refines (F : Nat) (ix : Index) (hv : ix.Valid) (hc : CompactOK ix) (hF : ix.total < F) (q : SQuery)
    (hq : q.WF) (hk : q.KeysIn ix.dom) (d : Nat) (hd : depth q ≤ d) :
    Refines (ops ix.dom F d) (compile F ix q) (q.denote ix) :=
  B6.Lemmas.Search.compile_refines F ix hv hc hF q hq hk d hd

/-- `tokenPrefix`: the scan of the sorted token list finds exactly the tokens with the prefix, and the union
of their posting lists refines the cursor of the merged list. -/
theorem tokenPrefix_refines (F : Nat) (ix : Index) (hv : ix.Valid) (hc : CompactOK ix) (hF : ix.total < F)
    (p : Token) (d : Nat) (hd : 2 ≤ d) :
    Refines (ops ix.dom F d) (compile F ix (.tokenPrefix p))
      (sortDedup ((ix.lists.filter (fun e => p.isPrefixOf e.1)).map (·.2)).flatten) := by
  have := compile_refines F ix hv hc hF (.tokenPrefix p) (by simp [SQuery.WF]) (by simp [SQuery.KeysIn]) d
    (by simpa [depth] using hd)
  simpa [SQuery.denote] using this

/-- The transcript of **any** call sequence (keys in the domain) on a compiled query equals the spec cursor's. -/
theorem compile_transcript (F : Nat) (ix : Index) (hv : ix.Valid) (hc : CompactOK ix) (hF : ix.total < F)
    (q : SQuery) (hq : q.WF) (hk : q.KeysIn ix.dom) (calls : List Call)
    (hcalls : ∀ k, Call.advance k ∈ calls → ix.dom k) :
    runImpl (ops ix.dom F (depth q)) (compile F ix q) calls = some (runSpec (start (q.denote ix)) calls) :=
  (compile_refines F ix hv hc hF q hq hk (depth q) (Nat.le_refl _)).run calls
    (fun k h => ops_dom ix.dom F (depth q) k (hcalls k h))

/-- A plain `Next` loop on a compiled query yields exactly the denoted list, in increasing order. -/
theorem compile_drain (F : Nat) (ix : Index) (hv : ix.Valid) (hc : CompactOK ix) (hF : ix.total < F) (q : SQuery)
    (hq : q.WF) (hk : q.KeysIn ix.dom) :
    runImpl (ops ix.dom F (depth q)) (compile F ix q) (List.replicate ((q.denote ix).length + 1) Call.next) =
      some ((q.denote ix).map (fun x => (true, some x)) ++ [(false, none)]) ∧
    StrictSorted (q.denote ix) := by
  refine ⟨?_, (denote_spec ix hv q).1⟩
  rw [compile_transcript F ix hv hc hF q hq hk _ (by simp)]
  exact congrArg some (spec_drain (start (q.denote ix)))

/-- in-memory indices satisfy `CompactOK` vacuously, and every key is in their domain -/
theorem compactOK_of_not_compact (ix : Index) (h : ix.kind ≠ .compact) : CompactOK ix :=
  fun hk => absurd hk h

/-! ## Compact indices: the posting-list iterator of C08 is a leaf of the same algebra

`postingOps tbl` is C08's byte-level model of `compact.Iterator`; its key domain `dom k` is "the namespace of `k` is in
the file's namespace table" (`Advance` panics in `nt.Encode` otherwise).  All combinator theorems above are stated
for an arbitrary `IterOps` with its `dom`; `compile_refines` uses them with `posting_refines` at the compact leaves
(`Iter.pleaf`), so the three theorems below are also instances of it. -/

open B6.Model.Posting in
/-- the compact iterator over `PostingList.Fill(token, ids)` refines the spec cursor over the ids' keys -/
theorem posting_refines (token : B6.Model.Varint.Bytes) (ids : List Id) (tbl : Table) (ht : TableOK tbl)
    (hok : PostingOK tbl ids) :
    Refines (postingOps tbl) (fill token ids, It.start) (ids.map keyNat) :=
  B6.Lemmas.Search.posting_refines token ids tbl ht hok

open B6.Model.Posting in
/-- `union` / `tokenPrefix` over compact posting lists of one file -/
theorem union_of_postings (tbl : Table) (ht : TableOK tbl) (ps : List (B6.Model.Varint.Bytes × List Id))
    (hok : ∀ p ∈ ps, PostingOK tbl p.2) (ys : List Nat) (hys : StrictSorted ys)
    (hmem : ∀ x, x ∈ ys ↔ ∃ p ∈ ps, x ∈ p.2.map keyNat) :
    Refines (Union.ops (postingOps tbl)) (.fresh (ps.map fun p => (fill p.1 p.2, It.start))) ys :=
  B6.Lemmas.Search.union_of_postings tbl ht ps hok ys hys hmem

open B6.Model.Posting in
/-- `intersection` over compact posting lists of one file: the leapfrog only ever passes the lists' own keys, which
are inside the key domain -/
theorem intersection_of_postings (tbl : Table) (ht : TableOK tbl) (fuel : Nat)
    (ps : List (B6.Model.Varint.Bytes × List Id)) (hne : ps ≠ [])
    (hok : ∀ p ∈ ps, PostingOK tbl p.2 ∧ p.2.length < fuel) (ys : List Nat) (hys : StrictSorted ys)
    (hmem : ∀ x, x ∈ ys ↔ ∀ p ∈ ps, x ∈ p.2.map keyNat) :
    Refines (Inter.ops (postingOps tbl) fuel)
      (Inter.new (postingOps tbl) (ps.map fun p => (fill p.1 p.2, It.start))) ys :=
  inter_of_postings tbl ht fuel ps hne hok ys hys hmem

example : B6.Model.Posting.TableOK B6.Props.C08.wTbl ∧ PostingOK B6.Props.C08.wTbl B6.Props.C08.wIds := by
  unfold B6.Model.Posting.TableOK PostingOK B6.Model.Posting.ValidIds B6.Model.Posting.SortedIds
    B6.Model.Posting.TnOK B6.Props.C08.wTbl B6.Props.C08.wIds B6.Model.Posting.idLt
  decide

/-! ## Non-vacuity: the hypotheses hold of concrete, non-trivial values; and one worked transcript -/

def exIndex : Index :=
  { kind := .array, lists := [("a=1".toList, [1, 4, 7, 9]), ("a=2".toList, [2, 4, 9, 12]), ("b".toList, [4, 5, 9, 20])] }

/-- a compact index: keys `(type * 8192 + namespace) * 2^64 + value` over the table `["", "a", "b"]` -/
def exCompact : Index :=
  { kind := .compact, names := ["", "a", "b"],
    lists := [("t".toList, [1 * 2 ^ 64 + 1, 2 * 2 ^ 64 + 5, 2 * 2 ^ 64 + 9]),
              ("u".toList, [2 * 2 ^ 64 + 5, 2 * 2 ^ 64 + 7, 8193 * 2 ^ 64])] }

example : exCompact.Valid := by
  unfold Index.Valid exCompact StrictSorted
  decide

example : CompactOK exCompact := by
  intro _
  unfold exCompact B6.Model.Posting.TableOK B6.Model.Posting.TnOK
  decide

example : (SQuery.keyRange (2 * 2 ^ 64) (8193 * 2 ^ 64) (.inter [.all "t".toList, .all "u".toList])).KeysIn
    exCompact.dom := by
  simp [SQuery.KeysIn, SQuery.KeysInList, Index.dom, exCompact]

/-- the byte-level compact leaves run: intersection of two posting lists, `Advance` then `Next` -/
example :
    runImpl (ops exCompact.dom 7 1) (compile 7 exCompact (.inter [.all "t".toList, .all "u".toList]))
      [.advance (1 * 2 ^ 64 + 3), .next] = some [(true, some (2 * 2 ^ 64 + 5)), (false, none)] := by
  decide

def exQuery : SQuery :=
  .inter [.union [.all "a=1".toList, .all "a=2".toList], .keyRange 3 15 (.tokenPrefix "b".toList),
    .tokenPrefix "a=".toList]

example : exIndex.Valid := by
  unfold Index.Valid exIndex StrictSorted
  decide

example : exQuery.WF := by simp [exQuery, SQuery.WF, SQuery.WFList]

example : exIndex.total < 13 := by decide

example : exQuery.denote exIndex = [4, 9] := by decide

example : StrictSorted [1, 4, 7, 9] := by unfold StrictSorted; decide

example :
    runSpec (start [4, 9]) [.advance 2, .advance 4, .next, .advance 100] =
      [(true, some 4), (true, some 4), (true, some 9), (false, none)] := by decide

/-- children satisfying the hypotheses of `union_refines` / `intersection_refines` -/
example : Refines Leaf.ops ⟨.array, [1, 4, 7, 9], 0⟩ [1, 4, 7, 9] :=
  array_refines .array _ (by unfold StrictSorted; decide)

end B6.Props.C06
