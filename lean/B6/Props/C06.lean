/-! C06 — property theorems (stub: nothing proved yet). -/
