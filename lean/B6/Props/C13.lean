/-! C13 — property theorems (stub: nothing proved yet). -/
