import B6.Lemmas.MutableAtomic
/-!
# C13 — A rejected change leaves the world as it was

Model: `B6.Model.Mutable` — `Layer.addFeature` performs the temporary replacement
`(*m.features)[id] = f`, validates the referrers against that world, and puts the existing feature
back (or deletes the temporary entry) on **both** outcomes, as mutable.go does after
`fixes/C13-restore-on-rejected-replacement.patch` and `fixes/C13-validate-referrers-of-base-features.patch`;
`mergedApply` is `MergedChange.Apply` (canary overlay over the world, then the real thing).
Validation decisions (`validate`) use the `Oracle` for what S2 decides; the theorems hold for every oracle.
-/
namespace B6.Props.C13
open B6.Model.Mutable
open B6.Spec.World (changeIds)

/-- every observation C13 speaks about: lookups (tags, geometry, resolved coordinates), locations,
search hits and what they are wrapped as, references, enumeration -/
structure ObsEq (v v' : View) : Prop where
  find : v'.find = v.find
  hitFV : v'.hitFV = v.hitFV
  loc : v'.loc = v.loc
  search : v'.search = v.search
  refs : v'.refs = v.refs
  ids : ∀ id, id ∈ v'.ids ↔ id ∈ v.ids

theorem obsEq_of_same {l l' : Layer} (h : l.Same l') (b : View) (ll : Id → Option Pt) :
    ObsEq (l.view b ll) (l'.view b ll) :=
  ⟨h.find b, h.hitFV b ll, h.loc b, h.search b, h.refsOf b, h.mem_ids b⟩

/-- **Rejected AddFeature.** If `AddFeature` reports an error — because the feature itself, or a feature
that references it, would be invalid — the world it leaves behind answers every query as before. -/
theorem rejected_unchanged {b : View} {o : Oracle} {l l' : Layer} {f : Feature} {e : Err}
    (h : l.addFeature b o f = (l', some e)) (ll : Id → Option Pt) :
    ObsEq (l.view b ll) (l'.view b ll) :=
  obsEq_of_same (addFeature_err_same h) b ll

/-- the same for every operation of the mutable world that reports an error other than the
"partially applied" one of a merged change (excluded by `merged_atomic_partial` below) -/
theorem rejected_unchanged_step {b : View} {o : Oracle} {l l' : Layer} {op : Op} {e : Err}
    (h : l.step b o op = (l', some e)) (he : e ≠ .partiallyApplied) (ll : Id → Option Pt) :
    ObsEq (l.view b ll) (l'.view b ll) := by
  cases op with
  | addFeature f => exact rejected_unchanged h ll
  | addTag id t =>
    simp only [Layer.step] at h
    cases hs : l.addTag b id t with
    | ok l1 => rw [hs] at h; cases h
    | error e' => rw [hs] at h; simp only [Prod.mk.injEq] at h; obtain ⟨rfl, _⟩ := h
                  exact obsEq_of_same (Layer.Same.rfl' l) b ll
  | removeTag id k =>
    simp only [Layer.step] at h
    cases hs : l.removeTag b id k with
    | ok l1 => rw [hs] at h; cases h
    | error e' => rw [hs] at h; simp only [Prod.mk.injEq] at h; obtain ⟨rfl, _⟩ := h
                  exact obsEq_of_same (Layer.Same.rfl' l) b ll
  | merged cs =>
    simp only [Layer.step] at h
    rcases mergedApply_cases b o l cs with ⟨e', _, he', _⟩ | ⟨l1, h1, _⟩ | ⟨l1, e', h1, _, _⟩
    · rw [he'] at h; simp only [Prod.mk.injEq] at h; obtain ⟨rfl, _⟩ := h
      exact obsEq_of_same (Layer.Same.rfl' l) b ll
    · rw [h1] at h; cases h
    · rw [h1] at h; simp only [Prod.mk.injEq, Option.some.injEq] at h
      exact absurd h.2.symm he

/-! ## Merged changes -/

/-- the outcome C13 demands of a merged change on the world `l` over `b`: all parts applied, or an error
and the world literally untouched — never "partially applied" -/
def AtomicOutcome (b : View) (o : Oracle) (l : Layer) (cs : List Change) : Prop :=
  (∃ l', mergedApply b o l cs = (l', none) ∧ applyAll b o l cs = (l', none)) ∨
  (∃ e, e ≠ Err.partiallyApplied ∧ mergedApply b o l cs = (l, some e))

/-- **the full statement**: over any valid base whose `FindReferences` is complete, in every world reachable
by any history of AddFeature / AddTag / RemoveTag / merged changes (whatever they answered), every merged
change is atomic.  (`opOKsf` / `changesOK`: paths and areas do not name themselves — automatic with
typed ids.)  Proved below: `merged_atomic`. -/
def merged_atomic_statement : Prop :=
  ∀ (b : View) (o : Oracle) (ops : List Op) (cs : List Change),
    BaseOK b → AllValid b o → (∀ op ∈ ops, opOKsf op) → changesOK cs →
    AtomicOutcome b o (runOps b o Layer.empty ops).1 cs

/-- the canary is faithful for a change list: whatever the fresh overlay over the world accepts, the
world accepts -/
def CanaryFaithful (b : View) (o : Oracle) (l : Layer) (cs : List Change) : Prop :=
  (applyAll (l.view b (l.loc b)) o Layer.empty cs).2 = none → (applyAll b o l cs).2 = none

/-- **Merged change, proved part.** Atomicity holds for every change list on which the canary is
faithful.  What is *not* proved in general is `CanaryFaithful` for lists containing `AddFeatures`
parts (it needs the reference index of C15 and the validity invariant of C37 to agree between the
canary and the world); it is proved for tag-only lists below and checked by the correspondence run
for lists with feature parts (`propfail merged-partially-applied`). -/
theorem merged_atomic_partial (b : View) (o : Oracle) (l : Layer) (cs : List Change)
    (hc : CanaryFaithful b o l cs) :
    (∃ l', mergedApply b o l cs = (l', none) ∧ applyAll b o l cs = (l', none)) ∨
    (∃ e, e ≠ Err.partiallyApplied ∧ mergedApply b o l cs = (l, some e)) := by
  rcases mergedApply_cases b o l cs with ⟨e, he, h1, _⟩ | ⟨l1, h1, h2⟩ | ⟨l1, e, _, h2, h3⟩
  · exact Or.inr ⟨e, he, h1⟩
  · exact Or.inl ⟨l1, h1, h2⟩
  · have := hc h3
    rw [h2] at this
    cases this

/-! ### the canary is faithful for tag changes -/

def tagOnly : Change → Bool
  | .addFeatures _ => false
  | _ => true

theorem isSome_find_of_tagOf {v : View} {id : Id} : (v.find id).isSome = (tagOf v id "").isSome := by
  simp [tagOf]

theorem addTag_ok_iff {b : View} {l : Layer} {id : Id} {t : Tag} :
    (∃ l', l.addTag b id t = .ok l') ↔ (l.find b id).isSome = true := by
  constructor
  · rintro ⟨l', h⟩
    cases hf : l.find b id with
    | some fv => rfl
    | none =>
      unfold Layer.addTag at h
      cases hg : AMap.get l.feats id with
      | some f => rw [find_overlay hg] at hf; cases hf
      | none => simp [hg, hf] at h
  · intro h
    cases hs : l.addTag b id t with
    | ok l' => exact ⟨l', rfl⟩
    | error e => rw [addTag_error hs] at h; cases h

theorem removeTag_ok_iff {b : View} {l : Layer} {id : Id} {k : Key} :
    (∃ l', l.removeTag b id k = .ok l') ↔ (l.find b id).isSome = true := by
  constructor
  · rintro ⟨l', h⟩
    cases hf : l.find b id with
    | some fv => rfl
    | none =>
      unfold Layer.removeTag at h
      cases hg : AMap.get l.feats id with
      | some f => rw [find_overlay hg] at hf; cases hf
      | none => simp [hg, hf] at h
  · intro h
    cases hs : l.removeTag b id k with
    | ok l' => exact ⟨l', rfl⟩
    | error e => rw [removeTag_error hs] at h; cases h

/-- tag edits never create or remove features -/
theorem exists_addTag {b : View} {l l' : Layer} {id : Id} {t : Tag} (hb : b.IdsOK) (hl : l.FeatsId)
    (h : l.addTag b id t = .ok l') (id' : Id) : (l'.find b id').isSome = (l.find b id').isSome := by
  have := tagOf_addTag_ok hb hl h (l.loc b) (l'.loc b) id' ""
  rw [← find_view b (l'.loc b), ← find_view b (l.loc b), isSome_find_of_tagOf, isSome_find_of_tagOf, this]
  by_cases hid : id' = id
  · subst hid; simp
  · simp [hid]

theorem exists_removeTag {b : View} {l l' : Layer} {id : Id} {k : Key} (hb : b.IdsOK) (hl : l.FeatsId)
    (h : l.removeTag b id k = .ok l') (id' : Id) : (l'.find b id').isSome = (l.find b id').isSome := by
  have := tagOf_removeTag_ok hb hl h (l.loc b) (l'.loc b) id' ""
  rw [← find_view b (l'.loc b), ← find_view b (l.loc b), isSome_find_of_tagOf, isSome_find_of_tagOf, this]
  by_cases hid : id' = id
  · subst hid; simp
  · simp [hid]

/-- a tag-only change list succeeds exactly when every feature it names exists; existence is left as
it was -/
theorem applyAddTags_ok_iff {b : View} (hb : b.IdsOK) (ts : List (Id × Tag)) :
    ∀ (l : Layer), l.FeatsId →
      (((applyAddTags b l ts).2 = none ↔ ∀ e ∈ ts, (l.find b e.1).isSome = true) ∧
       ((applyAddTags b l ts).2 = none → (applyAddTags b l ts).1.FeatsId ∧
          ∀ id, ((applyAddTags b l ts).1.find b id).isSome = (l.find b id).isSome)) := by
  induction ts with
  | nil => intro l hl; simp [applyAddTags, hl]
  | cons e rest ih =>
    intro l hl
    obtain ⟨id, t⟩ := e
    simp only [applyAddTags]
    cases hs : l.addTag b id t with
    | ok l1 =>
      simp only
      have hl1 := featsId_addTag hl hs
      have hex := exists_addTag hb hl hs
      obtain ⟨i1, i2⟩ := ih l1 hl1
      refine ⟨?_, fun h => ?_⟩
      · rw [i1]
        simp only [List.mem_cons, forall_eq_or_imp]
        constructor
        · intro h
          exact ⟨addTag_ok_iff.1 ⟨l1, hs⟩, fun e he => by rw [← hex]; exact h e he⟩
        · rintro ⟨_, h⟩ e he; rw [hex]; exact h e he
      · obtain ⟨j1, j2⟩ := i2 h
        exact ⟨j1, fun id' => by rw [j2, hex]⟩
    | error err =>
      simp only
      refine ⟨?_, fun h => by cases h⟩
      constructor
      · intro h; cases h
      · intro h
        have := h (id, t) List.mem_cons_self
        rw [addTag_error hs] at this; cases this

theorem applyRemoveTags_ok_iff {b : View} (hb : b.IdsOK) (ts : List (Id × Key)) :
    ∀ (l : Layer), l.FeatsId →
      (((applyRemoveTags b l ts).2 = none ↔ ∀ e ∈ ts, (l.find b e.1).isSome = true) ∧
       ((applyRemoveTags b l ts).2 = none → (applyRemoveTags b l ts).1.FeatsId ∧
          ∀ id, ((applyRemoveTags b l ts).1.find b id).isSome = (l.find b id).isSome)) := by
  induction ts with
  | nil => intro l hl; simp [applyRemoveTags, hl]
  | cons e rest ih =>
    intro l hl
    obtain ⟨id, k⟩ := e
    simp only [applyRemoveTags]
    cases hs : l.removeTag b id k with
    | ok l1 =>
      simp only
      have hl1 := featsId_removeTag hl hs
      have hex := exists_removeTag hb hl hs
      obtain ⟨i1, i2⟩ := ih l1 hl1
      refine ⟨?_, fun h => ?_⟩
      · rw [i1]
        simp only [List.mem_cons, forall_eq_or_imp]
        constructor
        · intro h
          exact ⟨removeTag_ok_iff.1 ⟨l1, hs⟩, fun e he => by rw [← hex]; exact h e he⟩
        · rintro ⟨_, h⟩ e he; rw [hex]; exact h e he
      · obtain ⟨j1, j2⟩ := i2 h
        exact ⟨j1, fun id' => by rw [j2, hex]⟩
    | error err =>
      simp only
      refine ⟨?_, fun h => by cases h⟩
      constructor
      · intro h; cases h
      · intro h
        have := h (id, k) List.mem_cons_self
        rw [removeTag_error hs] at this; cases this

theorem applyAll_tags_ok_iff {b : View} {o : Oracle} (hb : b.IdsOK) (cs : List Change) (hc : ∀ c ∈ cs, tagOnly c = true) :
    ∀ (l : Layer), l.FeatsId →
      ((applyAll b o l cs).2 = none ↔ ∀ id ∈ cs.flatMap changeIds, (l.find b id).isSome = true) := by
  induction cs with
  | nil => intro l _; simp [applyAll]
  | cons c rest ih =>
    intro l hl
    have hrest : ∀ c ∈ rest, tagOnly c = true := fun c' h => hc c' (List.mem_cons_of_mem _ h)
    simp only [applyAll, List.flatMap_cons, List.mem_append]
    cases c with
    | addFeatures fs => have := hc _ List.mem_cons_self; simp [tagOnly] at this
    | addTags ts =>
      obtain ⟨i1, i2⟩ := applyAddTags_ok_iff hb ts l hl
      simp only [Change.apply]
      cases hr : applyAddTags b l ts with
      | mk l1 r1 =>
        rw [hr] at i1 i2
        cases r1 with
        | none =>
          simp only
          obtain ⟨j1, j2⟩ := i2 rfl
          rw [ih hrest l1 j1]
          constructor
          · intro h id hid
            rcases hid with hid | hid
            · simp only [changeIds, List.mem_map] at hid
              obtain ⟨e, he, rfl⟩ := hid
              exact (i1.1 rfl) e he
            · rw [← j2]; exact h id hid
          · intro h id hid; rw [j2]; exact h id (Or.inr hid)
        | some e =>
          simp only
          constructor
          · intro h; cases h
          · intro h
            have := i1.2 (fun e he => h e.1 (Or.inl (by simp only [changeIds, List.mem_map]; exact ⟨e, he, rfl⟩)))
            cases this
    | removeTags ts =>
      obtain ⟨i1, i2⟩ := applyRemoveTags_ok_iff hb ts l hl
      simp only [Change.apply]
      cases hr : applyRemoveTags b l ts with
      | mk l1 r1 =>
        rw [hr] at i1 i2
        cases r1 with
        | none =>
          simp only
          obtain ⟨j1, j2⟩ := i2 rfl
          rw [ih hrest l1 j1]
          constructor
          · intro h id hid
            rcases hid with hid | hid
            · simp only [changeIds, List.mem_map] at hid
              obtain ⟨e, he, rfl⟩ := hid
              exact (i1.1 rfl) e he
            · rw [← j2]; exact h id hid
          · intro h id hid; rw [j2]; exact h id (Or.inr hid)
        | some e =>
          simp only
          constructor
          · intro h; cases h
          · intro h
            have := i1.2 (fun e he => h e.1 (Or.inl (by simp only [changeIds, List.mem_map]; exact ⟨e, he, rfl⟩)))
            cases this

/-- **The canary is faithful for tag changes** (`AddTags` / `RemoveTags` parts in any number and order). -/
theorem canary_faithful_tags {b : View} {o : Oracle} {l : Layer} (hb : b.IdsOK) (hl : l.FeatsId)
    (cs : List Change) (hc : ∀ c ∈ cs, tagOnly c = true) : CanaryFaithful b o l cs := by
  intro h
  have hv : (l.view b (l.loc b)).IdsOK := view_idsOK hb hl (l.loc b)
  have he : Layer.empty.FeatsId := by intro i f h; simp [Layer.empty] at h
  rw [applyAll_tags_ok_iff hv cs hc Layer.empty he] at h
  rw [applyAll_tags_ok_iff hb cs hc l hl]
  intro id hid
  have := h id hid
  rw [find_base (by simp [Layer.empty])] at this
  simpa [find_view] using this

/-- **Merged tag changes are atomic** — unconditionally. -/
theorem merged_atomic_tags {b : View} {o : Oracle} {l : Layer} (hb : b.IdsOK) (hl : l.FeatsId)
    (cs : List Change) (hc : ∀ c ∈ cs, tagOnly c = true) :
    (∃ l', mergedApply b o l cs = (l', none) ∧ applyAll b o l cs = (l', none)) ∨
    (∃ e, e ≠ Err.partiallyApplied ∧ mergedApply b o l cs = (l, some e)) :=
  merged_atomic_partial b o l cs (canary_faithful_tags hb hl cs hc)

/-! ### the canary is faithful for every change list, given agreeing `FindReferences` -/

/-- **Canary faithfulness, general.** For ANY change list (AddFeatures, AddTags, RemoveTags parts in any
number and order): if, run in lock step, the canary and the world return the same referrers from
`FindReferences` before every `AddFeature` (`canaryRefsAgree`, an executable check the driver evaluates on
every merged change; it is what C15's `overlay_find_refs_spec` asserts of each of the two worlds), then
the fresh overlay over the world accepts the change **iff** the world does — they give the same answer.
The proof is a simulation on what validation reads (geometry skeletons and locations, `Sim`); it relies
on `ValidateArea` locating path ends in the world being validated
(`fixes/C13-validate-area-locates-ends-in-world.patch` — before it the statement was false, see the corpus). -/
theorem canary_faithful_of_refs {b : View} {o : Oracle} {l : Layer} (hb : b.IdsOK) (hbl : b.LocOK)
    (hl : l.FeatsId) (cs : List Change) (href : canaryRefsAgree b o l cs = true) :
    (applyAll (l.view b (l.loc b)) o Layer.empty cs).2 = (applyAll b o l cs).2 := by
  rw [applyAll_eq_prims, applyAll_eq_prims]
  exact prims_faithful (view_idsOK hb hl (l.loc b)) (view_locOK hbl l (l.loc b)) hb hbl _
    Layer.empty l (sim_init b l hl) href

theorem canary_faithful {b : View} {o : Oracle} {l : Layer} (hb : b.IdsOK) (hbl : b.LocOK)
    (hl : l.FeatsId) (cs : List Change) (href : canaryRefsAgree b o l cs = true) : CanaryFaithful b o l cs := by
  intro h
  rw [← canary_faithful_of_refs hb hbl hl cs href]; exact h

/-- **Merged changes are atomic** — for every change list on which the two `FindReferences` agree. -/
theorem merged_atomic_of_refs {b : View} {o : Oracle} {l : Layer} (hb : b.IdsOK) (hbl : b.LocOK)
    (hl : l.FeatsId) (cs : List Change) (href : canaryRefsAgree b o l cs = true) :
    (∃ l', mergedApply b o l cs = (l', none) ∧ applyAll b o l cs = (l', none)) ∨
    (∃ e, e ≠ Err.partiallyApplied ∧ mergedApply b o l cs = (l, some e)) :=
  merged_atomic_partial b o l cs (canary_faithful hb hbl hl cs href)

/-! ### the canary is faithful in every reachable world — no run-time hypothesis -/

/-- **Canary faithfulness from the invariants.** In a world satisfying `Inv` (reference table = inverse of
the overlay's references, copy discipline, every feature valid) over a base with a complete
`FindReferences`, the fresh overlay `MergedChange.Apply` tries a change on gives the SAME answer as the
world, for every change list.  Proof: `AddFeature`'s answer is "f invalid, or a feature depending on f.id
becomes invalid" (`addFeature_err_iff`: validity makes extra referrers harmless, completeness
(`refsComplete_view`) makes the referrer list sufficient) — a function of geometry and locations, on
which canary and world agree (`Sim`); the invariants are preserved by every call on both (`inv_prim`). -/
theorem canary_faithful_inv {b : View} {o : Oracle} {l : Layer} (hb : BaseOK b) (h : Inv b o l)
    (cs : List Change) (hok : changesOK cs) :
    (applyAll (l.view b (l.loc b)) o Layer.empty cs).2 = (applyAll b o l cs).2 := by
  rw [applyAll_eq_prims, applyAll_eq_prims]
  obtain ⟨hv0, hc⟩ := canary_init hb h
  exact prims_faithful_inv hv0 hb _ Layer.empty l (sim_init b l h.feats) hc h hok

/-- **Merged changes are atomic** in every world satisfying the invariants. -/
theorem merged_atomic_inv {b : View} {o : Oracle} {l : Layer} (hb : BaseOK b) (h : Inv b o l)
    (cs : List Change) (hok : changesOK cs) : AtomicOutcome b o l cs :=
  merged_atomic_partial b o l cs (fun hc => by rw [← canary_faithful_inv hb h cs hok]; exact hc)

/-- **the invariants hold in every reachable world** -/
theorem inv_reachable {b : View} {o : Oracle} (hb : BaseOK b) (hav : AllValid b o) (ops : List Op)
    (hops : ∀ op ∈ ops, opOKsf op) : Inv b o (runOps b o Layer.empty ops).1 :=
  inv_runOps hb ops Layer.empty (inv_empty hav) hops

/-- **`merged_atomic_statement` holds.** -/
theorem merged_atomic : merged_atomic_statement :=
  fun b o ops cs hb hav hops hcs => merged_atomic_inv hb (inv_reachable hb hav ops hops) cs hcs

/-- in particular `canaryRefsAgree`-style agreement is no longer assumed anywhere: the former hypothesis of
`merged_atomic_of_refs` is not needed in reachable worlds -/
theorem canary_faithful_reachable {b : View} {o : Oracle} (hb : BaseOK b) (hav : AllValid b o) (ops : List Op)
    (hops : ∀ op ∈ ops, opOKsf op) (cs : List Change) (hcs : changesOK cs) :
    CanaryFaithful b o (runOps b o Layer.empty ops).1 cs := by
  intro hc
  rw [← canary_faithful_inv hb (inv_reachable hb hav ops hops) cs hcs]; exact hc

/-! ## Non-vacuity -/

/-- base: a counter-clockwise triangle 1-2-3, closed path 1005 through it, area 2006 over the path -/
def exampleRoot : List Feature :=
  [⟨1, [], .point (0, 0)⟩, ⟨2, [], .point (0, 10)⟩, ⟨3, [], .point (10, 0)⟩,
   ⟨1005, [], .path [1, 2, 3, 1]⟩, ⟨2006, [], .area [1005]⟩]

def exampleOracle : Oracle := ⟨fun pts => decide (pts.length ≥ 3), fun _ => false⟩

/-- the hypothesis of `rejected_unchanged` is satisfiable in the interesting way: the path under the
area is replaced by an open one; the path is valid by itself, the referrer (the area) is not, the call
is rejected, and the layer left behind is *not* the layer before (the temporary entry was written and
removed again) — yet, by the theorem, reads the same. -/
example :
    let b := rootView exampleRoot
    let r := Layer.empty.addFeature b exampleOracle ⟨1005, [], .path [1, 2, 3]⟩
    r.2 = some Err.invalid ∧ validate (Layer.empty.view b (Layer.empty.loc b)) exampleOracle ⟨1005, [], .path [1, 2, 3]⟩ = true := by
  decide

/-- a merged change whose second part is rejected leaves the first part unapplied -/
example :
    let b := rootView exampleRoot
    let r := mergedApply b exampleOracle Layer.empty
      [.addTags [(1, ("name", ⟨"s", "x"⟩))], .addFeatures [⟨1005, [], .path [1, 2, 3]⟩]]
    r.2 = some Err.invalid ∧ tagOf (r.1.view b (r.1.loc b)) 1 "name" = some none := by
  decide

/-- the hypotheses of `merged_atomic_of_refs` hold for the merged change above (a tag part and a feature
part that is rejected through its referrer) -/
example : (rootView exampleRoot).IdsOK ∧ (rootView exampleRoot).LocOK ∧ Layer.empty.FeatsId ∧
    canaryRefsAgree (rootView exampleRoot) exampleOracle Layer.empty
      [.addTags [(1, ("name", ⟨"s", "x"⟩))], .addFeatures [⟨1005, [], .path [1, 2, 3]⟩]] = true :=
  ⟨rootView_idsOK _, rootView_locOK _, fun i f h => by simp [Layer.empty] at h, by decide⟩

/-- the hypotheses of `merged_atomic` are met by the root of the examples above (a valid triangle under an
area) with a history that copies the path by a tag edit (the case in which C15's copy discipline fails)
and a merged change with a rejected feature part -/
example : BaseOK (rootView exampleRoot) ∧ AllValid (rootView exampleRoot) exampleOracle ∧
    (∀ op ∈ [Op.addTag 1005 ("#highway", ⟨"s", "a"⟩), Op.addFeature ⟨2, [], .point (0, 11)⟩], opOKsf op) ∧
    changesOK [.addTags [(1, ("name", ⟨"s", "x"⟩))], .addFeatures [⟨1005, [], .path [1, 2, 3]⟩]] := by
  refine ⟨rootView_baseOK _, rootView_allValid _ _ (by decide), ?_, ?_⟩
  · intro op hop
    simp only [List.mem_cons, List.not_mem_nil, or_false] at hop
    rcases hop with rfl | rfl
    · trivial
    · show selfFree _ = true; decide
  · intro p hp
    simp only [List.flatMap_cons, List.flatMap_nil, Change.prims, List.map_cons, List.map_nil, List.append_nil,
      List.cons_append, List.nil_append, List.mem_cons, List.not_mem_nil, or_false] at hp
    rcases hp with rfl | rfl <;> decide

end B6.Props.C13
