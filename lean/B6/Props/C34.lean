/-! C34 — property theorems (stub: nothing proved yet). -/
