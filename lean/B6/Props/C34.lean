import B6.Model.DouglasPeucker
import B6.Lemmas.DouglasPeucker
/-!
# C34 — Line simplification matches the recursive reference

Theorems about `B6.Model.DouglasPeucker` (model of renderer/simplify.go after fix
C34-negative-tolerance).  They hold for **every** point list, **every** tolerance and **every**
`Metric` (distance function, `>` relation, zero) — no order axioms are used, so NaN distances / a NaN,
infinite or negative tolerance are covered.  The stack invariant is `Lemmas.DouglasPeucker.core`.
-/
namespace B6.Props.C34
open B6.Model.DouglasPeucker B6.Lemmas.DouglasPeucker

variable {P D : Type}

/-- Shape of a run on a non-empty line: both algorithms return the same `L ++ [last]`, `L` starts with
the first point and (for ≥ 2 points) is a subsequence of the line without its last point. -/
theorem dp_run (m : Metric P D) (pts : List P) (eps : D) (hne : pts ≠ []) :
    ∃ (L : List P) (z : P), pts.getLast? = some z ∧
      douglasPeucker m pts eps = .ok (L ++ [z]) ∧ reference m pts eps = .ok (L ++ [z]) ∧
      L.head? = pts.head? ∧ (2 ≤ pts.length → L.Sublist pts.dropLast) := by
  obtain ⟨L, z, c, E⟩ := core m eps pts.length pts [] [] rfl hne
  simp only [List.nil_append, List.append_nil, List.length_nil] at E
  refine ⟨L, z, E.last, ?_, ?_, E.head, E.sub⟩
  · have hc := E.cost
    have hl := E.loop (2 * pts.length + 1 - c) [] []
    have e : 2 * pts.length + 1 - c + c = 2 * pts.length + 1 := by omega
    rw [e, Nat.zero_add] at hl
    unfold douglasPeucker
    rw [hl]
    simp only [loopF, List.nil_append, E.last]
  · exact E.ref (pts.length + 1) (by omega)

/-- **The iterative version returns what the recursive reference returns** — every line with at least two
points (in fact one), every tolerance. -/
theorem dp_iter_eq_ref (m : Metric P D) (pts : List P) (eps : D) (h : 2 ≤ pts.length) :
    simplify m pts eps = reference m pts eps := by
  have hne : pts ≠ [] := by intro e; subst e; simp at h
  obtain ⟨L, z, _, hi, hr, _, _⟩ := dp_run m pts eps hne
  have : ¬ pts.length < 2 := by omega
  simp only [simplify, this, if_false, hi, hr]

/-- the unexported loop function agrees with the reference already from one point on -/
theorem dp_loop_eq_ref (m : Metric P D) (pts : List P) (eps : D) (h : 1 ≤ pts.length) :
    douglasPeucker m pts eps = reference m pts eps := by
  have hne : pts ≠ [] := by intro e; subst e; simp at h
  obtain ⟨L, z, _, hi, hr, _, _⟩ := dp_run m pts eps hne
  rw [hi, hr]

/-- **Termination and no panic**: on every non-empty line both return a value within the fuel the model
hands in (`2·len+1` loop iterations; recursion depth `len+1`). -/
theorem dp_returns (m : Metric P D) (pts : List P) (eps : D) (h : 1 ≤ pts.length) :
    ∃ r, simplify m pts eps = .ok r ∧ ∃ r', reference m pts eps = .ok r' := by
  have hne : pts ≠ [] := by intro e; subst e; simp at h
  obtain ⟨L, z, hz, hi, hr, hh, _⟩ := dp_run m pts eps hne
  by_cases h2 : pts.length < 2
  · cases pts with
    | nil => exact absurd rfl hne
    | cons a t => exact ⟨[a], by simp only [simplify, h2, if_true, List.head?_cons], _, hr⟩
  · exact ⟨L ++ [z], by simp only [simplify, h2, if_false, hi], _, hr⟩

/-- neither ever runs out of fuel — also on the empty line (where Go panics with index out of range) -/
theorem dp_terminates (m : Metric P D) (pts : List P) (eps : D) :
    simplify m pts eps ≠ .nofuel ∧ reference m pts eps ≠ .nofuel := by
  cases pts with
  | nil => constructor <;> simp [simplify, reference, refF, refScan]
  | cons a t =>
    obtain ⟨r, h1, r', h2⟩ := dp_returns m (a :: t) eps (by simp)
    rw [h1, h2]; constructor <;> simp

/-- **The first and the last point are kept.** -/
theorem dp_keeps_ends (m : Metric P D) (pts : List P) (eps : D) (h : 2 ≤ pts.length)
    (r : List P) (hr : simplify m pts eps = .ok r) :
    r.head? = pts.head? ∧ r.getLast? = pts.getLast? := by
  have hne : pts ≠ [] := by intro e; subst e; simp at h
  obtain ⟨L, z, hz, hi, _, hh, _⟩ := dp_run m pts eps hne
  have : ¬ pts.length < 2 := by omega
  simp only [simplify, this, if_false, hi, Res.ok.injEq] at hr
  subst hr
  constructor
  · cases L with
    | nil => cases pts with
      | nil => exact absurd rfl hne
      | cons a t => simp at hh
    | cons x xs => simpa using hh
  · simp [hz]

/-- **The result is a subsequence of the input** (`List.Sublist`: same order, nothing invented). -/
theorem dp_subsequence (m : Metric P D) (pts : List P) (eps : D)
    (r : List P) (hr : simplify m pts eps = .ok r) : r.Sublist pts := by
  by_cases h2 : pts.length < 2
  · cases pts with
    | nil => simp [simplify] at hr
    | cons a t =>
      simp only [simplify, h2, if_true, List.head?_cons, Res.ok.injEq] at hr
      subst hr
      simp
  · have hne : pts ≠ [] := by intro e; subst e; simp at h2
    obtain ⟨L, z, hz, hi, _, _, hs⟩ := dp_run m pts eps hne
    simp only [simplify, h2, if_false, hi, Res.ok.injEq] at hr
    subst hr
    have hd : pts = pts.dropLast ++ [z] := by
      have hg : z = pts.getLast hne := by
        rw [List.getLast?_eq_some_getLast hne] at hz
        exact (Option.some.inj hz).symm
      rw [hg]
      exact (List.dropLast_concat_getLast hne).symm
    rw [hd]
    exact List.Sublist.append (hs (by omega)) (List.Sublist.refl _)

/-! ### non-vacuity: a concrete metric on `Nat` "points" where everything computes -/

/-- distance of point `p` to any chord = `p % 4`; `>` on `Nat` -/
def exMetric : Metric Nat Nat := { dist := fun _ _ p => p % 4, gt := fun x y => decide (x > y), zero := 0 }

example : (2 : Nat) ≤ [10, 11, 13, 14, 15, 17, 18].length := by decide
example : simplify exMetric [10, 11, 13, 14, 15, 17, 18] 1 = .ok [10, 11, 15, 18] := by decide
example : reference exMetric [10, 11, 13, 14, 15, 17, 18] 1 = .ok [10, 11, 15, 18] := by decide
-- first maximum wins a tie (11 and 15 both at distance 3): the split is at 11
example : refScan exMetric [10, 11, 13, 14, 15, 17, 18] = (3, 1) := by decide
-- a "negative" tolerance (here: a `gt` that always holds) terminates and keeps what tolerance 0 keeps
example : simplify { exMetric with gt := fun x y => decide (x > y) || true } [1, 2, 3] 0 = .ok [1, 2, 3] := by decide

end B6.Props.C34
