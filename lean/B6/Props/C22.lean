import B6.Model.Simplify
import B6.Model.VM
import B6.Spec.Query
import B6.Lemmas.Simplify
import B6.Props.C21
import B6.Lemmas.InterpFuel
import B6.Lemmas.SimplifyFO3
/-!
C22 — simplification never changes a program's result.

Model: `B6.Model.Simplify` mirrors `api.Simplify` (shell.go) with the repairs
`fixes/C22-eta-reduction.patch` and `fixes/C22-function-position.patch`, including what Go's slice
sharing does to the output tree; tied to the code on every run (`harness/cmd/c22`: returned tree,
argument tree afterwards, and `Evaluate` of both programs).

* `simplify_query_denote`, `canon_denote` (proved, all queries): flattening keeps what a query matches.
* `simplify_scope` (proved, all programs, any function table): "never leaves a lambda parameter
  unbound or moves a value into the function namespace" — every symbol free in value position in the
  result was free in value position in the input or names a global function; every symbol in
  function position in the result was in function position in the input or names a global function.
  The unrepaired code violated both halves (`{a -> add a a}` ↦ `add a`;
  `{f -> pair (({-> f}) 5 6) 1}` ↦ `{f -> pair (f 5 6) 1}`): corpus witnesses of the harness.
* `evalpair_reduces_to_interp` (proved): on C21's fragment `Expr.regSafe` comparing the two VM outcomes is
  comparing the two interpreter meanings (the tie between the run's oracle and the specification).
* `interp_mono`, `beta0_context`, `build_query_context` (proved): fuel monotonicity, and the two
  value-preserving rewrite steps lifted from the root to any argument position outside lambdas.
* `simplify_preserves_lambda_free` (= `simplify_preserves_partial`, proved): for every well-formed
  lambda-free program the simplified program has the same observable outcome with the same fuel.
* `simplify_preserves_statement`: the semantic half (the simplified program has the interpreter's
  meaning of the original) for programs in which no lambda parameter is named like a global function.
  Not proved for programs with lambdas (it needs a fuel-indexed relation on closures: `{a -> f a}` and `f`
  are different values, closure bodies are rewritten); what is proved there: each rewrite step at the root of a program
  (`beta0_step`, `noarg_step`, `build_query_step`).  The side condition is forced:
  `shadow_capture_counterexample` (finding `shadowed-global`).  The correspondence run compares
  `Evaluate e` with `Evaluate (Simplify e)` and both with the interpreter on every generated program.
-/
namespace B6.Props.C22
open B6.Model B6.Spec

/-! ### query flattening keeps what a query matches -/

theorem denoteAll_append (leaf : Query → Bool) (ty : String → Bool) : ∀ (as bs : List Query),
    denoteAll leaf ty (as ++ bs) = (denoteAll leaf ty as && denoteAll leaf ty bs)
  | [], bs => by simp [denoteAll]
  | a :: as, bs => by simp [denoteAll, denoteAll_append leaf ty as bs, Bool.and_assoc]

theorem denoteAny_append (leaf : Query → Bool) (ty : String → Bool) : ∀ (as bs : List Query),
    denoteAny leaf ty (as ++ bs) = (denoteAny leaf ty as || denoteAny leaf ty bs)
  | [], bs => by simp [denoteAny]
  | a :: as, bs => by simp [denoteAny, denoteAny_append leaf ty as bs, Bool.or_assoc]

mutual
  /-- **simplify_query_denote.** `simplifyQuery` (the flattening `Simplify` applies to every query
  literal it meets or builds) matches exactly the features the original query matches. -/
  theorem simplify_query_denote (leaf : Query → Bool) (ty : String → Bool) :
      (q : Query) → denote leaf ty (simplifyQuery q) = denote leaf ty q
    | .inter qs => by simp only [simplifyQuery, denote]; exact flattenInter_denote leaf ty qs
    | .union qs => by simp only [simplifyQuery, denote]; exact flattenUnion_denote leaf ty qs
    | .typed _ _ => by simp [simplifyQuery]
    | .keyed _ => by simp [simplifyQuery]
    | .tagged _ _ => by simp [simplifyQuery]
    | .other _ => by simp [simplifyQuery]
  theorem flattenInter_denote (leaf : Query → Bool) (ty : String → Bool) :
      (qs : List Query) → denoteAll leaf ty (flattenInter qs) = denoteAll leaf ty qs
    | [] => by simp [flattenInter]
    | q :: qs => by
      have h1 := simplify_query_denote leaf ty q
      have h2 := flattenInter_denote leaf ty qs
      simp only [flattenInter, denoteAll_append, h2, denoteAll]
      congr 1
      rw [← h1]
      split <;> simp_all [denote, denoteAll]
  theorem flattenUnion_denote (leaf : Query → Bool) (ty : String → Bool) :
      (qs : List Query) → denoteAny leaf ty (flattenUnion qs) = denoteAny leaf ty qs
    | [] => by simp [flattenUnion]
    | q :: qs => by
      have h1 := simplify_query_denote leaf ty q
      have h2 := flattenUnion_denote leaf ty qs
      simp only [flattenUnion, denoteAny_append, h2, denoteAny]
      congr 1
      rw [← h1]
      split <;> simp_all [denote, denoteAny]
end

mutual
  /-- the canonical form in which the check compares query values (`Query.canon`: flattening at
  every depth, also under `Typed`) matches the same features -/
  theorem canon_denote (leaf : Query → Bool) (ty : String → Bool) :
      (q : Query) → denote leaf ty q.canon = denote leaf ty q
    | .inter qs => by simp only [Query.canon, denote]; exact canonInter_denote leaf ty qs
    | .union qs => by simp only [Query.canon, denote]; exact canonUnion_denote leaf ty qs
    | .typed t q => by simp only [Query.canon, denote, canon_denote leaf ty q]
    | .keyed _ => by simp [Query.canon]
    | .tagged _ _ => by simp [Query.canon]
    | .other _ => by simp [Query.canon]
  theorem canonInter_denote (leaf : Query → Bool) (ty : String → Bool) :
      (qs : List Query) → denoteAll leaf ty (canonInter qs) = denoteAll leaf ty qs
    | [] => by simp [canonInter]
    | q :: qs => by
      have h1 := canon_denote leaf ty q
      have h2 := canonInter_denote leaf ty qs
      simp only [canonInter, denoteAll_append, h2, denoteAll]
      congr 1
      rw [← h1]
      split <;> simp_all [denote, denoteAll]
  theorem canonUnion_denote (leaf : Query → Bool) (ty : String → Bool) :
      (qs : List Query) → denoteAny leaf ty (canonUnion qs) = denoteAny leaf ty qs
    | [] => by simp [canonUnion]
    | q :: qs => by
      have h1 := canon_denote leaf ty q
      have h2 := canonUnion_denote leaf ty qs
      simp only [canonUnion, denoteAny_append, h2, denoteAny]
      congr 1
      rw [← h1]
      split <;> simp_all [denote, denoteAny]
end

/-- non-vacuity: a nested query really is flattened, and under `Typed` only by `canon` -/
example :
    simplifyQuery (.inter [.keyed "a", .inter [.keyed "b", .union [.keyed "c", .union [.keyed "d"]]]])
      = .inter [.keyed "a", .keyed "b", .union [.keyed "c", .keyed "d"]] := rfl
example : simplifyQuery (.typed "area" (.inter [.inter [.keyed "a"]])) = .typed "area" (.inter [.inter [.keyed "a"]])
    ∧ Query.canon (.typed "area" (.inter [.inter [.keyed "a"]])) = .typed "area" (.inter [.keyed "a"]) := ⟨rfl, rfl⟩


/-! ### scope -/

open B6.Lemmas.Simplify in
/-- **simplify_scope.** For every program and every function table: a symbol that is free in value
position in `Simplify e` is free in value position in `e` or is the name of a global function, and a
symbol in function position in `Simplify e` is in function position in `e` or is the name of a
global function.  (`Simplify.scopeOK` is the same predicate the driver evaluates on the tree the Go
code returns.) -/
theorem simplify_scope (argc : String → Option Nat) (e s : Expr) (h : simplifyWith argc e = some s) :
    Simplify.scopeOK argc e s = true := by
  unfold simplifyWith at h
  cases hb : Simplify.simplifyBoth argc (e.size + 1) e with
  | none => simp [hb] at h
  | some r =>
    obtain ⟨s', m⟩ := r
    simp only [hb, Option.map_some] at h
    injection h with h; subst h
    have h1 := ((simplifyBoth_good argc (e.size + 1)).sub e s' m hb).1
    have h2 := ((simplifyBoth_goodFn argc (e.size + 1)).sub e s' m hb).1
    simp only [Simplify.scopeOK, Bool.and_eq_true, List.all_eq_true, Bool.or_eq_true, List.contains_iff_mem]
    exact ⟨fun x hx => h1 x hx, fun x hx => h2 x hx⟩

private def i (n : Int) : Expr := .lit (.int n)
private def c (f : Expr) (as : List Expr) : Expr := .call f as false

/-- non-vacuity: programs on which each rule fires, and the repaired η-rule refusing the shapes the
old code mangled -/
example : simplify (.lam ["a"] (c (.sym "first") [.sym "a"])) = some (.sym "first") := rfl
example : simplify (.lam ["a"] (c (.sym "mix") [.sym "a", i 2, i 3])) = some (c (.sym "mix") [i 2, i 3]) := rfl
example : simplify (.lam ["a"] (c (.sym "add") [.sym "a", .sym "a"]))
    = some (.lam ["a"] (c (.sym "add") [.sym "a", .sym "a"])) := rfl
example : simplify (.lam ["a", "b"] (c (.sym "first") [.sym "a"]))
    = some (.lam ["a", "b"] (c (.sym "first") [.sym "a"])) := rfl
example : simplify (c (.sym "pair") [c (.sym "add") [], c (.lam [] (c (.sym "sub") [i 1, i 2])) []])
    = some (c (.sym "pair") [.sym "add", c (.sym "sub") [i 1, i 2]]) := rfl
example : simplify (c (.sym "and") [c (.sym "keyed") [.lit (.str "a")], .lit (.query (.inter [.keyed "b", .keyed "c"]))])
    = some (.lit (.query (.inter [.keyed "a", .keyed "b", .keyed "c"]))) := rfl
/-- the body of a lambda keeps its unsimplified root (the copy `lambda.Expression` is dropped), but
arguments inside it are rewritten in place -/
example : simplify (.lam ["x"] (c (c (.sym "add") []) [c (.sym "sub") []]))
    = some (.lam ["x"] (c (c (.sym "add") []) [.sym "sub"])) := rfl
/-- fix C22-function-position: the nullary call stays when its body is a lambda parameter -/
example : simplify (.lam ["f"] (c (.sym "pair") [c (c (.lam [] (.sym "f")) []) [i 5, i 6], i 1]))
    = some (.lam ["f"] (c (.sym "pair") [c (c (.lam [] (.sym "f")) []) [i 5, i 6], i 1])) := rfl

/-! ### meaning -/

/-- The semantic half of the property, with the side condition the counterexample below forces:
for a well-formed program in which no lambda parameter is named like a global function, the
simplified program has the same observable outcome as the original (data structurally, queries up to
`Query.canon`, functions by arity), given enough fuel. -/
def simplify_preserves_statement : Prop :=
  ∀ (e s : Expr), wellFormed e = true → Simplify.shadowsGlobal e = false → simplify e = some s →
    ∀ (fuel : Nat), interp fuel e ≠ .error .fuel →
      ∃ fuel', (interp fuel' s).map (fun v => (Simplify.canonVal v).obs)
             = (interp fuel e).map (fun v => (Simplify.canonVal v).obs)

/-- **evalpair_reduces_to_interp.** What the correspondence run compares is `Evaluate e` against
`Evaluate (Simplify e)`, both on the VM.  For two programs in C21's fragment `Expr.regSafe` that comparison is the
comparison of the interpreter's meanings — C21 `vm_lambda_partial` on both sides.  Outside the
fragment a VM difference between programs the language identifies is C21's finding (class
`vm-closure-registers` of the C22 driver = `!regSafe` of either tree). -/
theorem evalpair_reduces_to_interp (fuel : Nat) (e s : Expr) (he : e.regSafe = true) (hs : s.regSafe = true) :
    ((VM.run fuel e).map Val.obs = (VM.run fuel s).map Val.obs) ↔
      ((interp fuel e).map Val.obs = (interp fuel s).map Val.obs) := by
  rw [B6.Props.C21.vm_lambda_partial fuel e he, B6.Props.C21.vm_lambda_partial fuel s hs]

/-- non-vacuity: an η-shaped lambda and its simplification are both in the fragment -/
example : simplify (c (.sym "call1") [.lam ["a"] (c (.sym "first") [.sym "a"]), c (.sym "pair") [i 1, i 2]])
      = some (c (.sym "call1") [.sym "first", c (.sym "pair") [i 1, i 2]]) ∧
    Expr.regSafe (c (.sym "call1") [.lam ["a"] (c (.sym "first") [.sym "a"]), c (.sym "pair") [i 1, i 2]]) = true ∧
    Expr.regSafe (c (.sym "call1") [.sym "first", c (.sym "pair") [i 1, i 2]]) = true := ⟨rfl, rfl, rfl⟩

/-- `({-> b})` ↦ `b`: evaluating the nullary call with one more unit of fuel is evaluating the body -/
theorem beta0_step (fuel : Nat) (env : Env) (b : Expr) (p : Bool) :
    evalWith (applyFn (fuel + 1)) env (.call (.lam [] b) [] p) = evalWith (applyFn fuel) env b := by
  simp [evalWith, evalArgs, applyFn, Val.isCallable]

/-- `(f)` ↦ `f` for a non-variadic global function `f` that wants arguments: the call makes a partial application
holding no arguments, and applying that is applying `f` -/
theorem noarg_step (fuel : Nat) (env : Env) (b : Builtin) (p : Bool) (hv : b.variadic = none) (hb : b.arity > 0)
    (hn : Builtin.ofName b.name = some b) :
    evalWith (applyFn (fuel + 1)) env (.call (.sym b.name) [] p) = .ok (.part (.builtin b) [] []) ∧
    ∀ args, args.length = b.arity →
      applyFn (fuel + 2) (.part (.builtin b) [] []) args = applyFn (fuel + 1) (.builtin b) args := by
  constructor
  · have hw : b.want 0 = b.arity := by simp [Builtin.want, Builtin.arity, hv]
    simp only [evalWith, evalArgs, hn, applyFn, List.length_nil, hw]
    have h1 : ¬ (0 > b.arity) := by omega
    have h2 : (0 == b.arity) = false := by simp; omega
    simp [h1, h2]
  · intro args hargs
    simp [applyFn, Val.arity, hargs]

/-- `and [a] [b]` ↦ `[a & b]` (likewise `or`): the call evaluates to the query the literal denotes -/
theorem build_query_step (fuel : Nat) (env : Env) (a b : Query) (p : Bool) :
    evalWith (applyFn (fuel + 1)) env (.call (.sym "and") [.lit (.query a), .lit (.query b)] p)
      = .ok (.query (.inter [a, b])) ∧
    evalWith (applyFn (fuel + 1)) env (.call (.sym "or") [.lit (.query a), .lit (.query b)] p)
      = .ok (.query (.union [a, b])) := ⟨rfl, rfl⟩

/-! ### fuel monotonicity; the value-preserving steps under argument contexts -/

open B6.Lemmas.InterpFuel in
/-- **interp_mono.** An outcome of the interpreter other than "out of fuel" is the outcome for every
larger fuel. -/
theorem interp_mono (fuel k : Nat) (e : Expr) (h : interp fuel e ≠ .error .fuel) :
    interp (fuel + k) e = interp fuel e := B6.Lemmas.InterpFuel.interp_mono fuel k e h

open B6.Lemmas.InterpFuel in
/-- **beta0_context.** `({-> b})` ↦ `b` at any argument position of a program (any depth of calls, not
under a lambda): whenever the original program has an outcome with some fuel, the rewritten program
has the same outcome with the same fuel (`beta0_step` lifted through contexts by `interp_mono`). -/
theorem beta0_context (c : ArgCtx) (b : Expr) (p : Bool) (fuel : Nat)
    (h : interp fuel (c.fill (.call (.lam [] b) [] p)) ≠ .error .fuel) :
    interp fuel (c.fill b) = interp fuel (c.fill (.call (.lam [] b) [] p)) :=
  interp_refines ((beta0_refines b p).fill c) ((beta0_statics b p).fill c) fuel h

open B6.Lemmas.InterpFuel in
/-- **build_query_context.** `and [a] [b]` ↦ `[a & b]`, `or [a] [b]` ↦ `[a | b]` (the literal before
`simplifyQuery`, whose effect is `simplify_query_denote`) at any argument position. -/
theorem build_query_context (c : ArgCtx) (a b : Query) (p : Bool) (fuel : Nat) :
    (interp fuel (c.fill (.call (.sym "and") [.lit (.query a), .lit (.query b)] p)) ≠ .error .fuel →
      interp fuel (c.fill (.lit (.query (.inter [a, b]))))
        = interp fuel (c.fill (.call (.sym "and") [.lit (.query a), .lit (.query b)] p))) ∧
    (interp fuel (c.fill (.call (.sym "or") [.lit (.query a), .lit (.query b)] p)) ≠ .error .fuel →
      interp fuel (c.fill (.lit (.query (.union [a, b]))))
        = interp fuel (c.fill (.call (.sym "or") [.lit (.query a), .lit (.query b)] p))) :=
  ⟨interp_refines ((build_and_refines a b p).fill c) ((build_and_statics a b p).fill c) fuel,
   interp_refines ((build_or_refines a b p).fill c) ((build_or_statics a b p).fill c) fuel⟩

open B6.Lemmas.InterpFuel in
/-- non-vacuity: `pair 1 (sub (({-> add 1 2})) 1)` -/
example :
    (ArgCtx.arg (.sym "pair") [i 1] (.arg (.sym "sub") [] .hole [i 1] false) [] false).fill
        (c (.lam [] (c (.sym "add") [i 1, i 2])) [])
      = c (.sym "pair") [i 1, c (.sym "sub") [c (.lam [] (c (.sym "add") [i 1, i 2])) [], i 1]] ∧
    interp 5 (c (.sym "pair") [i 1, c (.sym "sub") [c (.lam [] (c (.sym "add") [i 1, i 2])) [], i 1]])
      = .ok (.pair (.int 1) (.int 2)) := ⟨rfl, rfl⟩

/-! ### meaning preservation on lambda-free programs -/

/-- **simplify_preserves_lambda_free** (the `_partial` of `simplify_preserves_statement`).  For every
well-formed program without lambda expressions, every fuel with which the program has an outcome, the
simplified program has — with the same fuel — the same outcome: the same error, or a value with the same
observation (data structurally, queries up to `Query.canon`, functions by arity).  Covers every rewrite
`Simplify` performs on such programs at any depth: `(f)` ↦ `f` (also in function position:
`((add)) 1 2` ↦ `add 1 2`), building query literals from `and / or / typed / keyed / tagged` calls,
flattening query literals, and the in-place rewriting of the argument tree.  Function values (builtins
and partial applications at any depth, with any arguments) are compared by a simulation that normalises
chains of partial applications (`Lemmas/SimplifyFO*`: `Sim`, `apply_sim`, `simplifyBoth_sim`). -/
theorem simplify_preserves_lambda_free (e s : Expr) (hl : e.lambdaFree = true) (hw : wellFormed e = true)
    (hs : simplify e = some s) (fuel : Nat) (hne : interp fuel e ≠ .error .fuel) :
    (interp fuel s).map (fun v => (Simplify.canonVal v).obs) =
      (interp fuel e).map (fun v => (Simplify.canonVal v).obs) := by
  have hsl := B6.Lemmas.EvalGuards.simplify_lambdaFree e s hl hs
  unfold simplify simplifyWith at hs
  cases h1 : Simplify.simplifyBoth Simplify.tableArgcV (e.size + 1) e with
  | none => simp [h1] at hs
  | some r0 =>
    obtain ⟨s', m⟩ := r0
    simp only [h1, Option.map_some, Option.some.injEq] at hs
    subst hs
    obtain ⟨hS, _⟩ := B6.Lemmas.SimplifyFO.simplifyBoth_sim _ e s' m hl h1
    have he : interp fuel e = evalWith (applyFn fuel) [] e := by simp [interp, hw]
    rw [he] at hne ⊢
    have r := hS fuel hne
    unfold interp
    cases hws : wellFormed s' with
    | true =>
      simp only [if_true]
      cases h2 : evalWith (applyFn fuel) [] e with
      | error err =>
        cases h3 : evalWith (applyFn fuel) [] s' with
        | error err' => simp [h2, h3, B6.Lemmas.SimplifyFO.ResSim] at r; simp [Except.map, r]
        | ok _ => simp [h2, h3, B6.Lemmas.SimplifyFO.ResSim] at r
      | ok v =>
        cases h3 : evalWith (applyFn fuel) [] s' with
        | error err' => simp [h2, h3, B6.Lemmas.SimplifyFO.ResSim] at r
        | ok v' =>
          simp only [h2, h3, B6.Lemmas.SimplifyFO.ResSim] at r
          have := B6.Lemmas.SimplifyFO.Sim.cobs_eq v' v r
          simp only [B6.Lemmas.SimplifyFO.cobs] at this
          simp [Except.map, this]
    | false =>
      simp only [Bool.false_eq_true, if_false]
      have hnp := (B6.Props.C21.numLambdas_of_lambdaFree s' hsl).2
      have hwf : wfAt [] s' = false := by
        simp only [wellFormed, hnp, Nat.zero_le, decide_true, Bool.and_true] at hws
        exact hws
      obtain ⟨err, herr⟩ := B6.Lemmas.SimplifyFO.illformed_error (applyFn fuel) s' hsl hwf
      rw [herr] at r
      cases h2 : evalWith (applyFn fuel) [] e with
      | ok v => simp [h2, B6.Lemmas.SimplifyFO.ResSim] at r
      | error err' =>
        simp only [h2, B6.Lemmas.SimplifyFO.ResSim] at r
        subst r
        have hnp2 := B6.Lemmas.EvalGuards.evalWith_noPanic (applyFn fuel) (B6.Lemmas.EvalGuards.applyFn_noPanic fuel) [] e
        rw [h2] at hne hnp2
        cases err <;> simp_all [B6.Lemmas.EvalGuards.NoPanic, Except.map]

/-- non-vacuity: `pair (((sub)) 1 5) (and [a] [b & c])` ↦ `pair (sub 1 5) [a & b & c]` -/
example :
    simplify (c (.sym "pair") [c (c (.sym "sub") []) [i 1, i 5],
        c (.sym "and") [.lit (.query (.keyed "a")), .lit (.query (.inter [.keyed "b", .keyed "c"]))]])
      = some (c (.sym "pair") [c (.sym "sub") [i 1, i 5], .lit (.query (.inter [.keyed "a", .keyed "b", .keyed "c"]))]) ∧
    Expr.lambdaFree (c (.sym "pair") [c (c (.sym "sub") []) [i 1, i 5],
        c (.sym "and") [.lit (.query (.keyed "a")), .lit (.query (.inter [.keyed "b", .keyed "c"]))]]) = true ∧
    wellFormed (c (.sym "pair") [c (c (.sym "sub") []) [i 1, i 5],
        c (.sym "and") [.lit (.query (.keyed "a")), .lit (.query (.inter [.keyed "b", .keyed "c"]))]]) = true ∧
    interp 5 (c (.sym "pair") [c (c (.sym "sub") []) [i 1, i 5],
        c (.sym "and") [.lit (.query (.keyed "a")), .lit (.query (.inter [.keyed "b", .keyed "c"]))]])
      = .ok (.pair (.int (-4)) (.query (.inter [.keyed "a", .inter [.keyed "b", .keyed "c"]]))) := ⟨rfl, rfl, rfl, rfl⟩

/-- `simplify_preserves_statement` restricted to lambda-free programs (its conclusion holds with
`fuel' = fuel`; the side condition on parameter names is vacuous without lambdas) -/
theorem simplify_preserves_statement_lambda_free :
    ∀ (e s : Expr), e.lambdaFree = true → wellFormed e = true → Simplify.shadowsGlobal e = false →
      simplify e = some s → ∀ (fuel : Nat), interp fuel e ≠ .error .fuel →
        ∃ fuel', (interp fuel' s).map (fun v => (Simplify.canonVal v).obs)
               = (interp fuel e).map (fun v => (Simplify.canonVal v).obs) :=
  fun e s hl hw _ hs fuel hne => ⟨fuel, simplify_preserves_lambda_free e s hl hw hs fuel hne⟩

/-- the name planned in DESIGN for the proved part of `simplify_preserves_statement` -/
theorem simplify_preserves_partial (e s : Expr) (hl : e.lambdaFree = true) (hw : wellFormed e = true)
    (hs : simplify e = some s) (fuel : Nat) (hne : interp fuel e ≠ .error .fuel) :
    (interp fuel s).map (fun v => (Simplify.canonVal v).obs) =
      (interp fuel e).map (fun v => (Simplify.canonVal v).obs) :=
  simplify_preserves_lambda_free e s hl hw hs fuel hne

section variadic
open B6.Model.Simplify

/-- the encoding `argcOf` reproduces the guard of `simplifyCallWithNoArguments`: `(f)` becomes `f`
exactly when `ArgCount` knows `f`, wants arguments, and `f` is not variadic; otherwise the call stays -/
theorem postCall_argcOf (count : String → Option Nat) (variadic : String → Bool)
    (simp : Expr → Option (Expr × Expr)) (s : String) (p : Bool) :
    postCall (argcOf count variadic) simp (.sym s) [] p =
      some (if noargGuard count variadic s then .sym s else .call (.sym s) [] p) := by
  unfold postCall argcOf noargGuard
  cases hc : count s with
  | none => simp [hc]
  | some n =>
    cases hv : variadic s <;> simp [hc, hv]
    by_cases hn : n > 0 <;> simp [hn]

theorem matchPrefix_le : ∀ (ps : List String) (args : List Expr), matchPrefix ps args ≤ args.length
  | [], _ => by simp [matchPrefix]
  | _ :: _, [] => by simp [matchPrefix]
  | p :: ps, a :: as => by
    cases a <;> simp [matchPrefix]
    split
    · have := matchPrefix_le ps as; omega
    · omega

/-- the encoding `argcOf` reproduces `canDropLambdaArgs` (called with a non-empty parameter list that
is a prefix of the arguments): the count must equal the number of arguments and the function must not
be variadic -/
theorem canDrop_argcOf (count : String → Option Nat) (variadic : String → Bool)
    (ps : List String) (s : String) (args : List Expr) (hps : ps ≠ []) (hm : matchPrefix ps args = ps.length) :
    canDrop (argcOf count variadic) ps (.sym s) args =
      (count s == some args.length && !variadic s && ps.Nodup &&
        (args.drop ps.length).all (fun r => !isCallExpr r && ps.all (fun p => !mentions p r))) := by
  have hlen : args.length ≥ 1 := by
    have h1 := matchPrefix_le ps args
    have h2 : ps.length ≥ 1 := by cases ps <;> simp_all
    omega
  unfold canDrop argcOf
  cases hc : count s with
  | none => simp [hc]
  | some n =>
    cases hv : variadic s
    · simp [hc, hv]
    · have : (0 == args.length) = false := by simp; omega
      simp [hc, hv, this]

/-- a variadic function called without arguments is left alone: `(collection)` is a complete call (the
empty collection), not the function `collection` -/
theorem noarg_variadic_kept (simp : Expr → Option (Expr × Expr)) (s : String) (p : Bool)
    (hv : variadicName s = true) :
    postCall tableArgcV simp (.sym s) [] p = some (.call (.sym s) [] p) := by
  unfold tableArgcV
  rw [postCall_argcOf]
  have : noargGuard tableCount variadicName s = false := by
    unfold noargGuard
    cases tableCount s <;> simp [hv]
  simp [this]

/-- **noarg_rewrite_sound.** With the function table of the run, `simplifyCallWithNoArguments` rewrites
`(f)` to `f` only for a global function `f` of the table that is not variadic and wants at least one
argument — and for those `(f)` and `f` denote the same function: the call evaluates to a partial
application holding no arguments, and applying that to the full argument list is applying `f`. -/
theorem noarg_rewrite_sound (simp : Expr → Option (Expr × Expr)) (s : String) (p : Bool)
    (h : postCall tableArgcV simp (.sym s) [] p = some (.sym s)) :
    variadicName s = false ∧ ∃ b, Builtin.ofName s = some b ∧ b.arity > 0 ∧
      ∀ (fuel : Nat) (env : Env),
        evalWith (applyFn (fuel + 1)) env (.call (.sym s) [] p) = .ok (.part (.builtin b) [] []) ∧
        ∀ args, args.length = b.arity →
          applyFn (fuel + 2) (.part (.builtin b) [] []) args = applyFn (fuel + 1) (.builtin b) args := by
  unfold tableArgcV at h
  rw [postCall_argcOf] at h
  cases hg : noargGuard tableCount variadicName s with
  | false => simp [hg] at h
  | true =>
    unfold noargGuard at hg
    cases hc : tableCount s with
    | none => simp [hc] at hg
    | some n =>
      simp only [hc, Bool.and_eq_true, decide_eq_true_eq, Bool.not_eq_true'] at hg
      obtain ⟨hn, hv⟩ := hg
      refine ⟨hv, ?_⟩
      have hv0 := hv
      simp only [variadicName, Bool.or_eq_false_iff, beq_eq_false_iff_ne, ne_eq] at hv
      have hc' : tableArgc s = some n := by
        simpa [tableCount, hv.1, hv.2] using hc
      unfold tableArgc at hc'
      cases hb : Builtin.ofName s with
      | none => simp [hb] at hc'
      | some b =>
        simp only [hb, Option.map_some, Option.some.injEq] at hc'
        have hname : b.name = s := by
          have := List.find?_some (by simpa [Builtin.ofName] using hb)
          simpa using this
        subst hname
        have hvn : b.variadic = none := by
          have := B6.Lemmas.SimplifyFO.variadicName_name b
          rw [hv0] at this
          cases hvv : b.variadic with
          | none => rfl
          | some t => simp [hvv] at this
        refine ⟨b, rfl, by omega, fun fuel env => noarg_step fuel env b p hvn (by omega) hb⟩

end variadic

/-- `{add -> pair 1 (add)} 7`: inside the lambda `(add)` calls the global function; simplified to
`add` it is the lambda's parameter -/
def shadowWitness : Expr :=
  c (.lam ["add"] (c (.sym "pair") [i 1, c (.sym "add") []])) [i 7]

/-- The rewrite `(f)` ↦ `f` (and `{a -> f a}` ↦ `f`) moves `f` from function position, where it
names the global function, to value position, where an enclosing parameter of the same name captures
it: the original program yields a pair of 1 and a function, the simplified one `(pair 1 7)`. -/
theorem shadow_capture_counterexample :
    simplify shadowWitness = some (c (.lam ["add"] (c (.sym "pair") [i 1, .sym "add"])) [i 7]) ∧
    interp 50 shadowWitness = .ok (.pair (.int 1) (.part (.builtin .add) [] [])) ∧
    interp 50 (c (.lam ["add"] (c (.sym "pair") [i 1, .sym "add"])) [i 7]) = .ok (.pair (.int 1) (.int 7)) ∧
    Simplify.shadowsGlobal shadowWitness = true :=
  ⟨rfl, rfl, rfl, rfl⟩

end B6.Props.C22
