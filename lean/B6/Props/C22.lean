/-! C22 — property theorems (stub: nothing proved yet). -/
