/-! C31 — property theorems (stub: nothing proved yet). -/
