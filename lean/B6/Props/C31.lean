import B6.Model.FeatureID
import B6.Lemmas.FeatureID
/-!
# C31 — Feature IDs survive every textual and wire encoding

Theorems about `B6.Model.FeatureID` (model of `FeatureID` in world.go / protos.go / ids.go, the alias
table of api/shell.go and the compact index's order key in ingest/compact/encoding.go).

A *valid* ID has a type other than `invalid` and a non-empty namespace (`FeatureID.IsValid`); values are
64-bit (`value < 2^64`).  Namespaces are arbitrary byte strings — `/` included.

`UnparseFeatureID` is modelled twice: `unparseOriginal` (the unchanged tree: the alias form is printed
whenever namespace and type match) and `unparse` (with fixes/C31-unparse-alias-fallback.patch: the alias
form is printed only when it parses back).  `alias_original_counterexample` shows the defect of the
former on a concrete valid ID; all positive theorems are about the repaired function.
-/
namespace B6.Props.C31
open B6.Model.FeatureID B6.Lemmas.FeatureID

/-! ## text, JSON, YAML, protobuf -/

/-- `FeatureIDFromString(id.String()) == id` for every ID whose type is not `invalid`, every namespace
(also empty, also containing `/`) and every 64-bit value. -/
theorem id_string_roundtrip (f : FeatureID) (hv : f.value < 2 ^ 64) (ht : f.type ≠ .invalid) :
    fromString (idString f) = f :=
  fromString_idString f hv ht

example : fromString (idString ⟨.collection, bytes! "a/b/c", 2 ^ 64 - 1⟩)
    = ⟨.collection, bytes! "a/b/c", 2 ^ 64 - 1⟩ := by decide

/-- JSON: the string given to the JSON library comes back through `UnmarshalJSON` as the same ID, whenever the
library carries it unchanged — which `encoding/json` does exactly for valid UTF-8 (`jsonCarry`; the escapes it
writes for controls, quotes, `<>&`, U+2028/9 are its own business and are undone by its decoder: exercised on every
run with namespaces holding all of them, not modelled). -/
theorem id_json_roundtrip (f : FeatureID) (hv : f.value < 2 ^ 64) (ht : f.type ≠ .invalid)
    (hcarry : jsonCarry (jsonString f) = jsonString f) :
    fromJSONString (jsonCarry (jsonString f)) = f := by
  rw [hcarry]
  exact fromString_idString f hv ht

example : jsonCarry (jsonString ⟨.path, bytes! "a\u0007/é\u2028", 7⟩) = jsonString ⟨.path, bytes! "a\u0007/é\u2028", 7⟩ := by
  decide

/-- a namespace that is not valid UTF-8 does not survive JSON: the stray byte 0xFF comes back as U+FFFD, without
an error (and `proto.Marshal` refuses such an ID).  JSON and protobuf strings are Unicode: such namespaces are
outside what these two encodings can express. -/
theorem json_invalid_utf8_counterexample :
    ∃ f : FeatureID, f.isValid = true ∧ f.value < 2 ^ 64 ∧ validUTF8 f.ns = false ∧
      fromJSONString (jsonCarry (jsonString f)) ≠ f :=
  ⟨⟨.path, [97, 255], 7⟩, by decide, by decide, by decide, by decide⟩

/-- YAML: the string given to the YAML library (leading `/`) comes back through `UnmarshalYAML`. -/
theorem id_yaml_roundtrip (f : FeatureID) (hv : f.value < 2 ^ 64) (ht : f.type ≠ .invalid) :
    fromYAMLString (yamlString f) = f := by
  simp only [fromYAMLString, yamlString]
  exact fromString_idString f hv ht

example : fromYAMLString (yamlString ⟨.path, bytes! "x/", 0⟩) = ⟨.path, bytes! "x/", 0⟩ := by decide

/-- protobuf: every ID (the invalid type included) survives `NewProtoFromFeatureID` /
`NewFeatureIDFromProto`. -/
theorem id_proto_roundtrip (f : FeatureID) : fromProto (toProto f) = some f := by
  obtain ⟨t, ns, v⟩ := f
  cases t <;> rfl

/-- the string form is injective on valid 64-bit IDs (so text keys never collide) -/
theorem id_string_injective (f g : FeatureID) (hf : f.value < 2 ^ 64) (hg : g.value < 2 ^ 64)
    (tf : f.type ≠ .invalid) (tg : g.type ≠ .invalid) (h : idString f = idString g) : f = g := by
  rw [← fromString_idString f hf tf, ← fromString_idString g hg tg, h]

/-! ## shell aliases -/

theorem findByPrefix_canonical (f : FeatureID) : findByPrefix (47 :: idString f) aliases = none := by
  obtain ⟨t, ns, v⟩ := f
  cases t <;> simp [findByPrefix, aliases, idString, FType.name, List.isPrefixOf]

theorem findByPrefix_pre (a : Alias) (h : a ∈ aliases) (rest : Bytes) :
    findByPrefix (a.pre ++ rest) aliases = some a := by
  simp only [aliases, List.mem_cons, List.not_mem_nil, or_false] at h
  rcases h with rfl | rfl | rfl | rfl | rfl | rfl | rfl <;>
    simp [findByPrefix, aliases, List.isPrefixOf]

theorem findByID_mem (f : FeatureID) : ∀ (l : List Alias) (a : Alias), findByID f l = some a →
    a ∈ l ∧ a.ns = f.ns := by
  intro l
  induction l with
  | nil => intro a h; simp [findByID] at h
  | cons x xs ih =>
    intro a h
    simp only [findByID] at h
    split at h
    · rename_i hc
      simp only [Option.some.injEq] at h
      subst h
      exact ⟨by simp, hc.1⟩
    · have := ih a h
      exact ⟨by simp [this.1], this.2⟩

/-- every alias codec prints a token that starts with the alias prefix -/
theorem toToken_pre (a : Alias) (f : FeatureID) (hns : a.ns = f.ns) (hmem : a ∈ aliases) :
    ∃ rest, a.toToken f = a.pre ++ rest := by
  simp only [aliases, List.mem_cons, List.not_mem_nil, or_false] at hmem
  rcases hmem with rfl | rfl | rfl | rfl | rfl | rfl | rfl
  all_goals first
    | exact ⟨_, rfl⟩
    | (simp only [Alias.toToken, ukONSCodeFromFeatureID, ← hns, ne_eq, not_true_eq_false, ↓reduceIte]
       exact ⟨_, List.append_assoc _ _ _⟩)

/-- the canonical token `/type/namespace/value` parses back to the ID, without error -/
theorem canonical_token_roundtrip (f : FeatureID) (hv : f.value < 2 ^ 64) (hvalid : f.isValid = true) :
    parseToken (47 :: idString f) = some (f, false) := by
  have ht : f.type ≠ .invalid := by
    simp only [FeatureID.isValid, Bool.and_eq_true, decide_eq_true_eq] at hvalid
    exact hvalid.2
  simp only [parseToken, findByPrefix_canonical, fromString_idString f hv ht, hvalid, Bool.not_true]

/-- **Shell round trip** (with the fix): for every valid 64-bit ID, abbreviated or not,
`ParseFeatureIDToken(UnparseFeatureID(id, abbreviate)) == (id, nil)`. -/
theorem alias_roundtrip (f : FeatureID) (hv : f.value < 2 ^ 64) (hvalid : f.isValid = true)
    (abbreviate : Bool) : parseToken (unparse f abbreviate) = some (f, false) := by
  have canon := canonical_token_roundtrip f hv hvalid
  unfold unparse
  cases abbreviate with
  | false => simpa using canon
  | true =>
    simp only [↓reduceIte]
    cases hfind : findByID f aliases with
    | none => exact canon
    | some a =>
      simp only
      obtain ⟨hmem, hns⟩ := findByID_mem f aliases a hfind
      obtain ⟨rest, hrest⟩ := toToken_pre a f hns hmem
      split
      · rename_i hchk
        rw [hrest] at hchk ⊢
        simp only [parseToken, findByPrefix_pre a hmem rest]
        rw [hchk]
      · exact canon

example : parseToken (unparse ⟨.point, nsOSMNode, 3501612811⟩ true)
    = some (⟨.point, nsOSMNode, 3501612811⟩, false) := by decide
example : unparse ⟨.point, nsOSMNode, 3501612811⟩ true = bytes! "/n/3501612811" := by decide

/-- In the unchanged tree the alias form was printed even when the codec cannot represent the value:
the valid ID `point/ordnancesurvey.co.uk/code-point/3` printed as `/gb/codepoint/00000000`, which parses
(with a nil error) to the invalid ID. -/
theorem alias_original_counterexample :
    ∃ f : FeatureID, f.isValid = true ∧ f.value < 2 ^ 64 ∧
      parseToken (unparseOriginal f true) ≠ some (f, false) :=
  ⟨⟨.point, nsGBCodePoint, 3⟩, by decide, by decide, by decide⟩

/-- the integer aliases (`/n/ /w/ /a/ /r/ /gb/uprn/`) are used for every 64-bit value -/
theorem alias_used_uint (a : Alias) (hmem : a ∈ aliases) (hc : a.codec = .uint) (v : Nat)
    (hv : v < 2 ^ 64) : unparse ⟨a.type, a.ns, v⟩ true = a.pre ++ dec v := by
  simp only [aliases, List.mem_cons, List.not_mem_nil, or_false] at hmem
  rcases hmem with rfl | rfl | rfl | rfl | rfl | rfl | rfl
  all_goals first
    | (simp at hc; done)
    | simp [unparse, findByID, aliases, nsOSMNode, nsOSMWay, nsOSMRelation, nsUKONS, nsGBCodePoint,
        nsGBUPRN, Alias.toToken, Alias.fromRest, parseUint_dec v hv]

/-- postcodes: packing then unpacking a normalised postcode gives it back -/
theorem postcode_roundtrip (p : Bytes) (h : ValidPostcode p) :
    postcodeFromPointID (pointIDFromGBPostcode p) = some p :=
  postcode_of_pointID p h

example : ValidPostcode (bytes! "EC1A1BB") := by
  refine ⟨by decide, by decide, ?_⟩
  intro c hc
  simp only [List.mem_cons, List.not_mem_nil, or_false] at hc
  unfold pcChar
  omega

/-- postcodes: the ID of every normalised postcode prints as `/gb/codepoint/<lower case>` … -/
theorem alias_used_postcode (p : Bytes) (h : ValidPostcode p) :
    unparse (pointIDFromGBPostcode p) true = bytes! "/gb/codepoint/" ++ toLower p := by
  have hid := (pointID_valid p h).1
  have hback := postcode_of_pointID p h
  have hlow := pointID_lower p h
  rw [hid] at hback hlow ⊢
  have hfind : findByID ⟨.point, nsGBCodePoint, pcVal p 0 * 4 + (p.length - 5)⟩ aliases
      = some ⟨bytes! "/gb/codepoint/", nsGBCodePoint, .point, .codepoint⟩ := by
    simp [findByID, aliases, nsOSMNode, nsOSMWay, nsOSMRelation, nsUKONS, nsGBCodePoint]
  simp only [unparse, ↓reduceIte, hfind, Alias.toToken, hback, Option.getD_some, Alias.fromRest]
  rw [List.drop_left' rfl, hlow]
  simp

/-- … and that token parses back to the same ID. -/
theorem alias_postcode_roundtrip (p : Bytes) (h : ValidPostcode p) :
    parseToken (bytes! "/gb/codepoint/" ++ toLower p) = some (pointIDFromGBPostcode p, false) := by
  rw [← alias_used_postcode p h]
  have hid := (pointID_valid p h)
  have h67 : (64 : Nat) ^ 7 = 4398046511104 := by decide
  apply alias_roundtrip
  · rw [hid.1]; simp only; have := h.2.1; omega
  · rw [hid.1]; simp [FeatureID.isValid, nsGBCodePoint]

/-- ONS codes: the ID built from letter + 8 digits and a year 1900–2155 prints as
`/uk/ons/<year>/<letter><8 digits>` … -/
theorem alias_used_ons (letter year n : Nat) (h : ValidONS letter year n) :
    unparse (featureIDFromUKONSCode (letter :: pad8 n) (year : Int) .area) true
      = bytes! "/uk/ons/" ++ dec year ++ 47 :: letter :: pad8 n := by
  have hid := onsID_eq letter year n h .area
  have hdec := ons_decode letter year n h .area
  rw [hid]
  have hfind : findByID ⟨.area, nsUKONS, onsValue letter year n⟩ aliases
      = some ⟨bytes! "/uk/ons/", nsUKONS, .area, .ons⟩ := by
    simp [findByID, aliases, nsOSMNode, nsOSMWay, nsOSMRelation, nsUKONS]
  obtain ⟨hl, hl47, hy1, hy2, hn⟩ := h
  have hsplit : splitSlash (dec year ++ 47 :: letter :: pad8 n) = [dec year, letter :: pad8 n] := by
    rw [splitSlash_append _ _ (slash_not_mem_dec year), splitSlash_no_slash]
    intro hm
    simp only [List.mem_cons] at hm
    rcases hm with hm | hm
    · exact hl47 hm.symm
    · have := pad8_digits n 47 hm; omega
  have hdrop : (bytes! "/uk/ons/" ++ dec year ++ 47 :: letter :: pad8 n).drop (bytes! "/uk/ons/").length
      = dec year ++ 47 :: letter :: pad8 n := by
    rw [List.append_assoc]; exact List.drop_left' rfl
  simp only [unparse, ↓reduceIte, hfind, Alias.toToken, hdec, Alias.fromRest, hdrop, hsplit,
    atoi_dec year (by omega), hid]
  simp [FeatureID.isValid, nsUKONS]

/-- … and that token parses back to the same ID. -/
theorem alias_ons_roundtrip (letter year n : Nat) (h : ValidONS letter year n) :
    parseToken (bytes! "/uk/ons/" ++ dec year ++ 47 :: letter :: pad8 n)
      = some (featureIDFromUKONSCode (letter :: pad8 n) (year : Int) .area, false) := by
  rw [← alias_used_ons letter year n h]
  have hid := onsID_eq letter year n h .area
  obtain ⟨hl, hl47, hy1, hy2, hn⟩ := h
  apply alias_roundtrip
  · rw [hid]; simp only [onsValue, Nat.reducePow]; omega
  · rw [hid]; simp [FeatureID.isValid, nsUKONS]

example : ValidONS 69 2011 1000953 := by unfold ValidONS; omega
example : unparse (featureIDFromUKONSCode (69 :: pad8 1000953) 2011 .area) true
    = bytes! "/uk/ons/2011/E01000953" := by decide

/-! ## order -/

/-- `FeatureID.Less` is a strict total order: irreflexive, transitive, trichotomous. -/
theorem less_strict_total :
    (∀ a : FeatureID, less a a = false) ∧
    (∀ a b c : FeatureID, less a b = true → less b c = true → less a c = true) ∧
    (∀ a b : FeatureID, less a b = true ∨ a = b ∨ less b a = true) :=
  ⟨less_irrefl, less_trans, less_trichotomy⟩

/-- hence asymmetric: never both `a < b` and `b < a` -/
theorem less_asymm (a b : FeatureID) (h : less a b = true) : less b a = false := by
  cases hb : less b a with
  | false => rfl
  | true =>
    have := less_trans a b a h hb
    rw [less_irrefl] at this
    exact absurd this (by simp)

example : less ⟨.point, bytes! "a/b", 9⟩ ⟨.point, bytes! "a/b/c", 0⟩ = true := by decide

/-- every namespace handed to `FillFromNamespaces` (and the empty one) can be encoded … -/
theorem encode_isSome (nss : List Bytes) (ns : Bytes) (h : ns ∈ [] :: nss) :
    (encode (fillTable nss) ns).isSome = true := by
  apply encodeFrom_isSome
  left
  rw [fillTable, mem_sortNs]
  exact h

/-- … and the table is sorted, with one more entry than the input (`sort_preserves`). -/
theorem fillTable_sorted (nss : List Bytes) :
    Sorted (fillTable nss) ∧ (fillTable nss).length = nss.length + 1 ∧
      ∀ ns, ns ∈ fillTable nss ↔ ns ∈ [] :: nss :=
  ⟨sorted_sortNs _, by simp [fillTable, length_sortNs], fun ns => mem_sortNs ns _⟩

/-- **The compact index orders IDs as `Less` does.**  For the table built by `FillFromNamespaces` from
any namespace list (duplicates allowed) with at most 2^13 entries, and any two IDs whose namespaces are
in the table: comparing `(CombineTypeAndNamespace(type, Encode(ns)), value)` as `compact.FeatureIDs.Less`
does gives the same answer as `FeatureID.Less`. -/
theorem compact_order_agrees (nss : List Bytes) (a b : FeatureID) (ka kb : Nat × Nat)
    (hlen : (fillTable nss).length ≤ 8192)
    (ha : compactKey (fillTable nss) a = some ka) (hb : compactKey (fillTable nss) b = some kb) :
    keyLess ka kb = less a b := by
  obtain ⟨ta, na, va⟩ := a
  obtain ⟨tb, nb, vb⟩ := b
  have hs : Sorted (fillTable nss) := sorted_sortNs _
  simp only [compactKey, Option.map_eq_some_iff] at ha hb
  obtain ⟨ea, hea, rfl⟩ := ha
  obtain ⟨eb, heb, rfl⟩ := hb
  have ga := encode_spec _ _ _ (by omega) hea
  have gb := encode_spec _ _ _ (by omega) heb
  have la : ea < 8192 := by
    rcases List.getElem?_eq_some_iff.mp ga with ⟨h, _⟩; omega
  have lb : eb < 8192 := by
    rcases List.getElem?_eq_some_iff.mp gb with ⟨h, _⟩; omega
  simp only [keyLess, less, combine_eq _ _ la, combine_eq _ _ lb]
  by_cases ht : ta = tb
  · subst ht
    by_cases hn : na = nb
    · subst hn
      have : ea = eb := by rw [hea] at heb; simpa using heb
      subst this
      simp
    · simp only [↓reduceIte, hn]
      have hne : ea ≠ eb := by
        intro e; subst e; rw [ga] at gb; exact hn (by simpa using gb)
      have h1 : ¬ ta.toNat * 8192 + ea = ta.toNat * 8192 + eb := by omega
      simp only [h1, ↓reduceIte]
      cases hl : lexLt na nb with
      | true =>
        have := sorted_index_lt _ hs ea eb na nb ga gb hl
        simp; omega
      | false =>
        rcases lexLt_trichotomy na nb with h | h | h
        · rw [hl] at h; exact absurd h (by simp)
        · exact absurd h hn
        · have := sorted_index_lt _ hs eb ea nb na gb ga h
          simp; omega
  · have hne : ta.toNat ≠ tb.toNat := fun e => ht (toNat_inj _ _ e)
    have h1 : ¬ ta.toNat * 8192 + ea = tb.toNat * 8192 + eb := by omega
    simp only [h1, ↓reduceIte, ht]
    by_cases hlt : ta.toNat < tb.toNat
    · have : ta.toNat * 8192 + ea < tb.toNat * 8192 + eb := by omega
      simp [hlt, this]
    · have : ¬ ta.toNat * 8192 + ea < tb.toNat * 8192 + eb := by omega
      simp [hlt, this]

example : compactKey (fillTable [bytes! "b", bytes! "a/x", bytes! "b"]) ⟨.area, bytes! "b", 7⟩
    = some (2 * 8192 + 3, 7) := by decide

end B6.Props.C31
