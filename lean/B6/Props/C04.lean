/-! C04 — property theorems (stub: nothing proved yet). -/
