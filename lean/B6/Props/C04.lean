import B6.Model.Cells
import B6.Lemmas.Cells
/-!
# C04 — Spatial search never misses or invents a feature its query accepts (combinatorial half)

Model: `B6.Model.Cells` (cell ids as face + child positions; `tokensForCovering`, `rewriteSpatialQuery`,
`findFeatures` = candidates of the rewritten union filtered by `Matches`).

What is proved (for ALL cell unions, all levels, all feature lists, all `Matches` tables):
* `spatial_prefilter_sound`   an intersecting (feature cell, query cell) pair always yields a shared token
                              (repaired code: unconditional);
* `spatial_prefilter_tight`   a shared token only arises from an intersecting pair (the pre-filter is exact
                              on coverings, so the candidate set is `coveringsMeet`);
* `spatial_prefilter_sound_partial` / `level0_counterexample`   the code as found (`Level()==0 → continue`)
                              is sound only for feature cells of level ≠ 0, and hides a face cell;
* `never_invents`             results ⊆ indexed features whose `Matches` is true, unconditionally;
* `mem_findFeatures_iff`      a feature is returned iff `Matches` is true and the coverings meet;
* `find_exact`                under the S2 covering contract (a true match has intersecting covering cells —
                              explicit hypothesis, NOT proved: RegionCoverer and all floating point are outside)
                              the result is exactly `filter Matches`.
-/
namespace B6.Props.C04
open B6.Model.Cells B6.Lemmas.Cells

/-- The covering index is a sound pre-filter: if a feature cell and a query cell intersect (equal, or one
an ancestor of the other) the feature's tokens and the rewritten query share a token. Repaired code. -/
theorem spatial_prefilter_sound (F Q : List Cell) (f q : Cell) (hf : f ∈ F) (hq : q ∈ Q)
    (h : Cell.Intersects f q) :
    ∃ t, t ∈ tokensForCovering F ∧ t ∈ rewriteSpatialQuery Q := by
  rcases h with rfl | h | h
  · exact ⟨Token.s2 f, (s2_mem_tokens false f F).mpr ⟨hf, by simp⟩,
      (s2_mem_rewrite f Q).mpr ⟨f, hq, Or.inl rfl⟩⟩
  · exact ⟨Token.s2 f, (s2_mem_tokens false f F).mpr ⟨hf, by simp⟩,
      (s2_mem_rewrite f Q).mpr ⟨q, hq, Or.inr h⟩⟩
  · exact ⟨Token.a2 q, (a2_mem_tokens false q F).mpr ⟨f, hf, h⟩, (a2_mem_rewrite q Q).mpr hq⟩

example : ∃ t, t ∈ tokensForCovering [⟨2, []⟩] ∧ t ∈ rewriteSpatialQuery [⟨2, [1, 3]⟩] :=
  spatial_prefilter_sound [⟨2, []⟩] [⟨2, [1, 3]⟩] ⟨2, []⟩ ⟨2, [1, 3]⟩ (by simp) (by simp) (by decide)

/-- The code as found (level-0 covering cells get no `s2:` token): sound for feature cells of level ≠ 0. -/
theorem spatial_prefilter_sound_partial (F Q : List Cell) (f q : Cell) (hf : f ∈ F) (hq : q ∈ Q)
    (h : Cell.Intersects f q) (h0 : f.level ≠ 0) :
    ∃ t, t ∈ tokensForCoveringWith true F ∧ t ∈ rewriteSpatialQuery Q := by
  rcases h with rfl | h | h
  · exact ⟨Token.s2 f, (s2_mem_tokens true f F).mpr ⟨hf, fun ⟨_, e⟩ => h0 e⟩,
      (s2_mem_rewrite f Q).mpr ⟨f, hq, Or.inl rfl⟩⟩
  · exact ⟨Token.s2 f, (s2_mem_tokens true f F).mpr ⟨hf, fun ⟨_, e⟩ => h0 e⟩,
      (s2_mem_rewrite f Q).mpr ⟨q, hq, Or.inr h⟩⟩
  · exact ⟨Token.a2 q, (a2_mem_tokens true q F).mpr ⟨f, hf, h⟩, (a2_mem_rewrite q Q).mpr hq⟩

example : ∃ t, t ∈ tokensForCoveringWith true [⟨2, [1]⟩] ∧ t ∈ rewriteSpatialQuery [⟨2, [1, 3]⟩] :=
  spatial_prefilter_sound_partial _ _ ⟨2, [1]⟩ ⟨2, [1, 3]⟩ (by simp) (by simp) (by decide) (by decide)

/-- The full statement for a given variant of the token function. -/
def prefilter_sound_statement (skip0 : Bool) : Prop :=
  ∀ (F Q : List Cell) (f q : Cell), f ∈ F → q ∈ Q → Cell.Intersects f q →
    ∃ t, t ∈ tokensForCoveringWith skip0 F ∧ t ∈ rewriteSpatialQuery Q

theorem prefilter_sound_repaired : prefilter_sound_statement false :=
  fun F Q f q hf hq h => spatial_prefilter_sound F Q f q hf hq h

/-- The code as found violates it: a feature whose covering is the face cell 2 (a continent-sized area)
shares no token with a query cell inside that face — the feature is hidden from the query. -/
theorem level0_counterexample :
    let F : List Cell := [⟨2, []⟩]
    let Q : List Cell := [⟨2, [1, 3]⟩]
    Cell.Intersects ⟨2, []⟩ ⟨2, [1, 3]⟩ ∧
      shares (tokensForCoveringWith true F) (rewriteSpatialQuery Q) = false ∧
      findFeaturesWith true (fun _ => true) [((7 : Nat), F)] Q = [] := by
  decide

theorem prefilter_sound_as_found_fails : ¬ prefilter_sound_statement true := by
  intro h
  obtain ⟨t, h1, h2⟩ := h [⟨2, []⟩] [⟨2, [1, 3]⟩] ⟨2, []⟩ ⟨2, [1, 3]⟩ (by simp) (by simp) (by decide)
  have : shares (tokensForCoveringWith true [⟨2, []⟩]) (rewriteSpatialQuery [⟨2, [1, 3]⟩]) = true :=
    (shares_iff _ _).mpr ⟨t, h1, h2⟩
  revert this
  decide

/-- Conversely a shared token only comes from an intersecting pair: the candidate set is exactly
"the coverings meet" (holds for both variants of the token function). -/
theorem spatial_prefilter_tight (skip0 : Bool) (F Q : List Cell) (t : Token)
    (h1 : t ∈ tokensForCoveringWith skip0 F) (h2 : t ∈ rewriteSpatialQuery Q) :
    ∃ f ∈ F, ∃ q ∈ Q, Cell.Intersects f q := by
  cases t with
  | s2 p =>
    obtain ⟨hp, _⟩ := (s2_mem_tokens skip0 p F).mp h1
    obtain ⟨c, hc, h⟩ := (s2_mem_rewrite p Q).mp h2
    refine ⟨p, hp, c, hc, ?_⟩
    rcases h with rfl | h
    · exact Or.inl rfl
    · exact Or.inr (Or.inl h)
  | a2 p =>
    obtain ⟨f, hf, h⟩ := (a2_mem_tokens skip0 p F).mp h1
    exact ⟨f, hf, p, (a2_mem_rewrite p Q).mp h2, Or.inr (Or.inr h)⟩

example : ∃ f ∈ [(⟨2, [1]⟩ : Cell)], ∃ q ∈ [(⟨2, [1, 3]⟩ : Cell)], Cell.Intersects f q :=
  spatial_prefilter_tight false _ _ (Token.s2 ⟨2, [1]⟩) (by decide) (by decide)

/-- shared token ⇔ coverings meet (repaired code) -/
theorem shares_iff_coveringsMeet (F Q : List Cell) :
    shares (tokensForCovering F) (rewriteSpatialQuery Q) = coveringsMeet F Q := by
  rw [Bool.eq_iff_iff, shares_iff, coveringsMeet_iff]
  constructor
  · rintro ⟨t, h1, h2⟩; exact spatial_prefilter_tight false F Q t h1 h2
  · rintro ⟨f, hf, q, hq, h⟩; exact spatial_prefilter_sound F Q f q hf hq h

/-- Search never invents: every result is an indexed feature whose own `Matches` is true —
for both variants, every feature list, every query covering. -/
theorem never_invents {ι} (skip0 : Bool) (m : ι → Bool) (feats : List (Indexed ι)) (Q : List Cell)
    (x : Indexed ι) (hx : x ∈ findFeaturesWith skip0 m feats Q) :
    x ∈ feats.filter (fun f => m f.1) := by
  simp only [findFeaturesWith, candidates, List.mem_filter] at hx ⊢
  exact ⟨hx.1.1, hx.2⟩

example : ((1 : Nat), [(⟨2, [1]⟩ : Cell)]) ∈
    [((1 : Nat), [(⟨2, [1]⟩ : Cell)]), (2, [⟨3, []⟩])].filter (fun f => (fun i => i == 1) f.1) :=
  never_invents false (fun i => i == 1) _ [⟨2, [1, 3]⟩] _ (by decide)

/-- A feature is returned iff it is indexed, its `Matches` is true and its covering meets the query's. -/
theorem mem_findFeatures_iff {ι} (m : ι → Bool) (feats : List (Indexed ι)) (Q : List Cell) (x : Indexed ι) :
    x ∈ findFeatures m feats Q ↔ x ∈ feats ∧ m x.1 = true ∧ coveringsMeet x.2 Q = true := by
  simp only [findFeatures, findFeaturesWith, candidates, List.mem_filter]
  rw [show tokensForCoveringWith false x.2 = tokensForCovering x.2 from rfl, shares_iff_coveringsMeet]
  constructor
  · rintro ⟨⟨a, b⟩, c⟩; exact ⟨a, c, b⟩
  · rintro ⟨a, c, b⟩; exact ⟨⟨a, b⟩, c⟩

/-- Search is exact under the covering contract: if every indexed feature the query accepts has a covering
cell intersecting a query covering cell (S2: covering ⊇ region, for both coverings — assumed), the result
is exactly the indexed features whose `Matches` is true, in index order. -/
theorem find_exact {ι} (m : ι → Bool) (feats : List (Indexed ι)) (Q : List Cell)
    (contract : ∀ x ∈ feats, m x.1 = true → ∃ f ∈ x.2, ∃ q ∈ Q, Cell.Intersects f q) :
    findFeatures m feats Q = feats.filter (fun f => m f.1) := by
  simp only [findFeatures, findFeaturesWith, candidates, List.filter_filter]
  apply List.filter_congr
  intro x hx
  rw [show tokensForCoveringWith false x.2 = tokensForCovering x.2 from rfl, shares_iff_coveringsMeet]
  cases hm : m x.1 with
  | false => simp
  | true =>
    simp only [Bool.true_and]
    exact (coveringsMeet_iff _ _).mpr (contract x hx hm)

example : findFeatures (fun i => i == 1) [((1 : Nat), [(⟨2, []⟩ : Cell)]), (2, [⟨3, []⟩])] [⟨2, [1, 3]⟩]
    = [((1 : Nat), [(⟨2, []⟩ : Cell)])] := by decide

/-- The same for the code as found, with the extra hypothesis that carves out the failing class:
no indexed feature has a level-0 cell in its covering. -/
theorem find_exact_partial {ι} (m : ι → Bool) (feats : List (Indexed ι)) (Q : List Cell)
    (noFace : ∀ x ∈ feats, ∀ f ∈ x.2, f.level ≠ 0)
    (contract : ∀ x ∈ feats, m x.1 = true → ∃ f ∈ x.2, ∃ q ∈ Q, Cell.Intersects f q) :
    findFeaturesWith true m feats Q = feats.filter (fun f => m f.1) := by
  simp only [findFeaturesWith, candidates, List.filter_filter]
  apply List.filter_congr
  intro x hx
  cases hm : m x.1 with
  | false => simp
  | true =>
    simp only [Bool.true_and]
    obtain ⟨f, hf, q, hq, h⟩ := contract x hx hm
    exact (shares_iff _ _).mpr (spatial_prefilter_sound_partial x.2 Q f q hf hq h (noFace x hx f hf))

/-! ### intersects-feature: named feature without geometry, and layered (overlay) worlds

`IntersectsFeature{ID}` compiles to the geometry query of the named feature as seen in the world it is resolved
in: `resolve : Option (List Cell)` is the covering of that geometry query, `none` = `Empty{}` (the feature is
missing in that world or has no geometry).  A layered world searches each layer and merges. -/

/-- compiled search with an optional geometry query: `Empty{}` finds nothing -/
def findResolved {ι} (m : ι → Bool) (feats : List (Indexed ι)) : Option (List Cell) → List (Indexed ι)
  | none => []
  | some Q => findFeatures m feats Q

/-- Repaired `IntersectsFeature.Matches` is false for every feature when the named feature has no geometry, so
the empty result is exactly `filter Matches` (the former finding `self-without-geometry`). -/
theorem find_without_geometry {ι} (m : ι → Bool) (feats : List (Indexed ι))
    (hm : ∀ x ∈ feats, m x.1 = false) :
    findResolved m feats none = feats.filter (fun f => m f.1) := by
  simp only [findResolved]
  symm
  rw [List.filter_eq_nil_iff]
  intro x hx
  simp [hm x hx]

example : findResolved (fun _ => false) [((7 : Nat), ([] : List Cell))] none
    = [((7 : Nat), ([] : List Cell))].filter (fun f => (fun _ => false) f.1) :=
  find_without_geometry _ _ (by simp)

/-- a layered world: each layer is searched with the query as resolved for that layer, results are merged -/
def findLayered {ι} (m : ι → Bool) (base overlay : List (Indexed ι)) (qBase qOverlay : Option (List Cell)) :
    List (Indexed ι) :=
  findResolved m base qBase ++ findResolved m overlay qOverlay

/-- Repaired layered worlds resolve the named feature once, in the whole world, and hand the same geometry
query to every layer: the merged result is the search over all features, hence (with `find_exact`) exact. -/
theorem find_layered_exact {ι} (m : ι → Bool) (base overlay : List (Indexed ι)) (Q : List Cell)
    (contract : ∀ x ∈ base ++ overlay, m x.1 = true → ∃ f ∈ x.2, ∃ q ∈ Q, Cell.Intersects f q) :
    findLayered m base overlay (some Q) (some Q) = (base ++ overlay).filter (fun f => m f.1) := by
  rw [← find_exact m (base ++ overlay) Q contract]
  simp [findLayered, findResolved, findFeatures, findFeaturesWith, candidates, List.filter_append]

example : findLayered (fun _ => true) [((1 : Nat), [(⟨2, [1]⟩ : Cell)])] [((7 : Nat), [(⟨2, [1, 3]⟩ : Cell)])]
    (some [⟨2, [1, 3]⟩]) (some [⟨2, [1, 3]⟩]) = [(1, [⟨2, [1]⟩]), (7, [⟨2, [1, 3]⟩])] := by decide

/-- Code as found: the base layer resolved the named feature in the base only. Feature 7 lives in the overlay;
the base compiles the query to `Empty{}` and the matching base feature 1 is missing from the result. -/
theorem layered_resolution_counterexample :
    let base : List (Indexed Nat) := [(1, [⟨2, [1]⟩])]
    let overlay : List (Indexed Nat) := [(7, [⟨2, [1, 3]⟩])]
    let Q : List Cell := [⟨2, [1, 3]⟩]
    findLayered (fun _ => true) base overlay none (some Q) = [(7, [⟨2, [1, 3]⟩])] ∧
    (base ++ overlay).filter (fun f => (fun _ => true) f.1) = [(1, [⟨2, [1]⟩]), (7, [⟨2, [1, 3]⟩])] := by
  decide

end B6.Props.C04
