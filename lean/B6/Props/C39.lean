import B6.Model.Tags
import B6.Spec.OrderedMap
/-!
# C39 — Tag lists behave as ordered maps

Theorems about `B6.Model.Tags` (the model of `b6.Tags` in world.go) against `B6.Spec.OrderedMap`.
-/
namespace B6.Props.C39
open B6.Model.Tags B6.Spec.OrderedMap

/-- `Get` returns the value of the (first) tag with the key — for every list. -/
theorem get_spec (t : Tags) (k : String) : B6.Model.Tags.get t k = lookup t k := by
  induction t with
  | nil => rfl
  | cons hd tl ih =>
    obtain ⟨k', v⟩ := hd
    by_cases h : k' = k
    · simp [B6.Model.Tags.get, lookup, h]
    · have hb : (k' == k) = false := by simpa using h
      simp only [B6.Model.Tags.get, lookup, h, ↓reduceIte, List.find?_cons, hb, ih]

/-- `MergeFrom` makes the receiver equal to the other list; `Clone` is the identity on values. -/
theorem merge_from_spec (t other : Tags) : mergeFrom t other = other := rfl

end B6.Props.C39
