import B6.Model.Tags
import B6.Spec.OrderedMap
import B6.Lemmas.Tags
/-!
# C39 — Tag lists behave as ordered maps

Theorems about `B6.Model.Tags` (the model of `b6.Tags` in world.go, with `RemoveTag`'s in-loop deletion
on a Go-slice model) against `B6.Spec.OrderedMap`, for every key-distinct list, every key / key list
(present, absent, repeated) and every operation sequence.  Tag values are opaque strings.

Outside the property's domain (lists with a repeated key) `RemoveTag` as written can panic or leave a
matching tag behind: `remove_tag_duplicate_panics_counterexample`,
`remove_tag_duplicate_survives_counterexample` — these are facts about the code that the property's
hypothesis excludes, not violations of it.
-/
namespace B6.Props.C39
open B6.Model.Tags B6.Spec.OrderedMap B6.Lemmas.Tags

/-! ## lookup -/

/-- `Get` returns the value of the (first) tag with the key — for every list. -/
theorem get_spec (t : Tags) (k : String) : B6.Model.Tags.get t k = lookup t k := by
  induction t with
  | nil => rfl
  | cons hd tl ih =>
    obtain ⟨k', v⟩ := hd
    by_cases h : k' = k
    · simp [B6.Model.Tags.get, lookup, h]
    · have hb : (k' == k) = false := by simpa using h
      simp only [B6.Model.Tags.get, lookup, h, ↓reduceIte, List.find?_cons, hb, ih]

example : B6.Model.Tags.get [("a", "1"), ("b", "2")] "b" = some "2" := by decide

/-! ## merge / clone -/

/-- `MergeFrom` makes the receiver equal to the other list. -/
theorem merge_from_spec (t other : Tags) : mergeFrom t other = other := rfl

/-- `Clone` is the identity on values. -/
theorem clone_spec (t : Tags) : clone t = t := rfl

/-! ## set -/

/-- `ModifyOrAddTag` on a key-distinct list is the ordered map's `set`: the value is replaced in place
when the key is present (returning `true` and the previous value), else the tag is appended (returning
`false` and the empty string, as the Go code does). -/
theorem modify_or_add_spec (t : Tags) (tag : Tag) (hd : Distinct t) :
    modifyOrAddTag t tag =
      match lookup t tag.1 with
      | some old => (B6.Spec.OrderedMap.set t tag, true, old)
      | none => (B6.Spec.OrderedMap.set t tag, false, "") := by
  unfold modifyOrAddTag
  cases hm : B6.Model.Tags.modify t tag with
  | none =>
    have hall := modify_none_iff.mp hm
    have hl : lookup t tag.1 = none := lookup_none_iff.mpr hall
    have ha : t.any (·.1 == tag.1) = false := any_false_iff.mpr hall
    simp only [hl, B6.Spec.OrderedMap.set, ha, addTag]
    rfl
  | some r =>
    obtain ⟨t', old⟩ := r
    obtain ⟨h1, h2⟩ := modify_some_spec hd hm
    have ha : t.any (·.1 == tag.1) = true := by
      cases hany : t.any (·.1 == tag.1) with
      | true => rfl
      | false =>
        have := lookup_none_iff.mpr (any_false_iff.mp hany)
        rw [h2] at this
        cases this
    simp only [h2, B6.Spec.OrderedMap.set, ha, ↓reduceIte, h1]

example : Distinct [("a", "1"), ("b", "2")] ∧
    modifyOrAddTag [("a", "1"), ("b", "2")] ("b", "9") = ([("a", "1"), ("b", "9")], true, "2") ∧
    modifyOrAddTag [("a", "1"), ("b", "2")] ("c", "9") = ([("a", "1"), ("b", "2"), ("c", "9")], false, "") := by
  decide

/-! ## remove one key -/

/-- `RemoveTag` on a slice header with **any spare capacity** whose visible part has distinct keys:
never panics, the visible part becomes the ordered map's `remove`, the backing array keeps its size. -/
theorem remove_tag_slice_spec (s : GoSlice) (k : String) (hlen : s.len ≤ s.back.length)
    (hd : Distinct s.toList) :
    ∃ s', s.removeTag k = some s' ∧ s'.toList = remove s.toList k
      ∧ s'.back.length = s.back.length ∧ s'.len ≤ s'.back.length := by
  obtain ⟨back, len⟩ := s
  simp only [GoSlice.toList] at hd
  simp only at hlen
  have hsplit : back = [] ++ back.take len ++ back.drop len := by simp
  have hl : len = ([] : List Tag).length + (back.take len).length := by
    simp [List.length_take, Nat.min_eq_left hlen]
  obtain ⟨s', h1, h2, h3, h4⟩ :=
    removeLoop_spec k (back.take len) [] (back.drop len) len (by simp [List.length_take]; omega)
      (by simp) hd
  refine ⟨s', ?_, ?_, ?_, h4⟩
  · unfold GoSlice.removeTag
    simp only
    rw [← hl, ← hsplit] at h1
    simpa using h1
  · simp only [GoSlice.toList, remove, List.nil_append] at h2 ⊢
    exact h2
  · rw [h3, ← hsplit]

/-- `RemoveTag` on a key-distinct list removes exactly the tag with that key, keeps all others in
order, and never panics (the stale copy the in-place shift leaves in the backing array is never matched). -/
theorem remove_tag_spec (t : Tags) (k : String) (hd : Distinct t) :
    removeTag t k = some (remove t k) := by
  have hd' : Distinct (GoSlice.ofList t).toList := by simpa [GoSlice.ofList, GoSlice.toList] using hd
  obtain ⟨s', h1, h2, _, _⟩ := remove_tag_slice_spec (GoSlice.ofList t) k (by simp [GoSlice.ofList]) hd'
  unfold removeTag
  rw [h1]
  simp only [Option.map_some, h2]
  simp [GoSlice.ofList, GoSlice.toList]

example : Distinct [("a", "1"), ("b", "2"), ("c", "3")] ∧
    removeTag [("a", "1"), ("b", "2"), ("c", "3")] "b" = some [("a", "1"), ("c", "3")] ∧
    removeTag [("a", "1"), ("b", "2"), ("c", "3")] "z" = some [("a", "1"), ("b", "2"), ("c", "3")] := by
  decide

/-- spare capacity: a slice of length 2 over a backing array of 4 whose hidden part repeats a visible key -/
example : (GoSlice.mk [("a", "1"), ("b", "2"), ("a", "7"), ("b", "8")] 2).removeTag "a"
    = some ⟨[("b", "2"), ("b", "2"), ("a", "7"), ("b", "8")], 1⟩ := by decide

/-! ## remove a list of keys -/

theorem remove_distinct (t : Tags) (k : String) (hd : Distinct t) : Distinct (remove t k) :=
  distinct_filter _ hd

/-- `RemoveTags` (one `RemoveTag` per key) on a key-distinct list removes exactly the tags whose key is
in the list — for any key list: absent keys, repeated keys, any order — and never panics. -/
theorem remove_tags_spec (t : Tags) (ks : List String) (hd : Distinct t) :
    removeTags t ks = some (removeAll t ks) := by
  unfold removeTags
  induction ks generalizing t with
  | nil => simp [removeAll_nil, pure]
  | cons k ks ih =>
    rw [List.foldlM_cons, remove_tag_spec t k hd]
    simp only [Option.bind_eq_bind, Option.bind_some]
    rw [ih (remove t k) (remove_distinct t k hd), removeAll_cons]

example : Distinct [("a", "1"), ("b", "2"), ("c", "3")] ∧
    removeTags [("a", "1"), ("b", "2"), ("c", "3")] ["a", "b"] = some [("c", "3")] ∧
    removeTags [("a", "1"), ("b", "2"), ("c", "3")] ["c", "z", "a", "c"] = some [("b", "2")] := by
  decide

/-! ## distinctness is an invariant of every operation -/

theorem set_distinct (t : Tags) (tag : Tag) (hd : Distinct t) : Distinct (B6.Spec.OrderedMap.set t tag) := by
  unfold B6.Spec.OrderedMap.set
  split
  · unfold Distinct
    rw [keys_map_preserve _ (fun x => by split <;> rfl)]
    exact hd
  · rename_i h
    have h' : t.any (·.1 == tag.1) = false := by simpa only [Bool.not_eq_true] using h
    exact distinct_append_fresh hd (any_false_iff.mp h')

theorem remove_all_distinct (t : Tags) (ks : List String) (hd : Distinct t) : Distinct (removeAll t ks) :=
  distinct_filter _ hd

/-- Every operation in the property's domain keeps the keys distinct (spec level). -/
theorem distinct_preserved (m : OMap) (op : Op) (hd : Distinct m) (hok : op.ok m = true) :
    Distinct (B6.Spec.OrderedMap.step m op).1 := by
  cases op with
  | get k => exact hd
  | set e => exact set_distinct m e hd
  | add e =>
    simp only [Op.ok, Bool.not_eq_eq_eq_not, Bool.not_true, List.contains_eq_mem,
      decide_eq_false_iff_not] at hok
    refine distinct_append_fresh hd (fun x hx heq => hok ?_)
    exact List.mem_map.mpr ⟨x, hx, heq⟩
  | rm k => exact remove_distinct m k hd
  | rms ks => exact remove_all_distinct m ks hd
  | merge o =>
    simp only [Op.ok, decide_eq_true_eq] at hok
    exact hok
  | clone => exact hd

/-! ## refinement: one call, then any sequence of calls -/

/-- One call: from a key-distinct list, for a call in the property's domain, the model (the code as
written) does not panic and returns exactly the ordered map's new state and result. -/
theorem step_refines (t : Tags) (op : Op) (hd : Distinct t) :
    B6.Model.Tags.step t op = some (B6.Spec.OrderedMap.step t op) := by
  cases op with
  | get k => simp [B6.Model.Tags.step, B6.Spec.OrderedMap.step, get_spec]
  | set e =>
    simp only [B6.Model.Tags.step, B6.Spec.OrderedMap.step, modify_or_add_spec t e hd]
    cases lookup t e.1 <;> rfl
  | add e => rfl
  | rm k => simp [B6.Model.Tags.step, B6.Spec.OrderedMap.step, remove_tag_spec t k hd]
  | rms ks => simp [B6.Model.Tags.step, B6.Spec.OrderedMap.step, remove_tags_spec t ks hd]
  | merge o => rfl
  | clone => rfl

/-- The model-level reading of `distinct_preserved`: whatever a call in the domain returns, the list
it leaves has distinct keys. -/
theorem distinct_preserved_model (t : Tags) (op : Op) (hd : Distinct t) (hok : op.ok t = true)
    {t' : Tags} {o : Out} (h : B6.Model.Tags.step t op = some (t', o)) : Distinct t' := by
  rw [step_refines t op hd] at h
  have := distinct_preserved t op hd hok
  simp only [Option.some.injEq] at h
  rw [h] at this
  exact this

/-- **All operation sequences.**  From any key-distinct list, for any sequence of calls each of which
is in the property's domain when it is made, the model run never panics, ends in the ordered map's
state, returned exactly the ordered map's results along the way, and the final list is key-distinct. -/
theorem ops_refine (ops : List Op) : ∀ (t : Tags), Distinct t → ValidFrom t ops →
    B6.Model.Tags.run t ops = some (B6.Spec.OrderedMap.run t ops)
      ∧ Distinct (B6.Spec.OrderedMap.run t ops).1 := by
  induction ops with
  | nil => intro t hd _; exact ⟨rfl, hd⟩
  | cons op ops ih =>
    intro t hd hv
    obtain ⟨hok, hv'⟩ := hv
    have hd' := distinct_preserved t op hd hok
    obtain ⟨h1, h2⟩ := ih _ hd' hv'
    refine ⟨?_, h2⟩
    simp only [B6.Model.Tags.run, step_refines t op hd, h1, B6.Spec.OrderedMap.run]

/-- non-vacuity: a sequence that uses every operation, valid from a distinct start; the last `rms`
removes two adjacent tags and the final tag (the shapes that broke `RemoveTags` before the fix). -/
example :
    let t : Tags := [("a", "1"), ("b", "2"), ("c", "3")]
    let ops : List Op := [.set ("b", "5"), .add ("d", "4"), .rm "a", .get "b", .clone,
      .merge [("x", "1"), ("y", "2"), ("z", "3")], .set ("w", "0"), .rms ["x", "y", "q", "w"]]
    Distinct t ∧ ValidFrom t ops ∧
      B6.Model.Tags.run t ops = some ([("z", "3")],
        [.modified true "2", .unit, .unit, .found (some "5"), .unit, .unit, .modified false "", .unit]) := by
  decide

/-! ## outside the domain: lists with a repeated key

`RemoveTag` ranges over the original length while deleting in place.  With a repeated key the stale
tail of the backing array can match again: the call panics (`slice bounds out of range`) or leaves a
tag with the removed key in the list.  The property is stated for key-distinct lists only, so these
are recorded as facts about the code, not as violations; the harness replays both on the real code. -/

theorem remove_tag_duplicate_panics_counterexample :
    ¬ Distinct [("a", "1"), ("a", "2")] ∧ removeTag [("a", "1"), ("a", "2")] "a" = none := by decide

theorem remove_tag_duplicate_survives_counterexample :
    ¬ Distinct [("a", "1"), ("a", "2"), ("b", "3")] ∧
      removeTag [("a", "1"), ("a", "2"), ("b", "3")] "a" = some [("a", "2"), ("b", "3")] ∧
      remove [("a", "1"), ("a", "2"), ("b", "3")] "a" = [("b", "3")] := by decide

/-- so the distinctness hypothesis of `remove_tag_spec` cannot be dropped -/
theorem remove_tag_needs_distinct_counterexample :
    ¬ ∀ (t : Tags) (k : String), removeTag t k = some (remove t k) := by
  intro h
  have := h [("a", "1"), ("a", "2")] "a"
  revert this
  decide

end B6.Props.C39
