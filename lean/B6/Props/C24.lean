/-! C24 — property theorems (stub: nothing proved yet). -/
