import B6.Model.Collections
import B6.Model.CollectionsExpr
import B6.Spec.Collections
import B6.Lemmas.Collections
import B6.Lemmas.CollectionsHeap
/-!
# C24 — Collection functions compute what their documentation says

Theorems about `B6.Model.Collections` (iterator-style models of api/functions/collections.go, map.go,
collections.go, ingest.CollectionFeature) against the list reference definitions of `B6.Spec.Collections`.
The model follows the code after the fixes C24-take-negative-count and C24-top-empty; the unrepaired
behaviour is kept as `takeCountOld` / `topOld` for the two `_counterexample` theorems.
-/
namespace B6.Props.C24
open B6.Model.Collections B6.Spec.Collections B6.Lemmas.Collections

/-! ## one theorem per function -/

/-- `collection` / an array collection yields its pairs in order and reports their number -/
theorem collection_spec (items : List Item) (fin : End) :
    drain Src.next (items.length + 1) ⟨items, fin⟩ = (items, finOf fin) ∧
    (denote (.arr items)).count = some (items.length : Int) :=
  ⟨drain_src fin items _ (Nat.lt_succ_self _), rfl⟩

/-- `take c n` yields the first `n` items (none for `n ≤ 0`) — every inner collection, every `n` -/
theorem take_spec (s : Src) (n : Int) :
    drain takeNext (s.rest.length + 1) (s, n) = takeRef n s := by
  obtain ⟨rest, fin⟩ := s
  exact drain_take fin rest n _ (Nat.lt_succ_self _)

theorem take_spec_list (items : List Item) (n : Int) :
    drain takeNext (items.length + 1) (⟨items, .done⟩, n) = (items.take n.toNat, .done) := by
  refine (take_spec ⟨items, .done⟩ n).trans ?_
  simp only [takeRef, finOf]
  split
  · rfl
  · next h => rw [List.take_of_length_le (by omega)]

/-- `filter c p` — for every function `p` (an error or a non-bool answer ends the result with an error) -/
theorem filter_spec (p : Val → Option Val) (s : Src) :
    drain (filterNext p) (s.rest.length + 1) s = filterRef p s.fin s.rest := by
  obtain ⟨rest, fin⟩ := s
  exact drain_filter p fin rest _ (Nat.lt_succ_self _)

theorem filterRef_list (q : Val → Bool) : ∀ items : List Item,
    filterRef (fun v => some (.bool (q v))) .done items = (items.filter (fun it => q it.2), .done) := by
  intro items
  induction items with
  | nil => rfl
  | cons x xs ih =>
    obtain ⟨k, v⟩ := x
    cases hq : q v <;> simp [filterRef, hq, ih]

/-- with a total boolean predicate this is `List.filter` -/
theorem filter_spec_list (q : Val → Bool) (items : List Item) :
    drain (filterNext fun v => some (.bool (q v))) (items.length + 1) ⟨items, .done⟩
      = (items.filter (fun it => q it.2), .done) := by
  exact (filter_spec _ ⟨items, .done⟩).trans (filterRef_list q items)

/-- `map c f` — for every function `f` -/
theorem map_spec (f : Val → Option Val) (s : Src) :
    drain (mapNext f) (s.rest.length + 1) s = mapRef f s.fin s.rest := by
  obtain ⟨rest, fin⟩ := s
  exact drain_map f fin rest _ (Nat.lt_succ_self _)

theorem mapRef_list (g : Val → Val) : ∀ items : List Item,
    mapRef (fun v => some (g v)) .done items = (items.map (fun it => (it.1, g it.2)), .done) := by
  intro items
  induction items with
  | nil => rfl
  | cons x xs ih => obtain ⟨k, v⟩ := x; simp [mapRef, ih]

/-- with a total function this is `List.map` on the values, keys unchanged -/
theorem map_spec_list (g : Val → Val) (items : List Item) :
    drain (mapNext fun v => some (g v)) (items.length + 1) ⟨items, .done⟩
      = (items.map (fun it => (it.1, g it.2)), .done) := by
  exact (map_spec _ ⟨items, .done⟩).trans (mapRef_list g items)

/-- `map-items c g` — for every function `g` on (key, value) -/
theorem map_items_spec (g : Val → Val → Option Item) (s : Src) :
    drain (mapItemsNext g) (s.rest.length + 1) s = mapItemsRef g s.fin s.rest := by
  obtain ⟨rest, fin⟩ := s
  exact drain_mapItems g fin rest _ (Nat.lt_succ_self _)

/-- `flatten`: the inner collections one after the other -/
theorem flatten_spec (ofin : End) (ss : List Src) :
    drain (flattenNext ofin) (srcTotal ss + 1) (ss, none) = flattenRef ofin ss :=
  drain_flatten_none ofin ss _ (Nat.lt_succ_of_le (itemsTotal_le_srcTotal ss))

theorem flattenRef_list : ∀ ls : List (List Item),
    flattenRef .done (ls.map fun l => ⟨l, .done⟩) = (ls.flatten, .done) := by
  intro ls
  induction ls with
  | nil => rfl
  | cons l ls ih => simp [flattenRef, ih]

/-- `join-missing b j`, drained, is the three-way merge `joinRef` — all inputs, sorted or not,
comparison errors included -/
theorem join_missing_spec (b j : Src) :
    drain jmNext (b.rest.length + j.rest.length + 1)
      { started := false, b := b, j := j, bcur := none, jcur := none }
      = joinRef b.fin j.fin b.rest j.rest := by
  obtain ⟨B, bfin⟩ := b
  obtain ⟨J, jfin⟩ := j
  exact drain_jm bfin jfin B J _ (Nat.lt_succ_self _)

/-- `sum-by-key`: keys are distinct, and each key holds the (64-bit wrapped) sum of its values;
non-int values are an error -/
theorem sum_by_key_spec (items : List Item) (l : List (Val × Int)) (h : sumByKey items .done = some l) :
    (l.map (·.1)).Nodup ∧
    ∀ k, lookup k l = if k ∈ items.map (·.1) then some (wrap64 (sumFor k items)) else none := by
  unfold sumByKey at h
  rw [sumByKey_go] at h
  split at h
  · simp only [Option.some.injEq] at h
    subst h
    have := tallied_foldl (·.1) intDelta items [] [] (tallied_nil _ _)
    simp only [List.nil_append] at this
    refine ⟨this.1, ?_⟩
    intro k
    rw [this.2 k, sumFor_eq_weightFor]
  · cases h

theorem sum_by_key_error (items : List Item) :
    sumByKey items .done = none ↔ ∃ it ∈ items, ∀ i, it.2 ≠ .int i := by
  unfold sumByKey
  rw [sumByKey_go]
  cases hall : (items.all fun it => match it.2 with | .int _ => true | _ => false) with
  | true =>
    simp only [if_true]
    constructor
    · intro h; cases h
    · intro ⟨it, hit, hne⟩
      rw [List.all_eq_true] at hall
      have := hall it hit
      cases hv : it.2 with
      | int i => exact absurd hv (hne i)
      | float c => simp [hv] at this
      | str s => simp [hv] at this
      | fid t ns v => simp [hv] at this
      | bool b => simp [hv] at this
  | false =>
    simp only [Bool.false_eq_true, if_false, true_iff]
    rw [List.all_eq_false] at hall
    obtain ⟨it, hit, hne⟩ := hall
    refine ⟨it, hit, ?_⟩
    intro i hi
    rw [hi] at hne; simp at hne

theorem countBy_spec (keyOf : Item → Val) (delta : Item → Int) (items : List Item) (l : List (Val × Int))
    (h : countBy keyOf delta items .done = some l) :
    (l.map (·.1)).Nodup ∧
    ∀ k, lookup k l = if k ∈ items.map keyOf then some (wrap64 (weightFor keyOf delta k items)) else none := by
  simp only [countBy, Option.some.injEq] at h
  subst h
  have := tallied_foldl keyOf delta items [] [] (tallied_nil _ _)
  simp only [List.nil_append] at this
  exact ⟨this.1, this.2⟩

/-- `count-values`: how often each value occurs -/
theorem count_values_spec (items : List Item) (l : List (Val × Int)) (h : countValues items .done = some l) :
    (l.map (·.1)).Nodup ∧ ∀ v, lookup v l =
      if v ∈ items.map (·.2) then some (wrap64 (weightFor (·.2) (fun _ => 1) v items)) else none :=
  countBy_spec _ _ items l h

/-- `count-keys`: how often each key occurs -/
theorem count_keys_spec (items : List Item) (l : List (Val × Int)) (h : countKeys items .done = some l) :
    (l.map (·.1)).Nodup ∧ ∀ k, lookup k l =
      if k ∈ items.map (·.1) then some (wrap64 (weightFor (·.1) (fun _ => 1) k items)) else none :=
  countBy_spec _ _ items l h

/-- `count-valid-keys`: per key, the number of values that are not an invalid feature ID (the key appears
even when that number is 0) -/
theorem count_valid_keys_spec (items : List Item) (l : List (Val × Int))
    (h : countValidKeys items .done = some l) :
    (l.map (·.1)).Nodup ∧ ∀ k, lookup k l =
      if k ∈ items.map (·.1) then some (wrap64 (weightFor (·.1) validDelta k items)) else none :=
  countBy_spec _ _ items l h

/-- `top c n`: for every priority queue that keeps container/heap's contract (`PQLaw`), every input whose
values are all ints or all floats, and every `n` (zero and negative included), the result is the `n`
greatest entries, greatest first (`IsTopOf`; ties leave open which of several equal entries is kept). -/
theorem top_spec (pq : PQ) (law : PQLaw pq) (items : List Item) (n : Int) (out : List Item)
    (h : top pq items .done n = .ok out) : IsTopOf n items out := by
  cases items with
  | nil =>
    simp only [top, TopRes.ok.injEq] at h
    subst h
    exact ⟨[], by simp, by simp, by simp, by simp⟩
  | cons x xs =>
    obtain ⟨k, v⟩ := x
    simp only [top] at h
    cases hv : valNum v with
    | none => simp [hv] at h
    | some _ =>
      simp only [hv] at h
      cases hl : topLoop pq n v ((k, v) :: xs) pq.empty with
      | none => simp [hl] at h
      | some q =>
        simp only [hl, TopRes.ok.injEq] at h
        have hinv0 : TopInv n [] (law.elems pq.empty) [] := by
          rw [law.empty]
          exact ⟨by simp, by simp, by simp, by simp⟩
        obtain ⟨D, hq, hinv⟩ := topLoop_inv pq law n v ((k, v) :: xs) [] pq.empty [] q law.inv_empty hinv0 hl
        simp only [List.nil_append] at hinv
        obtain ⟨o, ho, hperm, hsorted⟩ := popAll_spec pq law (pq.size q) q []
          (by rw [law.size]; exact Nat.le_refl _) hq
          (fun y hy => hinv.num y (hinv.perm.mem_iff.mp (List.mem_append_left D hy)))
        rw [ho, List.append_nil] at h
        subst h
        refine ⟨D, ?_, ?_, hsorted, ?_⟩
        · exact (List.Perm.append_right D hperm).trans hinv.perm
        · rw [hperm.length_eq]; exact hinv.len
        · intro r hr o' ho'
          exact hinv.low r hr o' (hperm.mem_iff.mp ho')

/-- `top` on values it cannot order (not int/float, or a mix) is an error, never a panic -/
theorem top_never_panics (pq : PQ) (items : List Item) (fin : End) (n : Int) :
    top pq items fin n ≠ .panic := by
  unfold top
  cases items with
  | nil => cases fin <;> simp
  | cons x xs =>
    obtain ⟨k, v⟩ := x
    simp only
    split
    · simp
    · split
      · simp
      · cases fin <;> simp

/-- `FindValue` on a sorted collection feature (binary search) answers like the linear scan -/
theorem find_value_spec (keys vals : Array Val) (key : Val) (h : SearchOk keys key) :
    findValue true keys vals key = scanFirst keys vals key := by
  obtain ⟨hlo, hhi, hle⟩ := sortSearch_spec keys key h
  simp only [findValue, if_true, scanFirst]
  generalize hi : sortSearch keys.size (notLess keys key) = i at *
  by_cases hin : i < keys.size
  · cases he : eqAt keys key i with
    | true =>
      have : (List.range keys.size).find? (eqAt keys key) = some i := by
        apply find?_range_first _ _ _ hin he
        intro x hx
        cases hex : eqAt keys key x with
        | false => rfl
        | true => have := h.eq_ge x hex; rw [hlo x hx] at this; cases this
      simp [hin, he, this]
    | false =>
      have : (List.range keys.size).find? (eqAt keys key) = none := by
        apply find?_range_none
        intro x hx
        by_cases hxi : x < i
        · cases hex : eqAt keys key x with
          | false => rfl
          | true => have := h.eq_ge x hex; rw [hlo x hxi] at this; cases this
        · exact h.gt_stays i x (by omega) hx (hhi i (Nat.le_refl _) hin) he
      simp [hin, he, this]
  · have : (List.range keys.size).find? (eqAt keys key) = none := by
      apply find?_range_none
      intro x hx
      cases hex : eqAt keys key x with
      | false => rfl
      | true => have := h.eq_ge x hex; rw [hlo x (by omega)] at this; cases this
    simp [hin, this]

/-- the unsorted branch IS the linear scan -/
theorem find_value_unsorted (keys vals : Array Val) (key : Val) :
    findValue false keys vals key = scanFirst keys vals key := rfl

theorem find_values_unsorted (keys vals : Array Val) (key : Val) :
    findValues false keys vals key = scanAll keys vals key := rfl

/-! ## compositions -/

theorem takeRef_takeArg (n : Int) (s : Src) : takeRef (takeArg n) s = takeRef n s := by
  have : (takeArg n).toNat = n.toNat := by unfold takeArg; split <;> omega
  simp only [takeRef, this]

theorem takeCount_takeArg (cnt : Option Int) (n : Int) :
    takeCountRaw cnt (takeArg n) = cnt.map fun k => min k (max n 0) := by
  cases cnt with
  | none => rfl
  | some c =>
    simp only [takeCountRaw, takeArg, Option.map_some, Option.some.injEq]
    split <;> split <;> omega

mutual
/-- **Every expression tree of lazy collection functions evaluates, in the iterator-style model, to what the
list references say** (items, how the iteration ends, and the reported count). -/
theorem denote_eq_spec : ∀ c : Co, denote c = specDen c
  | .arr items => rfl
  | .take c n => by
    have ih := denote_eq_spec c
    simp only [denote, specDen, ih]
    cases h : (specDen c).src? with
    | none => rfl
    | some s => simp only [take_spec, takeRef_takeArg, takeCount_takeArg]
  | .filter c p => by
    have ih := denote_eq_spec c
    simp only [denote, specDen, ih]
    cases h : (specDen c).src? with
    | none => rfl
    | some s => simp only [filter_spec]
  | .map c f => by
    have ih := denote_eq_spec c
    simp only [denote, specDen, ih]
    cases h : (specDen c).src? with
    | none => rfl
    | some s => simp only [map_spec]
  | .mapItems c g => by
    have ih := denote_eq_spec c
    simp only [denote, specDen, ih]
    cases h : (specDen c).src? with
    | none => rfl
    | some s => simp only [map_items_spec]
  | .flatten cs => by
    have ih := denoteList_eq_spec cs
    simp only [denote, specDen, ih]
    cases h : specDenList cs with
    | none => rfl
    | some ss => simp only [flatten_spec]
  | .join b j => by
    have ihb := denote_eq_spec b
    have ihj := denote_eq_spec j
    simp only [denote, specDen, ihb, ihj]
    cases hb : (specDen b).src? with
    | none => rfl
    | some sb =>
      cases hj : (specDen j).src? with
      | none => rfl
      | some sj => simp only [join_missing_spec]
theorem denoteList_eq_spec : ∀ cs : CoList, denoteList cs = specDenList cs
  | .nil => rfl
  | .cons c rest => by
    have ih1 := denote_eq_spec c
    have ih2 := denoteList_eq_spec rest
    simp only [denoteList, specDenList, ih1, ih2]
    cases (specDen c).src? <;> cases specDenList rest <;> rfl
end

/-! ## reported counts -/

theorem mapRef_len (f : Val → Option Val) (fin : End) : ∀ xs : List Item,
    (mapRef f fin xs).1.length ≤ xs.length ∧
    ((mapRef f fin xs).2 = .done → fin = .done ∧ (mapRef f fin xs).1.length = xs.length) := by
  intro xs
  induction xs with
  | nil => cases fin <;> simp [mapRef, finOf]
  | cons x xs ih =>
    obtain ⟨k, v⟩ := x
    cases hf : f v with
    | none => simp [mapRef, hf]
    | some v' =>
      simp only [mapRef, hf, List.length_cons]
      refine ⟨by omega, ?_⟩
      intro h
      have := ih.2 h
      exact ⟨this.1, by omega⟩

theorem mapItemsRef_len (g : Val → Val → Option Item) (fin : End) : ∀ xs : List Item,
    (mapItemsRef g fin xs).1.length ≤ xs.length ∧
    ((mapItemsRef g fin xs).2 = .done → fin = .done ∧ (mapItemsRef g fin xs).1.length = xs.length) := by
  intro xs
  induction xs with
  | nil => cases fin <;> simp [mapItemsRef, finOf]
  | cons x xs ih =>
    obtain ⟨k, v⟩ := x
    cases hf : g k v with
    | none => simp [mapItemsRef, hf]
    | some kv =>
      simp only [mapItemsRef, hf, List.length_cons]
      refine ⟨by omega, ?_⟩
      intro h
      have := ih.2 h
      exact ⟨this.1, by omega⟩

theorem src?_eq {d : Den} {s : Src} (h : d.src? = some s) :
    s.rest = d.items ∧ finOf s.fin = d.fin := by
  unfold Den.src? at h
  cases hf : d.fin with
  | done => simp [hf, Fin.toEnd?] at h; subst h; simp [finOf]
  | err => simp [hf, Fin.toEnd?] at h; subst h; simp [finOf]
  | nofuel => simp [hf, Fin.toEnd?] at h

/-- a reported count is never exceeded, and is exact when the iteration ends without an error -/
theorem count_bound : ∀ (c : Co) (k : Int), (specDen c).count = some k →
    ((specDen c).items.length : Int) ≤ k ∧
    ((specDen c).fin = .done → ((specDen c).items.length : Int) = k)
  | .arr items, k, h => by
    simp only [specDen, Option.some.injEq] at h ⊢
    subst h; simp
  | .take c n, k, h => by
    simp only [specDen] at h ⊢
    cases hs : (specDen c).src? with
    | none => simp [hs, outOfFuel] at h
    | some s =>
      simp only [hs] at h ⊢
      cases hc : (specDen c).count with
      | none => simp [hc] at h
      | some k0 =>
        simp only [hc, Option.map_some, Option.some.injEq] at h
        obtain ⟨hle, heq⟩ := count_bound c k0 hc
        obtain ⟨hr, hf⟩ := src?_eq hs
        rw [← hr] at hle heq
        simp only [takeRef]
        split
        · next hn =>
          simp only [List.length_take]
          refine ⟨by omega, fun _ => by omega⟩
        · next hn =>
          simp only
          refine ⟨by omega, ?_⟩
          intro hd
          have := heq (by rw [← hf]; exact hd)
          omega
  | .filter c p, k, h => by
    simp only [specDen] at h
    cases hs : (specDen c).src? <;> simp [hs, outOfFuel] at h
  | .map c f, k, h => by
    simp only [specDen] at h ⊢
    cases hs : (specDen c).src? with
    | none => simp [hs, outOfFuel] at h
    | some s =>
      simp only [hs] at h ⊢
      obtain ⟨hle, heq⟩ := count_bound c k h
      obtain ⟨hr, hf⟩ := src?_eq hs
      rw [← hr] at hle heq
      obtain ⟨h1, h2⟩ := mapRef_len f.apply s.fin s.rest
      refine ⟨by omega, ?_⟩
      intro hd
      obtain ⟨h3, h4⟩ := h2 hd
      have := heq (by rw [← hf, h3]; rfl)
      omega
  | .mapItems c g, k, h => by
    simp only [specDen] at h ⊢
    cases hs : (specDen c).src? with
    | none => simp [hs, outOfFuel] at h
    | some s =>
      simp only [hs] at h ⊢
      obtain ⟨hle, heq⟩ := count_bound c k h
      obtain ⟨hr, hf⟩ := src?_eq hs
      rw [← hr] at hle heq
      obtain ⟨h1, h2⟩ := mapItemsRef_len g.apply s.fin s.rest
      refine ⟨by omega, ?_⟩
      intro hd
      obtain ⟨h3, h4⟩ := h2 hd
      have := heq (by rw [← hf, h3]; rfl)
      omega
  | .flatten cs, k, h => by
    simp only [specDen] at h
    cases hs : specDenList cs <;> simp [hs, outOfFuel] at h
  | .join b j, k, h => by
    simp only [specDen] at h
    cases hb : (specDen b).src? <;> cases hj : (specDen j).src? <;> simp [hb, hj, outOfFuel] at h

/-- **count_agrees**: whenever a collection (any composition of the lazy functions) reports a count `k`,
iterating it to the end yields exactly `k` items. -/
theorem count_agrees (c : Co) (k : Int) (hc : (denote c).count = some k) (hd : (denote c).fin = .done) :
    ((denote c).items.length : Int) = k := by
  rw [denote_eq_spec] at hc hd ⊢
  exact (count_bound c k hc).2 hd

/-- the library function `count` (`b6.Count`) therefore returns the number of items -/
theorem count_function_spec (c : Co) (hd : (denote c).fin = .done) :
    goCount (denote c).count (denote c).items (denote c).fin = some ((denote c).items.length : Int) := by
  cases hc : (denote c).count with
  | none => simp [goCount, hd]
  | some k => simp [goCount, count_agrees c k hc hd]

/-- **Before the fix** `take` reported its argument as the count: `take c -1` on three items says −1 and
yields nothing. -/
theorem take_negative_count_counterexample :
    takeCountOld (some 3) (-1) = some (-1) ∧
    drain takeNext 4 (⟨[(.int 1, .int 10), (.int 2, .int 30), (.int 3, .int 20)], .done⟩, (-1 : Int)) = ([], .done) := by
  decide

/-- **Before the fix** `top` on an empty collection called `Len()` on a nil heap. -/
theorem top_empty_counterexample : topOld goHeap [] .done 3 = .panic := by decide

/-! ## termination: no expression runs out of fuel -/

theorem finOf_ne (e : End) : finOf e ≠ .nofuel := by cases e <;> simp [finOf]

theorem takeRef_fin (n : Int) (s : Src) : (takeRef n s).2 ≠ .nofuel := by
  unfold takeRef; split
  · simp
  · exact finOf_ne _

theorem mapRef_fin (f : Val → Option Val) (fin : End) : ∀ xs, (mapRef f fin xs).2 ≠ .nofuel := by
  intro xs
  induction xs with
  | nil => exact finOf_ne _
  | cons x xs ih => obtain ⟨k, v⟩ := x; cases hf : f v <;> simp [mapRef, hf, ih]

theorem mapItemsRef_fin (g : Val → Val → Option Item) (fin : End) : ∀ xs, (mapItemsRef g fin xs).2 ≠ .nofuel := by
  intro xs
  induction xs with
  | nil => exact finOf_ne _
  | cons x xs ih => obtain ⟨k, v⟩ := x; cases hf : g k v <;> simp [mapItemsRef, hf, ih]

theorem filterRef_fin (p : Val → Option Val) (fin : End) : ∀ xs, (filterRef p fin xs).2 ≠ .nofuel := by
  intro xs
  induction xs with
  | nil => exact finOf_ne _
  | cons x xs ih =>
    obtain ⟨k, v⟩ := x
    cases hp : p v with
    | none => simp [filterRef, hp]
    | some r =>
      cases r with
      | bool b => cases b <;> simp [filterRef, hp, ih]
      | int i => simp [filterRef, hp]
      | float c => simp [filterRef, hp]
      | str s => simp [filterRef, hp]
      | fid t ns v => simp [filterRef, hp]

theorem flattenRef_fin (ofin : End) : ∀ ss, (flattenRef ofin ss).2 ≠ .nofuel := by
  intro ss
  induction ss with
  | nil => exact finOf_ne _
  | cons c cs ih => cases hc : c.fin <;> simp [flattenRef, hc, ih]

theorem joinRef_fin (bfin jfin : End) : ∀ B J, (joinRef bfin jfin B J).2 ≠ .nofuel := by
  intro B J
  fun_induction joinRef bfin jfin B J <;> simp_all

mutual
theorem specDen_fin : ∀ c : Co, (specDen c).fin ≠ .nofuel
  | .arr items => by simp [specDen]
  | .take c n => by
    have ih := specDen_fin c
    simp only [specDen]
    cases hs : (specDen c).src? with
    | none =>
      exfalso; unfold Den.src? at hs
      cases hf : (specDen c).fin <;> simp_all [Fin.toEnd?]
    | some s => exact takeRef_fin n s
  | .filter c p => by
    have ih := specDen_fin c
    simp only [specDen]
    cases hs : (specDen c).src? with
    | none =>
      exfalso; unfold Den.src? at hs
      cases hf : (specDen c).fin <;> simp_all [Fin.toEnd?]
    | some s => exact filterRef_fin _ _ _
  | .map c f => by
    have ih := specDen_fin c
    simp only [specDen]
    cases hs : (specDen c).src? with
    | none =>
      exfalso; unfold Den.src? at hs
      cases hf : (specDen c).fin <;> simp_all [Fin.toEnd?]
    | some s => exact mapRef_fin _ _ _
  | .mapItems c g => by
    have ih := specDen_fin c
    simp only [specDen]
    cases hs : (specDen c).src? with
    | none =>
      exfalso; unfold Den.src? at hs
      cases hf : (specDen c).fin <;> simp_all [Fin.toEnd?]
    | some s => exact mapItemsRef_fin _ _ _
  | .flatten cs => by
    have ih := specDenList_some cs
    simp only [specDen]
    cases hs : specDenList cs with
    | none => exact absurd hs ih
    | some ss => exact flattenRef_fin _ _
  | .join b j => by
    have ihb := specDen_fin b
    have ihj := specDen_fin j
    simp only [specDen]
    cases hb : (specDen b).src? with
    | none =>
      exfalso; unfold Den.src? at hb
      cases hf : (specDen b).fin <;> simp_all [Fin.toEnd?]
    | some sb =>
      cases hj : (specDen j).src? with
      | none =>
        exfalso; unfold Den.src? at hj
        cases hf : (specDen j).fin <;> simp_all [Fin.toEnd?]
      | some sj => exact joinRef_fin _ _ _ _
theorem specDenList_some : ∀ cs : CoList, specDenList cs ≠ none
  | .nil => by simp [specDenList]
  | .cons c rest => by
    have ih1 := specDen_fin c
    have ih2 := specDenList_some rest
    simp only [specDenList]
    cases hs : (specDen c).src? with
    | none =>
      exfalso; unfold Den.src? at hs
      cases hf : (specDen c).fin <;> simp_all [Fin.toEnd?]
    | some s =>
      cases hr : specDenList rest with
      | none => exact absurd hr ih2
      | some ss => simp
end

/-- **Termination**: the fuel the model hands to every loop suffices — no composition ever reports `nofuel`. -/
theorem denote_terminates (c : Co) : (denote c).fin ≠ .nofuel := by
  rw [denote_eq_spec]; exact specDen_fin c

/-! ## join-missing on key-sorted inputs -/

theorem mergeRef_nil_right (lt : Val → Val → Bool) : ∀ B, mergeRef lt B [] = B
  | [] => by simp [mergeRef]
  | _ :: _ => by simp [mergeRef]

theorem mergeRef_nil_left (lt : Val → Val → Bool) (J : List Item) : mergeRef lt [] J = J := by
  simp [mergeRef]

/-- base head goes first when nothing in `F` is below it -/
theorem mergeRef_head (lt : Val → Val → Bool) (b : Item) (bs F : List Item)
    (h : ∀ x ∈ F, lt x.1 b.1 = false) : mergeRef lt (b :: bs) F = b :: mergeRef lt bs F := by
  cases F with
  | nil => simp [mergeRef, mergeRef_nil_right]
  | cons x F' =>
    have := h x (List.mem_cons_self ..)
    simp [mergeRef, this]

/-- **join-missing, key-sorted inputs**: the result is the ordinary merge of `base` with those entries of
`joined` whose key does not occur in `base`. -/
theorem join_missing_sorted (S : Val → Prop) (lt : Val → Val → Bool) (ord : KeyOrder S lt) :
    ∀ (B J : List Item), (∀ x ∈ B, S x.1) → (∀ x ∈ J, S x.1) → KeySorted lt B → KeySorted lt J →
      joinRef .done .done B J = (mergeRef lt B (J.filter (absentFrom B)), .done) := by
  intro B
  induction B with
  | nil =>
    intro J _ hSJ _ hsJ
    induction J with
    | nil => simp [joinRef, mergeRef]
    | cons j js ih =>
      have hs : KeySorted lt js := List.Pairwise.of_cons hsJ
      have := ih (fun x hx => hSJ x (List.mem_cons_of_mem _ hx)) hs
      simp only [mergeRef_nil_left] at this ⊢
      simp [joinRef, this, absentFrom]
  | cons b bs ihB =>
    intro J hSB hSJ hsB hsJ
    induction J with
    | nil =>
      have := ihB [] (fun x hx => hSB x (List.mem_cons_of_mem _ hx)) (by simp) (List.Pairwise.of_cons hsB)
        (by simp [KeySorted])
      simp [joinRef, this, mergeRef, mergeRef_nil_right]
    | cons j js ihJ =>
      have hSb : S b.1 := hSB b (List.mem_cons_self ..)
      have hSj : S j.1 := hSJ j (List.mem_cons_self ..)
      have hSbs : ∀ x ∈ bs, S x.1 := fun x hx => hSB x (List.mem_cons_of_mem _ hx)
      have hSjs : ∀ x ∈ js, S x.1 := fun x hx => hSJ x (List.mem_cons_of_mem _ hx)
      have hsbs : KeySorted lt bs := List.Pairwise.of_cons hsB
      have hsjs : KeySorted lt js := List.Pairwise.of_cons hsJ
      have hbmin : ∀ x ∈ bs, lt x.1 b.1 = false := (List.pairwise_cons.mp hsB).1
      have hjmin : ∀ x ∈ js, lt x.1 j.1 = false := (List.pairwise_cons.mp hsJ).1
      have ihJ' := ihJ hSjs hsjs
      by_cases heq : j.1 = b.1
      · -- equal keys: the joined entry is dropped
        have he : goEqual j.1 b.1 = some true := by rw [ord.equal _ _ hSj hSb]; simp [heq]
        have hab : absentFrom (b :: bs) j = false := by simp [absentFrom, heq]
        simp only [joinRef, he, ihJ', List.filter_cons, hab]
        simp
      · have he : goEqual j.1 b.1 = some false := by rw [ord.equal _ _ hSj hSb]; simp [heq]
        cases hl : lt j.1 b.1 with
        | true =>
          -- joined key below the base head: it is absent from base and goes first
          have hlj : goLess j.1 b.1 = some true := by rw [ord.less _ _ hSj hSb, hl]
          have hab : absentFrom (b :: bs) j = true := by
            simp only [absentFrom, List.all_cons, Bool.and_eq_true, decide_eq_true_eq, List.all_eq_true]
            refine ⟨fun e => heq e.symm, ?_⟩
            intro x hx e
            have h1 := hbmin x hx
            rw [e, hl] at h1; cases h1
          simp only [joinRef, he, hlj, ihJ', List.filter_cons, hab, if_true, mergeRef, hl]
        | false =>
          -- base head first; no joined key can equal it any more
          have hlj : goLess j.1 b.1 = some false := by rw [ord.less _ _ hSj hSb, hl]
          have hbj : lt b.1 j.1 = true := by
            rcases ord.total j.1 b.1 hSj hSb with h | h | h
            · rw [hl] at h; cases h
            · exact absurd h heq
            · exact h
          have hall : ∀ x ∈ j :: js, S x.1 ∧ lt b.1 x.1 = true := by
            intro x hx
            have hSx := hSJ x hx
            refine ⟨hSx, ?_⟩
            rcases List.mem_cons.mp hx with e | hx'
            · rw [e]; exact hbj
            · have hxj := hjmin x hx'
              rcases ord.total j.1 x.1 hSj (hSJ x hx) with h | h | h
              · exact ord.trans _ _ _ hSb hSj hSx hbj h
              · rw [← h]; exact hbj
              · rw [hxj] at h; cases h
          have hfilter : (j :: js).filter (absentFrom (b :: bs)) = (j :: js).filter (absentFrom bs) := by
            apply List.filter_congr
            intro x hx
            obtain ⟨hSx, hbx⟩ := hall x hx
            have : b.1 ≠ x.1 := by
              intro e; rw [e, ord.irrefl _ hSx] at hbx; cases hbx
            simp [absentFrom, this]
          have hge : ∀ x ∈ (j :: js).filter (absentFrom bs), lt x.1 b.1 = false := by
            intro x hx
            obtain ⟨hSx, hbx⟩ := hall x (List.mem_filter.mp hx).1
            cases hxb : lt x.1 b.1 with
            | false => rfl
            | true =>
              have := ord.trans _ _ _ hSb hSx hSb hbx hxb
              rw [ord.irrefl _ hSb] at this; cases this
          have ih := ihB (j :: js) hSbs hSJ hsbs hsJ
          simp only [joinRef, he, hlj, ih]
          rw [hfilter, mergeRef_head lt b bs _ hge]

/-- int keys with the order of `b6.Less` form a `KeyOrder` (so the theorem above is not vacuous) -/
def isInt : Val → Prop
  | .int _ => True
  | _ => False

def intLt : Val → Val → Bool
  | .int x, .int y => decide (x < y)
  | _, _ => false

theorem intKeyOrder : KeyOrder isInt intLt where
  less := by
    intro a b ha hb
    cases a <;> cases b <;> simp_all [isInt, goLess, intLt]
  equal := by
    intro a b ha hb
    cases a <;> cases b <;> simp_all [isInt, goEqual]
  irrefl := by
    intro a ha
    cases a <;> simp_all [isInt, intLt]
  trans := by
    intro a b c ha hb hc
    cases a <;> cases b <;> cases c <;> simp_all [isInt, intLt]
    omega
  total := by
    intro a b ha hb
    cases a <;> cases b <;> simp_all [isInt, intLt]
    omega

example : joinRef .done .done [(.int 1, .str "b1"), (.int 3, .str "b3")]
    [(.int 0, .str "j0"), (.int 1, .str "j1"), (.int 2, .str "j2"), (.int 4, .str "j4")]
    = ([(.int 0, .str "j0"), (.int 1, .str "b1"), (.int 2, .str "j2"), (.int 3, .str "b3"), (.int 4, .str "j4")], .done) := by
  simp [joinRef, goEqual, goLess]

/-! ## FindValues, and the int instance of the search hypotheses -/

theorem filter_eq_takeWhile_range' (P : Nat → Bool) : ∀ (m a : Nat),
    (∀ x y, a ≤ y → y ≤ x → x < a + m → P x = true → P y = true) →
    (List.range' a m).filter P = (List.range' a m).takeWhile P := by
  intro m
  induction m with
  | zero => intro a _; rfl
  | succ m ih =>
    intro a hcl
    rw [List.range'_succ]
    cases hp : P a with
    | true =>
      simp only [List.filter_cons, hp, if_true, List.takeWhile_cons]
      rw [ih (a + 1) (by intro x y hy hyx hx hpx; exact hcl x y (by omega) hyx (by omega) hpx)]
    | false =>
      simp only [List.filter_cons, hp, List.takeWhile_cons]
      simp only [Bool.false_eq_true, if_false, List.filter_eq_nil_iff, List.mem_range'_1]
      intro x hx hpx
      have := hcl x a (Nat.le_refl _) (by omega) (by omega) hpx
      rw [hp] at this; cases this

theorem collectRun_eq (keys vals : Array Val) (key : Val) (hv : keys.size ≤ vals.size) :
    ∀ (fuel i : Nat), keys.size - i ≤ fuel →
      collectRun keys vals key fuel i =
        ((List.range' i (keys.size - i)).takeWhile (eqAt keys key)).filterMap (vals[·]?) := by
  intro fuel
  induction fuel with
  | zero =>
    intro i h
    have : keys.size - i = 0 := by omega
    simp [collectRun, this]
  | succ fuel ih =>
    intro i h
    by_cases hi : i < keys.size
    · have e : keys.size - i = (keys.size - (i + 1)) + 1 := by omega
      rw [e, List.range'_succ]
      cases he : eqAt keys key i with
      | false => simp [collectRun, he]
      | true =>
        have hvi : i < vals.size := by omega
        have hsome : vals[i]? = some vals[i] := by simp [hvi]
        simp only [collectRun, hi, he, decide_true, Bool.and_self, if_true, hsome,
          List.takeWhile_cons, List.filterMap_cons]
        rw [ih (i + 1) (by omega)]
    · have : keys.size - i = 0 := by omega
      simp [collectRun, hi, this]

/-- `FindValues` on a sorted collection feature answers like the linear scan -/
theorem find_values_spec (keys vals : Array Val) (key : Val) (h : SearchOk keys key)
    (hv : keys.size ≤ vals.size) :
    findValues true keys vals key = scanAll keys vals key := by
  obtain ⟨hlo, hhi, hle⟩ := sortSearch_spec keys key h
  simp only [findValues, if_true, scanAll]
  generalize hi : sortSearch keys.size (notLess keys key) = i at *
  rw [collectRun_eq keys vals key hv keys.size i (by omega)]
  congr 1
  have hsplit : List.range keys.size = List.range' 0 i ++ List.range' i (keys.size - i) := by
    rw [List.range_eq_range']
    have e : keys.size = i + (keys.size - i) := by omega
    conv => lhs; rw [e]
    rw [← List.range'_append_1]; simp
  rw [hsplit, List.filter_append]
  have h1 : (List.range' 0 i).filter (eqAt keys key) = [] := by
    simp only [List.filter_eq_nil_iff, List.mem_range'_1]
    intro x hx hex
    have := h.eq_ge x hex
    rw [hlo x (by omega)] at this; cases this
  rw [h1, List.nil_append]
  symm
  apply filter_eq_takeWhile_range'
  intro x y hy hyx hx hex
  have hxn : x < keys.size := by omega
  -- the first index of the run is an equal key, or no key is equal
  have hi0 : eqAt keys key i = true := by
    cases hei : eqAt keys key i with
    | true => rfl
    | false =>
      have := h.gt_stays i x (by omega) hxn (hhi i (Nat.le_refl _) (by omega)) hei
      rw [hex] at this; cases this
  exact h.between i y x hy hyx hxn hi0 hex

/-- a probe no int key compares with: every comparison is an error, nothing is found either way -/
theorem searchOk_int_other (ks : List Int) (key : Val)
    (hl : ∀ x : Int, goLess (.int x) key = none) (he : ∀ x : Int, goEqual (.int x) key = none) :
    SearchOk (ks.map Val.int).toArray key := by
  have hE : ∀ i, eqAt (ks.map Val.int).toArray key i = false := by
    intro i
    unfold eqAt
    cases hk : (ks.map Val.int).toArray[i]? with
    | none => rfl
    | some k =>
      have : ∃ x, k = .int x := by
        have := List.mem_of_getElem? (l := ks.map Val.int) (by simpa using hk)
        simp at this; obtain ⟨a, _, e⟩ := this; exact ⟨a, e.symm⟩
      obtain ⟨x, e⟩ := this
      simp [e, he x]
  have hL : ∀ i, notLess (ks.map Val.int).toArray key i = true := by
    intro i
    unfold notLess
    cases hk : (ks.map Val.int).toArray[i]? with
    | none => rfl
    | some k =>
      have : ∃ x, k = .int x := by
        have := List.mem_of_getElem? (l := ks.map Val.int) (by simpa using hk)
        simp at this; obtain ⟨a, _, e⟩ := this; exact ⟨a, e.symm⟩
      obtain ⟨x, e⟩ := this
      simp [e, hl x]
  exact ⟨fun _ j _ _ _ => hL j, fun i h => (by rw [hE i] at h; cases h), fun _ j _ _ _ _ => hE j,
    fun i _ _ _ _ _ h _ => (by rw [hE i] at h; cases h)⟩

def kth (ks : List Int) (i : Nat) : Int := (ks[i]?).getD 0

/-- int keys in ascending order, any probe: the hypotheses of the two search theorems hold -/
theorem searchOk_int (ks : List Int) (hs : ks.Pairwise (· ≤ ·)) (key : Val) :
    SearchOk (ks.map Val.int).toArray key := by
  have hget : ∀ i, i < ks.length → (ks.map Val.int).toArray[i]? = some (.int (kth ks i)) := by
    intro i hi
    simp [hi, kth]
  have hsz : (ks.map Val.int).toArray.size = ks.length := by simp
  have hle : ∀ i j, i ≤ j → j < ks.length → kth ks i ≤ kth ks j := by
    intro i j hij hj
    by_cases e : i = j
    · subst e; exact Int.le_refl _
    · have := List.pairwise_iff_getElem.mp hs i j (by omega) hj (by omega)
      simpa [kth, show i < ks.length by omega, hj] using this
  cases key with
  | int p =>
    have hL : ∀ i, i < ks.length →
        notLess (ks.map Val.int).toArray (.int p) i = decide (¬ kth ks i < p) := by
      intro i hi; simp only [notLess, hget i hi, goLess, Option.getD_some]
      by_cases h : kth ks i < p <;> simp [h]
    have hE : ∀ i, i < ks.length →
        eqAt (ks.map Val.int).toArray (.int p) i = decide (kth ks i = p) := by
      intro i hi; simp only [eqAt, hget i hi, goEqual, Option.getD_some]
    have hEout : ∀ i, ¬ i < ks.length → eqAt (ks.map Val.int).toArray (.int p) i = false := by
      intro i hi; simp [eqAt, hi]
    refine ⟨?_, ?_, ?_, ?_⟩
    · intro i j hij hj hi
      rw [hsz] at hj
      rw [hL i (by omega)] at hi
      rw [hL j hj]
      have := hle i j hij hj
      simp only [decide_eq_true_eq] at hi ⊢; omega
    · intro i hi
      by_cases hil : i < ks.length
      · rw [hE i hil] at hi; rw [hL i hil]; simp only [decide_eq_true_eq] at hi ⊢; omega
      · rw [hEout i hil] at hi; cases hi
    · intro i j hij hj hi he
      rw [hsz] at hj
      rw [hL i (by omega)] at hi
      rw [hE i (by omega)] at he
      rw [hE j hj]
      have := hle i j hij hj
      simp only [decide_eq_true_eq, decide_eq_false_iff_not] at hi he ⊢; omega
    · intro i x j hix hxj hj hi hej
      rw [hsz] at hj
      rw [hE i (by omega)] at hi
      rw [hE j hj] at hej
      rw [hE x (by omega)]
      have h1 := hle i x hix (by omega)
      have h2 := hle x j hxj hj
      simp only [decide_eq_true_eq] at hi hej ⊢; omega
  | float c => exact searchOk_int_other ks (.float c) (by simp [goLess]) (by simp [goEqual])
  | str s => exact searchOk_int_other ks (.str s) (by simp [goLess]) (by simp [goEqual])
  | fid t ns v => exact searchOk_int_other ks (.fid t ns v) (by simp [goLess]) (by simp [goEqual])
  | bool b => exact searchOk_int_other ks (.bool b) (by simp [goLess]) (by simp [goEqual])

/-! ## non-vacuity: concrete values on which the theorems above apply and compute -/

def exItems : List Item := [(.int 1, .int 10), (.int 2, .int 30), (.int 3, .int 20), (.int 4, .int 30)]

-- the law of `top_spec` is inhabited (`listPQLaw`), and both queues pick the two greatest, greatest first
example : top listPQ exItems .done 2 = .ok [(.int 2, .int 30), (.int 4, .int 30)] := by decide
example : top goHeap exItems .done 2 = .ok [(.int 2, .int 30), (.int 4, .int 30)] := by decide
example : IsTopOf 2 exItems [(.int 2, .int 30), (.int 4, .int 30)] :=
  top_spec listPQ listPQLaw exItems 2 _ (by decide)
example : top goHeap [] .done 3 = .ok [] := by decide
example : top goHeap exItems .done (-1) = .ok [] := by decide
example : top goHeap [(.int 1, .int 1), (.int 2, .float 5)] .done 1 = .error := by decide
-- take: counts and items agree also for negative and oversized arguments
example : denote (.take (.arr exItems) (-1)) = ⟨[], .done, some 0⟩ := by decide
example : denote (.take (.arr exItems) 9) = ⟨exItems, .done, some 4⟩ := by decide
example : (denote (.take (.map (.arr exItems) (.addc 1)) 3)).count = some 3 := by decide
-- an error inside map ends the iteration where it happens; the reported count is not reached
example : denote (.map (.arr [(.int 1, .int 10), (.int 2, .str "x"), (.int 3, .int 5)]) (.addc 1))
    = ⟨[(.int 1, .int 11)], .err, some 3⟩ := by decide
example : denote (.filter (.arr exItems) (.gtc (.int 15)))
    = ⟨[(.int 2, .int 30), (.int 3, .int 20), (.int 4, .int 30)], .done, none⟩ := by decide
example : denote (.flatten (.cons (.arr exItems) (.cons (.arr []) (.cons (.take (.arr exItems) 1) .nil))))
    = ⟨exItems ++ [(.int 1, .int 10)], .done, none⟩ := by decide
example : sumByKey [(.str "a", .int 100), (.str "b", .int 50), (.str "a", .int 200)] .done
    = some [(.str "a", 300), (.str "b", 50)] := by decide
example : countValidKeys [(.int 1, .fid 0 "ns" 7), (.int 1, .fid 4 "" 0), (.int 2, .fid 4 "" 0)] .done
    = some [(.int 1, 1), (.int 2, 0)] := by decide
-- FindValue: binary search and scan agree on a sorted feature with duplicate keys
example : findValue true #[.int 1, .int 1, .int 2, .int 3] #[.str "a", .str "a2", .str "b", .str "c"] (.int 1)
    = some (.str "a") := by decide
example : SearchOk ([1, 1, 2, 3].map Val.int).toArray (.int 1) := searchOk_int _ (by decide) _
example : findValues true #[.int 1, .int 1, .int 2, .int 3] #[.str "a", .str "a2", .str "b", .str "c"] (.int 1)
    = [.str "a", .str "a2"] := by decide
-- b6.Less is not symmetric in its error behaviour: int vs float is an error, float vs int is not
example : goLess (.int 1) (.float 0) = none ∧ goLess (.float 0) (.int 1) = some true := by decide

/-! ## `top` for the heap the code uses, and `FindValue` for sorted int / string keys, without assumptions -/

/-- **`top` with the exact port of container/heap** (`goHeap`, proved to keep the priority-queue law in
`Lemmas/CollectionsHeap.lean` on top of C30's sift lemmas): the result is the `n` greatest entries, greatest
first — no assumption about the heap left. -/
theorem top_spec_goHeap (items : List Item) (n : Int) (out : List Item)
    (h : top goHeap items .done n = .ok out) : IsTopOf n items out :=
  top_spec goHeap B6.Lemmas.CollectionsHeap.goHeapLaw items n out h

/-- a probe that compares with none of the keys (every `Less`/`Equal` is an error): nothing is found either way -/
theorem searchOk_incomparable (ks : List Val) (key : Val)
    (hl : ∀ k ∈ ks, goLess k key = none) (he : ∀ k ∈ ks, goEqual k key = none) :
    SearchOk ks.toArray key := by
  have hE : ∀ i, eqAt ks.toArray key i = false := by
    intro i
    unfold eqAt
    cases hk : ks.toArray[i]? with
    | none => rfl
    | some k =>
      have : k ∈ ks := List.mem_of_getElem? (by simpa using hk)
      simp [he k this]
  have hL : ∀ i, notLess ks.toArray key i = true := by
    intro i
    unfold notLess
    cases hk : ks.toArray[i]? with
    | none => rfl
    | some k =>
      have : k ∈ ks := List.mem_of_getElem? (by simpa using hk)
      simp [hl k this]
  exact ⟨fun _ j _ _ _ => hL j, fun i h => (by rw [hE i] at h; cases h), fun _ j _ _ _ _ => hE j,
    fun i _ _ _ _ _ h _ => (by rw [hE i] at h; cases h)⟩

/-- **Keys sorted by any order `b6.Less`/`b6.Equal` realise (`KeyOrder`), probe of the same kind:** the
hypotheses of `find_value_spec` / `find_values_spec` hold. -/
theorem searchOk_of_keyOrder (S : Val → Prop) (lt : Val → Val → Bool) (ord : KeyOrder S lt)
    (ks : List Val) (hS : ∀ k ∈ ks, S k) (hs : ks.Pairwise fun x y => lt y x = false)
    (key : Val) (hk : S key) : SearchOk ks.toArray key := by
  have hsz : ks.toArray.size = ks.length := by simp
  have hget : ∀ i : Nat, i < ks.length → ∃ k, ks.toArray[i]? = some k ∧ ks[i]? = some k ∧ S k := by
    intro i hi
    refine ⟨ks[i], by simp [hi], by simp [hi], hS _ (List.getElem_mem hi)⟩
  -- sortedness on positions
  have hle : ∀ (i j : Nat) (ki kj : Val), i ≤ j → ks[i]? = some ki → ks[j]? = some kj → lt kj ki = false := by
    intro i j ki kj hij hi hj
    have hil : i < ks.length := by
      rcases Nat.lt_or_ge i ks.length with h | h
      · exact h
      · rw [List.getElem?_eq_none h] at hi; cases hi
    have hjl : j < ks.length := by
      rcases Nat.lt_or_ge j ks.length with h | h
      · exact h
      · rw [List.getElem?_eq_none h] at hj; cases hj
    by_cases e : i = j
    · subst e
      rw [hi] at hj; cases hj
      exact ord.irrefl _ (hS _ (List.mem_of_getElem? hi))
    · have := List.pairwise_iff_getElem.mp hs i j hil hjl (by omega)
      rw [List.getElem?_eq_getElem hil] at hi
      rw [List.getElem?_eq_getElem hjl] at hj
      cases hi; cases hj; exact this
  have hL : ∀ (i : Nat) (k : Val), ks.toArray[i]? = some k → S k → notLess ks.toArray key i = !(lt k key) := by
    intro i k h1 hSk; simp [notLess, h1, ord.less k key hSk hk]
  have hE : ∀ (i : Nat) (k : Val), ks.toArray[i]? = some k → S k → eqAt ks.toArray key i = decide (k = key) := by
    intro i k h1 hSk; simp [eqAt, h1, ord.equal k key hSk hk]
  refine ⟨?_, ?_, ?_, ?_⟩
  · intro i j hij hj hi
    rw [hsz] at hj
    obtain ⟨ki, a1, a2, a3⟩ := hget i (by omega)
    obtain ⟨kj, b1, b2, b3⟩ := hget j hj
    rw [hL i ki a1 a3] at hi
    rw [hL j kj b1 b3]
    cases hjk : lt kj key with
    | false => rfl
    | true =>
      exfalso
      have hik : lt ki key = false := by simpa using hi
      have hs' := hle i j ki kj hij a2 b2
      rcases ord.total ki key a3 hk with h | h | h
      · rw [hik] at h; cases h
      · rw [h, hjk] at hs'; cases hs'
      · have := ord.trans kj key ki b3 hk a3 hjk h
        rw [hs'] at this; cases this
  · intro i hi
    by_cases hil : i < ks.length
    · obtain ⟨ki, a1, a2, a3⟩ := hget i hil
      rw [hE i ki a1 a3] at hi
      rw [hL i ki a1 a3]
      have : ki = key := by simpa using hi
      rw [this, ord.irrefl key hk]; rfl
    · have : ks.toArray[i]? = none := by simp; omega
      simp [eqAt, this] at hi
  · intro i j hij hj hi he
    rw [hsz] at hj
    obtain ⟨ki, a1, a2, a3⟩ := hget i (by omega)
    obtain ⟨kj, b1, b2, b3⟩ := hget j hj
    rw [hL i ki a1 a3] at hi
    rw [hE i ki a1 a3] at he
    rw [hE j kj b1 b3]
    have hik : lt ki key = false := by simpa using hi
    have hne : ki ≠ key := by simpa using he
    simp only [decide_eq_false_iff_not]
    intro hjk
    have hs' := hle i j ki kj hij a2 b2
    rcases ord.total ki key a3 hk with h | h | h
    · rw [hik] at h; cases h
    · exact hne h
    · rw [hjk, h] at hs'; cases hs'
  · intro i x j hix hxj hj hi hej
    rw [hsz] at hj
    obtain ⟨ki, a1, a2, a3⟩ := hget i (by omega)
    obtain ⟨kx, c1, c2, c3⟩ := hget x (by omega)
    obtain ⟨kj, b1, b2, b3⟩ := hget j hj
    rw [hE i ki a1 a3] at hi
    rw [hE j kj b1 b3] at hej
    rw [hE x kx c1 c3]
    have e1 : ki = key := by simpa using hi
    have e2 : kj = key := by simpa using hej
    simp only [decide_eq_true_eq]
    have s1 := hle i x ki kx hix a2 c2
    have s2 := hle x j kx kj hxj c2 b2
    rcases ord.total kx key c3 hk with h | h | h
    · rw [e1, h] at s1; cases s1
    · exact h
    · rw [e2, h] at s2; cases s2

/-- string keys with Go's string `<` -/
def isStr : Val → Prop
  | .str _ => True
  | _ => False

def strLt : Val → Val → Bool
  | .str x, .str y => decide (x < y)
  | _, _ => false

theorem strKeyOrder : KeyOrder isStr strLt where
  less := by
    intro a b ha hb
    cases a <;> cases b <;> simp_all [isStr, goLess, strLt]
  equal := by
    intro a b ha hb
    cases a <;> cases b <;> simp_all [isStr, goEqual]
  irrefl := by
    intro a ha
    cases a <;> simp_all [isStr, strLt]
  trans := by
    intro a b c ha hb hc
    cases a <;> cases b <;> cases c <;> simp_all [isStr, strLt]
    exact String.lt_trans
  total := by
    intro a b ha hb
    cases a with
    | str x =>
      cases b with
      | str y =>
        simp only [strLt, decide_eq_true_eq, Val.str.injEq]
        by_cases h1 : x < y
        · exact Or.inl h1
        · by_cases h2 : y < x
          · exact Or.inr (Or.inr h2)
          · exact Or.inr (Or.inl (String.le_antisymm h2 h1))
      | _ => simp [isStr] at hb
    | _ => simp [isStr] at ha

/-- **FindValue / FindValues on a `Sort()`ed feature with string keys: unconditional** — ascending string keys,
any probe (a string, or a value of another type for which every comparison is an error). -/
theorem searchOk_str (ks : List String) (hs : ks.Pairwise fun a b => ¬ b < a) (key : Val) :
    SearchOk (ks.map Val.str).toArray key := by
  cases key with
  | str p =>
    apply searchOk_of_keyOrder isStr strLt strKeyOrder
    · intro k hk; simp at hk; obtain ⟨a, _, e⟩ := hk; rw [← e]; trivial
    · rw [List.pairwise_map]
      exact hs.imp (by intro a b h; simpa [strLt] using h)
    · trivial
  | int i =>
    apply searchOk_incomparable <;> intro k hk <;> simp at hk <;> obtain ⟨a, _, e⟩ := hk <;>
      rw [← e] <;> rfl
  | float c =>
    apply searchOk_incomparable <;> intro k hk <;> simp at hk <;> obtain ⟨a, _, e⟩ := hk <;>
      rw [← e] <;> rfl
  | fid t ns v =>
    apply searchOk_incomparable <;> intro k hk <;> simp at hk <;> obtain ⟨a, _, e⟩ := hk <;>
      rw [← e] <;> rfl
  | bool b =>
    apply searchOk_incomparable <;> intro k hk <;> simp at hk <;> obtain ⟨a, _, e⟩ := hk <;>
      rw [← e] <;> rfl

/-- the two unconditional statements, spelled out -/
theorem find_value_int_keys (ks : List Int) (hs : ks.Pairwise (· ≤ ·)) (vals : Array Val) (key : Val) :
    findValue true (ks.map Val.int).toArray vals key = scanFirst (ks.map Val.int).toArray vals key :=
  find_value_spec _ _ _ (searchOk_int ks hs key)

theorem find_value_str_keys (ks : List String) (hs : ks.Pairwise fun a b => ¬ b < a) (vals : Array Val)
    (key : Val) :
    findValue true (ks.map Val.str).toArray vals key = scanFirst (ks.map Val.str).toArray vals key :=
  find_value_spec _ _ _ (searchOk_str ks hs key)

theorem find_values_str_keys (ks : List String) (hs : ks.Pairwise fun a b => ¬ b < a) (vals : Array Val)
    (key : Val) (hv : ks.length ≤ vals.size) :
    findValues true (ks.map Val.str).toArray vals key = scanAll (ks.map Val.str).toArray vals key :=
  find_values_spec _ _ _ (searchOk_str ks hs key) (by simpa using hv)

example : IsTopOf 2 exItems [(.int 2, .int 30), (.int 4, .int 30)] := top_spec_goHeap exItems 2 _ (by decide)

/-! ## collection features replaced inside a mutable world -/

/-- what `Sort()` (or an ordered source) guarantees of a feature handed to `AddFeature`: if its flag is set, its
keys are ordered for every probe -/
def FlagOk (f : CF) : Prop := f.sorted = true → ∀ key, SearchOk f.keys key

theorem worldAdd_eq (stored : Option CF) (f : CF) : worldAdd stored f = some f := by
  cases stored <;> rfl

/-- after any history of replacements the world holds the last feature added — keys, values AND flag -/
theorem world_history_last (hist : List CF) (f : CF) (st0 : Option CF) :
    (hist ++ [f]).foldl worldAdd st0 = some f := by
  rw [List.foldl_append]; simp [worldAdd_eq]

/-- **Lookups after any replace history equal the linear scan**: start from any stored feature (or none), add
features with the same ID any number of times (each either unsorted or `Sort()`ed), then look up any key. -/
theorem world_lookup_after_history (hist : List CF) (st0 : Option CF)
    (h0 : ∀ e, st0 = some e → FlagOk e) (hh : ∀ f ∈ hist, FlagOk f)
    (e : CF) (he : hist.foldl worldAdd st0 = some e) (key : Val) :
    e.findValue key = scanFirst e.keys e.vals key ∧
    (e.keys.size ≤ e.vals.size → e.findValues key = scanAll e.keys e.vals key) := by
  have hok : FlagOk e := by
    induction hist generalizing st0 with
    | nil => exact h0 e he
    | cons f fs ih =>
      simp only [List.foldl_cons, worldAdd_eq] at he
      apply ih (some f)
      · intro e' h'; cases h'; exact hh f (List.mem_cons_self ..)
      · intro g hg; exact hh g (List.mem_cons_of_mem _ hg)
      · exact he
  unfold CF.findValue CF.findValues
  cases hs : e.sorted with
  | false => exact ⟨rfl, fun _ => rfl⟩
  | true => exact ⟨find_value_spec _ _ _ (hok hs key), fun hv => find_values_spec _ _ _ (hok hs key) hv⟩

/-- what goes wrong when a replacement keeps the old flag (the class of seeded change C24-4): a sorted feature
replaced by one with unordered keys, flag still set — the binary search misses a key the scan finds -/
theorem stale_sorted_flag_counterexample :
    let e : CF := { keys := #[.int 3, .int 1, .int 2], vals := #[.str "c", .str "a", .str "b"], sorted := true }
    e.findValue (.int 1) = none ∧ scanFirst e.keys e.vals (.int 1) = some (.str "a") := by decide

end B6.Props.C24
