import B6.Gen.Facts.C17
import B6.Model.Merged
/-!
# T3 facts for C17 — the number of feature types a compact world indexes, as `B6/Model/Merged.lean` assumes
(regenerated from /repo by `tools/facts` on every `./check C17`; kernel only)
-/
namespace B6.Props.Facts
open B6.Gen.Facts.C17

/-- `b6.FeatureTypeEnd` (= `FeatureTypeInvalid`) is the model's `numTypes` -/
theorem C17_featureTypeEnd : featureTypeEnd = B6.Model.Merged.numTypes := rfl

/-- `FeaturesByID.features` has one slot per type below `FeatureTypeEnd`: `int(id.Type) >= len(f.features)` is
the model's `id.typ < numTypes` test -/
theorem C17_featuresByIDTypes : featuresByIDTypes = B6.Model.Merged.numTypes := rfl

end B6.Props.Facts
