import B6.Gen.Facts.C01
import B6.Props.C01
/-!
# T3 facts for C01 — constants of world.go and the primary-namespace arguments of the record codecs of
ingest/compact/encoding.go that `B6/Model/CompactIndex.lean` and `Props/C01.primaryTable` transcribe
(regenerated from /repo by `tools/facts` on every `./check C01`; kernel only).

Extracted: for every record type (`CommonPoint`, `PointReferences`, `FullPoint`, `Path`, `Area`, `Relation`) and every
field its `Marshal` / `Unmarshal` method passes on, the primary it marshals the field against
(`TypeAndNamespaceInvalid` or `CombineTypeAndNamespace(T, nss.ForType(T') | nss[T'])`).  NOT extracted: which
`Namespaces` value the callers in build.go / world.go pass (`OSMNamespaces(nt)` vs. the block header) — that half of
`primaryTable` stays a hand transcription tied by the correspondence run.
-/
namespace B6.Props.Facts
open B6.Gen.Facts.C01 B6.Model.CompactIndex

theorem C01_pointTag : pointTag = kPoint.map (·.toNat) := by decide
theorem C01_pathTag : pathTag = kPath.map (·.toNat) := by decide
theorem C01_nsOSMNode : nsOSMNode = nsOsmNode.map (·.toNat) := by decide
theorem C01_nsOSMWay : nsOSMWay = nsOsmWay.map (·.toNat) := by decide
theorem C01_nsOSMRelation : nsOSMRelation = nsOsmRel.map (·.toNat) := by decide

/-- `FID.typ`: 0 point, 1 path, 2 area, 3 relation, 4 = `FeatureTypeInvalid` -/
theorem C01_featureTypes :
    featureTypes.take 5 = [("FeatureTypePoint", 0), ("FeatureTypePath", 1), ("FeatureTypeArea", 2),
      ("FeatureTypeRelation", 3), ("FeatureTypeInvalid", 4)] := by decide

/-- the name of the feature type a `primaryTable` entry means -/
def C01_typeName : B6.Props.C01.NsSrc → String
  | .osm t | .hdr t => ((featureTypes.find? (·.2 == t)).map (·.1)).getD "?"
  | .invalid => "invalid"

/-- the extracted primary of (record, field) on the writer side; `Point` rows of the table are `FullPoint` in the code -/
def C01_marshalPrimary (record field : String) : Option (String × String) :=
  (marshalPrimaries.find? (fun e => e.1 == (if record == "Point" then "FullPoint" else record) && e.2.1 == field)).map (·.2.2)

/-- the type half of `primaryTable` is what encoding.go says: for every row the `Marshal` method of that record
marshals that field against the namespace of exactly that feature type (for `Relation.Members` the type is the
method's `primary` parameter), the type passed to `CombineTypeAndNamespace` and to `ForType` being the same -/
theorem C01_marshalPrimaries :
    B6.Props.C01.primaryTable.all (fun u =>
      C01_marshalPrimary u.record u.field == some (C01_typeName u.writer, C01_typeName u.writer) ||
      (u.record == "Relation" && u.field == "Members" && C01_marshalPrimary u.record u.field == some ("primary", "primary"))) = true ∧
    marshalPrimaries.length = B6.Props.C01.primaryTable.length + 1 := by decide

/-- `Unmarshal` of every record reads every field against the primary `Marshal` wrote it with (same order, same
types; the field name is not compared because `Area.Unmarshal` goes through `UnmarshalAreaGeometry`) -/
theorem C01_unmarshalPrimaries :
    unmarshalPrimaries.map (fun e => (e.1, e.2.2)) = marshalPrimaries.map (fun e => (e.1, e.2.2)) := by decide

end B6.Props.Facts
