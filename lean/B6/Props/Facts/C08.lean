import B6.Gen.Facts.C08
import B6.Model.Posting
/-!
# T3 facts for C08 — constants of ingest/compact/encoding.go that `B6/Model/Posting.lean` assumes

`B6.Gen.Facts.C08` is regenerated from /repo's source by `tools/facts` on every `./check C08`; each theorem
states that the value read from the code is the one the model was written for (kernel only: `rfl`/`decide`).
-/
namespace B6.Props.Facts
open B6.Gen.Facts.C08 B6.Model.Posting

/-- `PostingListBlockSize` is the model's `blockSize` -/
theorem C08_postingListBlockSize : postingListBlockSize = blockSize := rfl

/-- … and the literal `64` the model inlines (so that `omega` sees it) is that constant: the two places where
the encoder decides about padding and block starts, stated with the extracted constant -/
theorem C08_postingListBlockSize_uses (len : Nat) (s : Enc) :
    padLen len = (if len % postingListBlockSize ≠ 0 then postingListBlockSize - len % postingListBlockSize else 0) ∧
    blockReset s = (if s.len % postingListBlockSize = 0 then { s with start := s.len, previous := 0 } else s) :=
  ⟨rfl, rfl⟩

/-- `CombineTypeAndNamespace` shifts the type by 13: a `TypeAndNamespace` is 3 + 13 bits, `validId` bounds it by `2^16` -/
theorem C08_namespaceShift : namespaceShift = 13 ∧ 2 ^ (namespaceShift + 3) = 65536 := by decide

/-- `TypeAndNamespaceInvalid` is the encoder's initial `tn` (`Enc.init`), excluded by `validId` (`id.1 ≠ 0`) -/
theorem C08_typeAndNamespaceInvalid : typeAndNamespaceInvalid = Enc.init.tn := rfl

end B6.Props.Facts
