import B6.Gen.Facts.C04
import B6.Model.Cells
/-!
# T3 facts for C04 — the token conventions of search/spatial.go that `B6/Model/Cells.lean` assumes
(regenerated from /repo by `tools/facts` on every `./check C04`; kernel only)
-/
namespace B6.Props.Facts
open B6.Gen.Facts.C04 B6.Model.Cells

/-- the prefix of a covering-cell token (`Token.s2`; harness/cmd/c04 and Driver/C04 split tokens on it) -/
theorem C04_s2CellIDTokenPrefix : s2CellIDTokenPrefix = "s2:" := by decide

/-- the prefix of an ancestor token (`Token.a2`), different from the cell prefix: the model's two token
constructors never collide -/
theorem C04_s2AncestorCellIDTokenPrefix :
    s2AncestorCellIDTokenPrefix = "a2:" ∧ s2AncestorCellIDTokenPrefix ≠ s2CellIDTokenPrefix := by decide

/-- `cellIDAncestorTokens` stops climbing at level 0 — the model's `Cell.parent?` -/
theorem C04_ancestorStopLevel (c : Cell) : c.parent?.isNone = decide (c.level = ancestorStopLevel) := by
  unfold Cell.parent? ancestorStopLevel
  by_cases h : c.level = 0 <;> simp [h]

/-- `RewriteSpatialQuery` stops climbing at level 0 — the model's `chain` ends at the face cell -/
theorem C04_rewriteStopLevel : rewriteStopLevel = 0 ∧
    ∀ f : Fin 6, selfAndAncestors ⟨f, []⟩ = [⟨f, []⟩] := ⟨rfl, fun _ => rfl⟩

end B6.Props.Facts
