import B6.Gen.Facts.C32
import B6.Model.GeoJSON
/-!
# T3 facts for C32 — string constants of geojson/geojson.go and world.go that `B6/Model/GeoJSON.lean` assumes
(regenerated from /repo by `tools/facts` on every `./check C32`; kernel only)
-/
namespace B6.Props.Facts
open B6.Gen.Facts.C32

/-- `geojson.Unmarshal` switches on FeatureCollection / Feature / the six geometry types of the model -/
theorem C32_unmarshalTypeCases :
    unmarshalTypeCases = [["FeatureCollection"], ["Feature"], B6.Model.GeoJSON.topLevelGeometryTypes] := by decide

theorem C32_pointTag : pointTag = B6.Model.GeoJSON.pointTag := by decide
theorem C32_pathTag : pathTag = B6.Model.GeoJSON.pathTag := by decide

end B6.Props.Facts
