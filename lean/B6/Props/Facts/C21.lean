import B6.Gen.Facts.C21
import B6.Model.VM
/-!
# T3 facts for C21 — constants of api/vm.go that `B6/Model/Interp.lean` / `B6/Model/VM.lean` assume
(regenerated from /repo by `tools/facts` on every `./check C21`; kernel only)
-/
namespace B6.Props.Facts
open B6.Gen.Facts.C21

/-- `MaxArgs` is the model's register-file bound (`compile`: error at `n ≥ maxArgs`; `exec`: `r < maxArgs`) -/
theorem C21_maxArgs : maxArgs = B6.Model.maxArgs := rfl

/-- the Go opcode a model instruction stands for (`Model/VM.lean`, comments on `Instr`) -/
def C21_opOf : B6.Model.VM.Instr → String
  | .pushVal _ | .pushFn _ | .pushLam .. => "OpPushValue"
  | .store _ => "OpStore"
  | .discard => "OpDiscard"
  | .load _ => "OpLoad"
  | .callFn .. | .callLam .. => "OpCallValue"
  | .callStack _ => "OpCallStack"
  | .ret => "OpReturn"

/-- the instruction set of api/vm.go is the one the model was written for: the eight `Op` constants in iota
order (`OpJump` exists but is never emitted by the compiler, see Model/VM.lean) -/
theorem C21_opcodes : opcodes =
    [("OpPushValue", 0), ("OpStore", 1), ("OpDiscard", 2), ("OpLoad", 3), ("OpJump", 4), ("OpCallValue", 5),
     ("OpCallStack", 6), ("OpReturn", 7)] := rfl

/-- every model instruction is one of the extracted opcodes, and every extracted opcode except `OpJump` is
the opcode of a model instruction -/
theorem C21_opcodes_cover :
    (∀ i, (opcodes.map Prod.fst).contains (C21_opOf i) = true) ∧
    (opcodes.map Prod.fst).filter (· != "OpJump") =
      ([.pushLam 0 0, .store 0, .discard, .load 0, .callLam 0 0 0, .callStack 0, .ret] :
        List B6.Model.VM.Instr).map C21_opOf := by
  refine ⟨fun i => ?_, by decide⟩
  cases i <;> rfl

end B6.Props.Facts
