import B6.Gen.Facts.C03
import B6.Model.FeatureSearch
/-!
# T3 facts for C03 — the token conventions of search.go / search/search.go that `B6/Model/FeatureSearch.lean` assumes
(regenerated from /repo by `tools/facts` on every `./check C03`; kernel only)
-/
namespace B6.Props.Facts
open B6.Gen.Facts.C03 B6.Model.FeatureSearch

/-- `TokenForTag` tests exactly two key prefixes, in this order, and the model's `tokenForTag` treats a key that
starts with the first as `#k=v ↦ k=v`, with the second as `@k ↦ k` -/
theorem C03_tagKeyPrefixes :
    tagKeyPrefixes.map (fun p => tokenForTag (p ++ ['k'], ['v'])) = [some ['k', '=', 'v'], some ['k']] ∧
    tagKeyPrefixes.map (fun p => p.length) = [1, 1] := by decide

/-- the token of a `#` tag is `key[1:] + "=" + value` (model: `k ++ '=' :: v`) -/
theorem C03_tagTokenFormat : tagTokenFormat = "%s=%s" := by decide

/-- `search.AllToken` -/
theorem C03_allToken : B6.Gen.Facts.C03.allToken = B6.Model.FeatureSearch.allToken := rfl

/-- `Tagged.Compile` indexes a key-value query only for `#` keys (model: `lower (.tagged ('#' :: k) v)`) -/
theorem C03_taggedKeyPrefixes : taggedKeyPrefixes = [['#']] := by decide

end B6.Props.Facts
