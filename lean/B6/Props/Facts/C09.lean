import B6.Gen.Facts.C09
import B6.Model.Containers
/-!
# T3 facts for C09 — layout constants of encoding/ that `B6/Model/Containers.lean` assumes
(regenerated from /repo by `tools/facts` on every `./check C09`; kernel only)
-/
namespace B6.Props.Facts
open B6.Gen.Facts.C09 B6.Model.Containers

/-- `ByteArraysLayoutLength` (Items, OffsetBytes, MaxItemLength as three uint32) -/
theorem C09_byteArraysLayoutLength : byteArraysLayoutLength = baLayoutLength := rfl

/-- `Uint64MapLayoutLength = 2`: `NewUint64Map` reads exactly two layout bytes (bucket bits, tag bits) before the
buckets — the model's `mapOpen` pattern `x :: y :: rest` -/
theorem C09_uint64MapLayoutLength :
    uint64MapLayoutLength = 2 ∧
    ∀ (x y : UInt8) (rest : List UInt8),
      (mapOpen (x :: y :: rest)).map (fun m => m.buckets.length + uint64MapLayoutLength) = some (x :: y :: rest).length := by
  refine ⟨rfl, fun x y rest => ?_⟩
  simp [mapOpen, uint64MapLayoutLength]

end B6.Props.Facts
