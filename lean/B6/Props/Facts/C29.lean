import B6.Gen.Facts.C29
import B6.Model.Osm
/-!
# T3 facts for C29 — the searchable-key table of ingest/osm.go that `B6/Model/Osm.lean` transcribes
(regenerated from /repo by `tools/facts` on every `./check C29`; kernel only)
-/
namespace B6.Props.Facts
open B6.Gen.Facts.C29

/-- `osmTagMapping`, entry by entry and in source order, is the model's table (17 `#` keys, 3 `@` keys) -/
theorem C29_osmTagMapping : osmTagMapping = B6.Model.Osm.osmTagMapping := by decide

/-- … so `KeyForOSMKey` of the model maps exactly the extracted keys, each to its extracted image -/
theorem C29_osmTagMapping_keyFor :
    osmTagMapping.all (fun kv => B6.Model.Osm.keyForOSMKey kv.1 == kv.2) = true ∧ osmTagMapping.length = 20 := by
  decide

/-- `isRelationArea`: a relation is an area iff its `type` tag is `multipolygon` -/
theorem C29_relationArea :
    relationAreaKey = "type" ∧ relationAreaValue = "multipolygon" ∧
    B6.Model.Osm.isRelationArea [⟨relationAreaKey, relationAreaValue⟩] = true := by decide

/-- `reassembleMultiPolygon` starts a new polygon at a way member whose role is `outer` or empty (model `assemble`) -/
theorem C29_outerRoles : outerRoles = ["outer", ""] := by decide

/-- the geometry tags `point` / `path` the model's `toFeatures` adds (`b6.PointTag`, `b6.PathTag`) -/
theorem C29_geometryTags : pointTag = "point" ∧ pathTag = "path" := by decide

end B6.Props.Facts
