import B6.Gen.Facts.C12
import B6.Model.Mutable
/-!
# T3 facts for C12 — the searchable-tag convention of search.go (`TokenForTag`) that `B6/Model/Mutable.lean` assumes
(shared by C13, C14, C18 through the same model; regenerated from /repo by `tools/facts` on every `./check C12`;
kernel only)
-/
namespace B6.Props.Facts
open B6.Gen.Facts.C12 B6.Model.Mutable

/-- `TokenForTag` tests exactly the prefixes `#` and `@` (in this order) — the two arms of the model's
`tokenForTag` and `indexedKey` -/
theorem C12_tagKeyPrefixes : tagKeyPrefixes = [['#'], ['@']] := by decide

/-- the token of a `#` tag is `key[1:] + "=" + value` (model: `r ++ '=' :: v`) -/
theorem C12_tagTokenFormat : tagTokenFormat = "%s=%s" := by decide

end B6.Props.Facts
