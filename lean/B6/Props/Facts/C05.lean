import B6.Gen.Facts.C05
import B6.Model.SpatialPred
/-!
# T3 facts for C05 — constants of spatial.go that `B6/Model/SpatialPred.lean` assumes
(regenerated from /repo by `tools/facts` on every `./check C05`; kernel only)
-/
namespace B6.Props.Facts
open B6.Gen.Facts.C05

/-- `indexUseFasterAboveVetexCount`: above it `IntersectsCap.IntersectsPolygon` consults the shape index first -/
theorem C05_indexUseFasterAboveVertexCount :
    indexUseFasterAboveVertexCount = B6.Model.SpatialPred.indexUseFasterAboveVertexCount := rfl

/-- the 1 mm tolerance of `pointIntersectsFeature` (point query against a path): the `within` flag of the model's
`.path` case is computed by the harness with exactly `MetersToAngle(0.001)` -/
theorem C05_pointToleranceMeters : pointToleranceMeters = (1, 1000) := rfl

/-- the 1 mm tolerance of `polylineIntersectsFeature` (polyline query against a point), model case `.point` -/
theorem C05_polylineToleranceMeters : polylineToleranceMeters = (1, 1000) := rfl

end B6.Props.Facts
