import B6.Gen.Facts.C23
import B6.Model.EvalGuards
/-!
# T3 facts for C23 — enum tables of protos.go / world.go and `MaxArgs` that `B6/Model/EvalGuards.lean` (and the VM
model it runs) assume (regenerated from /repo by `tools/facts` on every `./check C23`; kernel only)
-/
namespace B6.Props.Facts
open B6.Gen.Facts.C23

/-- `FeatureType.String` of a `b6.FeatureType` number, from the extracted tables -/
def C23_nameOf (t : Nat) : String := ((featureTypeNames.find? (·.1 == t)).map (·.2)).getD featureTypeDefaultName

/-- `NewFeatureTypeFromProto` followed by `String()`: for every enum number of the switch the model's
`featureType` answers the name of the feature type the code maps it to -/
theorem C23_featureTypeFromProto :
    featureTypeFromProto.all (fun e => B6.Model.EvalGuards.featureType (e.1 : Int) == C23_nameOf e.2) = true ∧
    featureTypeFromProto.map (·.1) = [0, 1, 2, 3, 4, 5, 6] := by decide

/-- a number outside the enum names no feature type: `FeatureTypeInvalid`, printed `invalid` -/
theorem C23_featureTypeFromProtoDefault :
    B6.Model.EvalGuards.featureType 7 = C23_nameOf featureTypeFromProtoDefault ∧
    B6.Model.EvalGuards.featureType (-1) = C23_nameOf featureTypeFromProtoDefault := by decide

/-- the names themselves -/
theorem C23_featureTypeNames :
    featureTypeNames = [(0, "point"), (1, "path"), (2, "area"), (3, "relation"), (5, "collection"), (6, "expression")] ∧
    featureTypeDefaultName = "invalid" := by decide

/-- the instruction set of api/vm.go is the one Model/VM.lean was written for (see `B6.Props.Facts.C21_opcodes_cover`
for the instruction-by-instruction cover) -/
theorem C23_opcodes : opcodes =
    [("OpPushValue", 0), ("OpStore", 1), ("OpDiscard", 2), ("OpLoad", 3), ("OpJump", 4), ("OpCallValue", 5),
     ("OpCallStack", 6), ("OpReturn", 7)] := by decide

/-- `MaxArgs` is the register-file bound of the VM model -/
theorem C23_maxArgs : maxArgs = B6.Model.maxArgs := rfl

end B6.Props.Facts
