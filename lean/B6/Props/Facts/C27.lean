import B6.Gen.Facts.C27
import B6.Model.Pbf
/-!
# T3 facts for C27 — constants of osm/pbf.go (and the generated proto default) that `B6/Model/Pbf.lean` assumes
(regenerated from /repo by `tools/facts` on every `./check C27`; kernel only)
-/
namespace B6.Props.Facts
open B6.Gen.Facts.C27

/-- `elementsPerGroup` (a group is flushed at 8000 dense nodes / ways / relations) -/
theorem C27_elementsPerGroup : elementsPerGroup = B6.Model.Pbf.elementsPerGroup := rfl

/-- the proto default of `PrimitiveBlock.granularity`, which the writer never overrides -/
theorem C27_defaultGranularity : (defaultGranularity : Int) = B6.Model.Pbf.defaultGranularity.toInt := by decide

/-- `decodeAngle` multiplies by exactly 10⁻⁹: the model's `decodeAngle` yields nano-degrees -/
theorem C27_decodeAngleUnit : decodeAngleUnit = (1, 1000000000) := rfl

/-- `encodeAngle` divides by exactly 10⁻⁹: the model's `encodeAngle?` takes nano-degrees -/
theorem C27_encodeAngleUnit : encodeAngleUnit = (1, 1000000000) := rfl

end B6.Props.Facts
