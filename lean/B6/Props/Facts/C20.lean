import B6.Gen.Facts.C20
import B6.Model.Shell
/-!
# T3 facts for C20 — the character classes of api/shell.go (lexer and tag escaping) that `B6/Model/Shell.lean` hard-codes
(regenerated from /repo by `tools/facts` on every `./check C20`; kernel only).  The model works on bytes, so
the classes are compared on all 256 byte values.
-/
namespace B6.Props.Facts
open B6.Gen.Facts.C20 B6.Model.Shell

def C20_inRanges (rs : List (Nat × Nat)) (c : Nat) : Bool := rs.any fun r => r.1 ≤ c && c ≤ r.2

/-- the clause of `lexer.Lex`'s `switch c` a byte falls into: what that clause returns -/
def C20_dispatchOf (c : Nat) : Option String := (lexDispatch.find? (·.1.contains c)).map (·.2)

set_option maxRecDepth 100000 in
/-- `isValidSymbolRune`: the three ranges `a-z A-Z 0-9` … -/
theorem C20_symbolRuneRanges : symbolRuneRanges = [(97, 122), (65, 90), (48, 57)] := by decide

set_option maxRecDepth 100000 in
/-- … and `-`, `:`, `_`: together exactly the model's `isSymbolRune` -/
theorem C20_symbolRuneExtra :
    ∀ c < 256, isSymbolRune c = (C20_inRanges symbolRuneRanges c || symbolRuneExtra.contains c) := by decide

set_option maxRecDepth 100000 in
/-- `lexer.Lex` dispatches on the first byte as the model's `lex` does: punctuation (`isPunct`) returns the byte
itself, `"` starts a string, `/` a feature ID, `#`/`@` a tag key, a digit, `-` or `.` a number (or `->`), a
letter (`isLetter`) a symbol; every other byte is a bad token -/
theorem C20_lexDispatch :
    (∀ c < 256, isPunct c = (C20_dispatchOf c == some "int(c)")) ∧
    (∀ c < 256, isLetter c = (C20_dispatchOf c == some "l.lexSymbolLiteral(yylval)")) ∧
    (∀ c < 256, (isDigitB c || c == 45 || c == 46) = (C20_dispatchOf c == some "l.lexNumericLiteral(yylval)")) ∧
    (∀ c < 256, (c == 35 || c == 64) = (C20_dispatchOf c == some "l.lexTagKeyLiteral(yylval)")) ∧
    (∀ c < 256, (c == 34) = (C20_dispatchOf c == some "l.lexStringLiteral(yylval)")) ∧
    (∀ c < 256, (c == 47) = (C20_dispatchOf c == some "l.lexFeatureIDLiteral(yylval)")) ∧
    lexDispatch.length = 7 := by decide

set_option maxRecDepth 100000 in
/-- `lexFeatureIDLiteral` accepts letters, digits and `. - / _` (model `isIDByte`; ASCII only, see notes/C20.md) -/
theorem C20_featureIDExtra :
    ∀ c < 256, isIDByte c = (isLetter c || isDigitB c || featureIDExtra.contains c) := by decide

set_option maxRecDepth 100000 in
/-- `EscapeTagKey`: a key stays bare when its first byte is a letter … -/
theorem C20_escapeKeyFirstRanges : ∀ c < 256, isLetter c = C20_inRanges escapeKeyFirstRanges c := by decide

set_option maxRecDepth 100000 in
/-- … or `#` or `@` (model `keyBare`) -/
theorem C20_escapeKeyFirstExtra :
    ∀ c < 256, keyBare [c] = (C20_inRanges escapeKeyFirstRanges c || escapeKeyFirstExtra.contains c) := by decide

set_option maxRecDepth 100000 in
/-- `EscapeTagValue`: a value stays bare only when its first byte is a letter (model `valueBare`) … -/
theorem C20_escapeValueFirstRanges :
    ∀ c < 256, valueBare [c] = (C20_inRanges escapeValueFirstRanges c || escapeValueFirstExtra.contains c) := by decide

/-- … with no further first characters allowed -/
theorem C20_escapeValueFirstExtra : escapeValueFirstExtra = [] := rfl

end B6.Props.Facts
