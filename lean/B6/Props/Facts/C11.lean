import B6.Gen.Facts.C11
import B6.Model.Records
import B6.Model.RecordsTokenMap
/-!
# T3 facts for C11 — constants of ingest/compact/encoding.go, encoding/strings.go and world.go that
`B6/Model/Records.lean` / `B6/Model/RecordsTokenMap.lean` / `B6/Model/Bits.lean` assume
(regenerated from /repo by `tools/facts` on every `./check C11`; kernel only)
-/
namespace B6.Props.Facts
open B6.Gen.Facts.C11 B6.Model.Records

/-- `ValueTypeBits`: the model's `* 4`, `/ 4` are `<< ValueTypeBits`, `>> ValueTypeBits` -/
theorem C11_valueTypeBits (t v : Nat) :
    encodeValueType t v = v * 2 ^ valueTypeBits % 2 ^ 64 + t ∧
    valueTypeOk v = (v * 2 ^ valueTypeBits % 2 ^ 64 / 2 ^ valueTypeBits == v) := ⟨rfl, rfl⟩

/-- `b6.FeatureTypeBits`: `Member.word` packs the role above `FeatureTypeBits` type bits -/
theorem C11_featureTypeBits (m : Member) :
    m.word = (m.role.toNat * 2 ^ featureTypeBits % 2 ^ 64 ||| m.type.toNat) ∧
    m.ok = (m.role.toNat * 2 ^ featureTypeBits % 2 ^ 64 / 2 ^ featureTypeBits == m.role.toNat) := ⟨rfl, rfl⟩

/-- the value-type codes: `Value.enc (.int _)` writes type 0, `LatLng.enc` type 1, the geometry words type 2;
`Value.dec` dispatches on `v % 4 = 0 / 1 / 2` and panics (`none`) on 3 -/
theorem C11_expressionTypes :
    expressionTypes = [("ExpressionTypeString", 0), ("ExpressionTypePoint", 1), ("ExpressionTypeExpressions", 2),
      ("ExpressionTypeFeatureID", 3), ("ExpressionTypeInvalid", 4)] := by decide

/-- the geometry-encoding codes of `encodeGeometry` / `geometryEncoding` (0 references, 1 lat/lngs, 2 mixed) -/
theorem C11_geometryEncodings :
    geometryEncodings = [("GeometryEncodingReferences", 0), ("GeometryEncodingLatLngs", 1),
      ("GeometryEncodingMixed", 2), ("GeometryEncodingInvalid", 3)] ∧
    (geometryEncoding (encodeGeometry 0 5), geometryEncoding (encodeGeometry 1 5), geometryEncoding (encodeGeometry 2 5)) = (0, 1, 2) := by
  decide

/-- `CombineTypeAndNamespace` shifts the type by 13 bits (`memberPrimary`, every `tn*` of Records.lean) -/
theorem C11_namespaceShift (t : BitVec 64) (ns : BitVec 16) :
    B6.Model.Bits.combineTypeNs t ns = ((t <<< namespaceShift).setWidth 16 ||| ns) ∧
    (B6.Model.Bits.splitTypeNs ns).1 = (ns >>> namespaceShift).setWidth 64 := ⟨rfl, rfl⟩

/-- FNV-1a offset basis of `encoding.HashString` -/
theorem C11_fnv64Offset : fnv64Offset = B6.Model.RecordsTokenMap.fnvOffset := by decide

/-- FNV-1a prime of `encoding.HashString` -/
theorem C11_fnv64Prime : fnv64Prime = B6.Model.RecordsTokenMap.fnvPrime := by decide

open B6.Model.RecordsTokenMap in
/-- `TokenMapMaxLoadFactor = 0.6 = 3/5`: the model's resize test `(n+1)*5 > 3*len` -/
theorem C11_tokenMapMaxLoadFactor (e : Encoder) (tok : B6.Model.Varint.Bytes) (ix : BitVec 64) :
    tokenMapMaxLoadFactor = (3, 5) ∧
    add e tok ix = addRaw (if (e.n + 1) * tokenMapMaxLoadFactor.2 > tokenMapMaxLoadFactor.1 * e.buckets.length
                           then grow e else e) tok ix := ⟨rfl, rfl⟩

open B6.Model.RecordsTokenMap in
/-- the table doubles on resize -/
theorem C11_tokenMapGrowth (e : Encoder) :
    grow e = e.buckets.flatten.foldl (fun acc x => addRaw acc x.1 x.2)
      ⟨List.replicate (tokenMapGrowth * e.buckets.length) [], 0⟩ := rfl

end B6.Props.Facts
