import B6.Gen.Facts.C33
import B6.Model.TileEncoder
/-!
# T3 facts for C33 — constants of renderer/encoder.go that `B6/Model/TileEncoder.lean` assumes
(regenerated from /repo by `tools/facts` on every `./check C33`; kernel only)
-/
namespace B6.Props.Facts
open B6.Gen.Facts.C33 B6.Model.TileEncoder

/-- `TileExtent = 12` bits: the model's tile origin is `x * 4096 = x <<< TileExtent` -/
theorem C33_tileExtent (x y : Nat) : tileOrigin x y = (((x * 2 ^ tileExtent : Nat) : Int), ((y * 2 ^ tileExtent : Nat) : Int)) := rfl

theorem C33_cmdMoveTo : B6.Gen.Facts.C33.cmdMoveTo = B6.Model.TileEncoder.cmdMoveTo := rfl
theorem C33_cmdLineTo : B6.Gen.Facts.C33.cmdLineTo = B6.Model.TileEncoder.cmdLineTo := rfl
theorem C33_cmdClosePath : B6.Gen.Facts.C33.cmdClosePath = B6.Model.TileEncoder.cmdClosePath := rfl

/-- loops are simplified only above 1000 projected points: `Simplify` is outside the model, the harness keeps
every ring at or below this bound (harness/cmd/c33) -/
theorem C33_simplifyThreshold : simplifyThreshold = 1000 := rfl

end B6.Props.Facts
