import B6.Gen.Facts.C36
import B6.Model.Validator
/-!
# T3 facts for C36 — the `ValidationState` enum of ingest/compact/build.go that `B6/Model/Validator.lean` mirrors
(regenerated from /repo by `tools/facts` on every `./check C36`; kernel only)
-/
namespace B6.Props.Facts
open B6.Gen.Facts.C36 B6.Model.Validator

/-- the model's constructor for a Go constant name -/
def C36_stOf : String → Option St
  | "ValidationStateValid" => some .valid
  | "ValidationStateInvalid" => some .invalid
  | "ValidationStateUnknown" => some .unknown
  | "ValidationStateValidNotLoop" => some .validNotLoop
  | _ => none

/-- the four states, in iota order, are the four constructors of `St` in declaration order (a new state, a
removed one or a reordering breaks this) -/
theorem C36_validationStates :
    validationStates.map (fun e => (C36_stOf e.1, e.2)) =
      [(some St.valid, St.valid.ctorIdx), (some St.invalid, St.invalid.ctorIdx),
       (some St.unknown, St.unknown.ctorIdx), (some St.validNotLoop, St.validNotLoop.ctorIdx)] := by decide

end B6.Props.Facts
