import B6.Gen.Facts.C31
import B6.Model.FeatureID
/-!
# T3 facts for C31 — the tables of world.go and api/shell.go that `B6/Model/FeatureID.lean` transcribes
(regenerated from /repo by `tools/facts` on every `./check C31`; kernel only)
-/
namespace B6.Props.Facts
open B6.Gen.Facts.C31 B6.Model.FeatureID

/-- the `FeatureType` constants and their numbers (`FType.toNat`) -/
theorem C31_featureTypes :
    featureTypes = [("FeatureTypePoint", FType.point.toNat), ("FeatureTypePath", FType.path.toNat),
      ("FeatureTypeArea", FType.area.toNat), ("FeatureTypeRelation", FType.relation.toNat),
      ("FeatureTypeInvalid", FType.invalid.toNat), ("FeatureTypeCollection", FType.collection.toNat),
      ("FeatureTypeExpression", FType.expression.toNat)] := by decide

/-- `FeatureType.String`, case by case (`FType.name`) -/
theorem C31_featureTypeNames :
    featureTypeNames =
      ([.point, .path, .area, .relation, .collection, .expression] : List FType).map (fun t => (t.toNat, t.name)) := by
  decide

/-- … and `"invalid"` for everything else -/
theorem C31_featureTypeDefaultName : featureTypeDefaultName = FType.name .invalid := by decide

/-- the Go function names of a model codec -/
def C31_codecFuns : Codec → String × String
  | .uint => ("idFromUint64", "idToUint64")
  | .ons => ("idFromUKONS", "idToUKONS")
  | .codepoint => ("idFromGBCodePoint", "idToGBCodePoint")

/-- the shell's alias table: prefix, namespace, feature type and parse/print functions of every entry, in order -/
theorem C31_aliases :
    B6.Gen.Facts.C31.aliases =
      B6.Model.FeatureID.aliases.map (fun a => (a.pre, a.ns, a.type.toNat, (C31_codecFuns a.codec).1, (C31_codecFuns a.codec).2)) := by
  decide

/-- `NewFeatureTypeFromProto`, case by case (`ftypeFromProto`; shared with C19's wire model) -/
theorem C31_featureTypeFromProto :
    featureTypeFromProto.all (fun e => (ftypeFromProto e.1).map FType.toNat == some e.2) = true ∧
    featureTypeFromProto.map (·.1) = [0, 1, 2, 3, 4, 5, 6] := by decide

/-- … and any number outside the enum is `FeatureTypeInvalid` (the wildcard arm of `ftypeFromProto`) -/
theorem C31_featureTypeFromProtoDefault :
    (ftypeFromProto 7).map FType.toNat = some featureTypeFromProtoDefault ∧
    ∀ n, (ftypeFromProto (n + 7)).map FType.toNat = some featureTypeFromProtoDefault := ⟨rfl, fun _ => rfl⟩

/-- `NewProtoFromFeatureType`, case by case (`FType.toProto`) -/
theorem C31_featureTypeToProto :
    featureTypeToProto =
      ([.point, .path, .area, .relation, .collection, .expression, .invalid] : List FType).map (fun t => (t.toNat, t.toProto)) := by
  decide

theorem C31_nsOSMNode : B6.Gen.Facts.C31.nsOSMNode = B6.Model.FeatureID.nsOSMNode := by decide
theorem C31_nsOSMWay : B6.Gen.Facts.C31.nsOSMWay = B6.Model.FeatureID.nsOSMWay := by decide
theorem C31_nsOSMRelation : B6.Gen.Facts.C31.nsOSMRelation = B6.Model.FeatureID.nsOSMRelation := by decide
theorem C31_nsUKONSBoundaries : nsUKONSBoundaries = nsUKONS := by decide
theorem C31_nsGBCodePoint : B6.Gen.Facts.C31.nsGBCodePoint = B6.Model.FeatureID.nsGBCodePoint := by decide
theorem C31_nsGBUPRN : B6.Gen.Facts.C31.nsGBUPRN = B6.Model.FeatureID.nsGBUPRN := by decide

end B6.Props.Facts
