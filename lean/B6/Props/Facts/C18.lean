import B6.Gen.Facts.C18
import B6.Model.ChangeExport
/-!
# T3 facts for C18 — `FeatureType.String` (world.go) as `B6/Model/ChangeExport.lean` transcribes it
(regenerated from /repo by `tools/facts` on every `./check C18`; kernel only)
-/
namespace B6.Props.Facts
open B6.Gen.Facts.C18 B6.Model.ChangeExport

/-- the (name, number) table of the YAML id syntax is `FeatureType.String`, case by case -/
theorem C18_featureTypeNames : featureTypeNames.map (fun e => (e.2, e.1)) = typeNames := by decide

/-- every other number prints as `invalid` (model: `typeName`) -/
theorem C18_featureTypeDefaultName : featureTypeDefaultName = typeName 4 := by decide

end B6.Props.Facts
