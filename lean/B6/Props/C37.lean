/-! C37 — property theorems (stub: nothing proved yet). -/
